(* Base.v — small shared utilities: decimal printing, association lists (Python dicts are
   insertion-ordered association lists in every model of this development). *)
From Coq Require Export String.
From Coq Require Export List Arith Bool ZArith Lia.   (* after String: `length`, `concat` ... are the list ones *)
From Coq Require Import DecimalString.
Export ListNotations.

Open Scope string_scope.

Definition show_nat (n : nat) : string := NilEmpty.string_of_uint (Nat.to_uint n).
Definition show_Z (z : Z) : string := NilZero.string_of_int (Z.to_int z).
Definition show_bool (b : bool) : string := if b then "T" else "F".
Definition show_list {A} (f : A -> string) (l : list A) : string :=
  "[" ++ String.concat "," (map f l) ++ "]".

Close Scope string_scope.

Lemma forallb_ext' {A} (f g : A -> bool) l : (forall a, f a = g a) -> forallb f l = forallb g l.
Proof. intros H. induction l as [|a l IH]; simpl; [reflexivity|]. now rewrite H, IH. Qed.

(* ---- association lists keyed by nat (insertion ordered, update in place, like a dict) ---- *)
Section Assoc.
  Context {V : Type}.
  Definition alist := list (nat * V).

  Fixpoint aget (a : alist) (k : nat) : option V :=
    match a with [] => None | (k', v) :: a' => if Nat.eqb k k' then Some v else aget a' k end.

  Fixpoint aset (a : alist) (k : nat) (v : V) : alist :=
    match a with
    | [] => [(k, v)]
    | (k', v') :: a' => if Nat.eqb k k' then (k', v) :: a' else (k', v') :: aset a' k v
    end.

  Definition amem (a : alist) (k : nat) : bool :=
    match aget a k with Some _ => true | None => false end.

  (* dict.update: entries of [b] written into [a] in b's order *)
  Definition aupdate (a b : alist) : alist := fold_left (fun acc kv => aset acc (fst kv) (snd kv)) b a.

  Lemma aget_aset_same a k v : aget (aset a k v) k = Some v.
  Proof.
    induction a as [|[k' v'] a IH]; simpl.
    - now rewrite Nat.eqb_refl.
    - destruct (Nat.eqb k k') eqn:E; simpl; rewrite E; auto.
  Qed.

  Lemma aget_aset_other a k k' v : k <> k' -> aget (aset a k v) k' = aget a k'.
  Proof.
    intros Hne. induction a as [|[k0 v0] a IH]; simpl.
    - destruct (Nat.eqb k' k) eqn:E; auto. apply Nat.eqb_eq in E. congruence.
    - destruct (Nat.eqb k k0) eqn:E; simpl.
      + apply Nat.eqb_eq in E; subst k0.
        destruct (Nat.eqb k' k) eqn:E'; auto. apply Nat.eqb_eq in E'. congruence.
      + destruct (Nat.eqb k' k0); auto.
  Qed.
End Assoc.
Arguments alist : clear implicits.
