(* CachedEval.v — the cached call site over the concrete index (IndexedMemo_Den) INSTANTIATED with the P-model's evaluator.

   IndexedMemo_Den proves transparency of the cached call site for an abstract operator given by (rel, f) under five hypotheses
   (rows extend the lookup; a row carries the flag of every full row it stands for; together the rows stand for every full row
   that agrees with the lookup; a full row extends row and lookup; no full row is stood for twice).  Here the operator is
   [eval h dom c] - the evaluator of ANY basic condition c (comparisons, memberships, expressions in condition position, and / or /
   not, nested queries) over the variables U, which are the cache keys - and the five hypotheses are PROVED from the evaluator's
   partition theorem (EvalPure_Facts.eval_cover: every assignment that agrees with the incoming binding is covered by exactly one
   row, flagged by the truth of c).  Values are encoded as their positions in the (duplicate-free) domains: the index compares
   HashedValue ids, the evaluator compares values. *)
From EQL Require Import Base Values Syntax Spec Generated EvalPure EvalPure_Facts Query_Facts.
From EQL Require Import IndexedCache IndexedCache_Facts IndexedMemo_Facts IndexedMemo_Den.

Section CachedEval.
  Variable h : heap.
  Variable dom : Syntax.key -> list val.
  Variable U : list Syntax.key.
  Variable c : cond.
  Variable ywf : bool.                      (* the mode the cached node is evaluated in: are false rows asked for? *)
  Hypothesis U_ne : U <> [].
  Hypothesis dom_nodup : forall x, In x U -> NoDup (dom x).
  Hypothesis dom_ne : forall x, In x U -> dom x <> [].
  Hypothesis c_basic : basic U c = true.

  (* ---------- values as positions ---------- *)
  Fixpoint index_of (v : val) (l : list val) : nat :=
    match l with [] => 0 | w :: l' => if val_eqb v w then 0 else S (index_of v l') end.
  Definition code (x : nat) (v : val) : nat := index_of v (dom x).
  Definition decode (x : nat) (n : nat) : val := nth n (dom x) (VA ANone).

  Lemma nth_index_of v l d : In v l -> nth (index_of v l) l d = v.
  Proof.
    induction l as [|w l IH]; intros H; [destruct H|]. cbn [index_of]. destruct (val_eqb v w) eqn:E.
    - apply val_eqb_eq in E. now subst.
    - cbn [nth]. apply IH. destruct H as [->|H]; [|exact H]. now rewrite val_eqb_refl in E.
  Qed.
  Lemma index_of_lt v l : In v l -> index_of v l < length l.
  Proof.
    induction l as [|w l IH]; intros H; [destruct H|]. cbn [index_of length]. destruct (val_eqb v w) eqn:E; [lia|].
    assert (Hl : In v l) by (destruct H as [->|H]; [now rewrite val_eqb_refl in E | exact H]). specialize (IH Hl). lia.
  Qed.
  Lemma code_inj x v w : In v (dom x) -> In w (dom x) -> code x v = code x w -> v = w.
  Proof. unfold code. intros Hv Hw E. rewrite <- (nth_index_of v (dom x) (VA ANone) Hv), E. now apply nth_index_of. Qed.
  Lemma decode_code x v : In v (dom x) -> decode x (code x v) = v.
  Proof. apply nth_index_of. Qed.

  Definition encB (b : binding) : assignment := map (fun kv => (fst kv, code (fst kv) (snd kv))) b.
  Definition decB (a : assignment) : binding := map (fun kv => (fst kv, decode (fst kv) (snd kv))) a.

  Lemma aget_encB b k : aget (encB b) k = option_map (code k) (lookup b k).
  Proof.
    induction b as [|[k' v] b IH]; cbn [encB map aget lookup fst snd option_map]; [reflexivity|].
    destruct (Nat.eqb k k') eqn:E; [|exact IH]. apply Nat.eqb_eq in E. now subst.
  Qed.

  (* a binding that is a dict over the domains *)
  Definition wf (b : binding) : Prop := NoDup (map fst b) /\ forall k v, In (k, v) b -> In v (dom k).

  Lemma lookup_In (b : binding) k v : lookup b k = Some v -> In (k, v) b.
  Proof.
    induction b as [|[k' v'] b IH]; cbn [lookup]; [discriminate|]. destruct (Nat.eqb k k') eqn:E.
    - intros H. injection H as ->. apply Nat.eqb_eq in E. subst. now left.
    - intros H. right. now apply IH.
  Qed.
  Lemma wf_in_dom b : wf b -> in_dom dom b.
  Proof. intros [_ H] x v L. apply H. now apply lookup_In. Qed.
  Lemma decB_encB b : wf b -> decB (encB b) = b.
  Proof.
    intros [_ H]. unfold decB, encB. rewrite map_map. rewrite <- (map_id b) at 2. apply map_ext_in. intros [k v] I. cbn [fst snd].
    now rewrite decode_code by (now apply H).
  Qed.
  Lemma keys_encB b : map fst (encB b) = map fst b.
  Proof. unfold encB. rewrite map_map. reflexivity. Qed.

  Definition restrU (b : binding) : binding := filter (fun kv => existsb (Nat.eqb (fst kv)) U) b.
  Lemma lookup_restrU b k : lookup (restrU b) k = if existsb (Nat.eqb k) U then lookup b k else None.
  Proof.
    induction b as [|[k' v] b IH]; cbn [restrU filter lookup fst]; [now destruct (existsb (Nat.eqb k) U)|].
    destruct (existsb (Nat.eqb k') U) eqn:Ek'; cbn [lookup].
    - destruct (Nat.eqb k k') eqn:E; [|exact IH]. apply Nat.eqb_eq in E. subst. now rewrite Ek'.
    - fold (restrU b). rewrite IH. destruct (Nat.eqb k k') eqn:E; [|reflexivity]. apply Nat.eqb_eq in E. subst. now rewrite Ek'.
  Qed.
  Lemma inU k : In k U -> existsb (Nat.eqb k) U = true.
  Proof. intros H. apply existsb_exists. exists k. split; [exact H | apply Nat.eqb_refl]. Qed.

  (* ---------- the operator ---------- *)
  Definition flagn (fl : bool) : nat := if fl then 1 else 0.
  Definition f (L : assignment) : list entry :=
    map (fun r => (encB (restrU (fst r)), flagn (snd r))) (eval h dom c (decB L) ywf).
  Definition asked (L : assignment) : Prop := exists b, wf b /\ L = encB b /\ binds_some U L = true.

  (* every total assignment over the domains, as a binding over U *)
  Fixpoint prod (xs : list nat) : list binding :=
    match xs with [] => [[]] | x :: xs' => flat_map (fun v => map (fun b => (x, v) :: b) (prod xs')) (dom x) end.
  Lemma in_prod xs : forall b, In b (prod xs) <-> (map fst b = xs /\ forall k v, In (k, v) b -> In v (dom k)).
  Proof.
    induction xs as [|x xs IH]; intros b; cbn [prod].
    - split.
      + intros [<-|[]]. split; [reflexivity | intros k v []].
      + intros [E _]. destruct b; [now left | discriminate].
    - rewrite in_flat_map. split.
      + intros (v & Hv & Hb). apply in_map_iff in Hb as (b' & <- & Hb'). apply IH in Hb' as [E D]. split; [cbn; now rewrite E|].
        intros k w [I|I]; [injection I as <- <-; exact Hv | now apply D].
      + intros [E D]. destruct b as [|[k v] b]; [discriminate|]. cbn in E. injection E as -> E. exists v. split; [apply D; now left|].
        apply in_map_iff. exists b. split; [reflexivity|]. apply IH. split; [exact E|]. intros k w I. apply D. now right.
  Qed.
  Definition env_of (b : binding) : env := fun x => match lookup b x with Some v => v | None => VA ANone end.
  (* ... those the node yields a row for: all of them when false rows are asked for, the satisfying ones otherwise *)
  Definition rel : list entry :=
    map (fun b => (encB b, flagn (negb (isat h dom c (env_of b))))) (filter (fun b => ywf || isat h dom c (env_of b)) (prod U)).

  Lemma lookup_keys (b : binding) k : In k (map fst b) -> exists v, lookup b k = Some v.
  Proof.
    induction b as [|[k' v'] b IH]; intros H; [destruct H|]. cbn [lookup]. destruct (Nat.eqb k k') eqn:E; [now exists v'|].
    apply IH. destruct H as [H|H]; [|exact H]. cbn in H. subst. now rewrite Nat.eqb_refl in E.
  Qed.

  Lemma prod_valid b : In b (prod U) -> valid dom U (env_of b).
  Proof.
    intros Hb x Hx. apply in_prod in Hb as [E D]. unfold env_of. destruct (lookup_keys b x) as (v & Lv); [now rewrite E|].
    rewrite Lv. apply D. now apply lookup_In.
  Qed.
  Lemma prod_lookup b x : In b (prod U) -> In x U -> lookup b x = Some (env_of b x).
  Proof. intros Hb Hx. apply in_prod in Hb as [E _]. unfold env_of. destruct (lookup_keys b x) as (v & Lv); [now rewrite E|]. now rewrite Lv. Qed.

  (* ---------- from the encoded relations back to the evaluator's ---------- *)
  (* a row that (encoded) is contained in an encoded total assignment agrees with it *)
  Lemma sub_agrees b' bf : in_dom dom b' -> In bf (prod U) -> sub_on U (encB (restrU b')) (encB bf) = true -> agreesb U b' (env_of bf) = true.
  Proof.
    intros D Hb S. unfold agreesb. apply forallb_forall. intros x Hx. destruct (lookup b' x) as [v|] eqn:Lv; [|reflexivity].
    unfold sub_on in S. rewrite forallb_forall in S. specialize (S x Hx). rewrite !aget_encB, lookup_restrU, (inU x Hx), Lv in S.
    rewrite (prod_lookup bf x Hb Hx) in S. cbn [option_map] in S. apply Nat.eqb_eq in S.
    apply val_eqb_eq. symmetry. apply (code_inj x); [now apply (D x) | now apply prod_valid | exact S].
  Qed.
  Lemma agrees_sub b' bf : In bf (prod U) -> agreesb U b' (env_of bf) = true -> sub_on U (encB (restrU b')) (encB bf) = true.
  Proof.
    intros Hb A. unfold sub_on. apply forallb_forall. intros x Hx. rewrite !aget_encB, lookup_restrU, (inU x Hx).
    rewrite (prod_lookup bf x Hb Hx). destruct (lookup b' x) as [v|] eqn:Lv; cbn [option_map]; [|reflexivity].
    rewrite (agrees_lookup U b' (env_of bf) x v A Hx Lv). apply Nat.eqb_refl.
  Qed.
  Lemma compat_agrees b0 bf : wf b0 -> In bf (prod U) -> compatible U (encB bf) (encB b0) = true -> agreesb U b0 (env_of bf) = true.
  Proof.
    intros W Hb C. unfold agreesb. apply forallb_forall. intros x Hx. destruct (lookup b0 x) as [v|] eqn:Lv; [|reflexivity].
    unfold compatible in C. rewrite forallb_forall in C. specialize (C x Hx). rewrite !aget_encB, Lv, (prod_lookup bf x Hb Hx) in C.
    cbn [option_map] in C. apply Nat.eqb_eq in C. apply val_eqb_eq.
    apply (code_inj x); [now apply prod_valid | now apply (wf_in_dom b0 W x) | exact C].
  Qed.

  Lemma cover_ge fl rows b' e : In (b', fl) rows -> agreesb U b' e = true -> 1 <= cover U fl rows e.
  Proof.
    intros I A. unfold cover. assert (X : In (b', fl) (filter (fun r => Bool.eqb (snd r) fl && agreesb U (fst r) e) rows)).
    { apply filter_In. split; [exact I|]. cbn [fst snd]. now rewrite Bool.eqb_reflx, A. }
    destruct (filter _ rows); [destruct X | cbn; lia].
  Qed.
  Lemma cover_ex fl rows e : 1 <= cover U fl rows e -> exists b', In (b', fl) rows /\ agreesb U b' e = true.
  Proof.
    unfold cover. intros H. destruct (filter _ rows) as [|[b' f'] l] eqn:E; [cbn in H; lia|].
    assert (I : In (b', f') (filter (fun r => Bool.eqb (snd r) fl && agreesb U (fst r) e) rows)) by (rewrite E; now left).
    apply filter_In in I as [I P]. cbn [fst snd] in P. apply andb_prop in P as [P1 P2]. apply Bool.eqb_prop in P1. subst. now exists b'.
  Qed.
  Lemma two_in_filter {A} (p : A -> bool) : forall l i j x y, nth_error l i = Some x -> nth_error l j = Some y -> i <> j ->
    p x = true -> p y = true -> 2 <= length (filter p l).
  Proof.
    induction l as [|a l IH]; intros i j x y Hi Hj Ne Px Py; [destruct i; discriminate|].
    cbn [filter]. destruct i as [|i], j as [|j]; [congruence| | |].
    - cbn in Hi. injection Hi as ->. rewrite Px. cbn [length]. cbn in Hj. apply nth_error_In in Hj.
      assert (Hy : In y (filter p l)) by (apply filter_In; now split). destruct (filter p l); [destruct Hy | cbn; lia].
    - cbn in Hj. injection Hj as ->. rewrite Py. cbn [length]. cbn in Hi. apply nth_error_In in Hi.
      assert (Hx : In x (filter p l)) by (apply filter_In; now split). destruct (filter p l); [destruct Hx | cbn; lia].
    - cbn in Hi, Hj. assert (N : i <> j) by congruence. pose proof (IH i j x y Hi Hj N Px Py). destruct (p a); cbn [length]; lia.
  Qed.

  (* the flag of a row that agrees with a total assignment is decided by the truth of the condition *)
  Lemma row_flag b0 b' fl e : agreesb U b0 e = true -> valid dom U e -> In (b', fl) (eval h dom c b0 ywf) -> agreesb U b' e = true ->
    fl = negb (isat h dom c e) /\ (ywf || isat h dom c e) = true.
  Proof.
    intros A V I Ab. destruct (eval_cover h dom U dom_nodup c c_basic b0 ywf e A V) as [Cf Ct].
    pose proof (cover_ge fl _ b' e I Ab) as G. destruct fl.
    - rewrite Ct in G. destruct ywf; cbn [andb] in G; [|cbn in G; lia]. destruct (isat h dom c e); [cbn in G; lia | now split].
    - rewrite Cf in G. destruct (isat h dom c e); [split; [reflexivity | apply Bool.orb_true_r] | cbn in G; lia].
  Qed.

  (* ---------- the five hypotheses of IndexedMemo_Den, and [once] ---------- *)
  Lemma in_rel a o : In (a, o) rel <->
    exists bf, In bf (prod U) /\ (ywf || isat h dom c (env_of bf)) = true /\ a = encB bf /\ o = flagn (negb (isat h dom c (env_of bf))).
  Proof.
    unfold rel. rewrite in_map_iff. split.
    - intros (bf & E & H). apply filter_In in H as [H1 H2]. injection E as <- <-. now exists bf.
    - intros (bf & H1 & H2 & -> & ->). exists bf. split; [reflexivity|]. apply filter_In. now split.
  Qed.

  Lemma rel_full b o : In (b, o) rel -> full U b = true.
  Proof.
    intros H. apply in_rel in H as (bf & Hb & _ & -> & _). unfold full. apply forallb_forall. intros x Hx.
    unfold bound_at. now rewrite aget_encB, (prod_lookup bf x Hb Hx).
  Qed.

  (* rows of the evaluator extend the incoming binding, entry by entry *)
  Definition extends (b b' : binding) : Prop := forall x v, lookup b x = Some v -> lookup b' x = Some v.
  Lemma extends_refl b : extends b b. Proof. intros x v H. exact H. Qed.
  Lemma extends_trans a b d : extends a b -> extends b d -> extends a d. Proof. intros H1 H2 x v H. apply H2, H1, H. Qed.
  Lemma extends_bind b x v : lookup b x = None -> extends b (bind b x v).
  Proof. intros N y w H. unfold bind. cbn [lookup]. destruct (Nat.eqb y x) eqn:E; [|exact H]. apply Nat.eqb_eq in E. subst. congruence. Qed.

  Lemma term_extends t : flat_free t = true -> forall b b' v, In (b', v) (eval_term h dom t b) -> extends b b'.
  Proof.
    induction t as [v0|x|m t IH|i t IH|i t IH]; intros F b b' v H; cbn [flat_free] in F; try discriminate; cbn [eval_term] in H.
    - destruct H as [H|[]]. injection H as <- _. apply extends_refl.
    - destruct (lookup b x) eqn:L.
      + destruct H as [H|[]]. injection H as <- _. apply extends_refl.
      + apply in_map_iff in H as (w & E & _). injection E as <- _. now apply extends_bind.
    - apply in_map_iff in H as ([b1 v1] & E & H). injection E as <- _. cbn [fst]. eapply IH; eassumption.
  Qed.

  Lemma cmp_extends t1 t2 resf b yw b' fl : tclosed U t1 = true -> tclosed U t2 = true ->
    In (b', fl) (cmp_rows h dom t1 t2 resf b yw) -> extends b b'.
  Proof.
    unfold tclosed, cmp_rows. intros C1 C2 H. apply andb_prop in C1 as [F1 _]. apply andb_prop in C2 as [F2 _].
    apply in_flat_map in H as ([b1 v1] & H1 & H). apply in_flat_map in H as ([b2 v2] & H2 & H). cbn [fst snd] in *.
    destruct (resf v1 v2 || yw); [|destruct H]. destruct H as [H|[]]. injection H as <- _.
    exact (extends_trans _ _ _ (term_extends t1 F1 b b1 v1 H1) (term_extends t2 F2 b1 b2 v2 H2)).
  Qed.

  Lemma bind_sel_extends sel : forallb (tclosed U) sel = true -> forall b b', In b' (bind_sel h dom sel b) -> extends b b'.
  Proof.
    induction sel as [|t sel IH]; intros C b b' H; cbn [bind_sel] in H.
    - destruct H as [<-|[]]. apply extends_refl.
    - cbn [forallb] in C. apply andb_prop in C as [Ct Cs]. apply in_flat_map in H as ([b1 v1] & H1 & H). cbn [fst] in H.
      unfold tclosed in Ct. apply andb_prop in Ct as [Ft _].
      eapply extends_trans; [eapply term_extends; eassumption | now apply IH].
  Qed.

  Lemma eval_extends c0 : basic U c0 = true -> forall b yw b' fl, In (b', fl) (eval h dom c0 b yw) -> extends b b'.
  Proof.
    induction c0 as [o l r|t inv|x IHx y IHy|x IHx y IHy|u c0 IH|sel c0 IH]; intros B b yw b' fl H; cbn [basic] in B; try discriminate.
    - cbn [eval] in H. apply andb_prop in B as [Cl Cr].
      destruct (bound_in r b); [eapply (cmp_extends r l) | eapply (cmp_extends l r)]; eassumption.
    - cbn [eval] in H. apply in_flat_map in H as ([b1 v1] & H1 & H). cbn [fst snd] in H.
      destruct (yw || negb (negb (xorb inv (truthy v1)))); [|destruct H]. destruct H as [H|[]]. injection H as <- _.
      unfold tclosed in B. apply andb_prop in B as [Ft _]. eapply term_extends; eassumption.
    - cbn [eval] in H. apply andb_prop in B as [Bx By]. apply in_flat_map in H as ([b1 f1] & H1 & H). cbn [fst snd] in H.
      destruct f1.
      + destruct yw; [|destruct H]. destruct H as [H|[]]. injection H as <- _. eapply IHx; eassumption.
      + eapply extends_trans; [eapply IHx; eassumption | eapply IHy; eassumption].
    - cbn [eval] in H. apply andb_prop in B as [Bx By]. destruct (eval h dom x b true) as [|p ls] eqn:E.
      + eapply IHy; eassumption.
      + apply in_flat_map in H as ([b1 f1] & H1 & H). cbn [fst snd] in H. rewrite <- E in H1. destruct f1.
        * eapply extends_trans; [eapply IHx; eassumption | eapply IHy; eassumption].
        * destruct H as [H|[]]. injection H as <- _. eapply IHx; eassumption.
    - apply andb_prop in B as [Cs Bc]. rewrite eval_sub_eq in H. apply in_flat_map in H as ([b1 f1] & H1 & H). cbn [fst snd] in H.
      apply in_map_iff in H as (b2 & E & H). injection E as <- _.
      eapply extends_trans; [eapply IH; eassumption | eapply bind_sel_extends; eassumption].
  Qed.

  Lemma asked_dec L : asked L -> exists b0, wf b0 /\ L = encB b0 /\ decB L = b0 /\ binds_some U L = true.
  Proof. intros (b0 & W & -> & BS). exists b0. split; [exact W|]. split; [reflexivity|]. split; [now apply decB_encB | exact BS]. Qed.

  Lemma f_rows L r o : asked L -> In (r, o) (f L) -> IndexedCache.over U r = true /\ nonempty r = true /\ sub_on U L r = true.
  Proof.
    intros AL H. destruct (asked_dec L AL) as (b0 & W & -> & D & BS). unfold f in H. rewrite D in H.
    apply in_map_iff in H as ([b' fl] & E & H). cbn [fst snd] in E. injection E as <- <-.
    pose proof (eval_extends c c_basic b0 ywf b' fl H) as X.
    assert (S : sub_on U (encB b0) (encB (restrU b')) = true).
    { unfold sub_on. apply forallb_forall. intros x Hx. rewrite !aget_encB, lookup_restrU, (inU x Hx).
      destruct (lookup b0 x) as [v|] eqn:Lv; cbn [option_map]; [|reflexivity]. rewrite (X x v Lv). cbn [option_map]. apply Nat.eqb_refl. }
    split; [|split; [|exact S]].
    - unfold IndexedCache.over, encB, restrU. apply forallb_forall. intros [k n] I. apply in_map_iff in I as ([k' v] & E & I). injection E as <- _.
      apply filter_In in I as [_ I]. exact I.
    - unfold binds_some in BS. destruct (restrict U (encB b0)) as [|[k n] l] eqn:R; [discriminate|].
      assert (I : In (k, n) (restrict U (encB b0))) by (rewrite R; now left). unfold restrict in I. apply filter_In in I as [I Hk]. cbn [fst] in Hk.
      apply existsb_exists in Hk as (k' & Hk' & E). apply Nat.eqb_eq in E. subst k'.
      unfold sub_on in S. rewrite forallb_forall in S. specialize (S k Hk').
      assert (A : exists n', aget (encB b0) k = Some n').
      { clear -I. induction (encB b0) as [|[k1 n1] a IH]; [destruct I|]. cbn [aget]. destruct (Nat.eqb k k1) eqn:E1; [now exists n1|].
        apply IH. destruct I as [E|I]; [|exact I]. injection E as -> _. now rewrite Nat.eqb_refl in E1. }
      destruct A as (n' & A). rewrite A in S. destruct (encB (restrU b')); [discriminate S | reflexivity].
  Qed.

  Lemma f_flag L r o b o' : asked L -> In (r, o) (f L) -> In (b, o') rel -> sub_on U r b = true -> o' = o.
  Proof.
    intros AL H Hb S. destruct (asked_dec L AL) as (b0 & W & -> & D & _). unfold f in H. rewrite D in H.
    apply in_map_iff in H as ([b' fl] & E & H). cbn [fst snd] in E. injection E as <- <-.
    apply in_rel in Hb as (bf & Hbf & _ & -> & ->).
    pose proof (eval_in_dom h dom U c c_basic b0 ywf b' fl (wf_in_dom b0 W) H) as Db'.
    pose proof (sub_agrees b' bf Db' Hbf S) as Ab'.
    pose proof (eval_ext h dom U c c_basic b0 ywf b' fl (env_of bf) H Ab') as Ab0.
    now rewrite (proj1 (row_flag b0 b' fl (env_of bf) Ab0 (prod_valid bf Hbf) H Ab')).
  Qed.

  Lemma f_complete L b o : asked L -> In (b, o) rel -> compatible U b L = true -> exists r, In (r, o) (f L) /\ sub_on U r b = true.
  Proof.
    intros AL Hb C. destruct (asked_dec L AL) as (b0 & W & -> & D & _).
    apply in_rel in Hb as (bf & Hbf & Hy & -> & ->).
    pose proof (compat_agrees b0 bf W Hbf C) as A0. pose proof (prod_valid bf Hbf) as V.
    destruct (eval_cover h dom U dom_nodup c c_basic b0 ywf (env_of bf) A0 V) as [Cf Ct].
    assert (X : exists b', In (b', negb (isat h dom c (env_of bf))) (eval h dom c b0 ywf) /\ agreesb U b' (env_of bf) = true).
    { destruct (isat h dom c (env_of bf)); cbn [negb]; apply cover_ex; [rewrite Cf; cbn; lia|].
      rewrite Ct. rewrite Bool.orb_false_r in Hy. rewrite Hy. cbn. lia. }
    destruct X as (b' & I & Ab'). exists (encB (restrU b')). split.
    - unfold f. rewrite D. apply in_map_iff. exists (b', negb (isat h dom c (env_of bf))). now split.
    - now apply agrees_sub.
  Qed.

  Lemma inhabited L L0 r o : asked L -> asked L0 -> In (r, o) (f L0) -> compatible U r L = true ->
    exists b o', In (b, o') rel /\ sub_on U (IndexedCache.merge U L r) b = true.
  Proof.
    intros AL A0 H C. destruct (asked_dec L AL) as (bL & WL & -> & _ & _). destruct (asked_dec L0 A0) as (b0 & W0 & -> & D0 & _).
    unfold f in H. rewrite D0 in H. apply in_map_iff in H as ([b' fl] & E & H). cbn [fst snd] in E. injection E as <- <-.
    pose proof (eval_in_dom h dom U c c_basic b0 ywf b' fl (wf_in_dom b0 W0) H) as Db'.
    set (e := fun x => match lookup bL x with Some v => v | None => match lookup b' x with Some v => v | None => hd (VA ANone) (dom x) end end).
    set (bf := map (fun x => (x, e x)) U).
    assert (Hbf : In bf (prod U)).
    { apply in_prod. split; [unfold bf; rewrite map_map; apply map_id|]. intros k v I. unfold bf in I. apply in_map_iff in I as (x & E & Hx).
      injection E as <- <-. unfold e. destruct (lookup bL x) eqn:L1; [now apply (wf_in_dom bL WL x)|].
      destruct (lookup b' x) eqn:L2; [now apply (Db' x)|]. destruct (dom x) eqn:Dx; [now apply dom_ne in Hx | now left]. }
    assert (Ee : forall x, In x U -> env_of bf x = e x).
    { intros x Hx. unfold env_of, bf. clear -Hx. induction U as [|y ys IH]; [destruct Hx|]. cbn [map lookup]. destruct (Nat.eqb x y) eqn:E.
      - apply Nat.eqb_eq in E. now subst.
      - apply IH. destruct Hx as [->|Hx]; [now rewrite Nat.eqb_refl in E | exact Hx]. }
    (* the total assignment agrees with the row: where lookup and row both bind a variable they bind it alike *)
    assert (Ab' : agreesb U b' (env_of bf) = true).
    { unfold agreesb. apply forallb_forall. intros x Hx. destruct (lookup b' x) as [v|] eqn:Lv; [|reflexivity]. rewrite (Ee x Hx). unfold e.
      destruct (lookup bL x) as [w|] eqn:Lw; [|rewrite Lv; apply val_eqb_refl].
      unfold compatible in C. rewrite forallb_forall in C. specialize (C x Hx). rewrite !aget_encB, lookup_restrU, (inU x Hx), Lv, Lw in C.
      cbn [option_map] in C. apply Nat.eqb_eq in C. apply val_eqb_eq.
      apply (code_inj x); [now apply (wf_in_dom bL WL x) | now apply (Db' x) | now symmetry]. }
    pose proof (eval_ext h dom U c c_basic b0 ywf b' fl (env_of bf) H Ab') as Ab0.
    destruct (row_flag b0 b' fl (env_of bf) Ab0 (prod_valid bf Hbf) H Ab') as [_ Hy].
    exists (encB bf), (flagn (negb (isat h dom c (env_of bf)))). split; [apply in_rel; now exists bf|].
    unfold sub_on. apply forallb_forall. intros x Hx. rewrite (merge_aget U _ _ x Hx), !aget_encB, lookup_restrU, (inU x Hx).
    rewrite (prod_lookup bf x Hbf Hx), (Ee x Hx). unfold e. cbn [option_map].
    destruct (lookup bL x) as [v|]; cbn [option_map]; [apply Nat.eqb_refl|]. destruct (lookup b' x) as [v|]; cbn [option_map]; [apply Nat.eqb_refl | reflexivity].
  Qed.

  Lemma f_once L : asked L -> once U (f L).
  Proof.
    intros AL i j ri oi rj oj b Hi Hj Fb Si Sj. destruct (asked_dec L AL) as (b0 & W & -> & D & _). unfold f in Hi, Hj. rewrite D in Hi, Hj.
    rewrite nth_error_map in Hi, Hj.
    destruct (nth_error (eval h dom c b0 ywf) i) as [[bi fi]|] eqn:Ni; [|discriminate]. cbn [option_map fst snd] in Hi. injection Hi as <- <-.
    destruct (nth_error (eval h dom c b0 ywf) j) as [[bj fj]|] eqn:Nj; [|discriminate]. cbn [option_map fst snd] in Hj. injection Hj as <- <-.
    (* a total assignment read off b *)
    set (e := fun x => match aget b x with
                       | Some n => if Nat.ltb n (length (dom x)) then decode x n else hd (VA ANone) (dom x)
                       | None => hd (VA ANone) (dom x) end).
    assert (V : valid dom U e).
    { intros x Hx. unfold e. assert (Hh : In (hd (VA ANone) (dom x)) (dom x)) by (destruct (dom x) eqn:Dx; [now apply dom_ne in Hx | now left]).
      destruct (aget b x) as [n|]; [|exact Hh]. destruct (Nat.ltb n (length (dom x))) eqn:Lt; [|exact Hh]. apply Nat.ltb_lt in Lt.
      unfold decode. now apply nth_In. }
    assert (Ag : forall b' fl, In (b', fl) (eval h dom c b0 ywf) -> sub_on U (encB (restrU b')) b = true -> agreesb U b' e = true).
    { intros b' fl I S. pose proof (eval_in_dom h dom U c c_basic b0 ywf b' fl (wf_in_dom b0 W) I) as Db'.
      unfold agreesb. apply forallb_forall. intros x Hx. destruct (lookup b' x) as [v|] eqn:Lv; [|reflexivity].
      unfold sub_on in S. rewrite forallb_forall in S. specialize (S x Hx). rewrite aget_encB, lookup_restrU, (inU x Hx), Lv in S. cbn [option_map] in S.
      unfold e. destruct (aget b x) as [n|]; [|discriminate]. apply Nat.eqb_eq in S. subst n.
      pose proof (index_of_lt v (dom x) (Db' x v Lv)) as Lt. fold (code x v) in Lt. apply Nat.ltb_lt in Lt. rewrite Lt.
      rewrite decode_code by (now apply (Db' x)). apply val_eqb_refl. }
    pose proof (nth_error_In _ _ Ni) as Ii. pose proof (nth_error_In _ _ Nj) as Ij.
    pose proof (Ag bi fi Ii Si) as Ai. pose proof (Ag bj fj Ij Sj) as Aj.
    pose proof (eval_ext h dom U c c_basic b0 ywf bi fi e Ii Ai) as A0.
    pose proof (proj1 (row_flag b0 bi fi e A0 V Ii Ai)) as Fi. pose proof (proj1 (row_flag b0 bj fj e A0 V Ij Aj)) as Fj.
    destruct (Nat.eq_dec i j) as [E|Ne]; [exact E|]. exfalso.
    destruct (eval_cover h dom U dom_nodup c c_basic b0 ywf e A0 V) as [Cf Ct].
    assert (G : 2 <= cover U fi (eval h dom c b0 ywf) e).
    { unfold cover. apply (two_in_filter _ _ i j (bi, fi) (bj, fj) Ni Nj Ne); cbn [fst snd].
      - now rewrite Bool.eqb_reflx, Ai.
      - rewrite Fj, <- Fi. now rewrite Bool.eqb_reflx, Aj. }
    destruct fi; [rewrite Ct in G | rewrite Cf in G]; destruct ywf, (isat h dom c e); cbn in G; lia.
  Qed.

  (* ---------- the cached evaluation of c, over ANY history of incoming bindings ---------- *)
  Definition ok_lookup (b : binding) : Prop := wf b /\ binds_some U (encB b) = true.

  Lemma history_ok bs : Forall ok_lookup bs ->
    Forall (fun L => binds_some U L = true /\ asked L /\ NoDup (map fst L)) (map encB bs).
  Proof.
    intros H. apply Forall_forall. intros L HL. apply in_map_iff in HL as (b & <- & Hb). rewrite Forall_forall in H. destruct (H b Hb) as [W BS].
    split; [exact BS|]. split; [now exists b|]. rewrite keys_encB. now destruct W.
  Qed.

  Theorem cached_eval_transparent bs : Forall ok_lookup bs ->
    Forall2 (fun rows L => (forall a o, den U rel rows a o <-> (In (a, o) rel /\ compatible U a L = true)) /\
                           (rows = f L \/ exists o, rows = [(L, o)]) /\ once U rows)
            (cached_run_f f (init U) (map encB bs)) (map encB bs).
  Proof.
    intros H. pose proof (history_ok bs H) as HL.
    assert (HD : Forall (fun L => binds_some U L = true /\ asked L) (map encB bs)).
    { eapply Forall_impl; [|exact HL]. intros L (A & B & _). now split. }
    pose proof (cached_denotes U U_ne rel rel_full f asked f_rows f_flag f_complete _ HD) as D.
    pose proof (cached_rows_once U U_ne rel rel_full f asked f_rows f_flag f_complete inhabited f_once _ HL) as O.
    clear -D O. revert D O. generalize (cached_run_f f (init U) (map encB bs)). generalize (map encB bs).
    induction l as [|L l IH]; intros rows D O; inversion D; subst; inversion O; subst; constructor.
    - split; [assumption|]. assumption.
    - now apply IH.
  Qed.
End CachedEval.
