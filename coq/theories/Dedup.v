(* Dedup.v — the D-model: the P-model of EvalPure.v PLUS the de-duplication state of symbolic.py
   (`SymbolicExpression._is_duplicate_output_`, the per-node / per-truth-value `SeenSet`s, the REQUIRED
   variables a parent reports through `_required_variables_from_child_`).  An operator drops a row when an
   earlier row of the same node and truth value agrees with it on every required variable it binds.

   State: a tree mirroring the condition, for every operator its two seen sets (true rows / false rows); it
   persists over all activations of a node inside one evaluation and starts empty (`An.evaluate` resets it
   when the evaluation ends, however it ends).  The sites that de-duplicate (caching disabled):
     AND      a FALSE left row passed up when false rows were requested
     ElseIf   a TRUE row of the right side (after a false left row)
   The required sets come from Generated.v (`and_adds_right`, `and_parent_arg`, `or_adds_right`, `or_parent_arg`:
   extracted from BinaryOperator / OR `._required_variables_from_child_` on every run).  No proofs here. *)
From EQL Require Import Base Values Syntax Generated EvalPure.

Section SMap.
  Context {A B S : Type}.
  (* a loop over [l] that threads a state and concatenates what every step emits *)
  Fixpoint smap (f : A -> S -> list B * S) (l : list A) (s : S) : list B * S :=
    match l with
    | [] => ([], s)
    | a :: l' => let (o, s1) := f a s in let (o', s2) := smap f l' s1 in (o ++ o', s2)
    end.
End SMap.

(* the static context of a node: the path from the conditions root *)
Inductive ctx :=
| KTop (R : list key)              (* below the descriptor: what the selection requires *)
| KAndL (k : ctx) (y : cond)       (* left operand of an AND (at k) whose right operand is y *)
| KAndR (k : ctx)
| KElseL (k : ctx) (y : cond)      (* left operand of an ElseIf (at k) whose right operand is y *)
| KElseR (k : ctx)
| KSub (k : ctx) (sel : list term)    (* the condition of a nested an(entity/set_of(sel, ...)) standing at k *)
| KForAll (k : ctx) (c : cond).       (* the condition c of a for_all standing at k *)

(* what the descriptor / quantifier above the conditions root require: every selected expression itself and its variables *)
Definition own_key (t : term) : list key :=
  match t with TVar x => [x] | TFlat id _ | TConcat id _ => [id] | _ => [] end.
Definition req_top (sel : list term) : list key := flat_map (fun t => own_key t ++ tvars t) sel.

(* parent._required_variables_from_child_(node at k, when_true = t); None = "either" *)
Fixpoint req_from (k : ctx) (t : option bool) : list key :=
  match k with
  | KTop R => R
  | KAndL k' y => (if and_adds_right true t then cvars y else []) ++ req_from k' (and_parent_arg true t)
  | KAndR k' => (if and_adds_right false t then [] else []) ++ req_from k' (and_parent_arg false t)
  | KElseL k' y => (if or_adds_right true t then cvars y else []) ++ req_from k' (or_parent_arg true t)
  | KElseR k' => req_from k' (or_parent_arg false t)
  | KSub k' sel => req_top sel ++ req_from k' t       (* QueryObjectDescriptor / ResultQuantifier: the selection and what the parent requires *)
  | KForAll k' c => (if forall_adds_condition_variables then cvars c else []) ++ req_from k' (and_parent_arg false t)
  end.

(* ---- SeenSet as _is_duplicate_output_ uses it (never asked about an empty assignment) ---- *)
Definition restr (R : list key) (b : binding) : binding := filter (fun kv => existsb (Nat.eqb (fst kv)) R) b.
(* SeenSet.check: some stored constraint is contained in the assignment (values compared by identity) *)
Definition sub (c a : binding) : bool :=
  forallb (fun kv => match lookup a (fst kv) with Some v => val_eqb v (snd kv) | None => false end) c.
Definition dup_check (R : list key) (seen : list binding) (b : binding) : bool * list binding :=
  match restr R b with
  | [] => (false, seen)                        (* `if not required_vars` / `if not required_output`: never a duplicate, not recorded *)
  | ro => if existsb (fun c => sub c ro) seen then (true, seen) else (false, seen ++ [ro])
  end.

(* cache_data.SeenSet line by line, and _is_duplicate_output_ over it (the translator pins the three bodies: Generated.
   dedup_site_as_modelled).  [dup_check] above is what is left of them when the set is only ever asked through
   _is_duplicate_output_ - never about an empty assignment, so `all_seen` stays false: Dedup_Facts.is_duplicate_dup_check *)
Record seenset := { ss_seen : list binding; ss_all : bool }.
Definition ss_add (s : seenset) (a : binding) : seenset :=
  if ss_all s then s else {| ss_seen := ss_seen s ++ [a]; ss_all := match a with [] => true | _ => false end |}.
Definition ss_check (s : seenset) (a : binding) : bool * seenset :=
  if ss_all s then (true, s)
  else match a with
       | [] => (false, {| ss_seen := ss_seen s ++ [a]; ss_all := true |})
       | _ => (existsb (fun c => sub c a) (ss_seen s), s)
       end.
Definition is_duplicate (R : list key) (s : seenset) (b : binding) : bool * seenset :=
  match R with
  | [] => (false, s)                                   (* if not required_vars *)
  | _ => match restr R b with
         | [] => (false, s)                            (* if not required_output *)
         | ro => let (d, s1) := ss_check s ro in if d then (true, s1) else (false, ss_add s1 ro)
         end
  end.

Inductive dst := DL | DN (sT sF : list binding) (l r : dst).
Definition d_sT (s : dst) := match s with DN a _ _ _ => a | DL => [] end.
Definition d_sF (s : dst) := match s with DN _ a _ _ => a | DL => [] end.
Definition d_l (s : dst) := match s with DN _ _ a _ => a | DL => DL end.
Definition d_r (s : dst) := match s with DN _ _ _ a => a | DL => DL end.

Section D.
  Variable h : heap.
  Variable dom : key -> list val.

  (* AND: what happens to one row of the left side.  State: the operator's seen set for FALSE rows, the right side's state *)
  Definition and_step (R : list key) (evy : binding -> dst -> list (binding * bool) * dst) (ywf : bool)
             (p : binding * bool) (st : list binding * dst) : list (binding * bool) * (list binding * dst) :=
    if snd p then
      if ywf then let (d, sF') := dup_check R (fst st) (fst p) in ((if d then [] else [(fst p, true)]), (sF', snd st))
      else ([], st)
    else let (rs, sr') := evy (fst p) (snd st) in (rs, (fst st, sr')).

  (* ElseIf: a row of the right side (after a false left row): a TRUE row is checked against the operator's seen set for true rows *)
  Definition else_out (R : list key) (q : binding * bool) (sT : list binding) : list (binding * bool) * list binding :=
    if snd q then ([q], sT)
    else let (d, sT') := dup_check R sT (fst q) in ((if d then [] else [q]), sT').
  Definition else_step (R : list key) (evy : binding -> dst -> list (binding * bool) * dst)
             (p : binding * bool) (st : list binding * dst) : list (binding * bool) * (list binding * dst) :=
    if snd p then
      let (rs, sr') := evy (fst p) (snd st) in
      let (o, sT') := smap (else_out R) rs (fst st) in (o, (sT', sr'))
    else ([(fst p, false)], st).

  Fixpoint evalD (c : cond) (k : ctx) (b : binding) (ywf : bool) (s : dst) {struct c} : list (binding * bool) * dst :=
    match c with
    | CAnd x y =>
        let (ls, sl) := evalD x (KAndL k y) b ywf (d_l s) in
        let (out, st) := smap (and_step (req_from k (Some false)) (fun b1 s1 => evalD y (KAndR k) b1 ywf s1) ywf) ls (d_sF s, d_r s) in
        (out, DN (d_sT s) (fst st) sl (snd st))
    | CElseIf x y =>
        let (ls, sl) := evalD x (KElseL k y) b true (d_l s) in
        match ls with
        | [] => let (rs, sr) := evalD y (KElseR k) b ywf (d_r s) in (rs, DN (d_sT s) (d_sF s) sl sr)
        | _ => let (out, st) := smap (else_step (req_from k (Some true)) (fun b1 s1 => evalD y (KElseR k) b1 ywf s1)) ls (d_sT s, d_r s) in
               (out, DN (fst st) (d_sF s) sl (snd st))
        end
    | CSub sel c' =>
        (* a nested query in condition position: its condition with its own operators' seen sets, then its selection bound *)
        let (rows, sl) := evalD c' (KSub k sel) b ywf (d_l s) in
        (flat_map (fun p : binding * bool => map (fun b' => (b', snd p)) (bind_selected h dom sel (fst p))) rows,
         DN (d_sT s) (d_sF s) sl (d_r s))
    | CForAll u c' =>
        (* ForAll._evaluate__: one pass per universal value, each from a FRESH de-duplication state of the condition
           (self.condition._reset_cache_()); otherwise as the P-model: the satisfying rows, completed on the free variables,
           restricted to them, intersected over the universal values *)
        let free := nodup_keys (filter (fun k0 => negb (Nat.eqb k0 u)) (cvars c')) in
        let pass (v : val) : list binding :=
          flat_map (fun p : binding * bool =>
                      map (restrict_to free)
                          ((fix bind_vars (xs : list key) (b1 : binding) : list binding :=
                              match xs with
                              | [] => [b1]
                              | x :: xs' => match lookup b1 x with
                                            | Some _ => bind_vars xs' b1
                                            | None => flat_map (fun w => bind_vars xs' (bind b1 x w)) (dom x)
                                            end
                              end) free (fst p)))
                   (filter (fun p => negb (snd p)) (fst (evalD c' (KForAll k c') (bind b u v) false DL))) in
        (map (fun s0 => (merge b s0, false)) (inter pass (dom u)), s)
    | _ => (eval h dom c b ywf, s)      (* comparisons, mappings in condition position *)
    end.

  (* the query evaluated from an arbitrary de-duplication state (what an earlier evaluation might have left behind) *)
  Definition run_queryD_from (s : dst) (sel : list term) (c : option cond) : list (list val) :=
    let rows := match c with
                | Some c' => map fst (filter (fun p => negb (snd p)) (fst (evalD c' (KTop (req_top sel)) [] false s)))
                | None => [[]]
                end in
    flat_map (fun b => map (row_of h dom sel) (bind_selected h dom sel b)) rows.

  (* a history of evaluations of ONE query object: each is consumed completely (None) or abandoned / aborted after n results (Some n);
     an abandoned one may stay REFERENCED ([kept] = true: its generator is suspended, its finally clause has not run).
     [leftover i] is whatever state the i-th evaluation leaves in the operators' seen sets when it stops; An.evaluate / The.evaluate
     reset it in a finally clause iff Generated.evaluation_resets_dedup_state, and before starting iff
     Generated.evaluation_resets_dedup_state_at_start *)
  Fixpoint history_rows (leftover : nat -> dst) (sel : list term) (c : option cond) (steps : list (option nat * bool)) (i : nat) (s : dst)
    : list (list (list val)) :=
    match steps with
    | [] => []
    | (k, kept) :: rest =>
        let s0 := if evaluation_resets_dedup_state_at_start then DL else s in
        let rows := run_queryD_from s0 sel c in
        (match k with None => rows | Some n => firstn n rows end)
          :: history_rows leftover sel c rest (S i)
               (if kept then leftover i else if evaluation_resets_dedup_state then DL else leftover i)
    end.

  Definition run_queryD (sel : list term) (c : option cond) : list (list val) :=
    let rows := match c with
                | Some c' => map fst (filter (fun p => negb (snd p)) (fst (evalD c' (KTop (req_top sel)) [] false DL)))
                | None => [[]]
                end in
    flat_map (fun b => map (row_of h dom sel) (bind_selected h dom sel b)) rows.
End D.

(* the fragment on which the D-model claims the exact row SEQUENCE of the implementation: de-duplication inside
   nested queries / for_all and rows carrying flattened elements (identified by position in the implementation) are outside *)
Fixpoint dterm (t : term) : bool :=
  match t with TLit _ | TVar _ => true | TMap _ t' => dterm t' | TFlat _ _ | TConcat _ _ => false end.
Fixpoint dfrag (c : cond) : bool :=
  match c with
  | CCmp _ l r => dterm l && dterm r
  | CTruth t _ => dterm t
  | CAnd a b | CElseIf a b => dfrag a && dfrag b
  | CForAll _ c' => dfrag c'
  | CSub sel c' => forallb dterm sel && dfrag c'
  end.
