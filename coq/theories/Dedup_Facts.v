(* Dedup_Facts.v — the de-duplication of rows (Dedup.v) loses no answer and invents none.

   For every node the rows it emits over ALL its activations of one evaluation (state empty at the start) COVER what the
   P-model's rows cover, up to the variables the node's parent REQUIRES: for every assignment e that an activation should
   serve with truth value f there is an emitted row with that truth value and an assignment e' it stands for that agrees with e
   on the required variables (rq k f).  The required sets come from Generated.v: the lemma [req_tables] pins exactly the facts
   about BinaryOperator / OR `._required_variables_from_child_` that the induction needs (a TRUE left operand of a conjunction
   decides nothing: the parent is asked what it needs in either case; ...). *)
From EQL Require Import Base Values Syntax Spec Generated EvalPure EvalPure_Facts Query_Facts Dedup.

(* ---------------------------------------------------------------- smap *)
Section SMapFacts.
  Context {A B S : Type}.
  Implicit Types (f : A -> S -> list B * S).

  Lemma smap_app f l1 l2 s :
    smap f (l1 ++ l2) s = (fst (smap f l1 s) ++ fst (smap f l2 (snd (smap f l1 s))), snd (smap f l2 (snd (smap f l1 s)))).
  Proof.
    revert s. induction l1 as [|a l1 IH]; intros s; cbn [smap app fst snd].
    - destruct (smap f l2 s); reflexivity.
    - destruct (f a s) as [o s1]. rewrite IH. destruct (smap f l1 s1) as [o1 s2]. cbn [fst snd].
      destruct (smap f l2 s2) as [o2 s3]. cbn [fst snd]. now rewrite app_assoc.
  Qed.

  Lemma smap_cons f a l s :
    smap f (a :: l) s = (fst (f a s) ++ fst (smap f l (snd (f a s))), snd (smap f l (snd (f a s)))).
  Proof. cbn [smap]. destruct (f a s) as [o s1]. cbn [fst snd]. destruct (smap f l s1); reflexivity. Qed.

  (* whatever is emitted was emitted by some step, from some state *)
  Lemma in_smap f l : forall s r, In r (fst (smap f l s)) -> exists a s', In a l /\ In r (fst (f a s')).
  Proof.
    induction l as [|a l IH]; intros s r H; [destruct H|]. rewrite smap_cons in H. cbn [fst] in H.
    apply in_app_or in H as [H|H].
    - exists a, s. split; [now left | exact H].
    - destruct (IH _ _ H) as (a' & s' & Ha & Hr). exists a', s'. split; [now right | exact Hr].
  Qed.
End SMapFacts.

Lemma smap_map {A A' B S} (g : A' -> A) (f : A -> S -> list B * S) l s : smap f (map g l) s = smap (fun a => f (g a)) l s.
Proof. revert s. induction l as [|a l IH]; intros s; cbn [map smap]; [reflexivity|]. destruct (f (g a) s). now rewrite IH. Qed.

Lemma smap_ext {A B S} (f g : A -> S -> list B * S) l s : (forall a s', f a s' = g a s') -> smap f l s = smap g l s.
Proof. intros E. revert s. induction l as [|a l IH]; intros s; cbn [smap]; [reflexivity|]. rewrite E. destruct (g a s). now rewrite IH. Qed.

(* the same loop, keeping what every element emitted apart *)
Fixpoint smapg {A B S} (f : A -> S -> list B * S) (l : list A) (s : S) : list (A * list B) * S :=
  match l with
  | [] => ([], s)
  | a :: l' => let (o, s1) := f a s in let (g, s2) := smapg f l' s1 in ((a, o) :: g, s2)
  end.
Lemma smapg_cons {A B S} (f : A -> S -> list B * S) a l s :
  smapg f (a :: l) s = ((a, fst (f a s)) :: fst (smapg f l (snd (f a s))), snd (smapg f l (snd (f a s)))).
Proof. cbn [smapg]. destruct (f a s) as [o s1]. cbn [fst snd]. destruct (smapg f l s1); reflexivity. Qed.
Lemma smap_smapg {A B S} (f : A -> S -> list B * S) l : forall s,
  smap f l s = (flat_map snd (fst (smapg f l s)), snd (smapg f l s)).
Proof.
  induction l as [|a l IH]; intros s; [reflexivity|]. rewrite smap_cons, smapg_cons, IH. cbn [fst snd flat_map]. reflexivity.
Qed.

Lemma in_smapg {A B S} (f : A -> S -> list B * S) l : forall s g, In g (fst (smapg f l s)) ->
  exists s', In (fst g) l /\ snd g = fst (f (fst g) s').
Proof.
  induction l as [|a l IH]; intros s g H; [destruct H|]. rewrite smapg_cons in H. cbn [fst] in H. destruct H as [<-|H].
  - exists s. split; [now left | reflexivity].
  - destruct (IH _ _ H) as (s' & Hl & Hs). exists s'. split; [now right | exact Hs].
Qed.

Lemma filter_flag_split {A} (g : A * bool -> bool) (l : list (A * bool)) :
  length (filter g l) = length (filter (fun r => Bool.eqb (snd r) false && g r) l) + length (filter (fun r => Bool.eqb (snd r) true && g r) l).
Proof.
  induction l as [|[a f] l IH]; [reflexivity|]. simpl. destruct f; simpl; destruct (g (a, _)); simpl; rewrite IH; lia.
Qed.

(* ---------------------------------------------------------------- the tables extracted from the source *)
(* what the induction needs of `_required_variables_from_child_` (AND: BinaryOperator, ElseIf: OR) *)
Lemma req_tables :
  (forall t, and_adds_right true t = true) /\
  and_parent_arg true (Some true) = None /\            (* a true left operand: the conjunction may still come out false *)
  and_parent_arg true (Some false) = Some false /\
  (forall t, and_parent_arg false t = t) /\
  or_parent_arg true (Some true) = Some true /\
  or_adds_right true (Some false) = true /\            (* a false left operand: the right operand decides *)
  or_parent_arg true (Some false) = None /\
  (forall t, or_parent_arg false t = t) /\
  and_parent_arg true None = None /\ or_parent_arg true None = None /\ or_adds_right true None = true.
Proof. repeat split; try (intros [[|]|]; reflexivity); reflexivity. Qed.

(* asking with None ("either") never requires less *)
Lemma req_from_none k : forall t, incl (req_from k t) (req_from k None).
Proof.
  destruct req_tables as (A1 & A2 & A3 & A4 & O1 & O2 & O3 & O4 & A5 & O5 & O6).
  induction k as [R|k IH y|k IH|k IH y|k IH|k IH sel|k IH c0]; intros t; cbn [req_from].
  - apply incl_refl.
  - rewrite !A1, A5. apply incl_app; [apply incl_appl, incl_refl | apply incl_appr].
    destruct t as [[|]|]; [rewrite A2 | rewrite A3 | rewrite A5]; try apply incl_refl. apply IH.
  - rewrite !A4. destruct (and_adds_right false t), (and_adds_right false None); cbn [app]; apply IH.
  - rewrite O5, O6. destruct t as [[|]|].
    + rewrite O1. apply incl_app; [destruct (or_adds_right true (Some true)); [apply incl_appl, incl_refl | apply incl_nil_l] | apply incl_appr, IH].
    + rewrite O2, O3. apply incl_refl.
    + rewrite O5, O6. apply incl_refl.
  - rewrite !O4. apply IH.
  - apply incl_app; [apply incl_appl, incl_refl | apply incl_appr, IH].
  - rewrite !A4. apply incl_app; [apply incl_appl, incl_refl | apply incl_appr, IH].
Qed.

(* ---------------------------------------------------------------- SeenSet *)
Lemma dedup_site_pinned : dedup_site_as_modelled = true.
Proof. reflexivity. Qed.
(* the two places Dedup.and_step / Dedup.else_step apply the check at are the places the code applies it at *)
Lemma dedup_sites_as_modelled : and_dedup_site = SiteFalseLeft /\ else_dedup_site = SiteRightTrue.
Proof. split; reflexivity. Qed.
Lemma operand_order_as_modelled : comparator_right_first_iff_bound = true.
Proof. reflexivity. Qed.

(* the duplicate check of the D-model IS _is_duplicate_output_ over the line-by-line model of SeenSet, as long as `all_seen` is off -
   and it stays off, because the set is never asked about an empty assignment *)
Lemma is_duplicate_dup_check R s b : ss_all s = false ->
  is_duplicate R s b = (fst (dup_check R (ss_seen s) b), {| ss_seen := snd (dup_check R (ss_seen s) b); ss_all := false |}).
Proof.
  intros A. destruct s as [seen all]. cbn [ss_all ss_seen] in *. subst all. unfold is_duplicate, dup_check.
  destruct R as [|k R].
  - assert (E : restr [] b = []) by (unfold restr; induction b as [|kv b IH]; [reflexivity | cbn; exact IH]). now rewrite E.
  - destruct (restr (k :: R) b) as [|kv ro]; [reflexivity|].
    unfold ss_check, ss_add. cbn [ss_all ss_seen]. destruct (existsb (fun c => sub c (kv :: ro)) seen); reflexivity.
Qed.
Lemma is_duplicate_all_off R s b : ss_all s = false -> ss_all (snd (is_duplicate R s b)) = false.
Proof. intros A. now rewrite (is_duplicate_dup_check R s b A). Qed.

(* every evaluation of a history starts from the empty de-duplication state, whatever the earlier ones left behind: its answer is
   the answer of the query on its own (the reset in the finally clause of An.evaluate / The.evaluate is read from the source) *)
Lemma run_queryD_from_DL h dom sel c : run_queryD_from h dom DL sel c = run_queryD h dom sel c.
Proof. reflexivity. Qed.
Lemma evaluation_resets_at_start : evaluation_resets_dedup_state_at_start = true.
Proof. reflexivity. Qed.
Theorem history_rows_independent h dom leftover sel c : forall steps i s,
  history_rows h dom leftover sel c steps i s =
  map (fun st : option nat * bool => match fst st with None => run_queryD h dom sel c | Some n => firstn n (run_queryD h dom sel c) end) steps.
Proof.
  induction steps as [|[k kept] steps IH]; intros i s; [reflexivity|]. cbn [history_rows map fst]. rewrite evaluation_resets_at_start, (IH (S i)).
  now rewrite run_queryD_from_DL.
Qed.

(* ---------------------------------------------------------------- the section *)
Section DF.
  Variable h : heap.
  Variable dom : key -> list val.
  Variable U : list key.
  Hypothesis dom_nodup : forall x, In x U -> NoDup (dom x).

  Notation eval := (eval h dom).
  Notation evalD := (evalD h dom).
  Notation isat := (isat h dom).
  Notation agreesb := (agreesb U).
  Notation valid := (valid dom U).
  Notation basic := (basic U).
  Notation tclosed := (tclosed U).
  Notation in_dom := (in_dom dom).

  (* ---------- agreement of two assignments on the required variables ---------- *)
  Definition agree_on (R : list key) (e e' : env) : Prop := forall k, In k R -> In k U -> e k = e' k.
  Lemma agree_on_refl R e : agree_on R e e.
  Proof. intros k _ _. reflexivity. Qed.
  Lemma agree_on_trans R e1 e2 e3 : agree_on R e1 e2 -> agree_on R e2 e3 -> agree_on R e1 e3.
  Proof. intros H1 H2 k Hk Hu. now rewrite (H1 k Hk Hu), (H2 k Hk Hu). Qed.
  Lemma agree_on_incl R R' e e' : incl R' R -> agree_on R e e' -> agree_on R' e e'.
  Proof. intros I H k Hk Hu. apply H; [now apply I | exact Hu]. Qed.
  Lemma agree_on_sym R e e' : agree_on R e e' -> agree_on R e' e.
  Proof. intros H k Hk Hu. symmetry. now apply H. Qed.

  (* truth depends on the variables of the condition only *)
  Lemma tval_agree_vars t e e' : tclosed t = true -> (forall x, In x (tvars t) -> e x = e' x) -> tval h t e = tval h t e'.
  Proof.
    unfold EvalPure_Facts.tclosed. induction t as [w|x|m t IH|id t IH|id t IH]; intros C H; cbn [flat_free tvars forallb] in C; cbn [tval];
      try discriminate.
    - reflexivity.
    - apply H. now left.
    - rewrite IH; [reflexivity | exact C | exact H].
  Qed.
  Lemma isat_agree_vars c : basic c = true -> forall e e', (forall x, In x (cvars c) -> e x = e' x) -> isat c e = isat c e'.
  Proof.
    induction c as [o l r|t inv|x IHx y IHy|x IHx y IHy|u0 c0 IH|sel c0 IH]; intros B0 e e' H; cbn [EvalPure_Facts.basic] in B0; cbn [Spec.isat cvars] in *;
      try discriminate.
    - apply andb_prop in B0 as [Cl Cr].
      rewrite (tval_agree_vars l e e' Cl), (tval_agree_vars r e e' Cr); [reflexivity | |]; intros z Hz; apply H, in_or_app; auto.
    - now rewrite (tval_agree_vars t e e' B0 H).
    - apply andb_prop in B0 as [Bx By]. rewrite (IHx Bx e e'), (IHy By e e'); [reflexivity | |]; intros z Hz; apply H, in_or_app; auto.
    - apply andb_prop in B0 as [Bx By]. rewrite (IHx Bx e e'), (IHy By e e'); [reflexivity | |]; intros z Hz; apply H, in_or_app; auto.
    - apply andb_prop in B0 as [_ Bc]. now apply IH.
  Qed.
  Lemma tvars_in_U t : tclosed t = true -> forall x, In x (tvars t) -> In x U.
  Proof.
    unfold EvalPure_Facts.tclosed. intros C x Hx. apply andb_prop in C as [_ C]. rewrite forallb_forall in C. now apply (inU U), C.
  Qed.
  Lemma cvars_in_U c : basic c = true -> forall x, In x (cvars c) -> In x U.
  Proof.
    induction c as [o l r|t inv|x IHx y IHy|x IHx y IHy|u0 c0 IH|sel c0 IH]; intros B0 z Hz; cbn [EvalPure_Facts.basic] in B0; cbn [cvars] in Hz;
      try discriminate.
    - apply andb_prop in B0 as [Cl Cr]. apply in_app_or in Hz as [Hz|Hz]; [apply (tvars_in_U l Cl) | apply (tvars_in_U r Cr)]; exact Hz.
    - apply (tvars_in_U t B0); exact Hz.
    - apply andb_prop in B0 as [Bx By]. apply in_app_or in Hz as [Hz|Hz]; auto.
    - apply andb_prop in B0 as [Bx By]. apply in_app_or in Hz as [Hz|Hz]; auto.
    - apply andb_prop in B0 as [_ Bc]. auto.
  Qed.
  Lemma isat_agree_on c R e e' : basic c = true -> incl (cvars c) R -> agree_on R e e' -> isat c e = isat c e'.
  Proof.
    intros B I H. apply isat_agree_vars; [exact B|]. intros x Hx. apply H; [now apply I | now apply (cvars_in_U c B)].
  Qed.

  (* ---------- an assignment overridden by a row ---------- *)
  Definition over (b : binding) (e : env) : env := fun k => match lookup b k with Some v => v | None => e k end.
  Lemma over_valid b e : in_dom b -> valid e -> valid (over b e).
  Proof. intros D V x Hx. unfold over. destruct (lookup b x) eqn:L; [now apply D | now apply V]. Qed.
  Lemma over_agrees b e : agreesb b (over b e) = true.
  Proof.
    unfold EvalPure_Facts.agreesb. apply forallb_forall. intros x _. unfold over. destruct (lookup b x); [apply val_eqb_refl | reflexivity].
  Qed.

  Lemma lookup_restr R b k : lookup (restr R b) k = if existsb (Nat.eqb k) R then lookup b k else None.
  Proof.
    unfold restr. induction b as [|[y v] b IH].
    - cbn [filter lookup]. destruct (existsb (Nat.eqb k) R); reflexivity.
    - cbn [filter fst]. destruct (Nat.eqb k y) eqn:E.
      + apply Nat.eqb_eq in E; subst y. destruct (existsb (Nat.eqb k) R) eqn:M.
        * cbn [lookup]. now rewrite Nat.eqb_refl.
        * rewrite IH. rewrite ?M. reflexivity.
      + destruct (existsb (Nat.eqb y) R); cbn [lookup]; rewrite ?E; exact IH.
  Qed.
  Lemma lookup_in (c : binding) k v : lookup c k = Some v -> In (k, v) c.
  Proof.
    induction c as [|[y w] c IH]; cbn [lookup]; [discriminate|]. destruct (Nat.eqb k y) eqn:E.
    - apply Nat.eqb_eq in E; subst y. intros H; injection H as ->. now left.
    - intros H. right. now apply IH.
  Qed.
  Lemma sub_lookup c a k v : sub c a = true -> lookup c k = Some v -> lookup a k = Some v.
  Proof.
    unfold sub. rewrite forallb_forall. intros H L. specialize (H (k, v) (lookup_in c k v L)). cbn [fst snd] in H.
    destruct (lookup a k) as [w|]; [|discriminate]. apply val_eqb_eq in H. now subst.
  Qed.

  (* the row b0 was recorded, the row b is dropped as its duplicate: every assignment of b has a twin under b0
     that agrees with it on the required variables *)
  Lemma dup_over R b0 b e : sub (restr R b0) (restr R b) = true -> agreesb b e = true -> agree_on R (over b0 e) e.
  Proof.
    intros S A k Hk Hu. unfold over. destruct (lookup b0 k) as [v|] eqn:L; [|reflexivity].
    assert (M : existsb (Nat.eqb k) R = true) by (apply existsb_exists; exists k; split; [exact Hk | apply Nat.eqb_refl]).
    assert (L0 : lookup (restr R b0) k = Some v) by (rewrite lookup_restr, M; exact L).
    pose proof (sub_lookup _ _ _ _ S L0) as L1. rewrite lookup_restr, M in L1. symmetry. eapply agrees_lookup; eassumption.
  Qed.

  (* ---------- the de-duplicating pass over a list of rows, generically ---------- *)
  Section DStep.
    Context {A : Type}.
    Variable R : list key.
    Variable must : A -> bool.          (* is the row subject to the duplicate check *)
    Variable rk : A -> binding.
    Definition dstep (a : A) (seen : list binding) : list A * list binding :=
      if must a then let (d, seen') := dup_check R seen (rk a) in ((if d then [] else [a]), seen') else ([a], seen).

    Lemma dstep_cases a seen :
      (must a = false /\ dstep a seen = ([a], seen)) \/
      (must a = true /\ restr R (rk a) = [] /\ dstep a seen = ([a], seen)) \/
      (must a = true /\ existsb (fun c => sub c (restr R (rk a))) seen = true /\ dstep a seen = ([], seen)) \/
      (must a = true /\ existsb (fun c => sub c (restr R (rk a))) seen = false /\ dstep a seen = ([a], seen ++ [restr R (rk a)])).
    Proof.
      unfold dstep, dup_check. destruct (must a); [|now left]. right.
      destruct (restr R (rk a)) as [|kv ro] eqn:Ero; [now left|]. right.
      destruct (existsb (fun c => sub c (kv :: ro)) seen); [left | right]; now repeat split.
    Qed.

    Lemma dstep_cover : forall rows seen (P : list A),
      (forall c, In c seen -> exists a0, In a0 P /\ must a0 = true /\ c = restr R (rk a0)) ->
      (forall a, In a rows -> must a = false -> In a (fst (smap dstep rows seen))) /\
      (forall a, In a rows -> must a = true ->
         exists a0, (In a0 P \/ In a0 (fst (smap dstep rows seen))) /\ must a0 = true /\
                    (a0 = a \/ sub (restr R (rk a0)) (restr R (rk a)) = true)) /\
      (forall r, In r (fst (smap dstep rows seen)) -> In r rows).
    Proof.
      induction rows as [|a rows IH]; intros seen P HS.
      - cbn [smap fst]. repeat split; intros ? [].
      - rewrite smap_cons. cbn [fst].
        destruct (dstep_cases a seen) as [(Ma & E)|[(Ma & Er & E)|[(Ma & Ex & E)|(Ma & Ex & E)]]]; rewrite E; cbn [fst snd app].
        + destruct (IH seen P HS) as (I1 & I2 & I3). repeat split.
          * intros a' [<-|Ha'] Hm; [now left | right; now apply I1].
          * intros a' [<-|Ha'] Hm; [congruence|].
            destruct (I2 a' Ha' Hm) as (a0 & [H0|H0] & M0 & C0); exists a0; (split; [|split; assumption]); [now left | right; now right].
          * intros r [<-|Hr]; [now left | right; now apply I3].
        + (* nothing required is bound: never a duplicate, not recorded *)
          destruct (IH seen P HS) as (I1 & I2 & I3). repeat split.
          * intros a' [<-|Ha'] Hm; [congruence|]. right. now apply I1.
          * intros a' [<-|Ha'] Hm.
            -- exists a. split; [right; now left|]. split; [exact Ma | now left].
            -- destruct (I2 a' Ha' Hm) as (a0 & [H0|H0] & M0 & C0); exists a0; (split; [|split; assumption]); [now left | right; now right].
          * intros r [<-|Hr]; [now left | right; now apply I3].
        + (* a duplicate: dropped *)
          destruct (IH seen P HS) as (I1 & I2 & I3). repeat split.
          * intros a' [<-|Ha'] Hm; [congruence|]. now apply I1.
          * intros a' [<-|Ha'] Hm.
            -- apply existsb_exists in Ex as (c & Hc & Sc). destruct (HS c Hc) as (a0 & H0 & M0 & ->).
               exists a0. split; [now left|]. split; [exact M0 | now right].
            -- apply (I2 a' Ha' Hm).
          * intros r Hr. right. now apply I3.
        + (* new: emitted and recorded *)
          assert (HS' : forall c, In c (seen ++ [restr R (rk a)]) -> exists a0, In a0 (a :: P) /\ must a0 = true /\ c = restr R (rk a0)).
          { intros c Hc. apply in_app_or in Hc as [Hc|[<-|[]]].
            - destruct (HS c Hc) as (a0 & H0 & M0 & E0). exists a0. split; [now right | now split].
            - exists a. split; [now left | now split]. }
          destruct (IH (seen ++ [restr R (rk a)]) (a :: P) HS') as (I1 & I2 & I3). repeat split.
          * intros a' [<-|Ha'] Hm; [congruence|]. right. now apply I1.
          * intros a' [<-|Ha'] Hm.
            -- exists a. split; [right; now left|]. split; [exact Ma | now left].
            -- destruct (I2 a' Ha' Hm) as (a0 & [[Ea|H0]|H0] & M0 & C0); exists a0; (split; [|split; assumption]).
               ++ right; left; exact Ea.
               ++ now left.
               ++ right; now right.
          * intros r [<-|Hr]; [now left | right; now apply I3].
    Qed.
  End DStep.

  (* ---------- the shape of one activation ---------- *)
  Definition evalDs (c : cond) (k : ctx) (bs : list binding) (ywf : bool) (s : dst) : list (binding * bool) * dst :=
    smap (fun b s' => evalD c k b ywf s') bs s.

  Lemma evalD_and x y k b ywf s :
    evalD (CAnd x y) k b ywf s =
    (fst (smap (and_step (req_from k (Some false)) (fun b1 s1 => evalD y (KAndR k) b1 ywf s1) ywf)
               (fst (evalD x (KAndL k y) b ywf (d_l s))) (d_sF s, d_r s)),
     DN (d_sT s)
        (fst (snd (smap (and_step (req_from k (Some false)) (fun b1 s1 => evalD y (KAndR k) b1 ywf s1) ywf)
                        (fst (evalD x (KAndL k y) b ywf (d_l s))) (d_sF s, d_r s))))
        (snd (evalD x (KAndL k y) b ywf (d_l s)))
        (snd (snd (smap (and_step (req_from k (Some false)) (fun b1 s1 => evalD y (KAndR k) b1 ywf s1) ywf)
                        (fst (evalD x (KAndL k y) b ywf (d_l s))) (d_sF s, d_r s))))).
  Proof.
    cbn [Dedup.evalD]. destruct (evalD x (KAndL k y) b ywf (d_l s)) as [ls sl]. cbn [fst snd].
    destruct (smap _ ls (d_sF s, d_r s)) as [out st]. reflexivity.
  Qed.

  Lemma evalD_else x y k b ywf s :
    evalD (CElseIf x y) k b ywf s =
    match fst (evalD x (KElseL k y) b true (d_l s)) with
    | [] => (fst (evalD y (KElseR k) b ywf (d_r s)),
             DN (d_sT s) (d_sF s) (snd (evalD x (KElseL k y) b true (d_l s))) (snd (evalD y (KElseR k) b ywf (d_r s))))
    | _ => (fst (smap (else_step (req_from k (Some true)) (fun b1 s1 => evalD y (KElseR k) b1 ywf s1))
                      (fst (evalD x (KElseL k y) b true (d_l s))) (d_sT s, d_r s)),
            DN (fst (snd (smap (else_step (req_from k (Some true)) (fun b1 s1 => evalD y (KElseR k) b1 ywf s1))
                               (fst (evalD x (KElseL k y) b true (d_l s))) (d_sT s, d_r s))))
               (d_sF s) (snd (evalD x (KElseL k y) b true (d_l s)))
               (snd (snd (smap (else_step (req_from k (Some true)) (fun b1 s1 => evalD y (KElseR k) b1 ywf s1))
                               (fst (evalD x (KElseL k y) b true (d_l s))) (d_sT s, d_r s)))))
    end.
  Proof.
    cbn [Dedup.evalD]. destruct (evalD x (KElseL k y) b true (d_l s)) as [ls sl]. cbn [fst snd]. destruct ls as [|p ls].
    - destruct (evalD y (KElseR k) b ywf (d_r s)). reflexivity.
    - destruct (smap _ (p :: ls) (d_sT s, d_r s)) as [out st]. reflexivity.
  Qed.

  Lemma evalD_sub sel c' k b ywf s :
    evalD (CSub sel c') k b ywf s =
    (flat_map (fun p : binding * bool => map (fun b' => (b', snd p)) (bind_sel h dom sel (fst p))) (fst (evalD c' (KSub k sel) b ywf (d_l s))),
     DN (d_sT s) (d_sF s) (snd (evalD c' (KSub k sel) b ywf (d_l s))) (d_r s)).
  Proof.
    cbn [Dedup.evalD]. destruct (evalD c' (KSub k sel) b ywf (d_l s)) as [rows sl]. cbn [fst snd].
    f_equal; try (apply flat_map_ext; intros p; now rewrite bind_selected_eq).
  Qed.

  Definition is_leaf (c : cond) : bool := match c with CAnd _ _ | CElseIf _ _ | CSub _ _ | CForAll _ _ => false | _ => true end.
  Lemma evalD_leaf c k b ywf s : is_leaf c = true -> evalD c k b ywf s = (eval c b ywf, s).
  Proof. destruct c; cbn [is_leaf]; try discriminate; reflexivity. Qed.
  Lemma evalDs_leaf c k ywf : is_leaf c = true -> forall bs s, evalDs c k bs ywf s = (flat_map (fun b => eval c b ywf) bs, s).
  Proof.
    intros L. unfold evalDs. induction bs as [|b bs IH]; intros s; cbn [smap flat_map]; [reflexivity|].
    rewrite (evalD_leaf c k b ywf s L), IH. reflexivity.
  Qed.

  (* ---------- what every emitted row is: bound within the domains, an extension of the incoming row, and - a TRUE row - true
     of every assignment it stands for (no claim about false rows: none is needed) ---------- *)
  Definition row_ok (c : cond) (b : binding) (r : binding * bool) : Prop :=
    in_dom (fst r) /\ (forall e, agreesb (fst r) e = true -> agreesb b e = true) /\
    (snd r = false -> forall e, valid e -> agreesb (fst r) e = true -> isat c e = true).

  Lemma cover_pos f rows e : cover U f rows e <> 0 -> exists b', In (b', f) rows /\ agreesb b' e = true.
  Proof.
    unfold cover. intros H. destruct (filter _ rows) as [|[b' f'] l] eqn:E; [now destruct H|].
    assert (Hin : In (b', f') (filter (fun r => Bool.eqb (snd r) f && agreesb (fst r) e) rows)) by (rewrite E; now left).
    apply filter_In in Hin as [Hin Hp]. cbn [fst snd] in Hp. apply andb_prop in Hp as [Hf Ha].
    apply Bool.eqb_prop in Hf. subst f'. now exists b'.
  Qed.
  Lemma in_cover f rows e b' : In (b', f) rows -> agreesb b' e = true -> cover U f rows e <> 0.
  Proof.
    intros Hin A. unfold cover.
    assert (H : In (b', f) (filter (fun r => Bool.eqb (snd r) f && agreesb (fst r) e) rows)).
    { apply filter_In. split; [exact Hin|]. cbn [fst snd]. now rewrite Bool.eqb_reflx, A. }
    destruct (filter _ rows); [destruct H | discriminate].
  Qed.

  Lemma eval_row_ok c : basic c = true -> forall b ywf r, in_dom b -> In r (eval c b ywf) -> row_ok c b r.
  Proof.
    intros B b ywf [b' f] D H. unfold row_ok. cbn [fst snd]. split; [|split].
    - eapply (eval_in_dom h dom U); eassumption.
    - intros e A. eapply (eval_ext h dom U); eassumption.
    - intros -> e V A. pose proof (eval_ext h dom U c B b ywf b' false e H A) as Ab.
      destruct (eval_cover h dom U dom_nodup c B b ywf e Ab V) as [CF _].
      pose proof (in_cover false _ e b' H A) as NZ. rewrite CF in NZ. destruct (isat c e); [reflexivity | now destruct NZ].
  Qed.

  Lemma and_step_in R evy ywf p st r : In r (fst (and_step R evy ywf p st)) ->
    (snd p = true /\ ywf = true /\ r = (fst p, true)) \/ (snd p = false /\ In r (fst (evy (fst p) (snd st)))).
  Proof.
    unfold and_step. destruct (snd p).
    - destruct ywf; [|intros []]. destruct (dup_check R (fst st) (fst p)) as [d sF']. cbn [fst].
      destruct d; [intros [] | intros [<-|[]]; left; now repeat split].
    - destruct (evy (fst p) (snd st)) as [rs sr']. cbn [fst]. intros H. right. now split.
  Qed.

  Lemma else_out_in R q sT r : In r (fst (else_out R q sT)) -> r = q.
  Proof.
    unfold else_out. destruct (snd q); [intros [<-|[]]; reflexivity|].
    destruct (dup_check R sT (fst q)) as [d sT']. cbn [fst]. destruct d; [intros [] | intros [<-|[]]; reflexivity].
  Qed.
  Lemma else_step_in R evy p st r : In r (fst (else_step R evy p st)) ->
    (snd p = false /\ r = (fst p, false)) \/ (snd p = true /\ In r (fst (evy (fst p) (snd st)))).
  Proof.
    unfold else_step. destruct (snd p).
    - destruct (evy (fst p) (snd st)) as [rs sr']. destruct (smap (else_out R) rs (fst st)) as [o sT'] eqn:E. cbn [fst]. intros H. right.
      split; [reflexivity|]. assert (H' : In r (fst (smap (else_out R) rs (fst st)))) by (rewrite E; exact H).
      apply in_smap in H' as (q & sT0 & Hq & Hr). apply else_out_in in Hr. now subst.
    - intros [<-|[]]. left. now split.
  Qed.

  Lemma evalD_ok c : basic c = true -> forall k b ywf s r, in_dom b -> In r (fst (evalD c k b ywf s)) -> row_ok c b r.
  Proof.
    induction c as [o l r0|t inv|x IHx y IHy|x IHx y IHy|u0 c0 IH|sel c0 IH]; intros B k b ywf s r D H;
      try (rewrite evalD_leaf in H by reflexivity; cbn [fst] in H; eapply eval_row_ok; eassumption);
      try (cbn [EvalPure_Facts.basic] in B; discriminate B).
    - (* AND *)
      cbn [EvalPure_Facts.basic] in B. apply andb_prop in B as [Bx By]. rewrite evalD_and in H. cbn [fst] in H.
      apply in_smap in H as (p & st' & Hp & Hr). pose proof (IHx Bx _ _ _ _ _ D Hp) as (Dp & Ep & Tp).
      apply and_step_in in Hr as [(Fp & _ & ->)|(Fp & Hr)].
      + split; [exact Dp|]. split; [exact Ep|]. cbn [snd]. discriminate.
      + pose proof (IHy By _ _ _ _ _ Dp Hr) as (Dr & Er & Tr). split; [exact Dr|]. split; [intros e A; apply Ep, Er, A|].
        intros Fr e V A. cbn [Spec.isat]. rewrite (Tp Fp e V (Er e A)), (Tr Fr e V A). reflexivity.
    - (* ElseIf *)
      cbn [EvalPure_Facts.basic] in B. apply andb_prop in B as [Bx By]. rewrite evalD_else in H.
      destruct (fst (evalD x (KElseL k y) b true (d_l s))) as [|p0 ls0] eqn:El.
      + cbn [fst] in H. pose proof (IHy By _ _ _ _ _ D H) as (Dr & Er & Tr). split; [exact Dr|]. split; [exact Er|].
        intros Fr e V A. cbn [Spec.isat]. rewrite (Tr Fr e V A). apply orb_true_r.
      + cbn [fst] in H. apply in_smap in H as (p & st' & Hp & Hr). rewrite <- El in Hp.
        pose proof (IHx Bx _ _ _ _ _ D Hp) as (Dp & Ep & Tp).
        apply else_step_in in Hr as [(Fp & ->)|(Fp & Hr)].
        * split; [exact Dp|]. split; [exact Ep|]. intros _ e V A. cbn [Spec.isat]. rewrite (Tp Fp e V A). reflexivity.
        * pose proof (IHy By _ _ _ _ _ Dp Hr) as (Dr & Er & Tr). split; [exact Dr|]. split; [intros e A; apply Ep, Er, A|].
          intros Fr e V A. cbn [Spec.isat]. rewrite (Tr Fr e V A). apply orb_true_r.
    - (* a nested query: its condition's rows, its selection bound *)
      cbn [EvalPure_Facts.basic] in B. apply andb_prop in B as [Bs Bc]. rewrite evalD_sub in H. cbn [fst] in H.
      apply in_flat_map in H as (p & Hp & Hr). apply in_map_iff in Hr as (b2 & <- & H2).
      pose proof (IH Bc _ _ _ _ _ D Hp) as (Dp & Ep & Tp). cbn [fst snd]. split; [|split].
      + eapply (bind_sel_in_dom h dom U); eassumption.
      + intros e A. apply Ep. eapply (bind_sel_ext h dom U); eassumption.
      + intros Fp e V A. cbn [Spec.isat]. apply (Tp Fp e V). eapply (bind_sel_ext h dom U); eassumption.
  Qed.

  Lemma evalDs_ok c : basic c = true -> forall k bs ywf s r, Forall in_dom bs -> In r (fst (evalDs c k bs ywf s)) ->
    exists b, In b bs /\ row_ok c b r.
  Proof.
    intros B k bs ywf s r F H. unfold evalDs in H. apply in_smap in H as (b & s' & Hb & Hr).
    exists b. split; [exact Hb|]. eapply evalD_ok; [exact B | | exact Hr]. rewrite Forall_forall in F. now apply F.
  Qed.

  Lemma evalDs_cons c k b bs ywf s :
    evalDs c k (b :: bs) ywf s = (fst (evalD c k b ywf s) ++ fst (evalDs c k bs ywf (snd (evalD c k b ywf s))),
                                  snd (evalDs c k bs ywf (snd (evalD c k b ywf s)))).
  Proof. unfold evalDs. exact (smap_cons (fun b' s' => evalD c k b' ywf s') b bs s). Qed.

  (* ---------- all activations of a node at once: the left operand's activations first, then the operator's loop over ALL its
     rows (the states of the two operands and of the operator never meet) ---------- *)
  Lemma and_batch x y k ywf : forall bs s,
    fst (evalDs (CAnd x y) k bs ywf s) =
      fst (smap (and_step (req_from k (Some false)) (fun b1 s1 => evalD y (KAndR k) b1 ywf s1) ywf)
                (fst (evalDs x (KAndL k y) bs ywf (d_l s))) (d_sF s, d_r s)).
  Proof.
    set (step := and_step (req_from k (Some false)) (fun b1 s1 => evalD y (KAndR k) b1 ywf s1) ywf).
    assert (G : forall bs s,
      fst (evalDs (CAnd x y) k bs ywf s) = fst (smap step (fst (evalDs x (KAndL k y) bs ywf (d_l s))) (d_sF s, d_r s)) /\
      (d_sF (snd (evalDs (CAnd x y) k bs ywf s)), d_r (snd (evalDs (CAnd x y) k bs ywf s)))
        = snd (smap step (fst (evalDs x (KAndL k y) bs ywf (d_l s))) (d_sF s, d_r s)) /\
      d_l (snd (evalDs (CAnd x y) k bs ywf s)) = snd (evalDs x (KAndL k y) bs ywf (d_l s))).
    { induction bs as [|b bs IH]; intros s.
      - cbn [evalDs smap fst snd]. repeat split; reflexivity.
      - rewrite !evalDs_cons. cbn [fst snd].
        rewrite evalD_and. fold step. cbn [fst snd].
        set (Xb := evalD x (KAndL k y) b ywf (d_l s)).
        set (Lb := smap step (fst Xb) (d_sF s, d_r s)).
        set (s1 := DN (d_sT s) (fst (snd Lb)) (snd Xb) (snd (snd Lb))).
        destruct (IH s1) as (I1 & I2 & I3). cbn [d_l d_sF d_r s1] in I1, I2, I3.
        rewrite smap_app. cbn [fst snd]. fold Lb.
        assert (E : (fst (snd Lb), snd (snd Lb)) = snd Lb) by (destruct (snd Lb); reflexivity).
        rewrite E in I1, I2. rewrite I1, I2, I3. repeat split; reflexivity. }
    intros bs s. apply G.
  Qed.

  Lemma sub_batch sel c' k ywf : forall bs s,
    fst (evalDs (CSub sel c') k bs ywf s) =
      flat_map (fun p : binding * bool => map (fun b' => (b', snd p)) (bind_sel h dom sel (fst p)))
               (fst (evalDs c' (KSub k sel) bs ywf (d_l s))).
  Proof.
    assert (G : forall bs s,
      fst (evalDs (CSub sel c') k bs ywf s) =
        flat_map (fun p : binding * bool => map (fun b' => (b', snd p)) (bind_sel h dom sel (fst p)))
                 (fst (evalDs c' (KSub k sel) bs ywf (d_l s))) /\
      d_l (snd (evalDs (CSub sel c') k bs ywf s)) = snd (evalDs c' (KSub k sel) bs ywf (d_l s))).
    { induction bs as [|b bs IH]; intros s.
      - cbn [evalDs smap fst snd flat_map]. split; reflexivity.
      - rewrite !evalDs_cons. cbn [fst snd]. rewrite evalD_sub. cbn [fst snd].
        set (Xb := evalD c' (KSub k sel) b ywf (d_l s)).
        set (s1 := DN (d_sT s) (d_sF s) (snd Xb) (d_r s)).
        destruct (IH s1) as (I1 & I2). cbn [d_l s1] in I1, I2. rewrite I1, I2, flat_map_app. split; reflexivity. }
    intros bs s. apply G.
  Qed.

  (* the loop of AND over the rows of its left side = a de-duplicating pass over the FALSE left rows (own state) and the right
     operand's activations on the TRUE left rows (its state), interleaved *)
  Definition pass_all (R : list key) := dstep R (fun _ : binding * bool => true) (@fst binding bool).

  Lemma and_step_T R evy b1 sF sr :
    and_step R evy true (b1, true) (sF, sr) = (fst (pass_all R (b1, true) sF), (snd (pass_all R (b1, true) sF), sr)).
  Proof. unfold and_step, pass_all, dstep. cbn [fst snd]. destruct (dup_check R sF b1) as [d sF']. destruct d; reflexivity. Qed.
  Lemma and_step_Tn R evy b1 st : and_step R evy false (b1, true) st = ([], st).
  Proof. reflexivity. Qed.
  Lemma and_step_F R evy ywf b1 sF sr : and_step R evy ywf (b1, false) (sF, sr) = (fst (evy b1 sr), (sF, snd (evy b1 sr))).
  Proof. unfold and_step. cbn [fst snd]. destruct (evy b1 sr); reflexivity. Qed.

  Lemma and_split R evy ywf : forall ls sF sr,
    (forall r, In r (fst (smap (and_step R evy ywf) ls (sF, sr))) <->
       In r (fst (smap (pass_all R) (if ywf then filter (fun p => snd p) ls else []) sF)) \/
       In r (fst (smap evy (map fst (filter (fun p => negb (snd p)) ls)) sr))) /\
    snd (smap (and_step R evy ywf) ls (sF, sr)) =
      (snd (smap (pass_all R) (if ywf then filter (fun p => snd p) ls else []) sF),
       snd (smap evy (map fst (filter (fun p => negb (snd p)) ls)) sr)).
  Proof.
    induction ls as [|[b1 f1] ls IH]; intros sF sr.
    - destruct ywf; cbn [filter map smap fst snd]; (split; [intros r; tauto | reflexivity]).
    - rewrite smap_cons. cbn [filter map fst snd]. destruct f1; cbn [negb].
      + (* a false left row *)
        destruct ywf.
        * rewrite (smap_cons (pass_all R)). rewrite and_step_T. cbn [fst snd].
          destruct (IH (snd (pass_all R (b1, true) sF)) sr) as [I1 I2]. split.
          -- intros r. rewrite !in_app_iff, I1. tauto.
          -- exact I2.
        * rewrite and_step_Tn. cbn [fst snd app]. apply IH.
      + (* a true left row: the right operand *)
        cbn [map]. rewrite (smap_cons evy). rewrite and_step_F. cbn [fst snd].
        destruct (IH sF (snd (evy b1 sr))) as [I1 I2]. split.
        * intros r. rewrite !in_app_iff, I1. tauto.
        * exact I2.
  Qed.

  (* ---------- ElseIf ---------- *)
  (* one activation of ElseIf, given the rows its left side produced for it *)
  Definition else_act (R : list key) (evy : binding -> dst -> list (binding * bool) * dst)
             (g : binding * list (binding * bool)) (st : list binding * dst) : list (binding * bool) * (list binding * dst) :=
    match snd g with
    | [] => (fst (evy (fst g) (snd st)), (fst st, snd (evy (fst g) (snd st))))
    | _ => smap (else_step R evy) (snd g) st
    end.

  Lemma else_act_eq R evy b ls st :
    else_act R evy (b, ls) st =
    match ls with
    | [] => (fst (evy b (snd st)), (fst st, snd (evy b (snd st))))
    | _ => smap (else_step R evy) ls st
    end.
  Proof. reflexivity. Qed.

  Lemma else_batch x y k ywf : forall bs s,
    fst (evalDs (CElseIf x y) k bs ywf s) =
      fst (smap (else_act (req_from k (Some true)) (fun b1 s1 => evalD y (KElseR k) b1 ywf s1))
                (fst (smapg (fun b s' => evalD x (KElseL k y) b true s') bs (d_l s))) (d_sT s, d_r s)).
  Proof.
    set (R := req_from k (Some true)).
    set (evy := fun b1 s1 => evalD y (KElseR k) b1 ywf s1).
    set (evx := fun b s' => evalD x (KElseL k y) b true s').
    assert (G : forall bs s,
      fst (evalDs (CElseIf x y) k bs ywf s) = fst (smap (else_act R evy) (fst (smapg evx bs (d_l s))) (d_sT s, d_r s)) /\
      (d_sT (snd (evalDs (CElseIf x y) k bs ywf s)), d_r (snd (evalDs (CElseIf x y) k bs ywf s)))
        = snd (smap (else_act R evy) (fst (smapg evx bs (d_l s))) (d_sT s, d_r s)) /\
      d_l (snd (evalDs (CElseIf x y) k bs ywf s)) = snd (smapg evx bs (d_l s))).
    { induction bs as [|b bs IH]; intros s.
      - cbn [evalDs smap smapg fst snd]. repeat split; reflexivity.
      - rewrite evalDs_cons, smapg_cons. cbn [fst snd]. rewrite smap_cons. cbn [fst snd].
        rewrite else_act_eq. rewrite evalD_else. fold evy. fold R.
        change (evx b (d_l s)) with (evalD x (KElseL k y) b true (d_l s)).
        set (Xb := evalD x (KElseL k y) b true (d_l s)). cbn [fst snd].
        change (evy b (d_r s)) with (evalD y (KElseR k) b ywf (d_r s)).
        destruct (fst Xb) as [|p0 ls0] eqn:El.
        + cbn [fst snd].
          set (s1 := DN (d_sT s) (d_sF s) (snd Xb) (snd (evalD y (KElseR k) b ywf (d_r s)))).
          destruct (IH s1) as (I1 & I2 & I3). cbn [d_l d_sT d_r s1] in I1, I2, I3.
          rewrite I1, I2, I3. repeat split; reflexivity.
        + cbn [fst snd].
          set (Lb := smap (else_step R evy) (p0 :: ls0) (d_sT s, d_r s)).
          set (s1 := DN (fst (snd Lb)) (d_sF s) (snd Xb) (snd (snd Lb))).
          destruct (IH s1) as (I1 & I2 & I3). cbn [d_l d_sT d_r s1] in I1, I2, I3.
          assert (E : (fst (snd Lb), snd (snd Lb)) = snd Lb) by (destruct (snd Lb); reflexivity).
          rewrite E in I1, I2. rewrite I1, I2, I3. repeat split; reflexivity. }
    intros bs s. apply G.
  Qed.

  (* the activations of the right operand, tagged: true = after a false left row (its TRUE rows go through the duplicate check),
     false = the left side produced nothing at all for this activation (the rows are passed on as they are) *)
  Definition ya (g : binding * list (binding * bool)) : list (binding * bool) :=
    match snd g with
    | [] => [(fst g, false)]
    | ls => map (fun p => (fst p, true)) (filter (fun p => snd p) ls)
    end.
  Definition evyt (evy : binding -> dst -> list (binding * bool) * dst) (a : binding * bool) (s : dst)
    : list ((binding * bool) * bool) * dst :=
    (map (fun q => (q, snd a)) (fst (evy (fst a) s)), snd (evy (fst a) s)).
  Definition post (R : list key) :=
    dstep R (fun qt : (binding * bool) * bool => snd qt && negb (snd (fst qt))) (fun qt => fst (fst qt)).

  Lemma post_tagged_true R : forall rs sT,
    map fst (fst (smap (post R) (map (fun q => (q, true)) rs) sT)) = fst (smap (else_out R) rs sT) /\
    snd (smap (post R) (map (fun q => (q, true)) rs) sT) = snd (smap (else_out R) rs sT).
  Proof.
    induction rs as [|q rs IH]; intros sT; [split; reflexivity|]. cbn [map]. rewrite !smap_cons. cbn [fst snd].
    assert (E : post R (q, true) sT = (map (fun q' => (q', true)) (fst (else_out R q sT)), snd (else_out R q sT))).
    { unfold post, dstep, else_out. cbn [fst snd andb]. destruct (snd q); cbn [negb]; [reflexivity|].
      destruct (dup_check R sT (fst q)) as [d sT']. destruct d; reflexivity. }
    rewrite E. cbn [fst snd]. destruct (IH (snd (else_out R q sT))) as [I1 I2]. split.
    - rewrite map_app, I1, map_map. cbn [fst]. now rewrite map_id.
    - exact I2.
  Qed.
  Lemma post_tagged_false R : forall rs sT,
    smap (post R) (map (fun q => (q, false)) rs) sT = (map (fun q => (q, false)) rs, sT).
  Proof.
    induction rs as [|q rs IH]; intros sT; [reflexivity|]. cbn [map]. rewrite smap_cons.
    assert (E : post R (q, false) sT = ([(q, false)], sT)) by reflexivity. rewrite E. cbn [fst snd]. rewrite IH. reflexivity.
  Qed.

  (* the loop over the rows the left side produced for one activation (any list, the empty one included) *)
  Lemma else_split1 R evy : forall ls sT sr,
    (forall r, In r (fst (smap (else_step R evy) ls (sT, sr))) <->
       In r (map (fun p => (fst p, false)) (filter (fun p => negb (snd p)) ls)) \/
       In r (map fst (fst (smap (post R) (fst (smap (evyt evy) (map (fun p => (fst p, true)) (filter (fun p => snd p) ls)) sr)) sT)))) /\
    snd (smap (else_step R evy) ls (sT, sr)) =
      (snd (smap (post R) (fst (smap (evyt evy) (map (fun p => (fst p, true)) (filter (fun p => snd p) ls)) sr)) sT),
       snd (smap (evyt evy) (map (fun p => (fst p, true)) (filter (fun p => snd p) ls)) sr)).
  Proof.
    induction ls as [|[b1 f1] ls IH]; intros sT sr.
    - cbn [filter map smap fst snd]. split; [intros r; tauto | reflexivity].
    - rewrite smap_cons. cbn [filter map fst snd]. destruct f1; cbn [negb].
      + (* a false left row: the right operand, its true rows checked *)
        cbn [map fst snd]. rewrite (smap_cons (evyt evy)).
        assert (Et : evyt evy (b1, true) sr = (map (fun q => (q, true)) (fst (evy b1 sr)), snd (evy b1 sr))) by reflexivity.
        rewrite Et. cbn [fst snd]. rewrite smap_app. cbn [fst snd].
        assert (E : else_step R evy (b1, true) (sT, sr) =
                    (fst (smap (else_out R) (fst (evy b1 sr)) sT), (snd (smap (else_out R) (fst (evy b1 sr)) sT), snd (evy b1 sr)))).
        { unfold else_step. cbn [fst snd]. destruct (evy b1 sr) as [rs sr']. cbn [fst snd].
          destruct (smap (else_out R) rs sT); reflexivity. }
        rewrite E. cbn [fst snd].
        destruct (post_tagged_true R (fst (evy b1 sr)) sT) as [P1 P2]. rewrite P2.
        destruct (IH (snd (smap (else_out R) (fst (evy b1 sr)) sT)) (snd (evy b1 sr))) as [I1 I2]. split.
        * intros r. rewrite map_app, !in_app_iff, I1, P1. tauto.
        * exact I2.
      + (* a true left row: passed on *)
        assert (E : else_step R evy (b1, false) (sT, sr) = ([(b1, false)], (sT, sr))) by reflexivity.
        rewrite E. cbn [fst snd map]. destruct (IH sT sr) as [I1 I2]. split.
        * intros r. cbn [app In]. rewrite I1. tauto.
        * exact I2.
  Qed.

  Lemma smap_single {A B S} (f : A -> S -> list B * S) a s : smap f [a] s = f a s.
  Proof. cbn [smap]. destruct (f a s) as [o s1]. now rewrite app_nil_r. Qed.

  (* all activations of ElseIf: the left side's TRUE rows are passed on; the right operand runs on the tagged activations,
     and ONE de-duplicating pass (the operator's state) runs over all its rows in order *)
  Lemma else_split R evy : forall G sT sr,
    (forall r, In r (fst (smap (else_act R evy) G (sT, sr))) <->
       In r (flat_map (fun g => map (fun p => (fst p, false)) (filter (fun p => negb (snd p)) (snd g))) G) \/
       In r (map fst (fst (smap (post R) (fst (smap (evyt evy) (flat_map ya G) sr)) sT)))) /\
    snd (smap (else_act R evy) G (sT, sr)) =
      (snd (smap (post R) (fst (smap (evyt evy) (flat_map ya G) sr)) sT), snd (smap (evyt evy) (flat_map ya G) sr)).
  Proof.
    induction G as [|[b ls] G IH]; intros sT sr.
    - cbn [flat_map smap fst snd map]. split; [intros r; tauto | reflexivity].
    - rewrite smap_cons, else_act_eq. cbn [flat_map fst snd]. rewrite (smap_app (evyt evy)). cbn [fst snd].
      rewrite (smap_app (post R)). cbn [fst snd]. destruct ls as [|p ls].
      + (* the left side produced nothing: the right operand on the incoming row, its rows as they are *)
        cbn [filter map app]. change (ya (b, [])) with [(b, false)]. rewrite smap_single.
        assert (Et : evyt evy (b, false) sr = (map (fun q => (q, false)) (fst (evy b sr)), snd (evy b sr))) by reflexivity.
        rewrite Et. cbn [fst snd]. rewrite post_tagged_false. cbn [fst snd].
        destruct (IH sT (snd (evy b sr))) as [I1 I2]. split.
        * intros r. rewrite map_app, !in_app_iff, I1, map_map. cbn [fst]. rewrite map_id. tauto.
        * exact I2.
      + change (ya (b, p :: ls)) with (map (fun p0 : binding * bool => (fst p0, true)) (filter (fun p0 => snd p0) (p :: ls))).
        destruct (else_split1 R evy (p :: ls) sT sr) as [S1 S2]. rewrite S2. cbn [fst snd].
        destruct (IH (snd (smap (post R) (fst (smap (evyt evy) (map (fun p0 : binding * bool => (fst p0, true)) (filter (fun p0 => snd p0) (p :: ls))) sr)) sT))
                     (snd (smap (evyt evy) (map (fun p0 : binding * bool => (fst p0, true)) (filter (fun p0 => snd p0) (p :: ls))) sr))) as [I1 I2].
        split.
        * intros r. rewrite map_app, !in_app_iff, I1, S1. tauto.
        * exact I2.
  Qed.

  Lemma evyt_untag evy : forall acts s,
    map fst (fst (smap (evyt evy) acts s)) = fst (smap evy (map fst acts) s) /\
    snd (smap (evyt evy) acts s) = snd (smap evy (map fst acts) s).
  Proof.
    induction acts as [|a acts IH]; intros s; [split; reflexivity|]. cbn [map]. rewrite !smap_cons. cbn [fst snd].
    assert (Et : evyt evy a s = (map (fun q => (q, snd a)) (fst (evy (fst a) s)), snd (evy (fst a) s))) by reflexivity.
    rewrite Et. cbn [fst snd]. destruct (IH (snd (evy (fst a) s))) as [I1 I2]. split.
    - rewrite map_app, I1, map_map. cbn [fst]. now rewrite map_id.
    - exact I2.
  Qed.
  (* a tagged row carries the tag of the activation that produced it *)
  Lemma evyt_tag evy : forall acts s q t, In (q, t) (fst (smap (evyt evy) acts s)) -> exists a, In a acts /\ snd a = t.
  Proof.
    intros acts s q t H. apply in_smap in H as (a & s' & Ha & Hr). unfold evyt in Hr. cbn [fst] in Hr.
    apply in_map_iff in Hr as (q' & E & _). injection E as _ <-. now exists a.
  Qed.

  (* ---------- the cover theorem ---------- *)
  Definition rq (k : ctx) (f : bool) : list key := req_from k (Some (negb f)).
  Definition target (c : cond) (ywf : bool) (b : binding) (e : env) (f : bool) : Prop :=
    agreesb b e = true /\ valid e /\ f = negb (isat c e) /\ (f = true -> ywf = true).
  Definition covered (k : ctx) (rows : list (binding * bool)) (e : env) (f : bool) : Prop :=
    exists b' e', In (b', f) rows /\ valid e' /\ agreesb b' e' = true /\ agree_on (rq k f) e e'.

  Lemma cover_leaf c k ywf : basic c = true -> is_leaf c = true -> forall bs b e f,
    In b bs -> target c ywf b e f -> covered k (fst (evalDs c k bs ywf DL)) e f.
  Proof.
    intros B L bs b e f Hb (A & V & F & Y). rewrite (evalDs_leaf c k ywf L). cbn [fst].
    destruct (eval_cover h dom U dom_nodup c B b ywf e A V) as [CF CT].
    assert (NZ : cover U f (eval c b ywf) e <> 0).
    { destruct f.
      - rewrite CT, (Y eq_refl). destruct (isat c e); [discriminate F | cbn; discriminate].
      - rewrite CF. destruct (isat c e); [cbn; discriminate | discriminate F]. }
    apply cover_pos in NZ as (b' & Hin & A'). exists b', e. split; [|split; [exact V | split; [exact A' | apply agree_on_refl]]].
    apply in_flat_map. exists b. now split.
  Qed.

  (* what the operands are required to keep apart, from the extracted tables *)
  Lemma rq_andL_false k y : rq (KAndL k y) false = cvars y ++ req_from k None.
  Proof. destruct req_tables as (A1 & A2 & _). unfold rq. cbn [negb req_from]. now rewrite A1, A2. Qed.
  Lemma rq_andL_true k y : rq (KAndL k y) true = cvars y ++ rq k true.
  Proof. destruct req_tables as (A1 & _ & A3 & _). unfold rq. cbn [negb req_from]. now rewrite A1, A3. Qed.
  Lemma rq_andR k f : rq (KAndR k) f = rq k f.
  Proof. destruct req_tables as (_ & _ & _ & A4 & _). unfold rq. cbn [req_from]. rewrite A4. destruct (and_adds_right false _); reflexivity. Qed.
  Lemma rq_elseL_false k y : incl (rq k false) (rq (KElseL k y) false).
  Proof. destruct req_tables as (_ & _ & _ & _ & O1 & _). unfold rq. cbn [negb req_from]. rewrite O1. apply incl_appr, incl_refl. Qed.
  Lemma rq_elseL_true k y : rq (KElseL k y) true = cvars y ++ req_from k None.
  Proof. destruct req_tables as (_ & _ & _ & _ & _ & O2 & O3 & _). unfold rq. cbn [negb req_from]. now rewrite O2, O3. Qed.
  Lemma rq_elseR k f : rq (KElseR k) f = rq k f.
  Proof. destruct req_tables as (_ & _ & _ & _ & _ & _ & _ & O4 & _). unfold rq. cbn [req_from]. now rewrite O4. Qed.
  Lemma rq_sub k sel f : incl (rq k f) (rq (KSub k sel) f).
  Proof. unfold rq. cbn [req_from]. apply incl_appr, incl_refl. Qed.
  Lemma rq_none k f : incl (rq k f) (req_from k None).
  Proof. apply req_from_none. Qed.

  Theorem evalDs_cover c : basic c = true -> forall k bs ywf, Forall in_dom bs ->
    forall b e f, In b bs -> target c ywf b e f -> covered k (fst (evalDs c k bs ywf DL)) e f.
  Proof.
    induction c as [o l r0|t inv|x IHx y IHy|x IHx y IHy|u0 c0 IH|sel c0 IH]; intros B k bs ywf Dbs b e f Hb T;
      try (exact (cover_leaf _ k ywf B eq_refl bs b e f Hb T)); try (cbn [EvalPure_Facts.basic] in B; discriminate B).
    - (* ---------------- AND ---------------- *)
      pose proof B as B'. cbn [EvalPure_Facts.basic] in B'. apply andb_prop in B' as [Bx By].
      destruct T as (A & V & F & Y). cbn [Spec.isat] in F.
      unfold covered. rewrite and_batch. cbn [d_l d_sF d_r].
      set (LS := fst (evalDs x (KAndL k y) bs ywf DL)).
      set (R := req_from k (Some false)).
      set (evy := fun b1 s1 => evalD y (KAndR k) b1 ywf s1).
      destruct (and_split R evy ywf LS [] DL) as [Mem _].
      set (TR := map fst (filter (fun p : binding * bool => negb (snd p)) LS)) in *.
      assert (LSok : forall p, In p LS -> exists b0, In b0 bs /\ row_ok x b0 p).
      { intros p Hp. eapply evalDs_ok; [exact Bx | exact Dbs | exact Hp]. }
      assert (DTR : Forall in_dom TR).
      { apply Forall_forall. intros b1 H1. unfold TR in H1. apply in_map_iff in H1 as (p & <- & Hp). apply filter_In in Hp as [Hp _].
        destruct (LSok p Hp) as (b0 & _ & (Dp & _)). exact Dp. }
      destruct (isat x e) eqn:Sx.
      + (* the left operand holds: the right operand decides *)
        cbn [andb] in F.
        destruct (IHx Bx (KAndL k y) bs ywf Dbs b e false Hb) as (b1 & e1 & H1 & V1 & A1 & G1).
        { repeat split; try assumption; [now rewrite Sx | discriminate]. }
        fold LS in H1. rewrite rq_andL_false in G1.
        assert (Sy : isat y e1 = isat y e).
        { symmetry. apply (isat_agree_on y (cvars y ++ req_from k None)); [exact By | apply incl_appl, incl_refl | exact G1]. }
        assert (HT : In b1 TR) by (unfold TR; apply in_map_iff; exists (b1, false); split; [reflexivity | apply filter_In; now split]).
        destruct (IHy By (KAndR k) TR ywf DTR b1 e1 f HT) as (b2 & e2 & H2 & V2 & A2 & G2).
        { repeat split; try assumption. now rewrite Sy. }
        rewrite rq_andR in G2. exists b2, e2. split; [|split; [exact V2 | split; [exact A2|]]].
        * apply Mem. right. exact H2.
        * eapply agree_on_trans; [|exact G2]. eapply agree_on_incl; [|exact G1]. apply incl_appr, rq_none.
      + (* the left operand fails: its false row, unless an earlier one stands for it *)
        cbn [andb negb] in F. subst f. pose proof (Y eq_refl) as ->.
        destruct (IHx Bx (KAndL k y) bs true Dbs b e true Hb) as (b1 & e1 & H1 & V1 & A1 & G1).
        { repeat split; try assumption. now rewrite Sx. }
        fold LS in H1. rewrite rq_andL_true in G1.
        assert (HF : In (b1, true) (filter (fun p : binding * bool => snd p) LS)) by (apply filter_In; now split).
        destruct (dstep_cover R (fun _ : binding * bool => true) (@fst binding bool)
                    (filter (fun p : binding * bool => snd p) LS) [] []) as (_ & C2 & C3); [intros c0 []|].
        destruct (C2 (b1, true) HF eq_refl) as (a0 & [[]|H0] & _ & D0).
        assert (H0' : In a0 (filter (fun p : binding * bool => snd p) LS)) by (apply C3; exact H0).
        apply filter_In in H0' as [H0l H0f]. destruct a0 as [b0 f0]. cbn [snd] in H0f. subst f0.
        assert (Hout : In (b0, true) (fst (smap (and_step R evy true) LS ([], DL)))) by (apply Mem; left; exact H0).
        destruct D0 as [E0|S0].
        * injection E0 as ->. exists b1, e1. split; [exact Hout|]. split; [exact V1|]. split; [exact A1|].
          eapply agree_on_incl; [|exact G1]. apply incl_appr, incl_refl.
        * cbn [fst] in S0. destruct (LSok _ H0l) as (b00 & _ & (D0 & _)). cbn [fst] in D0.
          exists b0, (over b0 e1). split; [exact Hout|]. split; [now apply over_valid|]. split; [apply over_agrees|].
          eapply agree_on_trans; [eapply agree_on_incl; [|exact G1]; apply incl_appr, incl_refl|].
          apply agree_on_sym. apply (dup_over R b0 b1 e1 S0 A1).
    - (* ---------------- ElseIf ---------------- *)
      pose proof B as B'. cbn [EvalPure_Facts.basic] in B'. apply andb_prop in B' as [Bx By].
      destruct T as (A & V & F & Y). cbn [Spec.isat] in F.
      unfold covered. rewrite else_batch. cbn [d_l d_sT d_r].
      set (R := req_from k (Some true)).
      set (evy := fun b1 s1 => evalD y (KElseR k) b1 ywf s1).
      set (evx := fun b0 s' => evalD x (KElseL k y) b0 true s').
      set (G := fst (smapg evx bs DL)).
      destruct (else_split R evy G [] DL) as [Mem _].
      (* the flat list of the left side's rows *)
      assert (LSG : fst (evalDs x (KElseL k y) bs true DL) = flat_map snd G).
      { unfold evalDs. change (fun b0 s' => evalD x (KElseL k y) b0 true s') with evx. now rewrite smap_smapg. }
      assert (Gok : forall g, In g G -> In (fst g) bs /\ forall p, In p (snd g) -> row_ok x (fst g) p).
      { intros g Hg. apply in_smapg in Hg as (s' & Hl & Hs). split; [exact Hl|]. intros p Hp. rewrite Hs in Hp.
        eapply evalD_ok; [exact Bx | | exact Hp]. rewrite Forall_forall in Dbs. now apply Dbs. }
      set (acts := flat_map ya G) in *.
      assert (Dacts : Forall in_dom (map fst acts)).
      { apply Forall_forall. intros b1 H1. apply in_map_iff in H1 as (a & <- & Ha). unfold acts in Ha.
        apply in_flat_map in Ha as (g & Hg & Ha). destruct (Gok g Hg) as [Gb Gr]. unfold ya in Ha. destruct (snd g) as [|p ls] eqn:Eg.
        - destruct Ha as [<-|[]]. cbn [fst]. rewrite Forall_forall in Dbs. now apply Dbs.
        - apply in_map_iff in Ha as (p' & <- & Hp'). apply filter_In in Hp' as [Hp' _]. cbn [fst]. apply (Gr p' Hp'). }
      destruct (evyt_untag evy acts DL) as [UT _].
      set (Yt := fst (smap (evyt evy) acts DL)) in *.
      assert (Yrows : fst (evalDs y (KElseR k) (map fst acts) ywf DL) = map fst Yt) by (symmetry; exact UT).
      destruct (isat x e) eqn:Sx.
      + (* the left operand holds: its true row is passed on *)
        cbn [orb negb] in F. subst f.
        destruct (IHx Bx (KElseL k y) bs true Dbs b e false Hb) as (b1 & e1 & H1 & V1 & A1 & G1).
        { repeat split; try assumption. now rewrite Sx. }
        rewrite LSG in H1. apply in_flat_map in H1 as (g & Hg & H1).
        exists b1, e1. split; [|split; [exact V1 | split; [exact A1|]]].
        * apply Mem. left. apply in_flat_map. exists g. split; [exact Hg|]. apply in_map_iff. exists (b1, false).
          split; [reflexivity | apply filter_In; now split].
        * eapply agree_on_incl; [|exact G1]. apply rq_elseL_false.
      + (* the left operand fails: the right operand decides, on the false row of the left one *)
        cbn [orb] in F.
        destruct (IHx Bx (KElseL k y) bs true Dbs b e true Hb) as (b1 & e1 & H1 & V1 & A1 & G1).
        { repeat split; try assumption. now rewrite Sx. }
        rewrite rq_elseL_true in G1. rewrite LSG in H1. apply in_flat_map in H1 as (g & Hg & H1).
        assert (Sy : isat y e1 = isat y e).
        { symmetry. apply (isat_agree_on y (cvars y ++ req_from k None)); [exact By | apply incl_appl, incl_refl | exact G1]. }
        assert (Ha : In (b1, true) acts).
        { unfold acts. apply in_flat_map. exists g. split; [exact Hg|]. unfold ya. destruct (snd g) as [|p ls] eqn:Eg; [destruct H1|].
          apply in_map_iff. exists (b1, true). split; [reflexivity | apply filter_In; now split]. }
        assert (Hb1 : In b1 (map fst acts)) by (apply in_map_iff; exists (b1, true); now split).
        destruct (IHy By (KElseR k) (map fst acts) ywf Dacts b1 e1 f Hb1) as (b2 & e2 & H2 & V2 & A2 & G2).
        { repeat split; try assumption. now rewrite Sy. }
        rewrite rq_elseR in G2. rewrite Yrows in H2. apply in_map_iff in H2 as ([q tg] & Eq & H2). cbn [fst] in Eq. subst q.
        assert (Gee : agree_on (rq k f) e e2).
        { eapply agree_on_trans; [|exact G2]. eapply agree_on_incl; [|exact G1]. apply incl_appr, rq_none. }
        destruct (dstep_cover R (fun qt : (binding * bool) * bool => snd qt && negb (snd (fst qt))) (fun qt => fst (fst qt)) Yt [] [])
          as (C1 & C2 & C3); [intros c0 []|]. fold (post R) in C1, C2, C3.
        destruct (tg && negb f) eqn:Must.
        * (* a true row after a false left row: through the duplicate check *)
          destruct (C2 ((b2, f), tg) H2 Must) as (a0 & [[]|H0] & M0 & D0).
          destruct a0 as [[b0 f0] t0]. cbn [fst snd] in M0, D0. apply andb_prop in M0 as [-> M0].
          apply andb_prop in Must as [-> Mf]. destruct f0; [discriminate M0|]. destruct f; [discriminate Mf|].
          assert (Hout : In (b0, false) (fst (smap (else_act R evy) G ([], DL)))).
          { apply Mem. right. apply in_map_iff. exists ((b0, false), true). now split. }
          destruct D0 as [E0|S0].
          -- injection E0 as ->. exists b2, e2. now repeat split.
          -- assert (D0 : in_dom b0).
             { assert (Hy : In (b0, false) (fst (evalDs y (KElseR k) (map fst acts) ywf DL))).
               { rewrite Yrows. apply in_map_iff. exists ((b0, false), true). split; [reflexivity | apply C3; exact H0]. }
               destruct (evalDs_ok y By _ _ _ _ _ Dacts Hy) as (b00 & _ & (D0 & _)). exact D0. }
             exists b0, (over b0 e2). split; [exact Hout|]. split; [now apply over_valid|]. split; [apply over_agrees|].
             eapply agree_on_trans; [exact Gee|]. apply agree_on_sym. apply (dup_over R b0 b2 e2 S0 A2).
        * (* a false row, or a row of an activation for which the left side produced nothing: passed on *)
          exists b2, e2. split; [|split; [exact V2 | split; [exact A2 | exact Gee]]].
          apply Mem. right. apply in_map_iff. exists ((b2, f), tg). split; [reflexivity|]. apply C1; [exact H2 | exact Must].
    - (* ---------------- a nested query in condition position ---------------- *)
      pose proof B as B'. cbn [EvalPure_Facts.basic] in B'. apply andb_prop in B' as [Bs Bc].
      destruct T as (A & V & F & Y). cbn [Spec.isat] in F.
      destruct (IH Bc (KSub k sel) bs ywf Dbs b e f Hb) as (b1 & e1 & H1 & V1 & A1 & G1); [now repeat split|].
      unfold covered. rewrite sub_batch. cbn [d_l].
      pose proof (bind_sel_cover h dom U dom_nodup sel Bs b1 e1 A1 V1) as N.
      destruct (filter (fun b2 => agreesb b2 e1) (bind_sel h dom sel b1)) as [|b2 l] eqn:E; [discriminate|].
      assert (H2 : In b2 (filter (fun b2 => agreesb b2 e1) (bind_sel h dom sel b1))) by (rewrite E; now left).
      apply filter_In in H2 as [H2 A2]. exists b2, e1. split; [|split; [exact V1 | split; [exact A2|]]].
      + apply in_flat_map. exists (b1, f). split; [exact H1|]. apply in_map_iff. exists b2. now split.
      + eapply agree_on_incl; [|exact G1]. apply rq_sub.
  Qed.

  (* ---------- the query: the conditions root is activated once, on the empty row ---------- *)
  Lemma root_cover c R e : basic c = true -> valid e -> isat c e = true ->
    exists b' e', In (b', false) (fst (evalD c (KTop R) [] false DL)) /\ valid e' /\ agreesb b' e' = true /\ agree_on R e e'.
  Proof.
    intros B V S.
    assert (D0 : Forall in_dom [[] : binding]) by (constructor; [intros x v L; discriminate | constructor]).
    destruct (evalDs_cover c B (KTop R) [[]] false D0 [] e false (or_introl eq_refl)) as (b' & e' & H & V' & A' & G').
    { repeat split; [apply agrees_nil | exact V | now rewrite S | discriminate]. }
    unfold evalDs in H. rewrite smap_single in H. exists b', e'. now repeat split.
  Qed.

  Definition rowsD (sel : list term) (c : cond) : list binding :=
    map fst (filter (fun p : binding * bool => negb (snd p)) (fst (evalD c (KTop (req_top sel)) [] false DL))).

  Lemma run_queryD_eq sel c :
    run_queryD h dom sel (Some c) = map (row_of h dom sel) (flat_map (bind_sel h dom sel) (rowsD sel c)).
  Proof.
    unfold run_queryD, rowsD. rewrite <- flat_map_map_comm. apply flat_map_ext. intros b. now rewrite bind_selected_eq.
  Qed.

  Lemma vars_tclosed xs : (forall x, In x xs -> In x U) -> forallb tclosed (map TVar xs) = true.
  Proof.
    intros HU. apply forallb_forall. intros t Ht. apply in_map_iff in Ht as (x & <- & Hx). unfold EvalPure_Facts.tclosed. cbn.
    rewrite andb_true_r. now apply (inU U), HU.
  Qed.
  Lemma req_top_vars xs : incl xs (req_top (map TVar xs)).
  Proof.
    intros x Hx. unfold req_top. apply in_flat_map. exists (TVar x). split; [now apply in_map|]. cbn. now left.
  Qed.

  (* COMPLETENESS with the de-duplication of rows in place: the projection of every satisfying assignment is returned *)
  Theorem dedup_complete xs c e : basic c = true -> (forall x, In x xs -> In x U) -> valid e -> isat c e = true ->
    In (map e xs) (run_queryD h dom (map TVar xs) (Some c)).
  Proof.
    intros B HU V S. rewrite run_queryD_eq.
    destruct (root_cover c (req_top (map TVar xs)) e B V S) as (b' & e' & H & V' & A' & G').
    pose proof (vars_tclosed xs HU) as C.
    pose proof (bind_sel_cover h dom U dom_nodup (map TVar xs) C b' e' A' V') as N.
    destruct (filter (fun b2 => agreesb b2 e') (bind_sel h dom (map TVar xs) b')) as [|b2 l] eqn:E; [discriminate|].
    assert (H2 : In b2 (filter (fun b2 => agreesb b2 e') (bind_sel h dom (map TVar xs) b'))) by (rewrite E; now left).
    apply filter_In in H2 as [H2 A2]. apply in_map_iff. exists b2. split.
    - destruct (bind_sel_vars_bound h dom xs b' b2 H2) as [_ Q]. rewrite (row_of_vars h dom) by exact Q.
      rewrite (row_agrees U xs b2 e' HU Q A2). apply map_ext_in. intros x Hx. symmetry. apply G'; [now apply req_top_vars | now apply HU].
    - apply in_flat_map. exists b'. split; [|exact H2]. unfold rowsD. apply in_map_iff. exists (b', false). split; [reflexivity|].
      apply filter_In. now split.
  Qed.

  (* SOUNDNESS: every returned row is the projection of a satisfying assignment of the whole product *)
  Theorem dedup_sound xs c r : basic c = true -> (forall x, In x xs -> In x U) -> (forall x, In x U -> dom x <> []) ->
    In r (run_queryD h dom (map TVar xs) (Some c)) ->
    exists e, valid e /\ isat c e = true /\ r = map e xs.
  Proof.
    intros B HU NE H. rewrite run_queryD_eq in H. apply in_map_iff in H as (b2 & <- & H2).
    apply in_flat_map in H2 as (b' & Hb' & H2). unfold rowsD in Hb'. apply in_map_iff in Hb' as ([b0 f0] & E0 & Hb').
    cbn [fst] in E0. subst b0. apply filter_In in Hb' as [Hb' F0]. cbn [snd] in F0. destruct f0; [discriminate|].
    assert (D0 : in_dom ([] : binding)) by (intros x v L; discriminate).
    destruct (evalD_ok c B _ _ _ _ _ D0 Hb') as (Db' & _ & Tb'). cbn [fst snd] in Db', Tb'.
    pose proof (vars_tclosed xs HU) as C.
    pose proof (bind_sel_in_dom h dom U _ C b' b2 Db' H2) as D2.
    set (e := fun x => match lookup b2 x with Some v => v | None => hd (VA ANone) (dom x) end).
    assert (V : valid e).
    { intros x Hx. unfold e. destruct (lookup b2 x) eqn:L; [now apply D2|].
      specialize (NE x Hx). destruct (dom x); [congruence | now left]. }
    assert (A : agreesb b2 e = true).
    { unfold EvalPure_Facts.agreesb. apply forallb_forall. intros x Hx. unfold e. destruct (lookup b2 x); [apply val_eqb_refl | reflexivity]. }
    exists e. split; [exact V|]. split.
    - apply (Tb' eq_refl e V). eapply (bind_sel_ext h dom U); eassumption.
    - destruct (bind_sel_vars_bound h dom xs b' b2 H2) as [_ Q]. rewrite (row_of_vars h dom) by exact Q. now apply (row_agrees U).
  Qed.

  (* ================================================================================================================
     EVERY VARIABLE SELECTED: nothing is ever dropped - the de-duplicating evaluator IS the P-model, row for row.
     (The rows a node emits are pairwise disjoint - no assignment agrees with two of them -, and with every variable required
     a recorded row can only swallow a row that extends it.)  State invariant: every recorded entry is INCOMPATIBLE with the
     activation at hand. *)
  Hypothesis dom_nonempty : forall x, In x U -> dom x <> [].

  Fixpoint entries (s : dst) : list binding :=
    match s with DL => [] | DN a b l r => a ++ b ++ entries l ++ entries r end.
  Definition Incomp (c b : binding) : Prop := forall e, valid e -> agreesb c e = true -> agreesb b e = true -> False.
  Definition Ext (c b : binding) : Prop := forall e, agreesb c e = true -> agreesb b e = true.
  Definition Fresh (s : dst) (b : binding) : Prop := forall c, In c (entries s) -> Incomp c b.

  Fixpoint top_of (k : ctx) : list key :=
    match k with
    | KTop R => R
    | KAndL k' _ | KAndR k' | KElseL k' _ | KElseR k' | KSub k' _ => top_of k'
    | KForAll k' c => cvars c ++ top_of k'       (* (Generated.forall_adds_condition_variables) *)
    end.
  Lemma req_from_top k : forall t, incl (top_of k) (req_from k t).
  Proof.
    induction k as [R|k IH y|k IH|k IH y|k IH|k IH sel|k IH c0]; intros t; cbn [req_from top_of]; try apply incl_refl; try (apply incl_appr, IH).
    - apply IH.
    - assert (E : forall_adds_condition_variables = true) by reflexivity. rewrite E.
      apply incl_app; [apply incl_appl, incl_refl | apply incl_appr, IH].
  Qed.

  Lemma exists_valid_ext b : in_dom b -> exists e, valid e /\ agreesb b e = true.
  Proof.
    intros D. set (e0 := fun x => hd (VA ANone) (dom x)).
    assert (V0 : valid e0). { intros x Hx. unfold e0. specialize (dom_nonempty x Hx). destruct (dom x); [congruence | now left]. }
    exists (over b e0). split; [now apply over_valid | apply over_agrees].
  Qed.

  Lemma restr_ext R b : incl U R -> Ext (restr R b) b.
  Proof.
    intros I e A. unfold EvalPure_Facts.agreesb in *. rewrite forallb_forall in *. intros x Hx. specialize (A x Hx).
    rewrite lookup_restr in A.
    assert (M : existsb (Nat.eqb x) R = true) by (apply existsb_exists; exists x; split; [now apply I | apply Nat.eqb_refl]).
    now rewrite M in A.
  Qed.

  Lemma sub_agrees c R b e : sub c (restr R b) = true -> agreesb b e = true -> agreesb c e = true.
  Proof.
    intros S A. unfold EvalPure_Facts.agreesb. apply forallb_forall. intros x Hx. destruct (lookup c x) as [v|] eqn:L; [|reflexivity].
    pose proof (sub_lookup _ _ _ _ S L) as L1. rewrite lookup_restr in L1. destruct (existsb (Nat.eqb x) R); [|discriminate].
    rewrite (agrees_lookup U b e x v A Hx L1). apply val_eqb_refl.
  Qed.

  (* a row incompatible with everything recorded is never a duplicate *)
  Lemma dup_check_fresh R seen b : in_dom b -> (forall c, In c seen -> Incomp c b) ->
    fst (dup_check R seen b) = false /\ (snd (dup_check R seen b) = seen \/ snd (dup_check R seen b) = seen ++ [restr R b]).
  Proof.
    intros D F. unfold dup_check. destruct (restr R b) as [|kv ro] eqn:Er; [split; [reflexivity | now left]|]. rewrite <- Er.
    destruct (existsb (fun c => sub c (restr R b)) seen) eqn:Ex.
    - exfalso. apply existsb_exists in Ex as (c & Hc & S). destruct (exists_valid_ext b D) as (e & V & A).
      exact (F c Hc e V (sub_agrees c R b e S A) A).
    - split; [reflexivity | now right].
  Qed.

  Lemma incomp_ext c b b' : Incomp c b -> Ext b' b -> Incomp c b'.
  Proof. intros I E e V Ac Ab. exact (I e V Ac (E e Ab)). Qed.
  Lemma ext_disj_incomp c p q : Ext c p -> (forall e, valid e -> agreesb p e = true -> agreesb q e = true -> False) -> Incomp c q.
  Proof. intros E D e V Ac Aq. exact (D e V (E e Ac) Aq). Qed.
  Lemma ext_trans a b c : Ext a b -> Ext b c -> Ext a c.
  Proof. intros H1 H2 e A. now apply H2, H1. Qed.

  (* the rows of one activation of the P-model are pairwise disjoint *)
  Definition Disj (p q : binding * bool) : Prop := forall e, valid e -> agreesb (fst p) e = true -> agreesb (fst q) e = true -> False.
  Lemma at_most_one_disjoint (l : list (binding * bool)) :
    (forall e, valid e -> length (filter (fun r => agreesb (fst r) e) l) <= 1) -> ForallOrdPairs Disj l.
  Proof.
    induction l as [|p l IH]; intros H; [constructor|]. constructor.
    - apply Forall_forall. intros q Hq e V Ap Aq. specialize (H e V). cbn [filter] in H. rewrite Ap in H. cbn [length] in H.
      assert (Hin : In q (filter (fun r => agreesb (fst r) e) l)) by (apply filter_In; now split).
      destruct (filter (fun r => agreesb (fst r) e) l); [destruct Hin | cbn [length] in H; lia].
    - apply IH. intros e V. specialize (H e V). cbn [filter] in H. destruct (agreesb (fst p) e); cbn [length] in H; lia.
  Qed.
  Lemma eval_disjoint c b ywf : basic c = true -> ForallOrdPairs Disj (eval c b ywf).
  Proof.
    intros B. apply at_most_one_disjoint. intros e V. destruct (agreesb b e) eqn:A.
    - destruct (eval_cover h dom U dom_nodup c B b ywf e A V) as [CF CT]. unfold cover in CF, CT.
      assert (E : length (filter (fun r => agreesb (fst r) e) (eval c b ywf)) =
                  length (filter (fun r => Bool.eqb (snd r) false && agreesb (fst r) e) (eval c b ywf)) +
                  length (filter (fun r => Bool.eqb (snd r) true && agreesb (fst r) e) (eval c b ywf))).
      { apply filter_flag_split. }
      rewrite E, CF, CT. destruct (isat c e), ywf; cbn; lia.
    - rewrite filter_all_false; [cbn; lia|]. intros [b1 f1] H1. cbn [fst]. destruct (agreesb b1 e) eqn:A1; [|reflexivity].
      rewrite (eval_ext h dom U c B b ywf b1 f1 e H1 A1) in A. discriminate.
  Qed.

  Lemma entries_parts s : incl (d_sT s ++ d_sF s ++ entries (d_l s) ++ entries (d_r s)) (entries s).
  Proof. destruct s; cbn [d_sT d_sF d_l d_r entries app]; apply incl_refl. Qed.

  (* what one activation of an operand is assumed to do (the induction hypothesis, for the operand [y]) *)
  Definition operand_ok (y : cond) (ky : ctx) (ywf : bool) : Prop :=
    forall b1 sr, in_dom b1 -> Fresh sr b1 ->
      fst (evalD y ky b1 ywf sr) = eval y b1 ywf /\
      (forall c, In c (entries (snd (evalD y ky b1 ywf sr))) -> In c (entries sr) \/ Ext c b1).

  Lemma disj_head (p : binding * bool) l : ForallOrdPairs Disj (p :: l) -> Forall (Disj p) l /\ ForallOrdPairs Disj l.
  Proof. intros H. inversion H; subst. now split. Qed.

  (* ---- the loop of AND ---- *)
  Lemma and_loop_nodup R y ky ywf : incl U R -> basic y = true -> operand_ok y ky ywf ->
    forall ls sF sr, ForallOrdPairs Disj ls -> (forall p, In p ls -> in_dom (fst p)) ->
      (forall c, In c (sF ++ entries sr) -> forall p, In p ls -> Incomp c (fst p)) ->
      fst (smap (and_step R (fun b1 s1 => evalD y ky b1 ywf s1) ywf) ls (sF, sr)) =
        flat_map (fun p : binding * bool => if snd p then (if ywf then [(fst p, true)] else []) else eval y (fst p) ywf) ls /\
      (forall c, In c (fst (snd (smap (and_step R (fun b1 s1 => evalD y ky b1 ywf s1) ywf) ls (sF, sr))) ++
                       entries (snd (snd (smap (and_step R (fun b1 s1 => evalD y ky b1 ywf s1) ywf) ls (sF, sr))))) ->
         In c (sF ++ entries sr) \/ exists p, In p ls /\ Ext c (fst p)).
  Proof.
    intros IU By Hy. induction ls as [|[b1 f1] ls IH]; intros sF sr HD Hdom HF.
    - cbn [smap fst snd flat_map]. split; [reflexivity | intros c Hc; now left].
    - rewrite smap_cons. cbn [flat_map fst snd]. destruct (disj_head _ _ HD) as [Hh Ht]. rewrite Forall_forall in Hh.
      assert (Db1 : in_dom b1) by (apply (Hdom (b1, f1)); now left).
      destruct f1.
      + (* a false left row: the duplicate check finds nothing *)
        destruct ywf.
        * rewrite and_step_T. cbn [fst snd]. unfold pass_all, dstep. cbn [fst snd].
          destruct (dup_check_fresh R sF b1 Db1) as [Dn Ds].
          { intros c Hc. apply (HF c (in_or_app _ _ _ (or_introl Hc)) (b1, true)). now left. }
          destruct (dup_check R sF b1) as [d sF']. cbn [fst snd] in Dn, Ds. subst d. cbn [fst snd].
          destruct (IH sF' sr Ht (fun p Hp => Hdom p (or_intror Hp))) as [I1 I2].
          { intros c Hc p Hp. apply in_app_or in Hc as [Hc|Hc].
            - destruct Ds as [->| ->]; [apply (HF c (in_or_app _ _ _ (or_introl Hc)) p (or_intror Hp))|].
              apply in_app_or in Hc as [Hc|[<-|[]]]; [apply (HF c (in_or_app _ _ _ (or_introl Hc)) p (or_intror Hp))|].
              apply (ext_disj_incomp _ b1 (fst p) (restr_ext R b1 IU)). intros e V A1 A2. exact (Hh p Hp e V A1 A2).
            - apply (HF c (in_or_app _ _ _ (or_intror Hc)) p (or_intror Hp)). }
          split; [cbn [app]; now rewrite I1|].
          intros c Hc. destruct (I2 c Hc) as [Hc'|(p & Hp & Ep)]; [|right; exists p; split; [now right | exact Ep]].
          apply in_app_or in Hc' as [Hc'|Hc']; [|left; apply in_or_app; now right].
          destruct Ds as [->| ->]; [left; apply in_or_app; now left|].
          apply in_app_or in Hc' as [Hc'|[<-|[]]]; [left; apply in_or_app; now left|].
          right. exists (b1, true). split; [now left | apply (restr_ext R b1 IU)].
        * rewrite and_step_Tn. cbn [fst snd app].
          destruct (IH sF sr Ht (fun p Hp => Hdom p (or_intror Hp)) (fun c Hc p Hp => HF c Hc p (or_intror Hp))) as [I1 I2].
          split; [exact I1|]. intros c Hc. destruct (I2 c Hc) as [Hc'|(p & Hp & Ep)]; [now left | right; exists p; split; [now right | exact Ep]].
      + (* a true left row: the right operand, from a state in which nothing recorded is compatible with the row *)
        rewrite and_step_F. cbn [fst snd].
        destruct (Hy b1 sr Db1) as [Y1 Y2].
        { intros c Hc. apply (HF c (in_or_app _ _ _ (or_intror Hc)) (b1, false)). now left. }
        rewrite Y1.
        destruct (IH sF (snd (evalD y ky b1 ywf sr)) Ht (fun p Hp => Hdom p (or_intror Hp))) as [I1 I2].
        { intros c Hc p Hp. apply in_app_or in Hc as [Hc|Hc]; [apply (HF c (in_or_app _ _ _ (or_introl Hc)) p (or_intror Hp))|].
          destruct (Y2 c Hc) as [Hc'|Ec]; [apply (HF c (in_or_app _ _ _ (or_intror Hc')) p (or_intror Hp))|].
          apply (ext_disj_incomp _ b1 (fst p) Ec). intros e V A1 A2. exact (Hh p Hp e V A1 A2). }
        split; [now rewrite I1|].
        intros c Hc. destruct (I2 c Hc) as [Hc'|(p & Hp & Ep)]; [|right; exists p; split; [now right | exact Ep]].
        apply in_app_or in Hc' as [Hc'|Hc']; [left; apply in_or_app; now left|].
        destruct (Y2 c Hc') as [Hc''|Ec]; [left; apply in_or_app; now right | right; exists (b1, false); split; [now left | exact Ec]].
  Qed.

  (* ---- ElseIf: the duplicate check on the TRUE rows of the right side finds nothing ---- *)
  Lemma else_out_nodup R : incl U R -> forall rs sT, ForallOrdPairs Disj rs -> (forall q, In q rs -> in_dom (fst q)) ->
    (forall c, In c sT -> forall q, In q rs -> Incomp c (fst q)) ->
    fst (smap (else_out R) rs sT) = rs /\
    (forall c, In c (snd (smap (else_out R) rs sT)) -> In c sT \/ exists q, In q rs /\ Ext c (fst q)).
  Proof.
    intros IU. induction rs as [|[b2 f2] rs IH]; intros sT HD Hdom HF.
    - cbn [smap fst snd]. split; [reflexivity | intros c Hc; now left].
    - rewrite smap_cons. destruct (disj_head _ _ HD) as [Hh Ht]. rewrite Forall_forall in Hh.
      assert (Db2 : in_dom b2) by (apply (Hdom (b2, f2)); now left).
      destruct f2.
      + assert (E : else_out R (b2, true) sT = ([(b2, true)], sT)) by reflexivity. rewrite E. clear E.
        cbn [fst snd]. destruct (IH sT Ht (fun q Hq => Hdom q (or_intror Hq)) (fun c Hc q Hq => HF c Hc q (or_intror Hq))) as [I1 I2].
        split; [cbn [app]; now rewrite I1|]. intros c Hc. destruct (I2 c Hc) as [Hc'|(q & Hq & Eq)]; [now left | right; exists q; split; [now right | exact Eq]].
      + assert (E : else_out R (b2, false) sT = ((if fst (dup_check R sT b2) then [] else [(b2, false)]), snd (dup_check R sT b2))).
        { unfold else_out. cbn [fst snd]. destruct (dup_check R sT b2) as [d sT']. destruct d; reflexivity. }
        rewrite E. clear E.
        destruct (dup_check_fresh R sT b2 Db2) as [Dn Ds]; [intros c Hc; apply (HF c Hc (b2, false)); now left|].
        destruct (dup_check R sT b2) as [d sT']. cbn [fst snd] in Dn, Ds. subst d. cbn [fst snd].
        destruct (IH sT' Ht (fun q Hq => Hdom q (or_intror Hq))) as [I1 I2].
        { intros c Hc q Hq. destruct Ds as [->| ->]; [apply (HF c Hc q (or_intror Hq))|].
          apply in_app_or in Hc as [Hc|[<-|[]]]; [apply (HF c Hc q (or_intror Hq))|].
          apply (ext_disj_incomp _ b2 (fst q) (restr_ext R b2 IU)). intros e V A1 A2. exact (Hh q Hq e V A1 A2). }
        split; [cbn [app]; now rewrite I1|].
        intros c Hc. destruct (I2 c Hc) as [Hc'|(q & Hq & Eq)]; [|right; exists q; split; [now right | exact Eq]].
        destruct Ds as [->| ->]; [now left|]. apply in_app_or in Hc' as [Hc'|[<-|[]]]; [now left|].
        right. exists (b2, false). split; [now left | apply (restr_ext R b2 IU)].
  Qed.

  Lemma else_loop_nodup R y ky ywf : incl U R -> basic y = true -> operand_ok y ky ywf ->
    forall ls sT sr, ForallOrdPairs Disj ls -> (forall p, In p ls -> in_dom (fst p)) ->
      (forall c, In c (sT ++ entries sr) -> forall p, In p ls -> Incomp c (fst p)) ->
      fst (smap (else_step R (fun b1 s1 => evalD y ky b1 ywf s1)) ls (sT, sr)) =
        flat_map (fun p : binding * bool => if snd p then eval y (fst p) ywf else [(fst p, false)]) ls /\
      (forall c, In c (fst (snd (smap (else_step R (fun b1 s1 => evalD y ky b1 ywf s1)) ls (sT, sr))) ++
                       entries (snd (snd (smap (else_step R (fun b1 s1 => evalD y ky b1 ywf s1)) ls (sT, sr))))) ->
         In c (sT ++ entries sr) \/ exists p, In p ls /\ Ext c (fst p)).
  Proof.
    intros IU By Hy. induction ls as [|[b1 f1] ls IH]; intros sT sr HD Hdom HF.
    - cbn [smap fst snd flat_map]. split; [reflexivity | intros c Hc; now left].
    - rewrite smap_cons. cbn [flat_map fst snd]. destruct (disj_head _ _ HD) as [Hh Ht]. rewrite Forall_forall in Hh.
      assert (Db1 : in_dom b1) by (apply (Hdom (b1, f1)); now left).
      destruct f1.
      + (* a false left row: the right operand, then the duplicate check on its true rows *)
        assert (E : else_step R (fun b0 s1 => evalD y ky b0 ywf s1) (b1, true) (sT, sr) =
                    (fst (smap (else_out R) (fst (evalD y ky b1 ywf sr)) sT),
                     (snd (smap (else_out R) (fst (evalD y ky b1 ywf sr)) sT), snd (evalD y ky b1 ywf sr)))).
        { unfold else_step. cbn [fst snd]. destruct (evalD y ky b1 ywf sr) as [rs sr']. cbn [fst snd].
          destruct (smap (else_out R) rs sT); reflexivity. }
        rewrite E. cbn [fst snd]. clear E.
        destruct (Hy b1 sr Db1) as [Y1 Y2].
        { intros c Hc. apply (HF c (in_or_app _ _ _ (or_intror Hc)) (b1, true)). now left. }
        rewrite Y1.
        assert (RowExt : forall q, In q (eval y b1 ywf) -> Ext (fst q) b1).
        { intros [b2 f2] Hq e A. eapply (eval_ext h dom U); eassumption. }
        destruct (else_out_nodup R IU (eval y b1 ywf) sT (eval_disjoint y b1 ywf By)) as [O1 O2].
        { intros [b2 f2] Hq. eapply (eval_in_dom h dom U); eassumption. }
        { intros c Hc q Hq. apply (incomp_ext c b1 (fst q)); [|now apply RowExt].
          apply (HF c (in_or_app _ _ _ (or_introl Hc)) (b1, true)). now left. }
        rewrite O1.
        destruct (IH (snd (smap (else_out R) (eval y b1 ywf) sT)) (snd (evalD y ky b1 ywf sr)) Ht (fun p Hp => Hdom p (or_intror Hp))) as [I1 I2].
        { intros c Hc p Hp.
          assert (Dp : forall c', Ext c' b1 -> Incomp c' (fst p)).
          { intros c' E'. apply (ext_disj_incomp _ b1 (fst p) E'). intros e V A1 A2. exact (Hh p Hp e V A1 A2). }
          apply in_app_or in Hc as [Hc|Hc].
          - destruct (O2 c Hc) as [Hc'|(q & Hq & Eq)]; [apply (HF c (in_or_app _ _ _ (or_introl Hc')) p (or_intror Hp))|].
            apply Dp. eapply ext_trans; [exact Eq | now apply RowExt].
          - destruct (Y2 c Hc) as [Hc'|Ec]; [apply (HF c (in_or_app _ _ _ (or_intror Hc')) p (or_intror Hp)) | now apply Dp]. }
        split; [now rewrite I1|].
        intros c Hc. destruct (I2 c Hc) as [Hc'|(p & Hp & Ep)]; [|right; exists p; split; [now right | exact Ep]].
        apply in_app_or in Hc' as [Hc'|Hc'].
        * destruct (O2 c Hc') as [Hc''|(q & Hq & Eq)]; [left; apply in_or_app; now left|].
          right. exists (b1, true). split; [now left|]. eapply ext_trans; [exact Eq | now apply RowExt].
        * destruct (Y2 c Hc') as [Hc''|Ec]; [left; apply in_or_app; now right | right; exists (b1, true); split; [now left | exact Ec]].
      + (* a true left row: passed on *)
        assert (E : else_step R (fun b0 s1 => evalD y ky b0 ywf s1) (b1, false) (sT, sr) = ([(b1, false)], (sT, sr))) by reflexivity.
        rewrite E. cbn [fst snd app].
        destruct (IH sT sr Ht (fun p Hp => Hdom p (or_intror Hp)) (fun c Hc p Hp => HF c Hc p (or_intror Hp))) as [I1 I2].
        split; [now rewrite I1|]. intros c Hc. destruct (I2 c Hc) as [Hc'|(p & Hp & Ep)]; [now left | right; exists p; split; [now right | exact Ep]].
  Qed.

  (* ---- every node, every activation: from a state in which nothing recorded is compatible with the incoming row, the D-model
     produces the P-model's rows, and whatever it records extends the incoming row ---- *)
  Theorem evalD_no_dup c : basic c = true -> forall k ywf, incl U (top_of k) -> operand_ok c k ywf.
  Proof.
    induction c as [o l r0|t inv|x IHx y IHy|x IHx y IHy|u0 c0 IH|sel c0 IH]; intros B k ywf IU b s Db HF;
      try (rewrite evalD_leaf by reflexivity; cbn [fst snd]; split; [reflexivity | intros c Hc; now left]);
      try (cbn [EvalPure_Facts.basic] in B; discriminate B).
    - (* AND *)
      pose proof B as B'. cbn [EvalPure_Facts.basic] in B'. apply andb_prop in B' as [Bx By].
      rewrite evalD_and. cbn [fst snd].
      pose proof (entries_parts s) as EP.
      destruct (IHx Bx (KAndL k y) ywf IU b (d_l s) Db) as [X1 X2].
      { intros c Hc. apply HF, EP. apply in_or_app; right. apply in_or_app; right. apply in_or_app; now left. }
      rewrite X1.
      assert (RowExt : forall p, In p (eval x b ywf) -> Ext (fst p) b).
      { intros [b1 f1] Hp e A. exact (eval_ext h dom U x Bx b ywf b1 f1 e Hp A). }
      destruct (and_loop_nodup (req_from k (Some false)) y (KAndR k) ywf (incl_tran IU (req_from_top k _)) By (IHy By (KAndR k) ywf IU)
                  (eval x b ywf) (d_sF s) (d_r s) (eval_disjoint x b ywf Bx)) as [L1 L2].
      { intros [b1 f1] Hp. exact (eval_in_dom h dom U x Bx b ywf b1 f1 Db Hp). }
      { intros c Hc p Hp. apply (incomp_ext c b (fst p)); [|now apply RowExt]. apply HF, EP.
        apply in_app_or in Hc as [Hc|Hc]; apply in_or_app; right; apply in_or_app; [now left | right; apply in_or_app; now right]. }
      split; [rewrite L1; reflexivity|].
      intros c Hc. cbn [entries] in Hc.
      apply in_app_or in Hc as [Hc|Hc]; [left; apply EP, in_or_app; now left|].
      assert (G : In c (fst (snd (smap (and_step (req_from k (Some false)) (fun b1 s1 => evalD y (KAndR k) b1 ywf s1) ywf) (eval x b ywf) (d_sF s, d_r s))) ++
                        entries (snd (snd (smap (and_step (req_from k (Some false)) (fun b1 s1 => evalD y (KAndR k) b1 ywf s1) ywf) (eval x b ywf) (d_sF s, d_r s))))) \/
                  In c (entries (snd (evalD x (KAndL k y) b ywf (d_l s))))).
      { apply in_app_or in Hc as [Hc|Hc]; [left; apply in_or_app; now left|].
        apply in_app_or in Hc as [Hc|Hc]; [now right | left; apply in_or_app; now right]. }
      destruct G as [G|G].
      + destruct (L2 c G) as [G'|(p & Hp & Ep)]; [|right; eapply ext_trans; [exact Ep | now apply RowExt]].
        left. apply EP. apply in_app_or in G' as [G'|G']; apply in_or_app; right; apply in_or_app; [now left | right; apply in_or_app; now right].
      + destruct (X2 c G) as [G'|Ec]; [|now right]. left. apply EP. apply in_or_app; right. apply in_or_app; right. apply in_or_app; now left.
    - (* ElseIf *)
      pose proof B as B'. cbn [EvalPure_Facts.basic] in B'. apply andb_prop in B' as [Bx By].
      rewrite evalD_else. pose proof (entries_parts s) as EP.
      destruct (IHx Bx (KElseL k y) true IU b (d_l s) Db) as [X1 X2].
      { intros c Hc. apply HF, EP. apply in_or_app; right. apply in_or_app; right. apply in_or_app; now left. }
      rewrite X1. cbn [EvalPure.eval].
      assert (RowExt : forall p, In p (eval x b true) -> Ext (fst p) b).
      { intros [b1 f1] Hp e A. exact (eval_ext h dom U x Bx b true b1 f1 e Hp A). }
      assert (XE : forall c, In c (entries (snd (evalD x (KElseL k y) b true (d_l s)))) -> In c (entries s) \/ Ext c b).
      { intros c G. destruct (X2 c G) as [G'|Ec]; [|now right]. left. apply EP. apply in_or_app; right. apply in_or_app; right. apply in_or_app; now left. }
      destruct (eval x b true) as [|p0 ls0] eqn:El.
      + (* the left side produced nothing: the right side on the incoming row *)
        destruct (IHy By (KElseR k) ywf IU b (d_r s) Db) as [Y1 Y2].
        { intros c Hc. apply HF, EP. apply in_or_app; right. apply in_or_app; right. apply in_or_app; now right. }
        cbn [fst snd]. split; [exact Y1|].
        intros c Hc. cbn [entries] in Hc.
        apply in_app_or in Hc as [Hc|Hc]; [left; apply EP, in_or_app; now left|].
        apply in_app_or in Hc as [Hc|Hc]; [left; apply EP; apply in_or_app; right; apply in_or_app; now left|].
        apply in_app_or in Hc as [Hc|Hc]; [now apply XE|].
        destruct (Y2 c Hc) as [G'|Ec]; [|now right]. left. apply EP. apply in_or_app; right. apply in_or_app; right. apply in_or_app; now right.
      + rewrite <- El in *. clear El p0 ls0.
        destruct (else_loop_nodup (req_from k (Some true)) y (KElseR k) ywf (incl_tran IU (req_from_top k _)) By (IHy By (KElseR k) ywf IU)
                    (eval x b true) (d_sT s) (d_r s) (eval_disjoint x b true Bx)) as [L1 L2].
        { intros [b1 f1] Hp. exact (eval_in_dom h dom U x Bx b true b1 f1 Db Hp). }
        { intros c Hc p Hp. apply (incomp_ext c b (fst p)); [|now apply RowExt]. apply HF, EP.
          apply in_app_or in Hc as [Hc|Hc]; apply in_or_app; [now left | right; apply in_or_app; right; apply in_or_app; now right]. }
        cbn [fst snd]. split; [rewrite L1; reflexivity|].
        intros c Hc. cbn [entries] in Hc.
        assert (G : In c (fst (snd (smap (else_step (req_from k (Some true)) (fun b1 s1 => evalD y (KElseR k) b1 ywf s1)) (eval x b true) (d_sT s, d_r s))) ++
                          entries (snd (snd (smap (else_step (req_from k (Some true)) (fun b1 s1 => evalD y (KElseR k) b1 ywf s1)) (eval x b true) (d_sT s, d_r s))))) \/
                    In c (d_sF s) \/ In c (entries (snd (evalD x (KElseL k y) b true (d_l s))))).
        { apply in_app_or in Hc as [Hc|Hc]; [left; apply in_or_app; now left|].
          apply in_app_or in Hc as [Hc|Hc]; [right; now left|].
          apply in_app_or in Hc as [Hc|Hc]; [right; now right | left; apply in_or_app; now right]. }
        destruct G as [G|[G|G]].
        * destruct (L2 c G) as [G'|(p & Hp & Ep)]; [|right; eapply ext_trans; [exact Ep | now apply RowExt]].
          left. apply EP. apply in_app_or in G' as [G'|G']; apply in_or_app; [now left | right; apply in_or_app; right; apply in_or_app; now right].
        * left. apply EP. apply in_or_app; right. apply in_or_app; now left.
        * now apply XE.
    - (* a nested query *)
      pose proof B as B'. cbn [EvalPure_Facts.basic] in B'. apply andb_prop in B' as [Bs Bc].
      rewrite evalD_sub. cbn [fst snd]. pose proof (entries_parts s) as EP.
      destruct (IH Bc (KSub k sel) ywf IU b (d_l s) Db) as [X1 X2].
      { intros c Hc. apply HF, EP. apply in_or_app; right. apply in_or_app; right. apply in_or_app; now left. }
      rewrite X1. split; [now rewrite eval_sub_eq|].
      intros c Hc. cbn [entries] in Hc.
      apply in_app_or in Hc as [Hc|Hc]; [left; apply EP, in_or_app; now left|].
      apply in_app_or in Hc as [Hc|Hc]; [left; apply EP; apply in_or_app; right; apply in_or_app; now left|].
      apply in_app_or in Hc as [Hc|Hc].
      + destruct (X2 c Hc) as [G'|Ec]; [|now right]. left. apply EP. apply in_or_app; right. apply in_or_app; right. apply in_or_app; now left.
      + left. apply EP. apply in_or_app; right. apply in_or_app; right. apply in_or_app; now right.
  Qed.

  (* all variables required at the top (every variable of the query is selected): the query evaluated with the de-duplication
     in place returns the P-model's rows, in the same order *)
  Theorem all_selected_no_dedup sel c : basic c = true -> incl U (req_top sel) ->
    run_queryD h dom sel (Some c) = run_query h dom sel (Some c).
  Proof.
    intros B IU. unfold run_queryD, run_query.
    assert (D0 : in_dom ([] : binding)) by (intros x v L; discriminate).
    destruct (evalD_no_dup c B (KTop (req_top sel)) false IU [] DL D0) as [E _]; [intros c0 []|].
    now rewrite E.
  Qed.
End DF.

(* ================================================================================================================
   for_all.  Every pass (one per universal value) evaluates the condition from a FRESH de-duplication state, and for_all requires
   from its condition every variable of the condition (Generated.forall_adds_condition_variables - the passes are intersected on
   them): inside a pass nothing is ever dropped, so the de-duplicating evaluator computes for_all exactly as the P-model does,
   whose meaning is C10's.  (Without that requirement the rows of a pass were keyed on what the query SELECTS and a for_all over a
   condition with an unselected free variable lost answers: known_findings.json.) *)
Lemma inter_ext (p1 p2 : val -> list binding) us : (forall v, In v us -> p1 v = p2 v) -> inter p1 us = inter p2 us.
Proof.
  intros H. destruct us as [|v0 vs]; [reflexivity|]. cbn [inter]. rewrite (H v0 (or_introl eq_refl)).
  assert (G : forall acc, fold_left (fun acc v => match acc with [] => [] | _ => filter (fun d => existsb (binding_eqb d) (p1 v)) acc end) vs acc =
                         fold_left (fun acc v => match acc with [] => [] | _ => filter (fun d => existsb (binding_eqb d) (p2 v)) acc end) vs acc).
  { assert (Hvs : forall v, In v vs -> p1 v = p2 v) by (intros v Hv; apply H; now right). clear H.
    induction vs as [|v vs IH]; intros acc; [reflexivity|]. cbn [fold_left]. rewrite (Hvs v (or_introl eq_refl)).
    apply IH. intros w Hw. apply Hvs. now right. }
  apply G.
Qed.

Theorem forall_no_dedup h dom U u c' k b ywf s :
  (forall x, In x U -> NoDup (dom x)) -> (forall x, In x U -> dom x <> []) -> basic U c' = true -> incl U (cvars c') ->
  in_dom dom b ->
  evalD h dom (CForAll u c') k b ywf s = (eval h dom (CForAll u c') b ywf, s).
Proof.
  intros ND NE B IU Db. cbn [Dedup.evalD EvalPure.eval]. f_equal. f_equal. apply inter_ext. intros v Hv.
  assert (Dv : in_dom dom (bind b u v)) by (apply in_dom_bind; assumption).
  destruct (evalD_no_dup h dom U ND NE c' B (KForAll k c') false (incl_appl _ IU) (bind b u v) DL Dv) as [E _]; [intros c0 []|].
  now rewrite E.
Qed.
