(* Elab.v — surface conditions -> the internal nodes the constructors build (DESIGN.md 3.2).
   Every rule that is table-like in the code comes from Generated.v, which the translator regenerates
   from /repo on every run; the proofs about [elab] (Elab_Facts.v) are therefore re-checked against
   the current source. *)
From EQL Require Import Base Values Syntax Generated.

(* ---- negation: symbolic.Not ---- *)
Definition kind_of (c : cond) : nkind :=
  match c with
  | CAnd _ _ => KAND
  | CElseIf _ _ => KOR
  | CSub _ _ => KResultQuantifier
  | _ => KOther
  end.

(* Not on a leaf: toggling `_invert_` — a Comparator swaps its operation through the inverse table,
   a mapping flips its flag.  [None] = the code raises (unsupported operation / quantifier operand). *)
Definition toggle_leaf (c : cond) : option cond :=
  match c with
  | CCmp o l r => match inverse_op o with Some o' => Some (CCmp o' l r) | None => None end
  | CTruth t inv => Some (CTruth t (negb inv))
  | _ => None
  end.

Definition both (mk : cond -> cond -> cond) (a b : option cond) : option cond :=
  match a, b with Some x, Some y => Some (mk x y) | _, _ => None end.

Fixpoint neg (c : cond) : option cond :=
  match c with
  | CAnd a b =>
      match not_rule KAND with
      | NegBoth_ElseIf => both CElseIf (neg a) (neg b)
      | NegBoth_AND => both CAnd (neg a) (neg b)
      | _ => None
      end
  | CElseIf a b =>
      match not_rule KOR with
      | NegBoth_AND => both CAnd (neg a) (neg b)
      | NegBoth_ElseIf => both CElseIf (neg a) (neg b)
      | _ => None
      end
  | CSub _ _ => None                                 (* Not(ResultQuantifier) raises NotImplementedError *)
  | CForAll _ _ => None                              (* outside the vocabulary of C03 *)
  | leaf => match not_rule KOther with NegToggle => toggle_leaf leaf | _ => None end
  end.

(* ---- comparisons: Python dispatches  l <op> r  to l.__op__(r) when l is symbolic, and to the
        REFLECTED method of r when l is a plain literal (Python's own rule, trusted) ---- *)
Definition dunder_of (o : cmpop) : option dunder :=
  match o with Eq => Some D_eq | Ne => Some D_ne | Lt => Some D_lt | Le => Some D_le | Gt => Some D_gt | Ge => Some D_ge
             | _ => None end.
Definition reflect (o : cmpop) : cmpop :=
  match o with Lt => Gt | Gt => Lt | Le => Ge | Ge => Le | x => x end.
Definition is_lit (t : term) : bool := match t with TLit _ => true | _ => false end.

Definition build_cmp (d : dunder) (self other : term) : cond :=
  let '(swapped, o) := dunder_cmp d in
  if swapped then CCmp o other self else CCmp o self other.

Definition elab_cmp (o : cmpop) (l r : term) : option cond :=
  if is_lit l then
    match dunder_of (reflect o) with Some d => Some (build_cmp d r l) | None => None end
  else
    match dunder_of o with Some d => Some (build_cmp d l r) | None => None end.

(* entity.in_ / entity.contains *)
Definition elab_in (item container : term) : cond :=
  if in_left_is_container then CCmp in_op container item else CCmp in_op item container.
Definition elab_contains (container item : term) : cond :=
  if contains_item_first then elab_in item container else elab_in container item.

(* or_ goes through _optimize_or; its variable-set comparison is between two lazy, never materialised
   HashedIterable.filter results, which compare equal whatever the operands (hand-written fact,
   validated structurally by the correspondence check: the harness compares the class of every node) *)
Definition elab_or (a b : cond) : option cond :=
  match or_builder, or_same_vars with
  | B_optimize_or, N_ElseIf => Some (CElseIf a b)
  | _, _ => None
  end.
Definition elab_and (a b : cond) : option cond :=
  match and_builder with B_AND => Some (CAnd a b) | _ => None end.

Definition bind_opt {A B} (a : option A) (f : A -> option B) : option B :=
  match a with Some x => f x | None => None end.

Fixpoint elab (c : scond) : option cond :=
  match c with
  | SCmp o l r => elab_cmp o l r
  | SIn i cont => Some (elab_in i cont)
  | SContains cont i => Some (elab_contains cont i)
  | STruth t => Some (CTruth t false)
  | SAnd a b => bind_opt (elab a) (fun x => bind_opt (elab b) (fun y => elab_and x y))
  | SOr a b => bind_opt (elab a) (fun x => bind_opt (elab b) (fun y => elab_or x y))
  | SNot a => bind_opt (elab a) neg
  | SForAll u c' => bind_opt (elab c') (fun x => Some (CForAll u x))
  | SSub sel c' => bind_opt (elab c') (fun x => Some (CSub sel x))
  end.

(* a chain and_(c1, ..., cn) / or_(c1, ..., cn) is the left fold of the binary builder *)
Fixpoint chain (mk : scond -> scond -> scond) (acc : scond) (cs : list scond) : scond :=
  match cs with [] => acc | c :: cs' => chain mk (mk acc c) cs' end.
