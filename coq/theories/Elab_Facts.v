(* Elab_Facts.v — proofs about the generated tables and the elaborator (properties C03, C18, part of C01/C02).
   Everything here depends on Generated.v and is therefore re-checked against /repo on every run. *)
From EQL Require Import Base Values Syntax Spec Generated Elab.

(* ---------- the operator semantics: the order is total, so each operator has a true inverse ---------- *)
Lemma vltb_antisym a b : vltb a b = negb (vleb b a).
Proof. unfold vltb, vleb. apply Z.ltb_antisym. Qed.
Lemma vleb_antisym a b : vleb a b = negb (vltb b a).
Proof. unfold vltb, vleb. apply Z.leb_antisym. Qed.

(* ---------- the generated inverse table ---------- *)
Lemma inverse_total o : exists o', inverse_op o = Some o'.
Proof. destruct o; eexists; reflexivity. Qed.

Lemma inverse_negates o o' a b : inverse_op o = Some o' -> apply_op o' a b = negb (apply_op o a b).
Proof.
  destruct o; cbn [inverse_op]; intros H; injection H as <-; cbn [apply_op];
    rewrite ?negb_involutive, ?vltb_antisym, ?vleb_antisym, ?negb_involutive; reflexivity.
Qed.

Lemma inverse_involutive o o' : inverse_op o = Some o' -> inverse_op o' = Some o.
Proof. destruct o; cbn [inverse_op]; intros H; injection H as <-; reflexivity. Qed.

(* ---------- the generated Not dispatch is De Morgan on AND / OR and a flag toggle on leaves ---------- *)
Lemma not_rule_demorgan :
  not_rule KAND = NegBoth_ElseIf /\ not_rule KOR = NegBoth_AND /\ not_rule KOther = NegToggle /\
  not_rule KResultQuantifier = NegRaise /\ not_rule KEntity = NegDescriptor /\ not_rule KSetOf = NegDescriptor.
Proof. repeat split; reflexivity. Qed.

Section WithData.
  Variable h : heap.
  Variable dom : key -> list val.
  Notation isat := (isat h dom).
  Notation sat := (sat h dom).

  (* the conditions C03 speaks of: comparisons, membership, expressions in condition position, and / or — at any depth *)
  Fixpoint negatable (c : cond) : bool :=
    match c with
    | CCmp _ _ _ | CTruth _ _ => true
    | CAnd a b | CElseIf a b => negatable a && negatable b
    | CForAll _ _ | CSub _ _ => false
    end.

  Lemma neg_total c : negatable c = true -> exists c', neg c = Some c' /\ negatable c' = true.
  Proof.
    induction c as [o l r|t inv|a IHa b IHb|a IHa b IHb|u c IH|sel c IH]; cbn [negatable neg]; intros H; try discriminate.
    - destruct (inverse_total o) as [o' Ho]. cbn [not_rule toggle_leaf]. rewrite Ho. eexists; split; reflexivity.
    - eexists; split; reflexivity.
    - apply andb_prop in H as [Ha Hb]. destruct (IHa Ha) as (a' & -> & Na), (IHb Hb) as (b' & -> & Nb).
      cbn. eexists; split; [reflexivity|]. cbn. now rewrite Na, Nb.
    - apply andb_prop in H as [Ha Hb]. destruct (IHa Ha) as (a' & -> & Na), (IHb Hb) as (b' & -> & Nb).
      cbn. eexists; split; [reflexivity|]. cbn. now rewrite Na, Nb.
  Qed.

  (* C03: the negated tree is true exactly where the original is false — for every tree, whatever negations it already contains *)
  Lemma neg_complement c : forall c', neg c = Some c' -> forall e, isat c' e = negb (isat c e).
  Proof.
    induction c as [o l r|t inv|a IHa b IHb|a IHa b IHb|u c IH|sel c IH]; cbn [neg not_rule]; intros c' H e; try discriminate.
    - cbn [toggle_leaf] in H. destruct (inverse_op o) as [o'|] eqn:Ho; [|discriminate]. injection H as <-.
      cbn [Spec.isat]. now apply inverse_negates.
    - cbn [toggle_leaf] in H. injection H as <-. cbn [Spec.isat]. now destruct inv, (truthy (tval h t e)).
    - unfold both in H. destruct (neg a) as [a'|] eqn:Ea; [|discriminate]. destruct (neg b) as [b'|] eqn:Eb; [|discriminate].
      injection H as <-. cbn [Spec.isat]. rewrite (IHa a' eq_refl), (IHb b' eq_refl). now rewrite negb_andb.
    - unfold both in H. destruct (neg a) as [a'|] eqn:Ea; [|discriminate]. destruct (neg b) as [b'|] eqn:Eb; [|discriminate].
      injection H as <-. cbn [Spec.isat]. rewrite (IHa a' eq_refl), (IHb b' eq_refl). now rewrite negb_orb.
  Qed.

  (* C03: negating a negated condition restores the ORIGINAL node (not merely an equivalent one) *)
  Lemma neg_involutive c : forall c', neg c = Some c' -> neg c' = Some c.
  Proof.
    induction c as [o l r|t inv|a IHa b IHb|a IHa b IHb|u c IH|sel c IH]; cbn [neg not_rule]; intros c' H; try discriminate.
    - cbn [toggle_leaf] in H. destruct (inverse_op o) as [o'|] eqn:Ho; [|discriminate]. injection H as <-.
      cbn [neg not_rule toggle_leaf]. now rewrite (inverse_involutive o o' Ho).
    - cbn [toggle_leaf] in H. injection H as <-. cbn [neg not_rule toggle_leaf]. now rewrite negb_involutive.
    - unfold both in H. destruct (neg a) as [a'|] eqn:Ea; [|discriminate]. destruct (neg b) as [b'|] eqn:Eb; [|discriminate].
      injection H as <-. cbn [neg not_rule]. now rewrite (IHa a' eq_refl), (IHb b' eq_refl).
    - unfold both in H. destruct (neg a) as [a'|] eqn:Ea; [|discriminate]. destruct (neg b) as [b'|] eqn:Eb; [|discriminate].
      injection H as <-. cbn [neg not_rule]. now rewrite (IHa a' eq_refl), (IHb b' eq_refl).
  Qed.

  (* ---------- the elaborator preserves truth ---------- *)
  Lemma zs_eqb_sym l : forall m, zs_eqb l m = zs_eqb m l.
  Proof. induction l as [|x l IH]; intros [|y m]; cbn [zs_eqb]; auto. now rewrite Z.eqb_sym, IH. Qed.

  Lemma veqb_sym a b : veqb a b = veqb b a.
  Proof.
    assert (A : forall x y, aeqb x y = aeqb y x).
    { intros x y. unfold aeqb. destruct (num_of x) eqn:Ex, (num_of y) eqn:Ey; try apply Z.eqb_sym;
        destruct x, y; try reflexivity; try discriminate; try apply String.eqb_sym; try apply zs_eqb_sym; apply Nat.eqb_sym. }
    destruct a as [x|l], b as [y|m]; cbn [veqb]; auto.
    revert m; induction l as [|x l IH]; intros [|y m]; cbn [leqb]; auto. now rewrite A, IH.
  Qed.

  Lemma reflect_sound o a b : dunder_of o <> None -> apply_op (reflect o) b a = apply_op o a b.
  Proof.
    destruct o; cbn [reflect apply_op dunder_of]; intros H; try reflexivity; try (now rewrite veqb_sym); congruence.
  Qed.

  Lemma elab_cmp_sat o l r ic e : elab_cmp o l r = Some ic -> isat ic e = apply_op o (tval h l e) (tval h r e).
  Proof.
    unfold elab_cmp. destruct (is_lit l).
    - destruct (dunder_of (reflect o)) as [d|] eqn:Hd; [|discriminate]. intros H; injection H as <-.
      destruct o; cbn [reflect dunder_of] in Hd; try discriminate; injection Hd as <-;
        unfold build_cmp; cbn [dunder_cmp Spec.isat apply_op]; try reflexivity; rewrite veqb_sym; reflexivity.
    - destruct (dunder_of o) as [d|] eqn:Hd; [|discriminate]. intros H; injection H as <-.
      destruct o; cbn [dunder_of] in Hd; try discriminate; injection Hd as <-;
        unfold build_cmp; cbn [dunder_cmp Spec.isat apply_op]; reflexivity.
  Qed.

  Lemma elab_sat c : forall ic, elab c = Some ic -> forall e, isat ic e = sat c e.
  Proof.
    induction c as [o l r|i cont|cont i|t|a IHa b IHb|a IHa b IHb|a IHa|u c IH|sel c IH];
      cbn [elab Spec.sat]; intros ic H e.
    - now apply elab_cmp_sat.
    - injection H as <-. reflexivity.
    - injection H as <-. reflexivity.
    - injection H as <-. cbn. now destruct (truthy _).
    - destruct (elab a) as [x|]; [|discriminate]. destruct (elab b) as [y|]; [|discriminate]. cbn [bind_opt] in H.
      unfold elab_and in H. cbn in H. injection H as <-. cbn [Spec.isat]. now rewrite (IHa x eq_refl), (IHb y eq_refl).
    - destruct (elab a) as [x|]; [|discriminate]. destruct (elab b) as [y|]; [|discriminate]. cbn [bind_opt] in H.
      unfold elab_or in H. cbn in H. injection H as <-. cbn [Spec.isat]. now rewrite (IHa x eq_refl), (IHb y eq_refl).
    - destruct (elab a) as [x|]; [|discriminate]. cbn [bind_opt] in H.
      rewrite (neg_complement x ic H), (IHa x eq_refl). reflexivity.
    - destruct (elab c) as [x|]; [|discriminate]. cbn [bind_opt] in H. injection H as <-. cbn [Spec.isat].
      apply forallb_ext'. intros v. now apply IH.
    - destruct (elab c) as [x|]; [|discriminate]. cbn [bind_opt] in H. injection H as <-. cbn [Spec.isat]. now apply IH.
  Qed.

  (* surface double negation: not_(not_(c)) elaborates to the very node c elaborates to *)
  Lemma elab_double_neg c ic : elab (SNot (SNot c)) = Some ic -> elab c = Some ic.
  Proof.
    cbn [elab]. destruct (elab c) as [x|]; [|discriminate]. cbn [bind_opt].
    destruct (neg x) as [x'|] eqn:E; [|discriminate]. cbn [bind_opt]. intros H.
    rewrite (neg_involutive x x' E) in H. exact H.
  Qed.

  (* the chain builders: and_(c1..cn) / or_(c1..cn) fold to the left with AND / _optimize_or *)
  Lemma chain_facts : chain_left_fold = true /\ and_builder = B_AND /\ or_builder = B_optimize_or.
  Proof. repeat split; reflexivity. Qed.

  (* contains(c, i) and in_(i, c) build the same node *)
  Lemma contains_in_agree cont i : elab_contains cont i = elab_in i cont.
  Proof. reflexivity. Qed.
End WithData.
