(* Elab_Frag.v — the elaborator keeps conditions inside the fragments the evaluator theorems are proved for,
   so the hypotheses of C01 / C02 are met by everything the user can write in that vocabulary. *)
From EQL Require Import Base Values Syntax Spec Generated Elab Elab_Facts EvalPure_Facts OneVar_Facts.

Section Frag.
  Variable x : key.
  Variable U : list key.

  (* surface analogues of c1 / basic *)
  Fixpoint s1 (c : scond) : bool :=
    match c with
    | SCmp _ l r => t1 x l && t1 x r && (mentions l || mentions r)
    | SIn i c' => t1 x c' && t1 x i && (mentions c' || mentions i)
    | SContains c' i => t1 x c' && t1 x i && (mentions c' || mentions i)
    | STruth t => t1 x t && mentions t
    | SAnd a b | SOr a b => s1 a && s1 b
    | SNot a => s1 a
    | SForAll _ _ => false
    | SSub sel c' => forallb (t1 x) sel && s1 c'
    end.
  Fixpoint sbasic (c : scond) : bool :=
    match c with
    | SCmp _ l r => tclosed U l && tclosed U r
    | SIn i c' => tclosed U c' && tclosed U i
    | SContains c' i => tclosed U c' && tclosed U i
    | STruth t => tclosed U t
    | SAnd a b | SOr a b => sbasic a && sbasic b
    | SNot a => sbasic a
    | SForAll _ _ => false
    | SSub sel c' => forallb (tclosed U) sel && sbasic c'
    end.

  Lemma neg_c1 c : forall c', neg c = Some c' -> c1 x c = true -> c1 x c' = true.
  Proof.
    induction c as [o l r|t inv|a IHa b IHb|a IHa b IHb|u c IH|sel c IH]; cbn [neg not_rule]; intros c' H C; try discriminate.
    - cbn [toggle_leaf] in H. destruct (inverse_op o); [|discriminate]. injection H as <-. exact C.
    - cbn [toggle_leaf] in H. injection H as <-. exact C.
    - unfold both in H. destruct (neg a) as [a'|]; [|discriminate]. destruct (neg b) as [b'|]; [|discriminate]. injection H as <-.
      cbn [c1] in *. apply andb_prop in C as [Ca Cb]. now rewrite (IHa a' eq_refl Ca), (IHb b' eq_refl Cb).
    - unfold both in H. destruct (neg a) as [a'|]; [|discriminate]. destruct (neg b) as [b'|]; [|discriminate]. injection H as <-.
      cbn [c1] in *. apply andb_prop in C as [Ca Cb]. now rewrite (IHa a' eq_refl Ca), (IHb b' eq_refl Cb).
  Qed.

  Lemma neg_basic c : forall c', neg c = Some c' -> basic U c = true -> basic U c' = true.
  Proof.
    induction c as [o l r|t inv|a IHa b IHb|a IHa b IHb|u c IH|sel c IH]; cbn [neg not_rule]; intros c' H C; try discriminate.
    - cbn [toggle_leaf] in H. destruct (inverse_op o); [|discriminate]. injection H as <-. exact C.
    - cbn [toggle_leaf] in H. injection H as <-. exact C.
    - unfold both in H. destruct (neg a) as [a'|]; [|discriminate]. destruct (neg b) as [b'|]; [|discriminate]. injection H as <-.
      cbn [basic] in *. apply andb_prop in C as [Ca Cb]. now rewrite (IHa a' eq_refl Ca), (IHb b' eq_refl Cb).
    - unfold both in H. destruct (neg a) as [a'|]; [|discriminate]. destruct (neg b) as [b'|]; [|discriminate]. injection H as <-.
      cbn [basic] in *. apply andb_prop in C as [Ca Cb]. now rewrite (IHa a' eq_refl Ca), (IHb b' eq_refl Cb).
  Qed.

  Lemma elab_cmp_c1 o l r ic : elab_cmp o l r = Some ic -> t1 x l && t1 x r && (mentions l || mentions r) = true -> c1 x ic = true.
  Proof.
    unfold elab_cmp. intros H C. apply andb_prop in C as [C M]. apply andb_prop in C as [Cl Cr].
    destruct (is_lit l).
    - destruct (dunder_of (reflect o)) as [d|]; [|discriminate]. injection H as <-.
      destruct d; unfold build_cmp; cbn [dunder_cmp c1]; rewrite Cl, Cr; cbn [andb]; rewrite ?M; try reflexivity;
        rewrite orb_comm; exact M.
    - destruct (dunder_of o) as [d|]; [|discriminate]. injection H as <-.
      destruct d; unfold build_cmp; cbn [dunder_cmp c1]; rewrite Cl, Cr; cbn [andb]; rewrite ?M; try reflexivity;
        rewrite orb_comm; exact M.
  Qed.

  Lemma elab_cmp_basic o l r ic : elab_cmp o l r = Some ic -> tclosed U l && tclosed U r = true -> basic U ic = true.
  Proof.
    unfold elab_cmp. intros H C. apply andb_prop in C as [Cl Cr].
    destruct (is_lit l).
    - destruct (dunder_of (reflect o)) as [d|]; [|discriminate]. injection H as <-.
      destruct d; unfold build_cmp; cbn [dunder_cmp basic]; now rewrite Cl, Cr.
    - destruct (dunder_of o) as [d|]; [|discriminate]. injection H as <-.
      destruct d; unfold build_cmp; cbn [dunder_cmp basic]; now rewrite Cl, Cr.
  Qed.

  Lemma elab_c1 c : forall ic, elab c = Some ic -> s1 c = true -> c1 x ic = true.
  Proof.
    induction c as [o l r|i cont|cont i|t|a IHa b IHb|a IHa b IHb|a IHa|u c IH|sel c IH]; cbn [elab s1]; intros ic H C; try discriminate.
    - eapply elab_cmp_c1; eassumption.
    - injection H as <-. unfold elab_in. cbn. exact C.
    - injection H as <-. unfold elab_contains, elab_in. cbn. exact C.
    - injection H as <-. exact C.
    - destruct (elab a) as [p|]; [|discriminate]. destruct (elab b) as [q|]; [|discriminate]. cbn [bind_opt] in H.
      unfold elab_and in H. cbn in H. injection H as <-. apply andb_prop in C as [Ca Cb]. cbn [c1].
      now rewrite (IHa p eq_refl Ca), (IHb q eq_refl Cb).
    - destruct (elab a) as [p|]; [|discriminate]. destruct (elab b) as [q|]; [|discriminate]. cbn [bind_opt] in H.
      unfold elab_or in H. cbn in H. injection H as <-. apply andb_prop in C as [Ca Cb]. cbn [c1].
      now rewrite (IHa p eq_refl Ca), (IHb q eq_refl Cb).
    - destruct (elab a) as [p|]; [|discriminate]. cbn [bind_opt] in H. eapply neg_c1; [exact H|]. now apply IHa.
    - destruct (elab c) as [p|]; [|discriminate]. cbn [bind_opt] in H. injection H as <-. apply andb_prop in C as [Cs Cc]. cbn [c1].
      now rewrite Cs, (IH p eq_refl Cc).
  Qed.

  Lemma elab_basic c : forall ic, elab c = Some ic -> sbasic c = true -> basic U ic = true.
  Proof.
    induction c as [o l r|i cont|cont i|t|a IHa b IHb|a IHa b IHb|a IHa|u c IH|sel c IH]; cbn [elab sbasic]; intros ic H C; try discriminate.
    - eapply elab_cmp_basic; eassumption.
    - injection H as <-. unfold elab_in. cbn. exact C.
    - injection H as <-. unfold elab_contains, elab_in. cbn. exact C.
    - injection H as <-. exact C.
    - destruct (elab a) as [p|]; [|discriminate]. destruct (elab b) as [q|]; [|discriminate]. cbn [bind_opt] in H.
      unfold elab_and in H. cbn in H. injection H as <-. apply andb_prop in C as [Ca Cb]. cbn [basic].
      now rewrite (IHa p eq_refl Ca), (IHb q eq_refl Cb).
    - destruct (elab a) as [p|]; [|discriminate]. destruct (elab b) as [q|]; [|discriminate]. cbn [bind_opt] in H.
      unfold elab_or in H. cbn in H. injection H as <-. apply andb_prop in C as [Ca Cb]. cbn [basic].
      now rewrite (IHa p eq_refl Ca), (IHb q eq_refl Cb).
    - destruct (elab a) as [p|]; [|discriminate]. cbn [bind_opt] in H. eapply neg_basic; [exact H|]. now apply IHa.
    - destruct (elab c) as [p|]; [|discriminate]. cbn [bind_opt] in H. injection H as <-. apply andb_prop in C as [Cs Cc]. cbn [basic].
      now rewrite Cs, (IH p eq_refl Cc).
  Qed.

  (* elaboration never fails on what can be written: SCmp carries one of the six comparison operators,
     not_ is applied to comparisons / memberships / expressions / and / or (not to sub-queries or for_all) *)
  Definition six (o : cmpop) : bool := match dunder_of o with Some _ => true | None => false end.
  Fixpoint plain (c : scond) : bool :=            (* no sub-query, no for_all: what C03 negates *)
    match c with
    | SCmp o _ _ => six o
    | SIn _ _ | SContains _ _ | STruth _ => true
    | SAnd a b | SOr a b => plain a && plain b
    | SNot a => plain a
    | SForAll _ _ | SSub _ _ => false
    end.
  Fixpoint writable (c : scond) : bool :=
    match c with
    | SCmp o _ _ => six o
    | SIn _ _ | SContains _ _ | STruth _ => true
    | SAnd a b | SOr a b => writable a && writable b
    | SNot a => plain a
    | SForAll _ c' | SSub _ c' => writable c'
    end.

  Lemma six_reflect o : six (reflect o) = six o.
  Proof. destruct o; reflexivity. Qed.

  Lemma elab_plain c : plain c = true -> exists ic, elab c = Some ic /\ Elab_Facts.negatable ic = true.
  Proof.
    induction c as [o l r|i cont|cont i|t|a IHa b IHb|a IHa b IHb|a IHa|u c IH|sel c IH]; cbn [elab plain]; intros P; try discriminate.
    - unfold elab_cmp. destruct (is_lit l).
      + rewrite <- six_reflect in P. unfold six in P. destruct (dunder_of (reflect o)) as [d|]; [|discriminate].
        eexists; split; [reflexivity|]. destruct d; reflexivity.
      + unfold six in P. destruct (dunder_of o) as [d|]; [|discriminate].
        eexists; split; [reflexivity|]. destruct d; reflexivity.
    - eexists; split; reflexivity.
    - eexists; split; reflexivity.
    - eexists; split; reflexivity.
    - apply andb_prop in P as [Pa Pb]. destruct (IHa Pa) as (p & -> & Np), (IHb Pb) as (q & -> & Nq).
      eexists; split; [reflexivity|]. cbn. now rewrite Np, Nq.
    - apply andb_prop in P as [Pa Pb]. destruct (IHa Pa) as (p & -> & Np), (IHb Pb) as (q & -> & Nq).
      eexists; split; [reflexivity|]. cbn. now rewrite Np, Nq.
    - destruct (IHa P) as (p & -> & Np). cbn [bind_opt]. destruct (Elab_Facts.neg_total p Np) as (p' & -> & Np').
      eexists; split; [reflexivity | exact Np'].
  Qed.

  Lemma elab_writable c : writable c = true -> exists ic, elab c = Some ic.
  Proof.
    induction c as [o l r|i cont|cont i|t|a IHa b IHb|a IHa b IHb|a IHa|u c IH|sel c IH]; cbn [writable]; intros P.
    - destruct (elab_plain (SCmp o l r) P) as (ic & H & _). eauto.
    - eexists; reflexivity.
    - eexists; reflexivity.
    - eexists; reflexivity.
    - apply andb_prop in P as [Pa Pb]. destruct (IHa Pa) as (p & Hp), (IHb Pb) as (q & Hq). cbn [elab]. rewrite Hp, Hq.
      eexists; reflexivity.
    - apply andb_prop in P as [Pa Pb]. destruct (IHa Pa) as (p & Hp), (IHb Pb) as (q & Hq). cbn [elab]. rewrite Hp, Hq.
      eexists; reflexivity.
    - destruct (elab_plain (SNot a) P) as (ic & H & _). eauto.
    - destruct (IH P) as (p & Hp). cbn [elab]. rewrite Hp. eexists; reflexivity.
    - destruct (IH P) as (p & Hp). cbn [elab]. rewrite Hp. eexists; reflexivity.
  Qed.
End Frag.
