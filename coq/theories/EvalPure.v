(* EvalPure.v — the P-model (DESIGN.md 3.4): the evaluation ALGORITHM of symbolic.py on lists, rows
   paired with the truth flag the parent reads after each yield (`_is_false_`), no mutable state.
   It mirrors: which operand of a comparison is enumerated first, nested-loop AND, else-if with
   `yield_when_false` forced on for its left side, the truthiness reading of a mapping in condition
   position only, per-value intersection in ForAll, sequential binding of the selected expressions.
   No proofs here. *)
From EQL Require Import Base Values Syntax.

Section Eval.
  Variable h : heap.
  Variable dom : key -> list val.

  (* (the else-if loop skips false rows of its right side when they were not asked for; since a node
     evaluated with ywf = false yields no false rows — lemma eval_no_false_rows — that test never fires
     and is not repeated here) *)
  (* rows of a term: (binding extended by what had to be bound, value) *)
  Fixpoint eval_term (t : term) (b : binding) : list (binding * val) :=
    match t with
    | TLit v => [(b, v)]
    | TVar x =>
        match lookup b x with
        | Some v => [(b, v)]
        | None => map (fun v => (bind b x v, v)) (dom x)
        end
    | TMap m t' => map (fun bv => (fst bv, apply_map h m (snd bv))) (eval_term t' b)
    | TFlat id t' =>
        match lookup b id with
        | Some v => [(b, v)]
        | None => flat_map (fun bv => map (fun e => (bind (fst bv) id e, e)) (elements (snd bv))) (eval_term t' b)
        end
    | TConcat id t' =>
        (* Concatenate._evaluate__: drain the child under the incoming binding, extend one list, yield ONE row *)
        match lookup b id with
        | Some v => [(b, v)]
        | None => let all := VTup (flat_map (fun bv => atoms_of (snd bv)) (eval_term t' b)) in [(bind b id all, all)]
        end
    end.

  (* Comparator.get_first_second_operands: the right operand goes first when one of its variables is bound *)
  Definition bound_in (t : term) (b : binding) : bool := existsb (bound b) (tvars t).

  (* the double loop of Comparator._evaluate__ ; [resf v1 v2] is the operation applied to (first, second) *)
  Definition cmp_rows (t1 t2 : term) (resf : val -> val -> bool) (b : binding) (ywf : bool) : list (binding * bool) :=
    flat_map (fun p1 : binding * val =>
      flat_map (fun p2 : binding * val =>
        if resf (snd p1) (snd p2) || ywf then [(fst p2, negb (resf (snd p1) (snd p2)))] else [])
        (eval_term t2 (fst p1))) (eval_term t1 b).

  (* restriction of a binding to a key list, as a canonical association list (ForAll compares the
     restricted rows of different passes by exact equality of their items) *)
  Definition restrict_to (ks : list key) (b : binding) : binding :=
    flat_map (fun k => match lookup b k with Some v => [(k, v)] | None => [] end) ks.
  Definition binding_eqb (a b : binding) : bool :=
    Nat.eqb (length a) (length b) &&
    forallb (fun kv => match lookup b (fst kv) with Some v => veqb v (snd kv) | None => false end) a.
  Definition merge (b extra : binding) : binding :=
    fold_right (fun kv acc => if bound acc (fst kv) then acc else bind acc (fst kv) (snd kv)) b extra.

  (* ForAll: the rows of the pass for the first universal value, intersected with those of every further pass
     (exact equality of the restricted rows); an empty intermediate result stops the loop *)
  Definition inter (pass : val -> list binding) (us : list val) : list binding :=
    match us with
    | [] => []
    | v0 :: vs =>
        fold_left (fun acc v => match acc with
                                | [] => []
                                | _ => filter (fun d => existsb (binding_eqb d) (pass v)) acc
                                end) vs (pass v0)
    end.

  (* the variables of an expression in order of FIRST appearance (HashedIterable built from _all_variable_instances_) *)
  Fixpoint nodup_keys_from (seen l : list key) : list key :=
    match l with
    | [] => []
    | k :: l' => if existsb (Nat.eqb k) seen then nodup_keys_from seen l' else k :: nodup_keys_from (k :: seen) l'
    end.
  Definition nodup_keys (l : list key) : list key := nodup_keys_from [] l.

  Fixpoint eval (c : cond) (b : binding) (ywf : bool) : list (binding * bool) :=
    match c with
    | CCmp o l r =>
        if bound_in r b then cmp_rows r l (fun v1 v2 => apply_op o v2 v1) b ywf
        else cmp_rows l r (apply_op o) b ywf
    | CTruth t inv =>
        flat_map (fun bv : binding * val =>
                    let is_false := negb (xorb inv (truthy (snd bv))) in
                    if ywf || negb is_false then [(fst bv, is_false)] else []) (eval_term t b)
    | CAnd x y =>
        flat_map (fun p : binding * bool =>
                    if snd p then (if ywf then [(fst p, true)] else []) else eval y (fst p) ywf) (eval x b ywf)
    | CElseIf x y =>
        match eval x b true with
        | [] => eval y b ywf
        | ls => flat_map (fun p : binding * bool =>
                            if snd p then eval y (fst p) ywf else [(fst p, false)]) ls
        end
    | CForAll u c' =>
        (* one pass per value of the universal variable; the satisfying rows restricted to the other
           variables of the condition are intersected by exact equality; an empty pass empties the result *)
        let free := nodup_keys (filter (fun k => negb (Nat.eqb k u)) (cvars c')) in
        let pass (v : val) : list binding :=
          (* a row that leaves a free variable unbound stands for every value of it: bind them first *)
          flat_map (fun p : binding * bool =>
                      map (restrict_to free)
                          ((fix bind_vars (xs : list key) (b1 : binding) : list binding :=
                              match xs with
                              | [] => [b1]
                              | x :: xs' => match lookup b1 x with
                                            | Some _ => bind_vars xs' b1
                                            | None => flat_map (fun w => bind_vars xs' (bind b1 x w)) (dom x)
                                            end
                              end) free (fst p)))
                   (filter (fun p => negb (snd p)) (eval c' (bind b u v) false)) in
        let sols := inter pass (dom u) in
        map (fun s => (merge b s, false)) sols
    | CSub sel c' =>
        (* nested An(Entity/SetOf): the rows of its condition, its own selected expressions bound one after the other *)
        flat_map (fun p : binding * bool =>
                    map (fun b' => (b', snd p))
                        ((fix bind_sel (sel : list term) (b : binding) : list binding :=
                            match sel with
                            | [] => [b]
                            | t :: sel' => flat_map (fun bv => bind_sel sel' (fst bv)) (eval_term t b)
                            end) sel (fst p))) (eval c' b ywf)
    end.

  (* QueryObjectDescriptor._evaluate_ + An: for every TRUE row of the condition bind the selected
     expressions that are still unbound one after the other (threading the binding) and read them off *)
  Fixpoint bind_selected (sel : list term) (b : binding) : list binding :=
    match sel with
    | [] => [b]
    | t :: sel' => flat_map (fun bv => bind_selected sel' (fst bv)) (eval_term t b)
    end.

  Definition row_of (sel : list term) (b : binding) : list val :=
    map (fun t => match eval_term t b with (_, v) :: _ => v | [] => VA ANone end) sel.

  Definition run_query (sel : list term) (c : option cond) : list (list val) :=
    let rows := match c with
                | Some c' => map fst (filter (fun p => negb (snd p)) (eval c' [] false))
                | None => [[]]
                end in
    flat_map (fun b => map (row_of sel) (bind_selected sel b)) rows.
End Eval.

(* the(...): consume the rows; fail on the second, fail if there is none (The._evaluate_) *)
Inductive outcome := ONone | OValue (r : list val) | OMany.
Definition the_of (rows : list (list val)) : outcome :=
  match rows with [] => ONone | [r] => OValue r | _ :: _ :: _ => OMany end.
