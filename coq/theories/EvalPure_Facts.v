(* EvalPure_Facts.v — the central invariant of the P-model (DESIGN.md 3.5) and its consequences:
   the TRUE rows of a node partition the satisfying assignments, the FALSE rows (when requested) partition
   the others; after binding the selected variables every satisfying assignment is delivered exactly once. *)
From EQL Require Import Base Values Syntax Spec EvalPure.

(* ---------- generic list facts ---------- *)
Lemma list_sum_indicator {A} (hh : A -> nat) (p : A -> bool) K l :
  (forall a, In a l -> hh a = if p a then K else 0) ->
  list_sum (map hh l) = K * length (filter p l).
Proof.
  induction l as [|a l IH]; intros H; simpl; [lia|].
  rewrite (H a (or_introl eq_refl)), IH by (intros; apply H; right; assumption).
  destruct (p a); simpl; lia.
Qed.

Lemma list_sum_indicator2 {A} (hh : A -> nat) (p1 p2 : A -> bool) K1 K2 l :
  (forall a, In a l -> hh a = if p1 a then K1 else if p2 a then K2 else 0) ->
  (forall a, In a l -> p1 a = true -> p2 a = false) ->
  list_sum (map hh l) = K1 * length (filter p1 l) + K2 * length (filter p2 l).
Proof.
  induction l as [|a l IH]; intros H D; simpl; [lia|].
  rewrite (H a (or_introl eq_refl)).
  rewrite IH; [| intros; apply H; right; assumption | intros; apply D; [right|]; assumption].
  specialize (D a (or_introl eq_refl)).
  destruct (p1 a); [rewrite (D eq_refl)|destruct (p2 a)]; simpl; lia.
Qed.

Lemma filter_all_false {A} (p : A -> bool) l : (forall x, In x l -> p x = false) -> filter p l = [].
Proof. induction l as [|a l IH]; intros H; simpl; [reflexivity|].
  rewrite (H a (or_introl eq_refl)). apply IH. intros; apply H; right; assumption. Qed.

Lemma filter_map_length {A B} (p : B -> bool) (g : A -> B) l :
  length (filter p (map g l)) = length (filter (fun a => p (g a)) l).
Proof. induction l as [|a l IH]; simpl; [reflexivity|]. destruct (p (g a)); simpl; rewrite IH; reflexivity. Qed.

Lemma length_filter_flat_map {A B} (p : B -> bool) (g : A -> list B) l :
  length (filter p (flat_map g l)) = list_sum (map (fun a => length (filter p (g a))) l).
Proof. induction l as [|a l IH]; simpl; [reflexivity|]. rewrite filter_app, app_length, IH. reflexivity. Qed.

(* ---------- Leibniz equality on values, decidable (definitions: Values.v) ---------- *)
Lemma zs_eqb_eq l : forall m, zs_eqb l m = true <-> l = m.
Proof.
  induction l as [|x l IH]; intros [|y m]; cbn [zs_eqb]; split; intros H; try discriminate; try reflexivity.
  - apply andb_true_iff in H as [H1 H2]. apply Z.eqb_eq in H1. apply IH in H2. now subst.
  - injection H as -> ->. rewrite Z.eqb_refl. now apply IH.
Qed.
Lemma atom_eqb_eq a b : atom_eqb a b = true <-> a = b.
Proof.
  destruct a, b; cbn; split; intros H; try discriminate; try reflexivity; try congruence.
  - apply Z.eqb_eq in H. now subst.
  - injection H as ->. apply Z.eqb_refl.
  - apply Bool.eqb_prop in H. now subst.
  - injection H as ->. apply Bool.eqb_reflx.
  - apply String.eqb_eq in H. now subst.
  - injection H as ->. apply String.eqb_refl.
  - apply Nat.eqb_eq in H. now subst.
  - injection H as ->. apply Nat.eqb_refl.
  - apply zs_eqb_eq in H. now subst.
  - injection H as ->. now apply zs_eqb_eq.
Qed.
Lemma atoms_eqb_eq l : forall m, atoms_eqb l m = true <-> l = m.
Proof.
  induction l as [|a l IH]; intros [|b m]; cbn; split; intros H; try discriminate; try reflexivity.
  - apply andb_prop in H as [H1 H2]. apply atom_eqb_eq in H1. apply IH in H2. now subst.
  - injection H as -> ->. apply andb_true_intro. split; [now apply atom_eqb_eq | now apply IH].
Qed.
Lemma val_eqb_eq v w : val_eqb v w = true <-> v = w.
Proof.
  destruct v as [a|l], w as [b|m]; cbn; split; intros H; try discriminate.
  - apply atom_eqb_eq in H. now subst.
  - injection H as ->. now apply atom_eqb_eq.
  - apply atoms_eqb_eq in H. now subst.
  - injection H as ->. now apply atoms_eqb_eq.
Qed.
Lemma val_eqb_refl v : val_eqb v v = true.
Proof. now apply val_eqb_eq. Qed.

Lemma count_eqb_nodup (l : list val) (o : val) : NoDup l -> In o l ->
  length (filter (fun o' => val_eqb o o') l) = 1.
Proof.
  induction 1 as [|a l Hn Hd IH]; intros Hin; [destruct Hin|]. cbn [filter].
  destruct (val_eqb o a) eqn:E.
  - apply val_eqb_eq in E; subst a. cbn [length]. f_equal.
    rewrite filter_all_false; [reflexivity|].
    intros o' Ho'. destruct (val_eqb o o') eqn:E'; [|reflexivity].
    apply val_eqb_eq in E'; subst o'. contradiction.
  - destruct Hin as [->|Hin]; [rewrite val_eqb_refl in E; discriminate|]. apply IH; assumption.
Qed.

Definition ind (c : bool) : nat := if c then 1 else 0.

Section M.
  Variable h : heap.
  Variable dom : key -> list val.
  Variable U : list key.                       (* the variables of the query *)
  Hypothesis dom_nodup : forall x, In x U -> NoDup (dom x).

  Notation eval_term := (eval_term h dom).
  Notation eval := (eval h dom).
  Notation tval := (tval h).
  Notation isat := (isat h dom).

  (* ---------- the fragment the invariant is proved for ---------- *)
  Fixpoint flat_free (t : term) : bool :=
    match t with TLit _ | TVar _ => true | TMap _ t' => flat_free t' | TFlat _ _ | TConcat _ _ => false end.
  Definition tclosed (t : term) : bool := flat_free t && forallb (fun x => existsb (Nat.eqb x) U) (tvars t).
  Fixpoint basic (c : cond) : bool :=
    match c with
    | CCmp _ l r => tclosed l && tclosed r
    | CTruth t _ => tclosed t
    | CAnd a b | CElseIf a b => basic a && basic b
    | CForAll _ _ => false
    | CSub sel c' => forallb tclosed sel && basic c'
    end.

  (* ---------- agreement of a (partial) binding with a total assignment, on U ---------- *)
  Definition agreesb (b : binding) (e : env) : bool :=
    forallb (fun x => match lookup b x with Some v => val_eqb (e x) v | None => true end) U.
  Definition valid (e : env) : Prop := forall x, In x U -> In (e x) (dom x).

  Lemma inU x : existsb (Nat.eqb x) U = true <-> In x U.
  Proof.
    rewrite existsb_exists. split.
    - intros (y & Hy & E). apply Nat.eqb_eq in E. now subst.
    - intros H. exists x. split; [assumption | apply Nat.eqb_refl].
  Qed.

  Lemma agrees_lookup b e x v : agreesb b e = true -> In x U -> lookup b x = Some v -> e x = v.
  Proof.
    unfold agreesb. rewrite forallb_forall. intros H Hx L. specialize (H x Hx). rewrite L in H.
    now apply val_eqb_eq in H.
  Qed.

  Lemma lookup_bind b x v y : lookup (bind b x v) y = if Nat.eqb y x then Some v else lookup b y.
  Proof. reflexivity. Qed.

  Lemma agrees_bind b e x v : lookup b x = None -> In x U ->
    agreesb (bind b x v) e = val_eqb (e x) v && agreesb b e.
  Proof.
    intros L Hx. unfold agreesb.
    assert (G : forall l, (forall y, In y l -> In y U) ->
              forallb (fun y => match lookup (bind b x v) y with Some w => val_eqb (e y) w | None => true end) l
              = (if existsb (Nat.eqb x) l then val_eqb (e x) v else true) &&
                forallb (fun y => match lookup b y with Some w => val_eqb (e y) w | None => true end) l).
    { induction l as [|y l IH]; intros Hl; cbn [forallb existsb]; [reflexivity|].
      rewrite IH by (intros; apply Hl; now right). rewrite lookup_bind.
      destruct (Nat.eqb y x) eqn:E.
      - apply Nat.eqb_eq in E; subst y. rewrite Nat.eqb_refl, L. cbn [orb].
        destruct (val_eqb (e x) v); cbn [andb]; [|reflexivity].
        destruct (existsb (Nat.eqb x) l); reflexivity.
      - rewrite Nat.eqb_sym, E. cbn [orb].
        destruct (lookup b y) as [w|]; [destruct (val_eqb (e y) w)|]; cbn [andb];
          destruct (existsb (Nat.eqb x) l), (val_eqb (e x) v); cbn [andb]; reflexivity. }
    rewrite (G U (fun y H => H)). apply inU in Hx. now rewrite Hx.
  Qed.

  (* ---------- terms ---------- *)
  Definition tcount (rows : list (binding * val)) (e : env) : nat :=
    length (filter (fun r => agreesb (fst r) e) rows).

  Lemma term_ext t : flat_free t = true -> forall b b' v e,
    In (b', v) (eval_term t b) -> agreesb b' e = true -> agreesb b e = true.
  Proof.
    induction t as [w|x|m t IH|id t IH|id t IH]; intros F b b' v e; cbn [EvalPure.eval_term]; cbn [flat_free] in F; try discriminate.
    - intros [H|[]]; injection H as <- _; auto.
    - destruct (lookup b x) eqn:L.
      + intros [H|[]]; injection H as <- _; auto.
      + intros H A. apply in_map_iff in H as (o & H & _). injection H as <- _.
        unfold agreesb in *. rewrite forallb_forall in *. intros y Hy. specialize (A y Hy).
        rewrite lookup_bind in A. destruct (Nat.eqb y x) eqn:E; [|exact A].
        apply Nat.eqb_eq in E; subst y. now rewrite L.
    - intros H A. apply in_map_iff in H as ([b1 v1] & H & H1). injection H as <- _. eapply IH; eassumption.
  Qed.

  (* exactly one row agrees with a valid assignment that agrees with the incoming binding, and it carries
     the term's value under that assignment *)
  Lemma term_cover t : tclosed t = true -> forall b e, agreesb b e = true -> valid e ->
    tcount (eval_term t b) e = 1 /\
    (forall b' v, In (b', v) (eval_term t b) -> agreesb b' e = true -> v = tval t e).
  Proof.
    unfold tclosed. induction t as [w|x|m t IH|id t IH|id t IH]; intros C b e A V; cbn [flat_free tvars forallb] in C;
      cbn [EvalPure.eval_term Spec.tval]; try discriminate.
    - split; [unfold tcount; cbn [filter fst]; rewrite A; reflexivity|].
      intros b' v [H|[]] _. injection H as _ <-. reflexivity.
    - cbn [andb] in C. rewrite andb_true_r in C. apply inU in C.
      destruct (lookup b x) as [o|] eqn:L.
      + split.
        * unfold tcount. cbn [filter fst]. rewrite A. reflexivity.
        * intros b' v [H|[]] _. injection H as _ <-. symmetry. eapply agrees_lookup; eassumption.
      + split.
        * unfold tcount. rewrite <- (count_eqb_nodup (dom x) (e x) (dom_nodup x C) (V x C)).
          rewrite filter_map_length. f_equal. apply filter_ext. intros o. cbn [fst].
          rewrite agrees_bind by assumption. rewrite A. apply andb_true_r.
        * intros b' v H Ab. apply in_map_iff in H as (o & H & _). injection H as <- <-.
          rewrite agrees_bind in Ab by assumption. apply andb_prop in Ab as [Ab _].
          apply val_eqb_eq in Ab. now rewrite Ab.
    - destruct (IH C b e A V) as [C1 V1]. split.
      + unfold tcount in *. rewrite filter_map_length. cbn [fst]. exact C1.
      + intros b' v H Ab. apply in_map_iff in H as ([b1 v1] & H & H1). injection H as <- <-. cbn [fst snd] in *.
        f_equal. eapply V1; eassumption.
  Qed.

  (* ---------- rows with truth flags ---------- *)
  Definition cover (f : bool) (rows : list (binding * bool)) (e : env) : nat :=
    length (filter (fun r => Bool.eqb (snd r) f && agreesb (fst r) e) rows).

  Lemma cover_app f r1 r2 e : cover f (r1 ++ r2) e = cover f r1 e + cover f r2 e.
  Proof. unfold cover. rewrite filter_app, app_length. reflexivity. Qed.

  Lemma cover_flat_map {A} (g : A -> list (binding * bool)) l f e :
    cover f (flat_map g l) e = list_sum (map (fun a => cover f (g a) e) l).
  Proof. induction l as [|a l IH]; simpl; [reflexivity|]. rewrite cover_app, IH. reflexivity. Qed.

  Lemma cover_opt f (c : bool) b fl e :
    cover f (if c then [(b, fl)] else []) e = if c && Bool.eqb fl f && agreesb b e then 1 else 0.
  Proof. unfold cover. destruct c; simpl; [|reflexivity]. destruct (Bool.eqb fl f && agreesb b e); reflexivity. Qed.

  Lemma cover_none f rows e : (forall r, In r rows -> agreesb (fst r) e = false) -> cover f rows e = 0.
  Proof.
    intros H. unfold cover. rewrite filter_all_false; [reflexivity|]. intros r Hr. rewrite (H r Hr). apply andb_false_r.
  Qed.

  (* a leaf driven by one term: for every row of the term, [k v] decides whether a row is produced and its flag *)
  Definition leaf_rows (t : term) (k : val -> option bool) (b : binding) : list (binding * bool) :=
    flat_map (fun bv : binding * val => match k (snd bv) with Some fl => [(fst bv, fl)] | None => [] end) (eval_term t b).

  Lemma leaf_rows_ext t k b b' fl e : tclosed t = true ->
    In (b', fl) (leaf_rows t k b) -> agreesb b' e = true -> agreesb b e = true.
  Proof.
    intros C H A. unfold leaf_rows in H. apply in_flat_map in H as ([b1 v1] & H1 & H). cbn [fst snd] in H.
    destruct (k v1); [|destruct H]. destruct H as [H|[]]. injection H as <- _.
    apply andb_prop in C as [C _]. eapply term_ext; eassumption.
  Qed.

  Lemma leaf_rows_cover t k b e f : tclosed t = true -> agreesb b e = true -> valid e ->
    cover f (leaf_rows t k b) e = match k (tval t e) with Some fl => ind (Bool.eqb fl f) | None => 0 end.
  Proof.
    intros C A V. unfold leaf_rows. rewrite cover_flat_map.
    destruct (term_cover t C b e A V) as [C1 V1].
    rewrite (list_sum_indicator _ (fun r => agreesb (fst r) e)
               (match k (tval t e) with Some fl => ind (Bool.eqb fl f) | None => 0 end)).
    - unfold tcount in C1. rewrite C1. lia.
    - intros [b1 v1] H1. cbn [fst snd]. destruct (agreesb b1 e) eqn:A1.
      + rewrite (V1 b1 v1 H1 A1). destruct (k (tval t e)) as [fl|]; [|reflexivity].
        unfold cover. cbn [filter fst snd]. rewrite A1, andb_true_r. destruct (Bool.eqb fl f); reflexivity.
      + destruct (k v1) as [fl|]; [|reflexivity]. unfold cover. cbn [filter fst snd]. rewrite A1, andb_false_r. reflexivity.
  Qed.

  Lemma cmp_rows_as_leaf t1 t2 resf b ywf :
    cmp_rows h dom t1 t2 resf b ywf =
    flat_map (fun p1 : binding * val =>
                leaf_rows t2 (fun v2 => if resf (snd p1) v2 || ywf then Some (negb (resf (snd p1) v2)) else None) (fst p1))
             (eval_term t1 b).
  Proof.
    unfold cmp_rows, leaf_rows. apply flat_map_ext. intros [b1 v1]. apply flat_map_ext. intros [b2 v2]. cbn [fst snd].
    destruct (resf v1 v2 || ywf); reflexivity.
  Qed.

  Lemma truth_as_leaf t inv b ywf :
    eval (CTruth t inv) b ywf =
    leaf_rows t (fun v => if ywf || xorb inv (truthy v) then Some (negb (xorb inv (truthy v))) else None) b.
  Proof.
    cbn [EvalPure.eval]. unfold leaf_rows. apply flat_map_ext. intros [b1 v1]. cbn [fst snd].
    rewrite negb_involutive. destruct (ywf || xorb inv (truthy v1)); reflexivity.
  Qed.

  Lemma cmp_rows_ext t1 t2 resf b ywf b' fl e : tclosed t1 = true -> tclosed t2 = true ->
    In (b', fl) (cmp_rows h dom t1 t2 resf b ywf) -> agreesb b' e = true -> agreesb b e = true.
  Proof.
    intros C1 C2 H A. rewrite cmp_rows_as_leaf in H. apply in_flat_map in H as ([b1 v1] & H1 & H). cbn [fst snd] in H.
    apply andb_prop in C1 as [F1 _]. eapply term_ext; [exact F1 | exact H1 |]. eapply leaf_rows_ext; eassumption.
  Qed.

  Lemma cmp_rows_cover t1 t2 resf b ywf e f : tclosed t1 = true -> tclosed t2 = true -> agreesb b e = true -> valid e ->
    cover f (cmp_rows h dom t1 t2 resf b ywf) e =
    let res := resf (tval t1 e) (tval t2 e) in
    if (res || ywf) && Bool.eqb (negb res) f then 1 else 0.
  Proof.
    intros C1 C2 A V. cbn zeta.
    set (K := if (resf (tval t1 e) (tval t2 e) || ywf) && Bool.eqb (negb (resf (tval t1 e) (tval t2 e))) f then 1 else 0).
    rewrite cmp_rows_as_leaf, cover_flat_map.
    destruct (term_cover t1 C1 b e A V) as [K1 V1].
    rewrite (list_sum_indicator _ (fun r => agreesb (fst r) e) K).
    - unfold tcount in K1. rewrite K1. lia.
    - intros [b1 v1] H1. cbn [fst snd]. destruct (agreesb b1 e) eqn:A1.
      + rewrite leaf_rows_cover by assumption. rewrite (V1 b1 v1 H1 A1). unfold K.
        destruct (resf (tval t1 e) (tval t2 e) || ywf); [|reflexivity]. cbn [andb]. reflexivity.
      + apply cover_none. intros [b2 f2] H2. cbn [fst]. destruct (agreesb b2 e) eqn:A2; [|reflexivity].
        rewrite (leaf_rows_ext _ _ _ _ _ _ C2 H2 A2) in A1. discriminate.
  Qed.

  (* ---------- binding the selected expressions ---------- *)
  Fixpoint bind_sel (sel : list term) (b : binding) : list binding :=
    match sel with
    | [] => [b]
    | t :: sel' => flat_map (fun bv => bind_sel sel' (fst bv)) (eval_term t b)
    end.

  Lemma bind_selected_eq sel b : bind_selected h dom sel b = bind_sel sel b.
  Proof. revert b; induction sel as [|t sel IH]; intros b; cbn; [reflexivity|]. apply flat_map_ext. intros. apply IH. Qed.

  Lemma bind_sel_ext sel : forallb tclosed sel = true -> forall b b' e,
    In b' (bind_sel sel b) -> agreesb b' e = true -> agreesb b e = true.
  Proof.
    induction sel as [|t sel IH]; intros C b b' e H A; cbn [bind_sel] in H.
    - destruct H as [<-|[]]. exact A.
    - cbn [forallb] in C. apply andb_prop in C as [Ct Cs]. apply in_flat_map in H as ([b1 v1] & H1 & H). cbn [fst] in H.
      apply andb_prop in Ct as [F _]. eapply term_ext; [exact F | exact H1 |]. eapply IH; eassumption.
  Qed.

  Lemma bind_sel_cover sel : forallb tclosed sel = true -> forall b e, agreesb b e = true -> valid e ->
    length (filter (fun b' => agreesb b' e) (bind_sel sel b)) = 1.
  Proof.
    induction sel as [|t sel IH]; intros C b e A V; cbn [bind_sel].
    - cbn [filter]. rewrite A. reflexivity.
    - cbn [forallb] in C. apply andb_prop in C as [Ct Cs]. rewrite length_filter_flat_map.
      destruct (term_cover t Ct b e A V) as [K1 _].
      rewrite (list_sum_indicator _ (fun r => agreesb (fst r) e) 1).
      + unfold tcount in K1. rewrite K1. reflexivity.
      + intros [b1 v1] H1. cbn [fst]. destruct (agreesb b1 e) eqn:A1.
        * apply IH; assumption.
        * rewrite filter_all_false; [reflexivity|]. intros b2 H2. destruct (agreesb b2 e) eqn:A2; [|reflexivity].
          rewrite (bind_sel_ext sel Cs b1 b2 e H2 A2) in A1. discriminate.
  Qed.

  (* ---------- nodes ---------- *)
  Lemma eval_sub_eq sel c b ywf :
    eval (CSub sel c) b ywf = flat_map (fun p : binding * bool => map (fun b' => (b', snd p)) (bind_sel sel (fst p))) (eval c b ywf).
  Proof.
    cbn [EvalPure.eval]. apply flat_map_ext. intros [b1 f1]. cbn [fst snd]. reflexivity.
  Qed.

  Lemma eval_ext c : basic c = true -> forall b ywf b' fl e,
    In (b', fl) (eval c b ywf) -> agreesb b' e = true -> agreesb b e = true.
  Proof.
    induction c as [o l r|t inv|x IHx y IHy|x IHx y IHy|u c IH|sel c IH]; intros B b ywf b' fl e H A; cbn [basic] in B;
      try discriminate.
    - cbn [EvalPure.eval] in H. apply andb_prop in B as [Cl Cr].
      destruct (bound_in r b); [eapply (cmp_rows_ext r l) | eapply (cmp_rows_ext l r)]; eassumption.
    - rewrite truth_as_leaf in H. eapply leaf_rows_ext; eassumption.
    - cbn [EvalPure.eval] in H. apply andb_prop in B as [Bx By]. apply in_flat_map in H as ([b1 f1] & H1 & H). cbn [fst snd] in H.
      destruct f1.
      + destruct ywf; [|destruct H]. destruct H as [H|[]]. injection H as <- _. eapply IHx; eassumption.
      + eapply IHx; [exact Bx | exact H1 |]. eapply IHy; eassumption.
    - cbn [EvalPure.eval] in H. apply andb_prop in B as [Bx By]. destruct (eval x b true) as [|p0 ls] eqn:E.
      + eapply IHy; eassumption.
      + rewrite <- E in H. apply in_flat_map in H as ([b1 f1] & H1 & H). cbn [fst snd] in H.
        destruct f1.
        * eapply IHx; [exact Bx | exact H1 |]. eapply IHy; eassumption.
        * destruct H as [H|[]]. injection H as <- _. eapply IHx; eassumption.
    - rewrite eval_sub_eq in H. apply andb_prop in B as [Bs Bc]. apply in_flat_map in H as ([b1 f1] & H1 & H). cbn [fst snd] in H.
      apply in_map_iff in H as (b2 & H & H2). injection H as <- _.
      eapply IH; [exact Bc | exact H1 |]. eapply bind_sel_ext; eassumption.
  Qed.

  (* The partition invariant: true rows cover each satisfying extension exactly once; when false rows
     are requested they cover each non-satisfying extension exactly once, otherwise there are none. *)
  Theorem eval_cover c : basic c = true -> forall b ywf e, agreesb b e = true -> valid e ->
    cover false (eval c b ywf) e = ind (isat c e) /\
    cover true (eval c b ywf) e = ind (ywf && negb (isat c e)).
  Proof.
    induction c as [o l r|t inv|x IHx y IHy|x IHx y IHy|u c IH|sel c IH]; intros B b ywf e A V; cbn [basic] in B;
      try discriminate.
    - cbn [EvalPure.eval Spec.isat]. apply andb_prop in B as [Cl Cr].
      destruct (bound_in r b); rewrite !cmp_rows_cover by assumption; cbn zeta;
        destruct (apply_op o (tval l e) (tval r e)), ywf; split; reflexivity.
    - cbn [Spec.isat].
      rewrite truth_as_leaf, !leaf_rows_cover by assumption.
      destruct (xorb inv (truthy (tval t e))), ywf; split; reflexivity.
    - cbn [EvalPure.eval Spec.isat]. apply andb_prop in B as [Bx By].
      destruct (IHx Bx b ywf e A V) as [XF XT]. rewrite !cover_flat_map. split.
      + rewrite (list_sum_indicator _ (fun r => Bool.eqb (snd r) false && agreesb (fst r) e) (ind (isat y e))).
        * fold (cover false (eval x b ywf) e). rewrite XF. destruct (isat x e), (isat y e); reflexivity.
        * intros [b1 f1] H1. cbn [fst snd]. destruct f1; cbn [Bool.eqb andb].
          -- destruct ywf; [rewrite (cover_opt false true)|]; reflexivity.
          -- destruct (agreesb b1 e) eqn:A1.
             ++ apply (IHy By b1 ywf e A1 V).
             ++ apply cover_none. intros [b2 f2] H2. cbn [fst]. destruct (agreesb b2 e) eqn:A2; [|reflexivity].
                rewrite (eval_ext y By b1 ywf b2 f2 e H2 A2) in A1. discriminate.
      + rewrite (list_sum_indicator2 _ (fun r => Bool.eqb (snd r) true && agreesb (fst r) e)
                   (fun r => Bool.eqb (snd r) false && agreesb (fst r) e) (ind ywf) (ind (ywf && negb (isat y e)))).
        * fold (cover true (eval x b ywf) e) (cover false (eval x b ywf) e). rewrite XF, XT.
          destruct (isat x e), (isat y e), ywf; reflexivity.
        * intros [b1 f1] H1. cbn [fst snd]. destruct f1; cbn [Bool.eqb andb].
          -- destruct ywf; [rewrite (cover_opt true true); cbn [andb Bool.eqb]|]; destruct (agreesb b1 e); reflexivity.
          -- destruct (agreesb b1 e) eqn:A1.
             ++ apply (IHy By b1 ywf e A1 V).
             ++ apply cover_none. intros [b2 f2] H2. cbn [fst]. destruct (agreesb b2 e) eqn:A2; [|reflexivity].
                rewrite (eval_ext y By b1 ywf b2 f2 e H2 A2) in A1. discriminate.
        * intros [b1 f1] _. cbn [fst snd]. destruct f1; cbn [Bool.eqb andb]; [reflexivity|discriminate].
    - cbn [EvalPure.eval Spec.isat]. apply andb_prop in B as [Bx By].
      destruct (IHx Bx b true e A V) as [XF XT].
      destruct (eval x b true) as [|p0 ls] eqn:E.
      + exfalso. unfold cover in XF, XT. cbn in XF, XT. destruct (isat x e); discriminate.
      + rewrite <- E in *. clear E p0 ls. rewrite !cover_flat_map. split.
        * rewrite (list_sum_indicator2 _ (fun r => Bool.eqb (snd r) false && agreesb (fst r) e)
                     (fun r => Bool.eqb (snd r) true && agreesb (fst r) e) 1 (ind (isat y e))).
          -- fold (cover true (eval x b true) e) (cover false (eval x b true) e). rewrite XF, XT.
             destruct (isat x e), (isat y e); reflexivity.
          -- intros [b1 f1] H1. cbn [fst snd]. destruct f1; cbn [Bool.eqb andb].
             ++ destruct (agreesb b1 e) eqn:A1.
                ** apply (IHy By b1 ywf e A1 V).
                ** apply cover_none. intros [b2 f2] H2. cbn [fst]. destruct (agreesb b2 e) eqn:A2; [|reflexivity].
                   rewrite (eval_ext y By b1 ywf b2 f2 e H2 A2) in A1. discriminate.
             ++ rewrite (cover_opt false true). cbn [andb Bool.eqb]. destruct (agreesb b1 e); reflexivity.
          -- intros [b1 f1] _. cbn [fst snd]. destruct f1; cbn [Bool.eqb andb]; [discriminate|reflexivity].
        * rewrite (list_sum_indicator _ (fun r => Bool.eqb (snd r) true && agreesb (fst r) e) (ind (ywf && negb (isat y e)))).
          -- fold (cover true (eval x b true) e). rewrite XT. destruct (isat x e), (isat y e), ywf; reflexivity.
          -- intros [b1 f1] H1. cbn [fst snd]. destruct f1; cbn [Bool.eqb andb].
             ++ destruct (agreesb b1 e) eqn:A1.
                ** apply (IHy By b1 ywf e A1 V).
                ** apply cover_none. intros [b2 f2] H2. cbn [fst]. destruct (agreesb b2 e) eqn:A2; [|reflexivity].
                   rewrite (eval_ext y By b1 ywf b2 f2 e H2 A2) in A1. discriminate.
             ++ rewrite (cover_opt true true). reflexivity.
    - rewrite eval_sub_eq. cbn [Spec.isat]. apply andb_prop in B as [Bs Bc].
      destruct (IH Bc b ywf e A V) as [XF XT]. rewrite !cover_flat_map.
      assert (G : forall f, list_sum (map (fun a : binding * bool =>
                   cover f (map (fun b' => (b', snd a)) (bind_sel sel (fst a))) e) (eval c b ywf)) = cover f (eval c b ywf) e).
      { intros f. rewrite (list_sum_indicator _ (fun r => Bool.eqb (snd r) f && agreesb (fst r) e) 1).
        - unfold cover. lia.
        - intros [b1 f1] H1. cbn [fst snd]. unfold cover. rewrite filter_map_length. cbn [fst snd].
          destruct (Bool.eqb f1 f); cbn [andb].
          + destruct (agreesb b1 e) eqn:A1.
            * apply bind_sel_cover; assumption.
            * rewrite filter_all_false; [reflexivity|]. intros b2 H2. destruct (agreesb b2 e) eqn:A2; [|reflexivity].
              rewrite (bind_sel_ext sel Bs b1 b2 e H2 A2) in A1. discriminate.
          + rewrite filter_all_false; [reflexivity|]. intros; reflexivity. }
      rewrite !G. split; assumption.
  Qed.
End M.
