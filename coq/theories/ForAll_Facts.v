(* ForAll_Facts.v — the running intersection of ForAll is bounded universal quantification (property C10). *)
From EQL Require Import Base Values Syntax Spec EvalPure.

Section I.
  Variable h : heap.
  Variable dom : key -> list val.

  Lemma inter_step (p : binding -> bool) acc :
    (match acc with [] => [] | _ => filter p acc end) = filter p acc.
  Proof. destruct acc; reflexivity. Qed.

  Lemma inter_fold (pass : val -> list binding) vs : forall init s,
    In s (fold_left (fun acc v => match acc with
                                  | [] => []
                                  | _ => filter (fun d => existsb (binding_eqb d) (pass v)) acc
                                  end) vs init)
    <-> In s init /\ forall v, In v vs -> existsb (binding_eqb s) (pass v) = true.
  Proof.
    induction vs as [|v vs IH]; intros init s; cbn [fold_left].
    - split; [intros H; split; [exact H | intros v []] | intros [H _]; exact H].
    - rewrite inter_step, IH, filter_In. split.
      + intros [[H1 H2] H3]. split; [exact H1|]. intros w [<-|Hw]; [exact H2 | now apply H3].
      + intros [H1 H2]. split; [split; [exact H1 | apply H2; now left] | intros w Hw; apply H2; now right].
  Qed.

  (* a binding survives exactly when it is produced by the pass for the first universal value and matched in the pass
     for EVERY other value: universal quantification over the (non-empty) domain, element by element *)
  Theorem inter_forall pass v0 vs s :
    In s (inter pass (v0 :: vs)) <-> In s (pass v0) /\ forall v, In v vs -> existsb (binding_eqb s) (pass v) = true.
  Proof. unfold inter. apply inter_fold. Qed.

  (* an empty universal domain yields nothing (the property excludes it) *)
  Theorem inter_empty pass : inter pass [] = [].
  Proof. reflexivity. Qed.

  (* every row ForAll yields is flagged true *)
  Theorem forall_rows u c b ywf r : In r (eval h dom (CForAll u c) b ywf) -> snd r = false.
  Proof. cbn [eval]. intros H. apply in_map_iff in H as (s & <- & _). reflexivity. Qed.
End I.
