(* ForAll_Full.v — for_all yields exactly the assignments of the free variables under which the condition holds for every
   value of the universal variable (property C10, full statement). *)
From EQL Require Import Base Values Syntax Spec EvalPure EvalPure_Facts Query_Facts ForAll_Facts.

Lemma forallb_ext_in' {A} (f g : A -> bool) l : (forall a, In a l -> f a = g a) -> forallb f l = forallb g l.
Proof.
  induction l as [|a l IH]; intros H; cbn [forallb]; [reflexivity|].
  rewrite (H a (or_introl eq_refl)), IH; [reflexivity|]. intros x Hx. apply H. now right.
Qed.

Lemma flat_map_map' {A B C} (f : B -> list C) (g : A -> B) l : flat_map f (map g l) = flat_map (fun x => f (g x)) l.
Proof. induction l as [|a l IH]; cbn [map flat_map]; [reflexivity | now rewrite IH]. Qed.

Lemma lookup_map_gen (l : list key) (e : env) x : In x l -> lookup (map (fun k => (k, e k)) l) x = Some (e x).
Proof.
  induction l as [|k l IH]; intros H; [destruct H|]. cbn [map lookup].
  destruct (Nat.eqb x k) eqn:E; [apply Nat.eqb_eq in E; now subst|].
  destruct H as [H|H]; [subst k; rewrite Nat.eqb_refl in E; discriminate | exact (IH H)].
Qed.

Section F.
  Variable h : heap.
  Variable dom : key -> list val.
  Variable u : key.                      (* the universal variable *)
  Variable c : cond.                     (* the condition of for_all(u, c) *)

  Definition free : list key := nodup_keys (filter (fun k => negb (Nat.eqb k u)) (cvars c)).
  Definition UF : list key := u :: free.

  Hypothesis ND : forall x, In x UF -> NoDup (dom x).
  Hypothesis B : basic UF c = true.
  (* the free variables range over objects (identities): Python's == on them is identity *)
  Hypothesis OBJ : forall x v, In x free -> In v (dom x) -> exists o, v = VObj o.

  Notation agreesb := (agreesb UF).
  Notation valid := (valid dom UF).

  (* ---- the completion of the free variables, named ---- *)
  Fixpoint bind_vars (xs : list key) (b1 : binding) : list binding :=
    match xs with
    | [] => [b1]
    | x :: xs' => match lookup b1 x with
                  | Some _ => bind_vars xs' b1
                  | None => flat_map (fun w => bind_vars xs' (bind b1 x w)) (dom x)
                  end
    end.

  Lemma bind_vars_sel xs : forall b, bind_vars xs b = bind_sel h dom (map TVar xs) b.
  Proof.
    induction xs as [|x xs IH]; intros b; cbn [bind_vars map EvalPure_Facts.bind_sel]; [reflexivity|].
    cbn [eval_term]. destruct (lookup b x).
    - cbn [flat_map fst]. now rewrite app_nil_r, IH.
    - rewrite flat_map_map'. apply flat_map_ext. intros w. cbn [fst]. apply IH.
  Qed.

  Definition pass (b : binding) (v : val) : list binding :=
    flat_map (fun p : binding * bool => map (restrict_to free) (bind_vars free (fst p)))
             (filter (fun p => negb (snd p)) (eval h dom c (bind b u v) false)).

  Lemma eval_forall_eq b ywf : eval h dom (CForAll u c) b ywf = map (fun s => (merge b s, false)) (inter (pass b) (dom u)).
  Proof. reflexivity. Qed.

  (* the canonical row of an assignment of the free variables *)
  Definition canon (e : env) : binding := map (fun k => (k, e k)) free.

  Lemma restrict_canon_gen (l : list key) b2 e : (forall x, In x l -> lookup b2 x = Some (e x)) ->
    restrict_to l b2 = map (fun k => (k, e k)) l.
  Proof.
    induction l as [|k l IH]; intros H; [reflexivity|]. unfold restrict_to in *. cbn [flat_map map].
    rewrite (H k (or_introl eq_refl)). cbn [app]. f_equal. apply IH. intros x Hx. apply H. now right.
  Qed.

  Lemma free_in_UF x : In x free -> In x UF.
  Proof. intros H. now right. Qed.

  Lemma tclosed_free : forallb (tclosed UF) (map TVar free) = true.
  Proof.
    apply forallb_forall. intros t Ht. apply in_map_iff in Ht as (x & <- & Hx). unfold tclosed. cbn. rewrite andb_true_r.
    apply (inU UF). now apply free_in_UF.
  Qed.

  Lemma cover_pos f rows e b1 : In (b1, f) rows -> agreesb b1 e = true -> 1 <= cover UF f rows e.
  Proof.
    intros H A. unfold cover. induction rows as [|[b2 f2] rows IH]; [destruct H|]. cbn [filter fst snd].
    destruct H as [H|H].
    - injection H as -> ->. rewrite Bool.eqb_reflx, A. cbn [andb length]. lia.
    - destruct (Bool.eqb f2 f && agreesb b2 e); cbn [length]; [apply IH in H; lia | now apply IH].
  Qed.

  Lemma cover_exists f rows e : 1 <= cover UF f rows e -> exists b1, In (b1, f) rows /\ agreesb b1 e = true.
  Proof.
    unfold cover. induction rows as [|[b2 f2] rows IH]; cbn [filter length fst snd]; [lia|].
    destruct (Bool.eqb f2 f) eqn:Ef; cbn [andb].
    - destruct (agreesb b2 e) eqn:A.
      + intros _. exists b2. apply Bool.eqb_prop in Ef. subst. split; [now left | exact A].
      + intros H. destruct (IH H) as (b1 & H1 & A1). exists b1. split; [now right | exact A1].
    - intros H. destruct (IH H) as (b1 & H1 & A1). exists b1. split; [now right | exact A1].
  Qed.

  (* ---- one pass: exactly the assignments of the free variables that satisfy the condition under this universal value ---- *)
  Lemma pass_spec b v s : In v (dom u) -> in_dom dom b -> lookup b u = None ->
    (In s (pass b v) <-> exists e, valid e /\ e u = v /\ agreesb b e = true /\ s = canon e /\ isat h dom c e = true).
  Proof.
    intros Hv Db Lu. unfold pass. rewrite in_flat_map. split.
    - intros ([b1 f1] & H1 & H2). apply filter_In in H1 as [H1 F1]. cbn [snd] in F1. destruct f1; [discriminate|]. cbn [fst] in H2.
      apply in_map_iff in H2 as (b2 & <- & H2). rewrite bind_vars_sel in H2.
      assert (D1 : in_dom dom b1).
      { eapply (eval_in_dom h dom UF c B); [|exact H1]. now apply in_dom_bind. }
      assert (D2 : in_dom dom b2) by (eapply (bind_sel_in_dom h dom UF _ tclosed_free); eassumption).
      destruct (bind_sel_vars_bound h dom free b1 b2 H2) as [_ Bd].
      set (e := fun x => match lookup b2 x with Some w => w | None => v end).
      assert (A2 : agreesb b2 e = true).
      { unfold EvalPure_Facts.agreesb. apply forallb_forall. intros x _. unfold e. destruct (lookup b2 x); [apply val_eqb_refl | reflexivity]. }
      assert (A1 : agreesb b1 e = true) by (eapply (bind_sel_ext h dom UF _ tclosed_free); eassumption).
      assert (A0 : agreesb (bind b u v) e = true) by (eapply (eval_ext h dom UF c B); eassumption).
      rewrite (agrees_bind UF b e u v Lu (or_introl eq_refl)) in A0. apply andb_prop in A0 as [Eu Ab]. apply val_eqb_eq in Eu.
      assert (V : valid e).
      { intros x [<-|Hx]; [now rewrite Eu|]. unfold e. specialize (Bd x Hx). unfold bound in Bd.
        destruct (lookup b2 x) as [w|] eqn:L; [now apply D2 | discriminate]. }
      exists e. split; [exact V|]. split; [exact Eu|]. split; [exact Ab|]. split.
      + apply restrict_canon_gen. intros x Hx. unfold e. specialize (Bd x Hx). unfold bound in Bd.
        destruct (lookup b2 x); [reflexivity | discriminate].
      + assert (A0' : agreesb (bind b u v) e = true).
        { rewrite (agrees_bind UF b e u v Lu (or_introl eq_refl)), Ab. rewrite Eu. now rewrite val_eqb_refl. }
        destruct (eval_cover h dom UF ND c B (bind b u v) false e A0' V) as [XF _].
        pose proof (cover_pos false _ e b1 H1 A1) as P. rewrite XF in P. destruct (isat h dom c e); [reflexivity | cbn in P; lia].
    - intros (e & V & Eu & Ab & -> & S).
      assert (A0 : agreesb (bind b u v) e = true).
      { rewrite (agrees_bind UF b e u v Lu (or_introl eq_refl)), Ab, Eu. now rewrite val_eqb_refl. }
      destruct (eval_cover h dom UF ND c B (bind b u v) false e A0 V) as [XF _]. rewrite S in XF. cbn [ind] in XF.
      destruct (cover_exists false _ e (eq_ind_r (fun n => 1 <= n) (le_n 1) XF)) as (b1 & H1 & A1).
      exists (b1, false). split; [apply filter_In; split; [exact H1 | reflexivity]|]. cbn [fst].
      pose proof (bind_sel_cover h dom UF ND _ tclosed_free b1 e A1 V) as K.
      destruct (filter (fun b' => agreesb b' e) (bind_sel h dom (map TVar free) b1)) as [|b2 l] eqn:E; [discriminate|].
      assert (Hb2 : In b2 (filter (fun b' => agreesb b' e) (bind_sel h dom (map TVar free) b1))) by (rewrite E; now left).
      apply filter_In in Hb2 as [Hb2 A2]. apply in_map_iff. exists b2. split; [|now rewrite bind_vars_sel].
      destruct (bind_sel_vars_bound h dom free b1 b2 Hb2) as [_ Bd].
      apply restrict_canon_gen. intros x Hx. specialize (Bd x Hx). unfold bound in Bd.
      destruct (lookup b2 x) as [w|] eqn:L; [|discriminate]. f_equal. symmetry.
      eapply (agrees_lookup UF b2 e x w A2 (free_in_UF x Hx) L).
  Qed.

  (* ---- rows of different passes are compared by equality of the free variables' values ---- *)
  Lemma lookup_canon e x : In x free -> lookup (canon e) x = Some (e x).
  Proof. apply lookup_map_gen. Qed.

  Lemma canon_eqb e e2 : (forall x, In x free -> In (e x) (dom x)) -> (forall x, In x free -> In (e2 x) (dom x)) ->
    binding_eqb (canon e) (canon e2) = true -> forall x, In x free -> e x = e2 x.
  Proof.
    intros V V2 H x Hx. unfold binding_eqb in H. apply andb_prop in H as [_ H]. rewrite forallb_forall in H.
    specialize (H (x, e x)). cbn [fst snd] in H. rewrite (lookup_canon e2 x Hx) in H.
    assert (Hin : In (x, e x) (canon e)) by (unfold canon; apply in_map_iff; now exists x).
    specialize (H Hin). destruct (OBJ x (e x) Hx (V x Hx)) as (o & Eo). destruct (OBJ x (e2 x) Hx (V2 x Hx)) as (o2 & Eo2).
    rewrite Eo, Eo2 in *. cbn in H. apply Nat.eqb_eq in H. now subst.
  Qed.

  Lemma binding_eqb_refl_canon e : (forall x, In x free -> In (e x) (dom x)) -> binding_eqb (canon e) (canon e) = true.
  Proof.
    intros V. unfold binding_eqb. rewrite Nat.eqb_refl. cbn [andb]. apply forallb_forall. intros [k w] H.
    unfold canon in H. apply in_map_iff in H as (x & E & Hx). injection E as <- <-. cbn [fst snd]. rewrite (lookup_canon e x Hx).
    destruct (OBJ x (e x) Hx (V x Hx)) as (o & ->). cbn. apply Nat.eqb_refl.
  Qed.

  (* truth of the condition depends on the values of its variables only *)
  Lemma tval_agree t e e' : tclosed UF t = true -> (forall x, In x UF -> e x = e' x) -> tval h t e = tval h t e'.
  Proof.
    unfold tclosed. induction t as [w|x|m t IH|id t IH|id t IH]; intros C H; cbn [flat_free tvars forallb] in C; cbn [tval]; try discriminate.
    - reflexivity.
    - cbn [andb] in C. rewrite andb_true_r in C. apply (inU UF) in C. now apply H.
    - now rewrite IH.
  Qed.

  Lemma isat_agree : forall c0, basic UF c0 = true -> forall e e', (forall x, In x UF -> e x = e' x) -> isat h dom c0 e = isat h dom c0 e'.
  Proof.
    induction c0 as [o l r|t inv|x IHx y IHy|x IHx y IHy|u0 c0 IH|sel c0 IH]; intros B0 e e' H; cbn [basic] in B0; cbn [isat]; try discriminate.
    - apply andb_prop in B0 as [Cl Cr]. now rewrite (tval_agree l e e' Cl H), (tval_agree r e e' Cr H).
    - now rewrite (tval_agree t e e' B0 H).
    - apply andb_prop in B0 as [Bx By]. now rewrite (IHx Bx e e' H), (IHy By e e' H).
    - apply andb_prop in B0 as [Bx By]. now rewrite (IHx Bx e e' H), (IHy By e e' H).
    - apply andb_prop in B0 as [_ Bc]. now apply IH.
  Qed.

  (* ---- the whole of ForAll: the rows are the canonical rows of the assignments of the free variables under which the
     condition holds for EVERY value of the universal variable ---- *)
  Theorem forall_spec b s : dom u <> [] -> in_dom dom b -> lookup b u = None ->
    (In s (inter (pass b) (dom u)) <->
     exists e, (forall x, In x free -> In (e x) (dom x)) /\ agreesb b (upd e u (hd (VA ANone) (dom u))) = true /\ s = canon e /\
               forall v, In v (dom u) -> isat h dom c (upd e u v) = true).
  Proof.
    intros NE Db Lu. destruct (dom u) as [|v0 vs] eqn:Du; [congruence|]. cbn [hd]. rewrite inter_forall.
    assert (In0 : In v0 (dom u)) by (rewrite Du; now left).
    assert (UPD : forall e v x, In x free -> upd e u v x = e x).
    { intros e v x Hx. unfold upd. destruct (Nat.eqb x u) eqn:E; [|reflexivity]. apply Nat.eqb_eq in E. subst x. exfalso.
      unfold free in Hx. clear -Hx. induction (filter (fun k => negb (Nat.eqb k u)) (cvars c)) as [|k l IH] eqn:El in Hx |- *.
      - destruct Hx.
      - assert (K0 : forall l' seen, In u (nodup_keys_from seen l') -> In u l').
        { clear. induction l' as [|y l' IH]; intros seen H; [destruct H|]. cbn [nodup_keys_from] in H.
          destruct (existsb (Nat.eqb y) seen); [right; now apply (IH seen)|].
          destruct H as [->|H]; [now left | right; now apply (IH (y :: seen))]. }
        assert (K : forall l', (forall y, In y l' -> negb (Nat.eqb y u) = true) -> In u (nodup_keys l') -> False).
        { intros l' P H. apply K0 in H. specialize (P u H). rewrite Nat.eqb_refl in P. discriminate. }
        apply (K (k :: l)); [|exact Hx]. intros y Hy. rewrite <- El in Hy. now apply filter_In in Hy as [_ Hy]. }
    assert (CAN : forall e v, canon (upd e u v) = canon e).
    { intros e v. unfold canon. apply map_ext_in. intros x Hx. now rewrite UPD. }
    split.
    - intros [H0 Hrest]. apply (pass_spec b v0 s In0 Db Lu) in H0 as (e & V & Eu & Ab & -> & S).
      exists e. split; [intros x Hx; apply V; now apply free_in_UF|]. split.
      + assert (E : forall x, In x UF -> upd e u v0 x = e x).
        { intros x [<-|Hx]; [unfold upd; now rewrite Nat.eqb_refl | now apply UPD]. }
        rewrite <- Ab. unfold EvalPure_Facts.agreesb. apply forallb_ext_in'. intros x Hx. now rewrite (E x Hx).
      + split; [reflexivity|]. intros v [<-|Hv].
        * rewrite <- S. apply (isat_agree c B). intros x [<-|Hx]; [unfold upd; now rewrite Nat.eqb_refl | now apply UPD].
        * specialize (Hrest v Hv). apply existsb_exists in Hrest as (s' & Hs' & Eq).
          assert (Inv : In v (dom u)) by (rewrite Du; now right).
          apply (pass_spec b v s' Inv Db Lu) in Hs' as (e2 & V2 & Eu2 & _ & -> & S2).
          rewrite <- S2. apply (isat_agree c B). intros x [<-|Hx]; [unfold upd; now rewrite Nat.eqb_refl|].
          rewrite (UPD e v x Hx). apply (canon_eqb e e2); [intros y Hy; apply V; now apply free_in_UF | intros y Hy; apply V2; now apply free_in_UF | exact Eq | exact Hx].
    - intros (e & V & Ab & -> & ALL).
      assert (VU : forall v, In v (dom u) -> valid (upd e u v)).
      { intros v Hv x [<-|Hx]; [unfold upd; now rewrite Nat.eqb_refl | rewrite (UPD e v x Hx); now apply V]. }
      assert (AB : forall v, agreesb b (upd e u v) = true).
      { intros v. rewrite <- Ab. unfold EvalPure_Facts.agreesb. apply forallb_ext_in'. intros x [<-|Hx].
        - now rewrite Lu.
        - now rewrite !(UPD e _ x Hx). }
      split.
      + apply (pass_spec b v0 (canon e) In0 Db Lu). exists (upd e u v0). split; [now apply VU|].
        split; [unfold upd; now rewrite Nat.eqb_refl|]. split; [apply AB|]. split; [now rewrite CAN | apply ALL; now left].
      + intros v Hv. assert (Inv : In v (dom u)) by (rewrite Du; now right). apply existsb_exists. exists (canon e). split.
        * apply (pass_spec b v (canon e) Inv Db Lu). exists (upd e u v). split; [now apply VU|].
          split; [unfold upd; now rewrite Nat.eqb_refl|]. split; [apply AB|]. split; [now rewrite CAN | apply ALL; now right].
        * now apply binding_eqb_refl_canon.
  Qed.
End F.

(* the rows of the ForAll node itself *)
Theorem forall_rows_spec h dom u c b ywf r :
  (forall x, In x (UF u c) -> NoDup (dom x)) -> basic (UF u c) c = true ->
  (forall x v, In x (free u c) -> In v (dom x) -> exists o, v = VObj o) ->
  dom u <> [] -> in_dom dom b -> lookup b u = None ->
  (In r (eval h dom (CForAll u c) b ywf) <->
   exists e, (forall x, In x (free u c) -> In (e x) (dom x)) /\
             agreesb (UF u c) b (upd e u (hd (VA ANone) (dom u))) = true /\
             r = (merge b (canon u c e), false) /\
             isat h dom (CForAll u c) e = true).
Proof.
  intros ND B OBJ NE Db Lu. rewrite eval_forall_eq, in_map_iff. cbn [isat]. split.
  - intros (s & <- & Hs). apply (forall_spec h dom u c ND B OBJ b s NE Db Lu) in Hs as (e & V & Ab & -> & ALL).
    exists e. split; [exact V|]. split; [exact Ab|]. split; [reflexivity|]. apply forallb_forall. exact ALL.
  - intros (e & V & Ab & -> & ALL). exists (canon u c e). split; [reflexivity|].
    apply (forall_spec h dom u c ND B OBJ b (canon u c e) NE Db Lu). exists e. split; [exact V|]. split; [exact Ab|].
    split; [reflexivity|]. now apply forallb_forall.
Qed.
