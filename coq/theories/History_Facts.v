(* History_Facts.v — several variables, each with its own lazily consumed domain (C04): whatever earlier evaluations pulled
   from the domains, a query returns what it returns on the untouched domains. *)
From EQL Require Import Base Values Syntax Spec EvalPure Lazy Lazy_Facts.

Section Ext.
  Variable h : heap.
  Variables d d' : key -> list val.
  Hypothesis same : forall x, d x = d' x.

  Lemma eval_term_dom_ext t : forall b, eval_term h d t b = eval_term h d' t b.
  Proof.
    induction t as [w|x|m t IH|id t IH|id t IH]; intros b; cbn [eval_term].
    - reflexivity.
    - now rewrite same.
    - now rewrite IH.
    - now rewrite IH.
    - now rewrite IH.
  Qed.

  Lemma cmp_rows_dom_ext t1 t2 resf b ywf : cmp_rows h d t1 t2 resf b ywf = cmp_rows h d' t1 t2 resf b ywf.
  Proof.
    unfold cmp_rows. rewrite eval_term_dom_ext. apply flat_map_ext. intros p1. now rewrite eval_term_dom_ext.
  Qed.

  Lemma inter_ext (p p' : val -> list binding) us : (forall v, p v = p' v) -> inter p us = inter p' us.
  Proof.
    intros E. destruct us as [|v0 vs]; cbn [inter]; [reflexivity|]. rewrite E. generalize (p' v0). induction vs as [|v vs IH]; intros acc; cbn [fold_left]; [reflexivity|].
    rewrite E. apply IH.
  Qed.

  Lemma eval_dom_ext c : forall b ywf, eval h d c b ywf = eval h d' c b ywf.
  Proof.
    induction c as [o l r|t inv|x IHx y IHy|x IHx y IHy|u c IH|sel c IH]; intros b ywf; cbn [eval].
    - destruct (bound_in r b); apply cmp_rows_dom_ext.
    - now rewrite eval_term_dom_ext.
    - rewrite IHx. apply flat_map_ext. intros p. destruct (snd p); [reflexivity | apply IHy].
    - rewrite IHx. destruct (eval h d' x b true) as [|p0 ls]; [apply IHy|]. apply flat_map_ext. intros p. destruct (snd p); [apply IHy | reflexivity].
    - cbv zeta. rewrite same. f_equal. apply inter_ext. intros v.
      replace (eval h d c (bind b u v) false) with (eval h d' c (bind b u v) false) by (symmetry; apply IH).
      apply flat_map_ext. intros p. f_equal.
      match goal with |- ?f ?l ?b0 = ?g ?l ?b0 => generalize b0; generalize l end.
      intros xs. induction xs as [|x xs IHxs]; intros b1; [reflexivity|].
      destruct (lookup b1 x); [apply IHxs|]. rewrite same. apply flat_map_ext. intros w. apply IHxs.
    - rewrite IH. apply flat_map_ext. intros p. f_equal.
      generalize (fst p). induction sel as [|t sel IHs]; intros b1; [reflexivity|].
      rewrite eval_term_dom_ext. apply flat_map_ext. intros bv. apply IHs.
  Qed.

  Lemma bind_selected_dom_ext sel : forall b, bind_selected h d sel b = bind_selected h d' sel b.
  Proof.
    induction sel as [|t sel IH]; intros b; cbn [bind_selected]; [reflexivity|].
    rewrite eval_term_dom_ext. apply flat_map_ext. intros bv. apply IH.
  Qed.

  Lemma run_query_dom_ext sel c : run_query h d sel c = run_query h d' sel c.
  Proof.
    unfold run_query. destruct c as [c|]; [rewrite eval_dom_ext|]; apply flat_map_ext; intros b; rewrite bind_selected_dom_ext;
      apply map_ext; intros b'; unfold row_of; apply map_ext; intros t; now rewrite eval_term_dom_ext.
  Qed.
End Ext.

(* one lazily consumed domain per variable *)
Definition dstate := key -> lazy.
Definition dom_of_state (S : dstate) : key -> list val := fun x => map VObj (content (S x)).
(* every domain has been pulled from, by any amount (full, abandoned and aborted evaluations of any queries) *)
Definition advanced (S S' : dstate) : Prop := forall x, later (S x) (S' x).

Theorem any_advance h S S' sel c : advanced S S' -> run_query h (dom_of_state S') sel c = run_query h (dom_of_state S) sel c.
Proof.
  intros A. apply run_query_dom_ext. intros x. unfold dom_of_state. now destruct (A x) as (-> & _).
Qed.

Lemma advanced_refl S : advanced S S.
Proof. intros x. apply later_refl. Qed.
Lemma advanced_trans A B C : advanced A B -> advanced B C -> advanced A C.
Proof. intros H1 H2 x. eapply later_trans; [apply H1 | apply H2]. Qed.
