(* IndexedCache.v — C-model of cache_data.SeenSet and cache_data.IndexedCache (index=True path),
   written line by line after the Python; plus the reference store the property C20 speaks of.
   Keys are nat ids (already sorted, as the `keys` setter does), values are nat ids (HashedValue
   equality is equality of ids), outputs are nat.  No proofs here (see IndexedCache_Facts.v). *)
From EQL Require Import Base.

Definition key := nat.
Definition value := nat.
Definition assignment := alist value.          (* a Python dict, insertion ordered *)

Inductive ckey := CAll | CVal (v : value).     (* the All sentinel / a concrete value *)
Definition ckey_eqb (a b : ckey) : bool :=
  match a, b with CAll, CAll => true | CVal x, CVal y => Nat.eqb x y | _, _ => false end.

(* the nested CacheDict: inner levels map to sub-dicts, the last level maps to outputs *)
Inductive trie := Leaf (out : nat) | Node (children : list (ckey * trie)).

Fixpoint tget (l : list (ckey * trie)) (c : ckey) : option trie :=
  match l with [] => None | (c', t) :: l' => if ckey_eqb c c' then Some t else tget l' c end.
Fixpoint tset (l : list (ckey * trie)) (c : ckey) (t : trie) : list (ckey * trie) :=
  match l with
  | [] => [(c, t)]
  | (c', t') :: l' => if ckey_eqb c c' then (c', t) :: l' else (c', t') :: tset l' c t
  end.

(* ---- SeenSet ---- *)
Record seenset := { seen : list assignment; all_seen : bool }.
Definition ss_empty := {| seen := []; all_seen := false |}.
Definition ss_add (s : seenset) (a : assignment) : seenset :=
  if all_seen s then s
  else {| seen := seen s ++ [a]; all_seen := match a with [] => true | _ => false end |}.
(* every (k, v) of the constraint is present in the assignment *)
Definition covers (c a : assignment) : bool :=
  forallb (fun kv => match aget a (fst kv) with Some v => Nat.eqb v (snd kv) | None => false end) c.
Definition ss_check (s : seenset) (a : assignment) : bool * seenset :=
  if all_seen s then (true, s)
  else match a with
       | [] => (false, {| seen := seen s ++ [a]; all_seen := true |})
       | _ => (existsb (fun c => covers c a) (seen s), s)
       end.

(* ---- IndexedCache ---- *)
Record icache := { keys : list key; root : list (ckey * trie); sset : seenset; flat : list nat }.
Definition ic_new (ks : list key) := {| keys := ks; root := []; sset := ss_empty; flat := [] |}.

Definition ck_of (a : assignment) (k : key) : ckey :=
  match aget a k with Some v => CVal v | None => CAll end.

Fixpoint insert_at (ks : list key) (a : assignment) (out : nat) (l : list (ckey * trie)) : list (ckey * trie) :=
  match ks with
  | [] => l
  | [k] => tset l (ck_of a k) (Leaf out)
  | k :: ks' =>
      let sub := match tget l (ck_of a k) with Some (Node ch) => ch | _ => [] end in
      tset l (ck_of a k) (Node (insert_at ks' a out sub))
  end.

Definition ic_insert (c : icache) (a : assignment) (out : nat) : icache :=
  match a with
  | [] => {| keys := keys c; root := root c; sset := sset c;
             flat := if existsb (Nat.eqb out) (flat c) then flat c else flat c ++ [out] |}
  | _ => {| keys := keys c; root := insert_at (keys c) a out (root c); sset := ss_add (sset c) a; flat := flat c |}
  end.

Definition restrict (ks : list key) (a : assignment) : assignment :=
  filter (fun kv => existsb (Nat.eqb (fst kv)) ks) a.
Definition ic_check (c : icache) (a : assignment) : bool * icache :=
  match restrict (keys c) a with
  | [] => (false, c)             (* a lookup that binds none of the keys is never covered *)
  | ra => let '(b, s') := ss_check (sset c) ra in
          (b, {| keys := keys c; root := root c; sset := s'; flat := flat c |})
  end.

(* retrieve: at every level, an entry agrees with the lookup on the key if it stores the same value or leaves the key open;
   a key the lookup leaves open agrees with every branch (in dict order).  [descend] is _yield_result.
   Structural recursion on the list of remaining keys. *)
Fixpoint retrieve_at (ks : list key) (a : assignment) (l : list (ckey * trie)) (res : assignment)
  : list (assignment * nat) :=
  match ks with
  | [] => []
  | k :: ks' =>
      let descend (t : trie) (res' : assignment) :=
        match t with Leaf o => [(res', o)] | Node ch => retrieve_at ks' a ch res' end in
      match l with
      | [] => []                                        (* fast return on an empty cache node *)
      | _ =>
        match aget a k with
        | Some v =>
            (* for branch_key in (assignment[key], All) *)
            match tget l (CVal v) with Some t => descend t res | None => [] end ++
            match tget l CAll with Some w => descend w res | None => [] end
        | None =>
            flat_map (fun ct => match fst ct with
                                | CVal v => descend (snd ct) (aset res k v)
                                | CAll => descend (snd ct) res end) l
        end
      end
  end.
Definition ic_retrieve (c : icache) (a : assignment) : list (assignment * nat) :=
  retrieve_at (keys c) a (root c) a.

Definition ic_clear (c : icache) : icache :=
  {| keys := keys c; root := []; sset := ss_empty; flat := [] |}.

(* ---- the reference store of property C20: a list of (binding, output), overwrite on equal pattern ---- *)
Definition entry := (assignment * nat)%type.
Definition pattern (ks : list key) (a : assignment) : list ckey := map (ck_of a) ks.
Fixpoint pat_eqb (p q : list ckey) : bool :=
  match p, q with
  | [], [] => true
  | x :: p', y :: q' => ckey_eqb x y && pat_eqb p' q'
  | _, _ => false
  end.
Fixpoint spec_insert (ks : list key) (st : list entry) (a : assignment) (out : nat) : list entry :=
  match st with
  | [] => [(a, out)]
  | (b, o) :: st' => if pat_eqb (pattern ks b) (pattern ks a) then (b, out) :: st'
                     else (b, o) :: spec_insert ks st' a out
  end.
(* the two bindings agree on every key they share *)
Definition compatible (ks : list key) (b l : assignment) : bool :=
  forallb (fun k => match aget b k, aget l k with Some x, Some y => Nat.eqb x y | _, _ => true end) ks.
(* the entry's binding merged into the lookup: the lookup, plus the entry's keys it does not bind *)
Definition merge (ks : list key) (l b : assignment) : assignment :=
  fold_left (fun acc k => match aget l k, aget b k with None, Some v => aset acc k v | _, _ => acc end) ks l.
Definition spec_retrieve (ks : list key) (st : list entry) (l : assignment) : list (assignment * nat) :=
  map (fun e => (merge ks l (fst e), snd e)) (filter (fun e => compatible ks (fst e) l) st).
(* coverage: some stored binding is contained in the lookup *)
Definition spec_check (st : list entry) (l : assignment) : bool :=
  existsb (fun e => covers (fst e) l) st.

(* ---- histories ---- *)
Inductive op := OIns (a : assignment) (out : nat) | OChk (a : assignment) | ORet (a : assignment) | OClr.

(* well-formed operations: what property C20 quantifies over *)
Definition over (ks : list key) (a : assignment) : bool :=
  forallb (fun kv => existsb (Nat.eqb (fst kv)) ks) a.
Definition nonempty {A} (l : list A) : bool := match l with [] => false | _ => true end.
(* the lookup binds at least one key of the cache *)
Definition binds_some (ks : list key) (a : assignment) : bool := nonempty (restrict ks a).
Definition op_ok (ks : list key) (o : op) : bool :=
  match o with
  | OIns a _ => nonempty a && over ks a
  | OChk a => binds_some ks a
  | ORet _ => true
  | OClr => true
  end.

Record both := { impl : icache; spec : list entry; spec_seen : list assignment }.
(* spec_seen: every binding ever inserted since the last clear (coverage is about insertions,
   overwriting an output does not remove coverage) *)

Open Scope string_scope.
Definition show_asg (a : assignment) : string :=
  "{" ++ String.concat "," (map (fun kv => show_nat (fst kv) ++ ":" ++ show_nat (snd kv)) a) ++ "}".
Definition show_res (r : list (assignment * nat)) : string :=
  "[" ++ String.concat ";" (map (fun ao => show_asg (fst ao) ++ "=" ++ show_nat (snd ao)) r) ++ "]".

(* one step: new state, observation of the model, observation of the reference *)
Definition step (s : both) (o : op) : both * option (string * string) :=
  let ks := keys (impl s) in
  match o with
  | OIns a out =>
      ({| impl := ic_insert (impl s) a out; spec := spec_insert ks (spec s) a out;
          spec_seen := spec_seen s ++ [a] |}, None)
  | OChk a =>
      let '(b, c') := ic_check (impl s) a in
      ({| impl := c'; spec := spec s; spec_seen := spec_seen s |},
       Some (show_bool b, show_bool (existsb (fun c => covers c a) (spec_seen s))))
  | ORet a =>
      (s, Some (show_res (ic_retrieve (impl s) a), show_res (spec_retrieve ks (spec s) a)))
  | OClr => ({| impl := ic_clear (impl s); spec := []; spec_seen := [] |}, None)
  end.

Fixpoint run (s : both) (ops : list op) : list (string * string) :=
  match ops with
  | [] => []
  | o :: ops' => let '(s', obs) := step s o in
                 match obs with Some x => x :: run s' ops' | None => run s' ops' end
  end.

Definition run_case (n : nat) (ks : list key) (ops : list op) : string :=
  let r := run {| impl := ic_new ks; spec := []; spec_seen := [] |} ops in
  "CASE " ++ show_nat n ++ " H " ++ show_bool (forallb (op_ok ks) ops) ++ " M " ++ String.concat " " (map fst r) ++ " S " ++ String.concat " " (map snd r).
Close Scope string_scope.
