(* IndexedCache_Facts.v — proofs about the C-model of SeenSet / IndexedCache (property C20). *)
From EQL Require Import Base IndexedCache.
From Coq Require Import Permutation.

(* ---------- the SeenSet invariant along a history ---------- *)
Definition Inv (s : both) : Prop :=
  all_seen (sset (impl s)) = false /\ seen (sset (impl s)) = spec_seen s.

Lemma keys_step s o : keys (impl (fst (step s o))) = keys (impl s).
Proof.
  destruct o as [a out|a|a|]; simpl; auto.
  - destruct a; reflexivity.
  - unfold ic_check. destruct (restrict (keys (impl s)) a); [reflexivity|]. destruct (ss_check _ _). reflexivity.
Qed.

Lemma step_inv s o : Inv s -> op_ok (keys (impl s)) o = true -> Inv (fst (step s o)).
Proof.
  intros [Hall Hseen] Hok. destruct o as [a out|a|a|]; simpl in *.
  - destruct a as [|kv a]; [discriminate|]. unfold Inv; simpl. unfold ss_add. rewrite Hall. simpl.
    split; [reflexivity|]. now rewrite Hseen.
  - unfold ic_check, ss_check. rewrite Hall. unfold binds_some in Hok.
    destruct (restrict (keys (impl s)) a) eqn:E; [discriminate|]. simpl. split; assumption.
  - split; assumption.
  - split; reflexivity.
Qed.

Lemma run_states_inv ops : forall s, Inv s -> forallb (op_ok (keys (impl s))) ops = true ->
  Inv (fold_left (fun s o => fst (step s o)) ops s).
Proof.
  induction ops as [|o ops IH]; intros s HI Hok; simpl in *; [assumption|].
  apply andb_true_iff in Hok as [H1 H2]. apply IH.
  - now apply step_inv.
  - now rewrite keys_step.
Qed.

(* restriction to the key list does not matter for constraints over the key list *)
Lemma aget_restrict ks (a : assignment) k :
  aget (restrict ks a) k = if existsb (Nat.eqb k) ks then aget a k else None.
Proof.
  induction a as [|[k' v] a IH]; simpl.
  - now destruct (existsb (Nat.eqb k) ks).
  - destruct (existsb (Nat.eqb k') ks) eqn:Ek'; simpl.
    + destruct (Nat.eqb k k') eqn:E.
      * apply Nat.eqb_eq in E; subst. now rewrite Ek'.
      * exact IH.
    + destruct (Nat.eqb k k') eqn:E.
      * apply Nat.eqb_eq in E; subst. rewrite Ek' in *. exact IH.
      * exact IH.
Qed.

Lemma covers_restrict ks c a : over ks c = true -> covers c (restrict ks a) = covers c a.
Proof.
  unfold over, covers. induction c as [|[k v] c IH]; simpl; intros H; [reflexivity|].
  apply andb_true_iff in H as [H1 H2]. rewrite IH by assumption.
  rewrite aget_restrict. simpl in H1. now rewrite H1.
Qed.

(* ---------- C20, coverage ---------- *)
(* In every state reached by a well-formed history, a check of a lookup that binds at least one
   key answers exactly "some binding inserted since the last clear is contained in the lookup". *)
Lemma check_exact s a :
  Inv s -> binds_some (keys (impl s)) a = true ->
  fst (ic_check (impl s) a) = existsb (fun c => covers c (restrict (keys (impl s)) a)) (spec_seen s).
Proof.
  intros [Hall Hseen] Hb. unfold ic_check, ss_check. rewrite Hall. unfold binds_some in Hb.
  destruct (restrict (keys (impl s)) a) eqn:E; [discriminate|]. simpl. now rewrite Hseen.
Qed.

Definition init (ks : list key) : both := {| impl := ic_new ks; spec := []; spec_seen := [] |}.
Definition state_after (ks : list key) (ops : list op) : both :=
  fold_left (fun s o => fst (step s o)) ops (init ks).

Lemma keys_state_after ks ops : keys (impl (state_after ks ops)) = ks.
Proof.
  unfold state_after. assert (H : keys (impl (init ks)) = ks) by reflexivity.
  revert H. generalize (init ks). induction ops as [|o ops IH]; intros s H; simpl; [assumption|].
  apply IH. now rewrite keys_step.
Qed.

Lemma spec_seen_over ks ops : forallb (op_ok ks) ops = true ->
  forall c, In c (spec_seen (state_after ks ops)) -> over ks c = true.
Proof.
  unfold state_after.
  assert (H0 : forall c, In c (spec_seen (init ks)) -> over ks c = true) by (simpl; tauto).
  assert (K0 : keys (impl (init ks)) = ks) by reflexivity.
  revert H0 K0. generalize (init ks). induction ops as [|o ops IH]; intros s H0 K0 Hok c; simpl in *.
  - apply H0.
  - apply andb_true_iff in Hok as [H1 H2]. apply IH; auto.
    + intros c' Hc'. destruct o as [a out|a|a|]; simpl in *.
      * apply in_app_or in Hc' as [Hc'|[<-|[]]]; [now apply H0|].
        apply andb_true_iff in H1 as [_ H1]. exact H1.
      * unfold ic_check in Hc'. destruct (restrict (keys (impl s)) a); [now apply H0|]. destruct (ss_check _ _). simpl in Hc'. now apply H0.
      * now apply H0.
      * destruct Hc'.
    + now rewrite keys_step.
Qed.

Theorem check_after_history ks ops a :
  forallb (op_ok ks) ops = true -> binds_some ks a = true ->
  fst (ic_check (impl (state_after ks ops)) a)
  = existsb (fun c => covers c a) (spec_seen (state_after ks ops)).
Proof.
  intros Hok Hb.
  assert (HI : Inv (state_after ks ops)).
  { unfold state_after. apply run_states_inv; [split; reflexivity | exact Hok]. }
  rewrite check_exact; [| exact HI | now rewrite keys_state_after ].
  rewrite keys_state_after.
  pose proof (spec_seen_over ks ops Hok) as Hov.
  induction (spec_seen (state_after ks ops)) as [|c l IH]; simpl; [reflexivity|].
  rewrite covers_restrict by (apply Hov; now left).
  rewrite IH; [reflexivity|]. intros c' Hc'. apply Hov. now right.
Qed.

(* ---------- C20, clearing ---------- *)
Theorem clear_empties c a :
  ic_retrieve (ic_clear c) a = [] /\
  (binds_some (keys c) a = true -> fst (ic_check (ic_clear c) a) = false).
Proof.
  split.
  - unfold ic_retrieve, ic_clear; simpl. destruct (keys c); reflexivity.
  - intros Hb. unfold ic_check, ic_clear, ss_check; simpl. unfold binds_some in Hb.
    destruct (restrict (keys c) a); [discriminate | reflexivity].
Qed.

(* ---------- C20, retrieval: the former counter-example ---------- *)
(* At the pinned commit retrieval preferred the wildcard branch of a level and skipped its concrete siblings (and vice versa):
   on this history a retrieval with the empty lookup returned one entry of two - the full statement of C20 was refuted by it
   (known finding C20-wildcard-preference).  After the repair of /repo (retrieve follows every branch that agrees with the
   lookup) both entries come back; the general theorems are in IndexedCache_Sound.v / IndexedCache_Perm.v. *)
Definition refute_keys : list key := [1; 2].
Definition refute_ops : list op := [OIns [(1, 0)] 7; OIns [(2, 0)] 8].
Example former_witness_complete :
  forallb (op_ok refute_keys) refute_ops = true /\
  let s := state_after refute_keys refute_ops in
  Permutation (ic_retrieve (impl s) []) (spec_retrieve refute_keys (spec s) []).
Proof. split; [reflexivity|]. vm_compute. apply Permutation_refl. Qed.
