(* IndexedCache_Perm.v — the FULL retrieval statement of property C20: after any well-formed history, retrieval returns exactly the
   stored entries whose binding agrees with the lookup - all of them, each once, each paired with its binding merged into the
   lookup - i.e. a permutation of the reference answer.  (True of the repaired retrieval only; at the pinned commit it was refuted.) *)
From EQL Require Import Base IndexedCache IndexedCache_Facts IndexedCache_Sound.
From Coq Require Import Permutation.

(* ---------- list helpers ---------- *)
Lemma NoDup_app' {A} (l1 l2 : list A) : NoDup l1 -> NoDup l2 -> (forall x, In x l1 -> In x l2 -> False) -> NoDup (l1 ++ l2).
Proof.
  induction l1 as [|a l1 IH]; intros N1 N2 D; [exact N2|]. cbn [app]. inversion N1 as [|? ? Na N1']; subst. constructor.
  - rewrite in_app_iff. intros [H|H]; [contradiction | apply (D a); [now left | exact H]].
  - apply IH; [exact N1' | exact N2 | intros x H1 H2; apply (D x); [now right | exact H2]].
Qed.

Lemma Permutation_filter' {A} (f : A -> bool) l l' : Permutation l l' -> Permutation (filter f l) (filter f l').
Proof.
  induction 1 as [|x l l' _ IH|x y l|l l' l'' _ IH1 _ IH2]; cbn [filter].
  - constructor.
  - destruct (f x); [now constructor | exact IH].
  - destruct (f x), (f y); try apply Permutation_refl; apply perm_swap.
  - eapply Permutation_trans; eassumption.
Qed.

Lemma Permutation_flat_map_pointwise {A B} (f g : A -> list B) l :
  (forall x, In x l -> Permutation (f x) (g x)) -> Permutation (flat_map f l) (flat_map g l).
Proof.
  induction l as [|a l IH]; intros H; cbn [flat_map]; [constructor|].
  apply Permutation_app; [apply H; now left | apply IH; intros x Hx; apply H; now right].
Qed.

Lemma filter_flat_map {A B} (p : B -> bool) (f : A -> list B) l : filter p (flat_map f l) = flat_map (fun a => filter p (f a)) l.
Proof. induction l as [|a l IH]; cbn [flat_map filter]; [reflexivity|]. now rewrite filter_app, IH. Qed.

Lemma filter_map_comm {A B} (p : B -> bool) (f : A -> B) l : filter p (map f l) = map f (filter (fun a => p (f a)) l).
Proof. induction l as [|a l IH]; cbn [map filter]; [reflexivity|]. destruct (p (f a)); cbn [map]; now rewrite IH. Qed.

Lemma map_flat_map' {A B C} (f : B -> C) (g : A -> list B) l : map f (flat_map g l) = flat_map (fun a => map f (g a)) l.
Proof. induction l as [|a l IH]; cbn [flat_map map]; [reflexivity|]. now rewrite map_app, IH. Qed.

(* ---------- the paths of an index, child by child ---------- *)
Definition child_paths (ct : ckey * trie) : list (list ckey * nat) :=
  map (fun po => (fst ct :: fst po, snd po)) (tpaths_t (snd ct)).

Lemma tpaths_flat l : tpaths l = flat_map child_paths l.
Proof. induction l as [|[c t] l IH]; [reflexivity|]. rewrite tpaths_cons, IH. reflexivity. Qed.

(* ---------- the paths retrieval follows ---------- *)
Fixpoint rpaths (ks : list key) (a : assignment) (l : list (ckey * trie)) : list (list ckey * nat) :=
  match ks with
  | [] => []
  | k :: ks' =>
      let descend (c : ckey) (t : trie) :=
        match t with Leaf o => [([c], o)] | Node ch => map (fun po => (c :: fst po, snd po)) (rpaths ks' a ch) end in
      match l with
      | [] => []
      | _ =>
        match aget a k with
        | Some v =>
            match tget l (CVal v) with Some t => descend (CVal v) t | None => [] end ++
            match tget l CAll with Some w => descend CAll w | None => [] end
        | None => flat_map (fun ct => descend (fst ct) (snd ct)) l
        end
      end
  end.

(* the assignment a retrieval hands out for a path: the keys the lookup leaves open take the path's concrete values *)
Fixpoint extend (ks : list key) (a res : assignment) (p : list ckey) : assignment :=
  match ks, p with
  | k :: ks', c :: p' => extend ks' a (match aget a k, c with None, CVal v => aset res k v | _, _ => res end) p'
  | _, _ => res
  end.

Lemma retrieve_at_paths ks a : forall l res,
  retrieve_at ks a l res = map (fun po => (extend ks a res (fst po), snd po)) (rpaths ks a l).
Proof.
  induction ks as [|k ks IH]; intros l res; [reflexivity|]. cbn [retrieve_at rpaths].
  destruct l as [|ct0 l0] eqn:El; [reflexivity|]. rewrite <- El. clear El ct0 l0.
  assert (D : forall c t res', (match aget a k, c with None, CVal v => aset res k v | _, _ => res end) = res' ->
              match t with Leaf o => [(res', o)] | Node ch => retrieve_at ks a ch res' end
              = map (fun po => (extend (k :: ks) a res (fst po), snd po))
                    (match t with Leaf o => [([c], o)] | Node ch => map (fun po => (c :: fst po, snd po)) (rpaths ks a ch) end)).
  { intros c t res' E. destruct t as [o|ch].
    - cbn [map fst snd extend]. rewrite E. destruct ks; reflexivity.
    - rewrite IH, map_map. apply map_ext. intros [p o]. cbn [fst snd extend]. now rewrite E. }
  destruct (aget a k) as [v|] eqn:Ak.
  - rewrite map_app. f_equal.
    + destruct (tget l (CVal v)) as [t|]; [|reflexivity]. apply D. reflexivity.
    + destruct (tget l CAll) as [w|]; [|reflexivity]. apply D. reflexivity.
  - rewrite map_flat_map'. apply flat_map_ext. intros [c t]. cbn [fst snd].
    destruct c as [|v]; apply D; reflexivity.
Qed.

(* ---------- the paths retrieval follows are the compatible paths, each once ---------- *)
Definition head_ok (a : assignment) (k : key) (c : ckey) : bool :=
  match c, aget a k with CVal v, Some w => Nat.eqb v w | _, _ => true end.

Lemma pick_two {B} (g : ckey * trie -> list B) (l : list (ckey * trie)) (c1 c2 : ckey) :
  NoDup (map fst l) -> c1 <> c2 -> (forall ct, In ct l -> fst ct <> c1 -> fst ct <> c2 -> g ct = []) ->
  Permutation (flat_map g l)
              (match tget l c1 with Some t => g (c1, t) | None => [] end ++ match tget l c2 with Some t => g (c2, t) | None => [] end).
Proof.
  induction l as [|[c t] l IH]; intros N Hne Z; [constructor|]. cbn [map fst] in N. inversion N as [|? ? Nc Nl]; subst.
  assert (Z' : forall ct, In ct l -> fst ct <> c1 -> fst ct <> c2 -> g ct = []) by (intros ct H; apply Z; now right).
  specialize (IH Nl Hne Z'). cbn [flat_map tget].
  assert (NG : forall c', c' = c -> tget l c' = None).
  { intros c' ->. destruct (tget l c) as [t'|] eqn:G; [|reflexivity]. exfalso. apply Nc. apply tget_in in G.
    change c with (fst (c, t')). now apply in_map. }
  destruct (ckey_eqb c1 c) eqn:E1.
  - apply ckey_eqb_eq in E1. subst c1. destruct (ckey_eqb c2 c) eqn:E2; [apply ckey_eqb_eq in E2; congruence|].
    rewrite (NG c eq_refl) in IH. cbn [app] in IH. apply Permutation_app_head. exact IH.
  - destruct (ckey_eqb c2 c) eqn:E2.
    + apply ckey_eqb_eq in E2. subst c2. rewrite (NG c eq_refl), app_nil_r in IH.
      eapply Permutation_trans; [apply Permutation_app_head; exact IH|]. apply Permutation_app_comm.
    + assert (G : g (c, t) = []).
      { apply Z; [now left | |]; cbn [fst]; intros E; subst.
        - rewrite (proj2 (ckey_eqb_eq _ _) eq_refl) in E1. discriminate.
        - rewrite (proj2 (ckey_eqb_eq _ _) eq_refl) in E2. discriminate. }
      rewrite G. exact IH.
Qed.

Lemma rpaths_perm ks a : forall l, WF l -> Shaped ks l ->
  Permutation (rpaths ks a l) (filter (fun po => pcompat_strict ks (fst po) a) (tpaths l)).
Proof.
  induction ks as [|k ks IH]; intros l W S.
  - cbn in S. subst l. constructor.
  - rewrite tpaths_flat, filter_flat_map. cbn [rpaths]. destruct l as [|ct0 l0] eqn:El; [constructor|]. rewrite <- El in *. clear El ct0 l0.
    inversion W as [? N Hch]; subst.
    (* one child: what retrieval collects below it is a permutation of the compatible paths through it *)
    set (descend := fun (c : ckey) (t : trie) =>
           match t with Leaf o => [([c], o)] | Node ch => map (fun po => (c :: fst po, snd po)) (rpaths ks a ch) end).
    set (g := fun ct : ckey * trie => filter (fun po : list ckey * nat => pcompat_strict (k :: ks) (fst po) a) (child_paths ct)).
    assert (G1 : forall c t, In (c, t) l -> head_ok a k c = true -> Permutation (descend c t) (g (c, t))).
    { intros c t Hin Hc. unfold g, child_paths, descend. cbn [fst snd]. rewrite filter_map_comm. cbn [fst pcompat_strict].
      fold (head_ok a k c). rewrite Hc. cbn [andb].
      destruct ks as [|k2 ks'].
      - cbn [Shaped] in S. destruct (S c t Hin) as (o & ->). cbn [tpaths_t filter fst pcompat_strict map]. apply Permutation_refl.
      - cbn [Shaped] in S. destruct (S c t Hin) as (ch & -> & Sch). apply Permutation_map.
        change (tpaths_t (Node ch)) with (tpaths ch). apply IH; [now apply (Hch c ch) | exact Sch]. }
    assert (G0 : forall c t, head_ok a k c = false -> g (c, t) = []).
    { intros c t Hc. unfold g, child_paths. cbn [fst snd]. rewrite filter_map_comm. cbn [fst pcompat_strict]. fold (head_ok a k c).
      rewrite Hc. cbn [andb]. induction (tpaths_t t); [reflexivity | assumption]. }
    destruct (aget a k) as [v|] eqn:Ak.
    + eapply Permutation_trans; [|apply Permutation_sym; apply (pick_two g l (CVal v) CAll N); [discriminate|]].
      * apply Permutation_app.
        -- destruct (tget l (CVal v)) as [t|] eqn:G; [|constructor]. apply G1; [now apply tget_in|].
           unfold head_ok. rewrite Ak. apply Nat.eqb_refl.
        -- destruct (tget l CAll) as [w|] eqn:G; [|constructor]. apply G1; [now apply tget_in | reflexivity].
      * intros [c t] Hin H1 H2. cbn [fst] in H1, H2. apply G0. unfold head_ok. rewrite Ak. destruct c as [|v']; [congruence|].
        destruct (Nat.eqb v' v) eqn:E; [apply Nat.eqb_eq in E; congruence | reflexivity].
    + apply Permutation_flat_map_pointwise. intros [c t] Hin. cbn [fst snd]. apply G1; [exact Hin|].
      unfold head_ok. rewrite Ak. now destruct c.
Qed.

(* ---------- the paths of the index are the stored entries ---------- *)
Lemma tpaths_nodup ks : forall l, WF l -> Shaped ks l -> NoDup (tpaths l).
Proof.
  induction ks as [|k ks IH]; intros l W S.
  - cbn in S. subst l. constructor.
  - rewrite tpaths_flat. inversion W as [? N Hch]; subst. clear W.
    assert (C : forall ct, In ct l -> NoDup (child_paths ct)).
    { intros [c t] Hin. unfold child_paths. cbn [fst snd].
      assert (NT : NoDup (tpaths_t t)).
      { destruct ks as [|k2 ks'].
        - cbn [Shaped] in S. destruct (S c t Hin) as (o & ->). cbn. repeat constructor. intros [].
        - cbn [Shaped] in S. destruct (S c t Hin) as (ch & -> & Sch). change (tpaths_t (Node ch)) with (tpaths ch).
          apply IH; [now apply (Hch c ch) | exact Sch]. }
      clear -NT. induction NT as [|[p o] ps Hn _ IHn]; cbn [map]; constructor; [|exact IHn].
      rewrite in_map_iff. intros ([p' o'] & E & H). cbn [fst snd] in E. injection E as -> ->. contradiction. }
    clear S Hch. induction l as [|[c t] l IHl]; [constructor|]. cbn [flat_map]. cbn [map fst] in N. inversion N as [|? ? Nc Nl]; subst.
    apply NoDup_app'.
    + apply C. now left.
    + apply IHl; [exact Nl | intros ct H; apply C; now right].
    + intros [p o] H1 H2. unfold child_paths in H1. cbn [fst snd] in H1. apply in_map_iff in H1 as ([p1 o1] & E1 & _).
      cbn [fst snd] in E1. injection E1 as <- <-. apply in_flat_map in H2 as ([c2 t2] & Hin2 & H2). unfold child_paths in H2.
      cbn [fst snd] in H2. apply in_map_iff in H2 as ([p2 o2] & E2 & _). cbn [fst snd] in E2. injection E2 as <- _ _.
      apply Nc. change c2 with (fst (c2, t2)). now apply in_map.
Qed.

Definition entry_path (ks : list key) (e : entry) : list ckey * nat := (pattern ks (fst e), snd e).

Lemma paths_are_entries s : keys (impl s) <> [] -> Stored s -> Indexed s ->
  Permutation (tpaths (root (impl s))) (map (entry_path (keys (impl s))) (spec s)).
Proof.
  intros NE [W P] (_ & Sh & N & Q). apply NoDup_Permutation.
  - now apply (tpaths_nodup (keys (impl s))).
  - unfold pats in N. revert N. generalize (spec s). intros st N. induction st as [|e st IH]; cbn [map]; [constructor|].
    cbn [map] in N. inversion N as [|? ? Ne Nst]; subst. constructor; [|now apply IH].
    rewrite in_map_iff. intros (e' & E & H). apply Ne. unfold entry_path in E. injection E as E _. rewrite <- E.
    now apply (in_map (fun e0 : entry => pattern (keys (impl s)) (fst e0))).
  - intros [p o]. split.
    + intros H. destruct (P p o H) as (b & Hb & <-). change (pattern (keys (impl s)) b, o) with (entry_path (keys (impl s)) (b, o)).
      now apply in_map.
    + intros H. apply in_map_iff in H as ([b o'] & E & Hb). unfold entry_path in E. cbn [fst snd] in E. injection E as <- <-.
      now apply Q.
Qed.

(* ---------- the assignment handed out is the entry's binding merged into the lookup ---------- *)
Lemma extend_pattern ks l b : forall res,
  extend ks l res (pattern ks b)
  = fold_left (fun acc k => match aget l k, aget b k with None, Some v => aset acc k v | _, _ => acc end) ks res.
Proof.
  induction ks as [|k ks IH]; intros res; [reflexivity|]. cbn [pattern map extend fold_left]. fold (pattern ks b). rewrite IH.
  f_equal. unfold ck_of. destruct (aget l k), (aget b k); reflexivity.
Qed.

(* ---------- property C20, retrieval, in full ---------- *)
(* for any state whose index holds exactly the stored entries (the invariants every well-formed history maintains) *)
Lemma retrieve_exact_state s l : keys (impl s) <> [] -> Stored s -> Indexed s ->
  Permutation (ic_retrieve (impl s) l) (spec_retrieve (keys (impl s)) (spec s) l).
Proof.
  intros NE St Ix. set (ks := keys (impl s)) in *.
  unfold ic_retrieve. fold ks. rewrite retrieve_at_paths. unfold spec_retrieve.
  destruct Ix as (W & Sh & N & Q). fold ks in Sh, N, Q.
  eapply Permutation_trans; [apply Permutation_map; apply (rpaths_perm ks l _ W Sh)|].
  assert (PE : Permutation (tpaths (root (impl s))) (map (entry_path ks) (spec s))).
  { apply paths_are_entries; [exact NE | exact St | split; [exact W | split; [exact Sh | split; assumption]]]. }
  eapply Permutation_trans; [apply Permutation_map; apply Permutation_filter'; exact PE|].
  rewrite filter_map_comm, map_map. unfold entry_path. cbn [fst snd].
  assert (E : forall st, map (fun x : entry => (extend ks l l (pattern ks (fst x)), snd x))
                             (filter (fun a : entry => pcompat_strict ks (pattern ks (fst a)) l) st)
                       = map (fun e : entry => (merge ks l (fst e), snd e)) (filter (fun e : entry => compatible ks (fst e) l) st)).
  { intros st. induction st as [|e st IH]; [reflexivity|]. cbn [filter]. rewrite pcompat_strict_pattern.
    destruct (compatible ks (fst e) l); [|exact IH]. cbn [map]. rewrite IH. f_equal. f_equal. unfold merge. apply extend_pattern. }
  rewrite E. apply Permutation_refl.
Qed.

Theorem retrieve_exact ks ops l : ks <> [] -> forallb (op_ok ks) ops = true ->
  Permutation (ic_retrieve (impl (state_after ks ops)) l) (spec_retrieve ks (spec (state_after ks ops)) l).
Proof.
  intros NE OK. pose proof (retrieve_exact_state (state_after ks ops) l) as H. rewrite keys_state_after in H.
  apply H; [exact NE | now apply stored_after | now apply indexed_after].
Qed.
