(* IndexedCache_Sound.v — retrieval never invents an entry (property C20, the sound half): whatever IndexedCache.retrieve
   returns is the output of a stored entry whose binding is compatible with the lookup.  Together with
   C20_retrieve_refuted (completeness fails) this is the direction of the known finding: rows lost, never invented. *)
From EQL Require Import Base IndexedCache IndexedCache_Facts.

(* ---------- the root-to-leaf paths of the index ---------- *)
Fixpoint tpaths_t (t : trie) : list (list ckey * nat) :=
  match t with
  | Leaf o => [([], o)]
  | Node ch =>
      (fix go (l : list (ckey * trie)) : list (list ckey * nat) :=
         match l with
         | [] => []
         | ct :: l' => map (fun po => (fst ct :: fst po, snd po)) (tpaths_t (snd ct)) ++ go l'
         end) ch
  end.
Definition tpaths (l : list (ckey * trie)) : list (list ckey * nat) := tpaths_t (Node l).

Lemma tpaths_cons c t l : tpaths ((c, t) :: l) = map (fun po => (c :: fst po, snd po)) (tpaths_t t) ++ tpaths l.
Proof. reflexivity. Qed.

Lemma tpaths_in l p o : In (p, o) (tpaths l) <-> exists c t p', In (c, t) l /\ p = c :: p' /\ In (p', o) (tpaths_t t).
Proof.
  induction l as [|[c t] l IH].
  - split; [intros [] | intros (c & t & p' & [] & _)].
  - rewrite tpaths_cons, in_app_iff, in_map_iff, IH. split.
    + intros [([p' o'] & E & H)|(c' & t' & p' & H1 & H2 & H3)].
      * cbn [fst snd] in E. injection E as <- <-. exists c, t, p'. split; [now left | now split].
      * exists c', t', p'. split; [now right | now split].
    + intros (c' & t' & p' & [H1|H1] & H2 & H3).
      * injection H1 as <- <-. left. exists (p', o). now subst.
      * right. exists c', t', p'. now split.
Qed.

Lemma ckey_eqb_eq a b : ckey_eqb a b = true <-> a = b.
Proof.
  destruct a as [|x], b as [|y]; cbn; split; intros H; try discriminate; try reflexivity.
  - apply Nat.eqb_eq in H. now subst.
  - injection H as ->. apply Nat.eqb_refl.
Qed.

Lemma tget_in l c t : tget l c = Some t -> In (c, t) l.
Proof.
  induction l as [|[c' t'] l IH]; cbn [tget]; intros H; [discriminate|].
  destruct (ckey_eqb c c') eqn:E; [apply ckey_eqb_eq in E; subst; injection H as ->; now left | right; now apply IH].
Qed.

(* ---------- retrieval returns outputs found along a path that is compatible with the lookup ---------- *)
(* a path is compatible with a lookup: wherever the path holds a concrete value and the lookup binds that key, they are equal *)
Fixpoint pcompat (ks : list key) (p : list ckey) (a : assignment) : bool :=
  match ks, p with
  | k :: ks', c :: p' => match c, aget a k with CVal v, Some w => Nat.eqb v w | _, _ => true end && pcompat ks' p' a
  | _, _ => true
  end.

Lemma retrieve_at_sound ks a : forall l res r o, In (r, o) (retrieve_at ks a l res) ->
  exists p, In (p, o) (tpaths l) /\ pcompat ks p a = true.
Proof.
  induction ks as [|k ks IH]; intros l res r o H; cbn [retrieve_at] in H; [destruct H|].
  destruct l as [|ct0 l0] eqn:El; [destruct H|]. rewrite <- El in *. clear El ct0 l0.
  assert (D : forall c t res', In (c, t) l -> (match c, aget a k with CVal v, Some w => Nat.eqb v w | _, _ => true end) = true ->
              In (r, o) (match t with Leaf o' => [(res', o')] | Node ch => retrieve_at ks a ch res' end) ->
              exists p, In (p, o) (tpaths l) /\ pcompat (k :: ks) p a = true).
  { intros c t res' Hin Hc Hd. destruct t as [o'|ch].
    - destruct Hd as [Hd|[]]. injection Hd as _ <-. exists [c]. split.
      + apply tpaths_in. exists c, (Leaf o'), []. split; [exact Hin | split; [reflexivity | now left]].
      + cbn [pcompat]. rewrite Hc. destruct ks; reflexivity.
    - destruct (IH ch res' r o Hd) as (p' & Hp & Cp). exists (c :: p'). split.
      + apply tpaths_in. exists c, (Node ch), p'. split; [exact Hin | split; [reflexivity | exact Hp]].
      + cbn [pcompat]. now rewrite Hc, Cp. }
  destruct (aget a k) as [v|] eqn:Ak.
  - apply in_app_iff in H as [H|H].
    + destruct (tget l (CVal v)) as [t|] eqn:G; [|destruct H].
      apply (D (CVal v) t res (tget_in _ _ _ G)); [apply Nat.eqb_refl | exact H].
    + destruct (tget l CAll) as [w|] eqn:GA; [|destruct H].
      apply (D CAll w res (tget_in _ _ _ GA)); [reflexivity | exact H].
  - apply in_flat_map in H as ([c t] & Hin & H). cbn [fst snd] in H. destruct c as [|v].
    + apply (D CAll t res Hin); [reflexivity | exact H].
    + apply (D (CVal v) t (aset res k v) Hin); [reflexivity | exact H].
Qed.

(* ---------- well-formed indexes: at every level a key occurs once ---------- *)
Inductive WF : list (ckey * trie) -> Prop :=
| WF_intro l : NoDup (map fst l) -> (forall c ch, In (c, Node ch) l -> WF ch) -> WF l.

Lemma WF_nil : WF [].
Proof. constructor; [constructor | intros c ch []]. Qed.

Lemma tset_keys l c t : map fst (tset l c t) = if existsb (ckey_eqb c) (map fst l) then map fst l else map fst l ++ [c].
Proof.
  induction l as [|[c' t'] l IH]; cbn [tset map fst existsb]; [reflexivity|].
  destruct (ckey_eqb c c') eqn:E; cbn [orb map fst]; [reflexivity|]. rewrite IH.
  destruct (existsb (ckey_eqb c) (map fst l)); reflexivity.
Qed.

Lemma existsb_ckey c l : existsb (ckey_eqb c) l = true <-> In c l.
Proof.
  rewrite existsb_exists. split.
  - intros (y & H & E). apply ckey_eqb_eq in E. now subst.
  - intros H. exists c. split; [exact H | now apply ckey_eqb_eq].
Qed.

Lemma nodup_snoc_ck (l : list ckey) x : NoDup l -> ~ In x l -> NoDup (l ++ [x]).
Proof.
  induction l as [|a l IH]; intros N H; cbn [app]; [constructor; [intros []|constructor]|].
  inversion N as [|? ? Ha Nl]; subst. constructor.
  - rewrite in_app_iff. intros [H1|[H1|[]]]; [contradiction|]. subst. apply H. now left.
  - apply IH; [exact Nl|]. intros H1. apply H. now right.
Qed.

Lemma tset_nodup l c t : NoDup (map fst l) -> NoDup (map fst (tset l c t)).
Proof.
  intros N. rewrite tset_keys. destruct (existsb (ckey_eqb c) (map fst l)) eqn:E; [exact N|].
  apply nodup_snoc_ck; [exact N|]. intros H. apply existsb_ckey in H. congruence.
Qed.

(* after tset: the entry for c is the new one, every other entry is an old one with another key *)
Lemma tset_in l c t c' t' : NoDup (map fst l) -> In (c', t') (tset l c t) -> (c' = c /\ t' = t) \/ (c' <> c /\ In (c', t') l).
Proof.
  induction l as [|[c0 t0] l IH]; cbn [tset map fst]; intros N H.
  - destruct H as [H|[]]. injection H as <- <-. now left.
  - inversion N as [|? ? Hc N']; subst. destruct (ckey_eqb c c0) eqn:E.
    + apply ckey_eqb_eq in E. subst c0. destruct H as [H|H].
      * injection H as <- <-. now left.
      * right. split; [|now right]. intros ->. apply Hc. apply in_map_iff. exists (c, t'). now split.
    + destruct H as [H|H].
      * injection H as <- <-. right. split; [|now left]. intros ->. rewrite (proj2 (ckey_eqb_eq c c) eq_refl) in E. discriminate.
      * destruct (IH N' H) as [L|[R1 R2]]; [now left | right; split; [exact R1 | now right]].
Qed.

Lemma tset_old l c t c' t' : c' <> c -> In (c', t') l -> In (c', t') (tset l c t).
Proof.
  intros Hne. induction l as [|[c0 t0] l IH]; cbn [tset]; intros H; [destruct H|].
  destruct (ckey_eqb c c0) eqn:E.
  - apply ckey_eqb_eq in E. subst c0. destruct H as [H|H]; [injection H as <- _; congruence | now right].
  - destruct H as [H|H]; [now left | right; now apply IH].
Qed.

Lemma tget_node_wf l c ch : WF l -> tget l c = Some (Node ch) -> WF ch.
Proof. intros W G. inversion W as [? _ Hch]; subst. eapply Hch. apply tget_in. exact G. Qed.

Lemma insert_at_one k a out l : insert_at [k] a out l = tset l (ck_of a k) (Leaf out).
Proof. reflexivity. Qed.
Lemma insert_at_two k k2 ks' a out l :
  insert_at (k :: k2 :: ks') a out l =
  tset l (ck_of a k) (Node (insert_at (k2 :: ks') a out (match tget l (ck_of a k) with Some (Node ch) => ch | _ => [] end))).
Proof. reflexivity. Qed.

Lemma insert_at_wf ks a out : forall l, WF l -> WF (insert_at ks a out l).
Proof.
  induction ks as [|k ks IH]; intros l W; [exact W|].
  inversion W as [? N Hch]; subst.
  destruct ks as [|k2 ks'].
  - rewrite insert_at_one. constructor; [now apply tset_nodup|]. intros c ch H.
    destruct (tset_in _ _ _ _ _ N H) as [[_ E]|[_ H']]; [discriminate | eapply Hch; exact H'].
  - rewrite insert_at_two. set (sub := match tget l (ck_of a k) with Some (Node ch) => ch | _ => [] end).
    assert (Wsub : WF sub).
    { unfold sub. destruct (tget l (ck_of a k)) as [[o|ch]|] eqn:G; [apply WF_nil | eapply tget_node_wf; eassumption | apply WF_nil]. }
    constructor; [now apply tset_nodup|]. intros c ch H. destruct (tset_in _ _ _ _ _ N H) as [[_ E]|[_ H']].
    + injection E as E. subst ch. exact (IH sub Wsub).
    + eapply Hch. exact H'.
Qed.

(* ---------- the paths after an insertion: the pattern of the inserted binding with the new output, and the old paths with
   another pattern ---------- *)
Lemma insert_at_paths ks a out : forall l p o, WF l -> In (p, o) (tpaths (insert_at ks a out l)) -> ks <> [] ->
  (p = pattern ks a /\ o = out) \/ (p <> pattern ks a /\ In (p, o) (tpaths l)).
Proof.
  induction ks as [|k ks IH]; intros l p o W H NE; [congruence|]. inversion W as [? N Hch]; subst.
  destruct ks as [|k2 ks'].
  - rewrite insert_at_one in H. apply tpaths_in in H as (c & t & p' & Hin & -> & Hp).
    destruct (tset_in _ _ _ _ _ N Hin) as [[-> ->]|[Hne Hold]].
    + destruct Hp as [Hp|[]]. injection Hp as <- <-. now left.
    + right. split; [cbn [pattern map]; intros E; injection E as E _; congruence|].
      apply tpaths_in. exists c, t, p'. now split.
  - rewrite insert_at_two in H. set (sub := match tget l (ck_of a k) with Some (Node ch) => ch | _ => [] end) in *.
    assert (Wsub : WF sub).
    { unfold sub. destruct (tget l (ck_of a k)) as [[o'|ch]|] eqn:G; [apply WF_nil | eapply tget_node_wf; eassumption | apply WF_nil]. }
    apply tpaths_in in H as (c & t & p' & Hin & -> & Hp). destruct (tset_in _ _ _ _ _ N Hin) as [[-> ->]|[Hne Hold]].
    + change (In (p', o) (tpaths (insert_at (k2 :: ks') a out sub))) in Hp.
      destruct (IH sub p' o Wsub Hp ltac:(discriminate)) as [[-> ->]|[Hne Hold]]; [now left|].
      right. split; [cbn [pattern map] in *; intros E; injection E as E; congruence|].
      unfold sub in Hold. destruct (tget l (ck_of a k)) as [[o'|ch]|] eqn:G; try (destruct Hold; fail).
      apply tpaths_in. exists (ck_of a k), (Node ch), p'. split; [now apply tget_in | now split].
    + right. split; [cbn [pattern map]; intros E; injection E as E _; congruence|].
      apply tpaths_in. exists c, t, p'. now split.
Qed.

(* ---------- the reference store ---------- *)
Lemma pat_eqb_eq p : forall q, pat_eqb p q = true <-> p = q.
Proof.
  induction p as [|x p IH]; intros [|y q]; cbn [pat_eqb]; split; intros H; try discriminate; try reflexivity.
  - apply andb_prop in H as [H1 H2]. apply ckey_eqb_eq in H1. apply IH in H2. now subst.
  - injection H as -> ->. rewrite (proj2 (ckey_eqb_eq y y) eq_refl). now apply IH.
Qed.

Lemma spec_insert_new ks st a out : exists b, In (b, out) (spec_insert ks st a out) /\ pattern ks b = pattern ks a.
Proof.
  induction st as [|[b o] st IH]; cbn [spec_insert].
  - exists a. split; [now left | reflexivity].
  - destruct (pat_eqb (pattern ks b) (pattern ks a)) eqn:E.
    + exists b. split; [now left | now apply pat_eqb_eq].
    + destruct IH as (b' & H1 & H2). exists b'. split; [now right | exact H2].
Qed.

Lemma spec_insert_old ks st a out b o : In (b, o) st -> pattern ks b <> pattern ks a -> In (b, o) (spec_insert ks st a out).
Proof.
  induction st as [|[b0 o0] st IH]; intros H Hne; [destruct H|]. cbn [spec_insert].
  destruct (pat_eqb (pattern ks b0) (pattern ks a)) eqn:E.
  - destruct H as [H|H]; [injection H as -> ->; apply pat_eqb_eq in E; congruence | now right].
  - destruct H as [H|H]; [now left | right; now apply IH].
Qed.

Lemma pcompat_pattern ks b l : pcompat ks (pattern ks b) l = compatible ks b l.
Proof.
  induction ks as [|k ks IH]; cbn [pattern map pcompat compatible forallb]; [reflexivity|]. fold (pattern ks b). rewrite IH. f_equal.
  unfold ck_of. destruct (aget b k), (aget l k); reflexivity.
Qed.

(* ---------- the invariant along a history: every path of the index is a stored entry ---------- *)
Definition Stored (s : both) : Prop :=
  WF (root (impl s)) /\
  forall p o, In (p, o) (tpaths (root (impl s))) -> exists b, In (b, o) (spec s) /\ pattern (keys (impl s)) b = p.

Lemma stored_step s o : keys (impl s) <> [] -> op_ok (keys (impl s)) o = true -> Stored s -> Stored (fst (step s o)).
Proof.
  intros NE OK [W P]. destruct o as [a out|a|a|]; cbn [step fst].
  - destruct a as [|kv a']; [cbn in OK; discriminate|]. cbn [ic_insert impl spec root keys].
    split; [now apply insert_at_wf|]. intros p o H.
    destruct (insert_at_paths _ _ _ _ p o W H NE) as [[-> ->]|[Hne Hold]].
    + destruct (spec_insert_new (keys (impl s)) (spec s) (kv :: a') out) as (b & H1 & H2). exists b. now split.
    + destruct (P p o Hold) as (b & H1 & H2). exists b. split; [|exact H2]. apply spec_insert_old; [exact H1 | congruence].
  - destruct (ic_check (impl s) a) as [b c'] eqn:E. cbn [fst impl spec].
    assert (R : root c' = root (impl s) /\ keys c' = keys (impl s)).
    { unfold ic_check in E. destruct (restrict (keys (impl s)) a) as [|kv ra]; [injection E as _ <-; now split|].
      destruct (ss_check (sset (impl s)) (kv :: ra)). injection E as _ <-. now split. }
    destruct R as [R1 R2]. unfold Stored. cbn [impl spec]. rewrite R1, R2. now split.
  - now split.
  - cbn [ic_clear impl spec root keys]. split; [apply WF_nil | intros p o []].
Qed.

Lemma stored_after ks ops : ks <> [] -> forallb (op_ok ks) ops = true -> Stored (state_after ks ops).
Proof.
  intros NE. unfold state_after.
  assert (G : forall ops s, keys (impl s) = ks -> Stored s -> forallb (op_ok ks) ops = true ->
              Stored (fold_left (fun s o => fst (step s o)) ops s)).
  { induction ops0 as [|o ops0 IH]; intros s K S OK; cbn [fold_left]; [exact S|].
    cbn [forallb] in OK. apply andb_prop in OK as [O1 O2]. apply IH.
    - now rewrite keys_step.
    - apply stored_step; [now rewrite K | now rewrite K | exact S].
    - exact O2. }
  intros OK. apply G; [reflexivity| |exact OK]. split; [apply WF_nil | intros p o []].
Qed.

(* whatever a retrieval returns after ANY well-formed history is the output of an entry of the reference store whose binding is
   compatible with the lookup: retrieval never invents an entry and never returns an overwritten output *)
Theorem retrieve_sound ks ops l r o : ks <> [] -> forallb (op_ok ks) ops = true ->
  In (r, o) (ic_retrieve (impl (state_after ks ops)) l) ->
  exists b, In (b, o) (spec (state_after ks ops)) /\ compatible ks b l = true.
Proof.
  intros NE OK H. destruct (stored_after ks ops NE OK) as [_ P]. unfold ic_retrieve in H. rewrite keys_state_after in *.
  destruct (retrieve_at_sound ks l _ _ r o H) as (p & Hp & Cp). destruct (P p o Hp) as (b & Hb & <-).
  exists b. split; [exact Hb|]. now rewrite <- pcompat_pattern.
Qed.

(* ================= completeness on indexes without a mixed level ================= *)
(* a level is MIXED when it holds both the wildcard and a concrete key - the situation the known finding is about *)
Definition is_all (c : ckey) : bool := match c with CAll => true | CVal _ => false end.
Inductive Unmixed : list (ckey * trie) -> Prop :=
| Unmixed_intro l : (forallb is_all (map fst l) = true \/ forallb (fun c => negb (is_all c)) (map fst l) = true) ->
                    (forall c ch, In (c, Node ch) l -> Unmixed ch) -> Unmixed l.

(* the index has the shape insert builds: outputs sit exactly below the last key *)
Fixpoint Shaped (ks : list key) (l : list (ckey * trie)) : Prop :=
  match ks with
  | [] => l = []
  | [k] => forall c t, In (c, t) l -> exists o, t = Leaf o
  | k :: ks' => forall c t, In (c, t) l -> exists ch, t = Node ch /\ Shaped ks' ch
  end.

Lemma Shaped_nil ks : Shaped ks [].
Proof. destruct ks as [|k [|k2 ks]]; cbn; [reflexivity | intros c t [] | intros c t []]. Qed.

Lemma tget_unique l c t t' : NoDup (map fst l) -> In (c, t) l -> tget l c = Some t' -> t' = t.
Proof.
  induction l as [|[c0 t0] l IH]; cbn [map fst tget]; intros N H G; [destruct H|].
  inversion N as [|? ? Hc N']; subst. destruct (ckey_eqb c c0) eqn:E.
  - apply ckey_eqb_eq in E. subst c0. injection G as <-. destruct H as [H|H]; [now injection H|].
    exfalso. apply Hc. apply in_map_iff. exists (c, t). now split.
  - destruct H as [H|H]; [injection H as -> _; rewrite (proj2 (ckey_eqb_eq c c) eq_refl) in E; discriminate | now apply IH].
Qed.

Lemma tget_found l c t : In (c, t) l -> tget l c <> None.
Proof.
  induction l as [|[c0 t0] l IH]; intros H; [destruct H|]. cbn [tget]. destruct (ckey_eqb c c0) eqn:E; [discriminate|].
  destruct H as [H|H]; [injection H as -> _; rewrite (proj2 (ckey_eqb_eq c c) eq_refl) in E; discriminate | now apply IH].
Qed.

Lemma tget_none_all l v : forallb is_all (map fst l) = true -> tget l (CVal v) = None.
Proof.
  induction l as [|[c0 t0] l IH]; cbn [map fst forallb tget]; intros H; [reflexivity|]. apply andb_prop in H as [H1 H2].
  destruct c0; [cbn [ckey_eqb]; now apply IH | discriminate].
Qed.

Lemma tget_none_conc l : forallb (fun c => negb (is_all c)) (map fst l) = true -> tget l CAll = None.
Proof.
  induction l as [|[c0 t0] l IH]; cbn [map fst forallb tget]; intros H; [reflexivity|]. apply andb_prop in H as [H1 H2].
  destruct c0; [discriminate | cbn [ckey_eqb]; now apply IH].
Qed.

Lemma in_all_is_all (l : list (ckey * trie)) c t : forallb is_all (map fst l) = true -> In (c, t) l -> c = CAll.
Proof.
  intros H Hin. rewrite forallb_forall in H.
  assert (Hc : In c (map fst l)) by (apply in_map_iff; exists (c, t); now split).
  specialize (H c Hc). destruct c; [reflexivity | discriminate].
Qed.

Lemma in_conc_is_val (l : list (ckey * trie)) c t : forallb (fun c => negb (is_all c)) (map fst l) = true -> In (c, t) l -> exists v, c = CVal v.
Proof.
  intros H Hin. rewrite forallb_forall in H.
  assert (Hc : In c (map fst l)) by (apply in_map_iff; exists (c, t); now split).
  specialize (H c Hc). destruct c; [discriminate | eexists; reflexivity].
Qed.

(* strict compatibility: the path has one key per index key *)
Fixpoint pcompat_strict (ks : list key) (p : list ckey) (a : assignment) : bool :=
  match ks, p with
  | [], [] => true
  | k :: ks', c :: p' => match c, aget a k with CVal v, Some w => Nat.eqb v w | _, _ => true end && pcompat_strict ks' p' a
  | _, _ => false
  end.

Lemma retrieve_at_complete ks a : forall l res p o, WF l -> Shaped ks l -> In (p, o) (tpaths l) ->
  pcompat_strict ks p a = true -> exists r, In (r, o) (retrieve_at ks a l res).
Proof.
  induction ks as [|k ks IH]; intros l res p o W S H C.
  - cbn in S. subst l. destruct H.
  - apply tpaths_in in H as (c & t & p' & Hin & -> & Hp). cbn [pcompat_strict] in C. apply andb_prop in C as [Cc Cp].
    inversion W as [? N Hch]; subst.
    assert (D : forall res', exists r, In (r, o) (match t with Leaf o' => [(res', o')] | Node ch => retrieve_at ks a ch res' end)).
    { intros res'. destruct ks as [|k2 ks'].
      - cbn [Shaped] in S. destruct (S c t Hin) as (o' & ->). cbn [tpaths_t] in Hp. destruct Hp as [Hp|[]]. injection Hp as _ <-.
        eexists. now left.
      - cbn [Shaped] in S. destruct (S c t Hin) as (ch & -> & Sch).
        apply (IH ch res' p' o (Hch c ch Hin) Sch Hp Cp). }
    cbn [retrieve_at]. destruct l as [|ct0 l0] eqn:El; [destruct Hin|]. rewrite <- El in *. clear El ct0 l0.
    destruct (aget a k) as [v|] eqn:Ak.
    + destruct c as [|v'].
      * (* the path goes through the wildcard branch: the second half *)
        destruct (tget l CAll) as [w|] eqn:G; [|exfalso; now apply (tget_found l CAll t Hin)].
        rewrite (tget_unique l CAll t w N Hin G). destruct (D res) as (r & Hr). exists r. apply in_app_iff. now right.
      * apply Nat.eqb_eq in Cc. subst v'. destruct (tget l (CVal v)) as [w|] eqn:G; [|exfalso; now apply (tget_found l (CVal v) t Hin)].
        rewrite (tget_unique l (CVal v) t w N Hin G). destruct (D res) as (r & Hr). exists r. apply in_app_iff. now left.
    + destruct c as [|v'].
      * destruct (D res) as (r & Hr). exists r. apply in_flat_map. exists (CAll, t). split; [exact Hin | exact Hr].
      * destruct (D (aset res k v')) as (r & Hr). exists r. apply in_flat_map. exists (CVal v', t). split; [exact Hin | exact Hr].
Qed.

(* ---------- insertion keeps the shape, adds the new path, keeps the old paths with another pattern ---------- *)
Lemma tset_new l c t : In (c, t) (tset l c t).
Proof.
  induction l as [|[c0 t0] l IH]; cbn [tset]; [now left|]. destruct (ckey_eqb c c0) eqn:E; [|right; exact IH].
  apply ckey_eqb_eq in E. subst c0. now left.
Qed.

Lemma insert_at_shaped ks a out : forall l, Shaped ks l -> Shaped ks (insert_at ks a out l).
Proof.
  induction ks as [|k ks IH]; intros l S; [exact S|]. destruct ks as [|k2 ks'].
  - rewrite insert_at_one. cbn [Shaped] in *. intros c t H.
    assert (G : forall l0, (forall c t, In (c, t) l0 -> exists o, t = Leaf o) -> In (c, t) (tset l0 (ck_of a k) (Leaf out)) -> exists o, t = Leaf o).
    { clear. induction l0 as [|[c0 t0] l0 IH]; cbn [tset]; intros S H.
      - destruct H as [H|[]]. injection H as _ <-. eexists; reflexivity.
      - destruct (ckey_eqb (ck_of a k) c0).
        + destruct H as [H|H]; [injection H as _ <-; eexists; reflexivity | apply (S c t); now right].
        + destruct H as [H|H]; [apply (S c t); now left | apply IH; [intros c' t' H'; apply (S c' t'); now right | exact H]]. }
    now apply (G l S).
  - rewrite insert_at_two. set (sub := match tget l (ck_of a k) with Some (Node ch) => ch | _ => [] end).
    assert (Ssub : Shaped (k2 :: ks') sub).
    { unfold sub. destruct (tget l (ck_of a k)) as [[o|ch]|] eqn:G; try apply Shaped_nil.
      change (forall c t, In (c, t) l -> exists ch, t = Node ch /\ Shaped (k2 :: ks') ch) in S.
      destruct (S _ _ (tget_in _ _ _ G)) as (ch' & E & Sch). now injection E as <-. }
    change (forall c t, In (c, t) (tset l (ck_of a k) (Node (insert_at (k2 :: ks') a out sub))) ->
            exists ch, t = Node ch /\ Shaped (k2 :: ks') ch).
    change (forall c t, In (c, t) l -> exists ch, t = Node ch /\ Shaped (k2 :: ks') ch) in S.
    intros c t H.
    assert (G : forall l0 nw, (forall c t, In (c, t) l0 -> exists ch, t = Node ch /\ Shaped (k2 :: ks') ch) ->
                (exists ch, nw = Node ch /\ Shaped (k2 :: ks') ch) ->
                In (c, t) (tset l0 (ck_of a k) nw) -> exists ch, t = Node ch /\ Shaped (k2 :: ks') ch).
    { clear. induction l0 as [|[c0 t0] l0 IH]; cbn [tset]; intros nw S Hn H.
      - destruct H as [H|[]]. injection H as _ <-. exact Hn.
      - destruct (ckey_eqb (ck_of a k) c0).
        + destruct H as [H|H]; [injection H as _ <-; exact Hn | apply (S c t); now right].
        + destruct H as [H|H]; [apply (S c t); now left | eapply IH; [intros c' t' H'; apply (S c' t'); now right | exact Hn | exact H]]. }
    apply (G l (Node (insert_at (k2 :: ks') a out sub)) S); [|exact H]. eexists. split; [reflexivity | now apply IH].
Qed.

Lemma insert_at_has_new ks a out : forall l, ks <> [] -> In (pattern ks a, out) (tpaths (insert_at ks a out l)).
Proof.
  induction ks as [|k ks IH]; intros l NE; [congruence|]. destruct ks as [|k2 ks'].
  - rewrite insert_at_one. apply tpaths_in. exists (ck_of a k), (Leaf out), []. split; [apply tset_new | split; [reflexivity | now left]].
  - rewrite insert_at_two. apply tpaths_in. eexists (ck_of a k), _, (pattern (k2 :: ks') a). split; [apply tset_new|].
    split; [reflexivity|]. apply (IH _ ltac:(discriminate)).
Qed.

Lemma insert_at_keeps ks a out : forall l p o, WF l -> Shaped ks l -> In (p, o) (tpaths l) -> p <> pattern ks a ->
  In (p, o) (tpaths (insert_at ks a out l)).
Proof.
  induction ks as [|k ks IH]; intros l p o W S H Hne; [exact H|]. inversion W as [? N Hch]; subst.
  apply tpaths_in in H as (c & t & p' & Hin & -> & Hp). destruct ks as [|k2 ks'].
  - rewrite insert_at_one. cbn [Shaped] in S. destruct (S c t Hin) as (o' & ->). destruct Hp as [Hp|[]]. injection Hp as <- <-.
    apply tpaths_in. exists c, (Leaf o'), []. split; [|split; [reflexivity | now left]].
    apply tset_old; [|exact Hin]. intros ->. apply Hne. reflexivity.
  - rewrite insert_at_two. change (forall c t, In (c, t) l -> exists ch, t = Node ch /\ Shaped (k2 :: ks') ch) in S.
    destruct (S c t Hin) as (ch & -> & Sch).
    destruct (ckey_eqb c (ck_of a k)) eqn:E.
    + apply ckey_eqb_eq in E. subst c.
      destruct (tget l (ck_of a k)) as [w|] eqn:G; [|exfalso; now apply (tget_found l _ _ Hin)].
      pose proof (tget_unique l _ _ w N Hin G) as ->.
      apply tpaths_in. eexists (ck_of a k), _, p'. split; [apply tset_new | split; [reflexivity|]].
      apply IH; [eapply Hch; exact Hin | exact Sch | exact Hp|]. intros ->. apply Hne. reflexivity.
    + apply tpaths_in. exists c, (Node ch), p'. split; [|split; [reflexivity | exact Hp]].
      apply tset_old; [|exact Hin]. intros ->. rewrite (proj2 (ckey_eqb_eq _ _) eq_refl) in E. discriminate.
Qed.

(* ---------- the reference store keeps one entry per pattern ---------- *)
Definition pats (ks : list key) (st : list entry) : list (list ckey) := map (fun e => pattern ks (fst e)) st.

Lemma spec_insert_pats ks st a out :
  pats ks (spec_insert ks st a out) = if existsb (fun q => pat_eqb q (pattern ks a)) (pats ks st) then pats ks st else pats ks st ++ [pattern ks a].
Proof.
  induction st as [|[b o] st IH]; cbn [spec_insert pats map fst existsb]; [reflexivity|].
  destruct (pat_eqb (pattern ks b) (pattern ks a)) eqn:E; cbn [orb pats map fst]; [reflexivity|].
  fold (pats ks (spec_insert ks st a out)) (pats ks st). rewrite IH.
  destruct (existsb (fun q => pat_eqb q (pattern ks a)) (pats ks st)); reflexivity.
Qed.

Lemma spec_insert_nodup ks st a out : NoDup (pats ks st) -> NoDup (pats ks (spec_insert ks st a out)).
Proof.
  intros N. rewrite spec_insert_pats. destruct (existsb _ _) eqn:E; [exact N|].
  assert (G : forall (l : list (list ckey)) x, NoDup l -> ~ In x l -> NoDup (l ++ [x])).
  { clear. induction l as [|y l IH]; intros x N H; cbn [app]; [constructor; [intros []|constructor]|].
    inversion N as [|? ? Hy Nl]; subst. constructor.
    - rewrite in_app_iff. intros [H1|[H1|[]]]; [contradiction|]. subst. apply H. now left.
    - apply IH; [exact Nl|]. intros H1. apply H. now right. }
  apply G; [exact N|]. intros H. assert (X : existsb (fun q => pat_eqb q (pattern ks a)) (pats ks st) = true).
  { apply existsb_exists. exists (pattern ks a). split; [exact H | now apply pat_eqb_eq]. }
  congruence.
Qed.

Lemma spec_insert_in ks st a out b o : NoDup (pats ks st) -> In (b, o) (spec_insert ks st a out) ->
  (pattern ks b = pattern ks a /\ o = out) \/ (pattern ks b <> pattern ks a /\ In (b, o) st).
Proof.
  induction st as [|[b0 o0] st IH]; cbn [spec_insert]; intros N H.
  - destruct H as [H|[]]. injection H as <- <-. now left.
  - cbn [pats map fst] in N. inversion N as [|? ? Hp N']; subst. destruct (pat_eqb (pattern ks b0) (pattern ks a)) eqn:E.
    + apply pat_eqb_eq in E. destruct H as [H|H].
      * injection H as <- <-. now left.
      * right. split; [|now right]. intros E2. apply Hp. rewrite E, <- E2. apply in_map_iff. exists (b, o). now split.
    + destruct H as [H|H].
      * injection H as <- <-. right. split; [|now left]. intros E2. rewrite E2 in E. rewrite (proj2 (pat_eqb_eq _ _) eq_refl) in E. discriminate.
      * destruct (IH N' H) as [L|[R1 R2]]; [now left | right; split; [exact R1 | now right]].
Qed.

(* ---------- the converse invariant: every stored entry is a path of the index ---------- *)
Definition Indexed (s : both) : Prop :=
  WF (root (impl s)) /\ Shaped (keys (impl s)) (root (impl s)) /\ NoDup (pats (keys (impl s)) (spec s)) /\
  forall b o, In (b, o) (spec s) -> In (pattern (keys (impl s)) b, o) (tpaths (root (impl s))).

Lemma indexed_step s o : keys (impl s) <> [] -> op_ok (keys (impl s)) o = true -> Indexed s -> Indexed (fst (step s o)).
Proof.
  intros NE OK (W & S & N & P). destruct o as [a out|a|a|]; cbn [step fst].
  - destruct a as [|kv a']; [cbn in OK; discriminate|]. unfold Indexed. cbn [ic_insert impl spec root keys].
    split; [now apply insert_at_wf|]. split; [now apply insert_at_shaped|]. split; [now apply spec_insert_nodup|].
    intros b o H. destruct (spec_insert_in _ _ _ _ b o N H) as [[E ->]|[Hne Hold]].
    + rewrite E. now apply insert_at_has_new.
    + apply insert_at_keeps; [exact W | exact S | now apply P | exact Hne].
  - destruct (ic_check (impl s) a) as [b c'] eqn:E. cbn [fst impl spec].
    assert (R : root c' = root (impl s) /\ keys c' = keys (impl s)).
    { unfold ic_check in E. destruct (restrict (keys (impl s)) a) as [|kv ra]; [injection E as _ <-; now split|].
      destruct (ss_check (sset (impl s)) (kv :: ra)). injection E as _ <-. now split. }
    destruct R as [R1 R2]. unfold Indexed. cbn [impl spec]. rewrite R1, R2.
    split; [exact W | split; [exact S | split; [exact N | exact P]]].
  - split; [exact W | split; [exact S | split; [exact N | exact P]]].
  - unfold Indexed. cbn [ic_clear impl spec root keys]. split; [apply WF_nil|]. split; [apply Shaped_nil|]. split; [constructor | intros b o []].
Qed.

Lemma indexed_after ks ops : ks <> [] -> forallb (op_ok ks) ops = true -> Indexed (state_after ks ops).
Proof.
  intros NE. unfold state_after.
  assert (G : forall ops s, keys (impl s) = ks -> Indexed s -> forallb (op_ok ks) ops = true ->
              Indexed (fold_left (fun s o => fst (step s o)) ops s)).
  { induction ops0 as [|o ops0 IH]; intros s K S OK; cbn [fold_left]; [exact S|].
    cbn [forallb] in OK. apply andb_prop in OK as [O1 O2]. apply IH.
    - now rewrite keys_step.
    - apply indexed_step; [now rewrite K | now rewrite K | exact S].
    - exact O2. }
  intros OK. apply G; [reflexivity| |exact OK]. split; [apply WF_nil|]. split; [apply Shaped_nil|]. split; [constructor | intros b o []].
Qed.

Lemma pcompat_strict_pattern ks b l : pcompat_strict ks (pattern ks b) l = compatible ks b l.
Proof.
  induction ks as [|k ks IH]; cbn [pattern map pcompat_strict compatible forallb]; [reflexivity|]. fold (pattern ks b). rewrite IH. f_equal.
  unfold ck_of. destruct (aget b k), (aget l k); reflexivity.
Qed.

(* Retrieval is COMPLETE: after ANY well-formed history every stored entry compatible with the lookup is returned.  (At the pinned
   commit this held only on indexes without a level holding both the wildcard and a concrete key - known finding
   C20-wildcard-preference, repaired in /repo.) *)
Theorem retrieve_complete ks ops l b o : ks <> [] -> forallb (op_ok ks) ops = true ->
  In (b, o) (spec (state_after ks ops)) -> compatible ks b l = true ->
  exists r, In (r, o) (ic_retrieve (impl (state_after ks ops)) l).
Proof.
  intros NE OK Hb C. destruct (indexed_after ks ops NE OK) as (W & S & _ & P). unfold ic_retrieve. rewrite keys_state_after in *.
  apply (retrieve_at_complete ks l _ l (pattern ks b) o W S (P b o Hb)). now rewrite pcompat_strict_pattern.
Qed.
