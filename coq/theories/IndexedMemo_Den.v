(* IndexedMemo_Den.v — result caching through the concrete index is transparent, AS A SET OF ASSIGNMENTS, for every operator -
   also one whose rows leave cache keys open (the wildcard enters the index: the region of the former known findings).

   An operator is described by what it denotes: a finite relation [rel] of FULL rows (every cache key bound) with their truth
   flags, and a function [f] giving the rows it yields, uncached, under a lookup - rows that may leave keys open, a row that leaves
   a key open standing for every value of it.  [f] is correct when, under every lookup L, the full rows its answer stands for are
   exactly the rows of [rel] that agree with L.  The cached call site (IndexedMemo_Facts.cached_step generalised to f) is proved
   to stand for the same full rows as f, for every history of lookups. *)
From EQL Require Import Base Generated IndexedCache IndexedCache_Facts IndexedCache_Sound IndexedCache_Perm IndexedMemo_Facts.
From Coq Require Import Permutation.

(* r binds, on the cache keys, nothing that b does not bind alike *)
Definition sub_on (ks : list key) (r b : assignment) : bool :=
  forallb (fun k => match aget r k with
                    | Some v => match aget b k with Some w => Nat.eqb v w | None => false end
                    | None => true
                    end) ks.

Lemma sub_on_refl ks r : sub_on ks r r = true.
Proof. unfold sub_on. apply forallb_forall. intros k _. destruct (aget r k); [apply Nat.eqb_refl | reflexivity]. Qed.

Lemma sub_on_trans ks a b c : sub_on ks a b = true -> sub_on ks b c = true -> sub_on ks a c = true.
Proof.
  unfold sub_on. rewrite !forallb_forall. intros H1 H2 k Hk. specialize (H1 k Hk). specialize (H2 k Hk).
  destruct (aget a k) as [v|]; [|reflexivity]. destruct (aget b k) as [w|]; [|discriminate]. apply Nat.eqb_eq in H1. subst w. exact H2.
Qed.

Lemma covers_sub_on ks a b : covers a b = true -> sub_on ks a b = true.
Proof.
  unfold covers, sub_on. rewrite !forallb_forall. intros H k _. destruct (aget a k) as [v|] eqn:A; [|reflexivity].
  assert (I : In (k, v) a).
  { clear -A. induction a as [|[k' v'] a IH]; cbn [aget] in A; [discriminate|].
    destruct (Nat.eqb k k') eqn:E; [apply Nat.eqb_eq in E; subst; injection A as ->; now left | right; now apply IH]. }
  specialize (H (k, v) I). cbn [fst snd] in H. destruct (aget b k) as [w|]; [|discriminate]. now rewrite Nat.eqb_sym.
Qed.

(* the value the merged assignment gives a cache key: the lookup's, or else the entry's *)
Lemma merge_aget ks l e k : In k ks ->
  aget (merge ks l e) k = match aget l k with Some v => Some v | None => aget e k end.
Proof.
  unfold merge. intros Hk.
  assert (G : forall ks acc, aget (fold_left (fun acc k0 => match aget l k0, aget e k0 with None, Some v => aset acc k0 v | _, _ => acc end) ks acc) k
              = if existsb (Nat.eqb k) ks
                then match aget l k with Some _ => aget acc k | None => match aget e k with Some v => Some v | None => aget acc k end end
                else aget acc k).
  { induction ks0 as [|k0 ks0 IH]; intros acc; cbn [fold_left existsb]; [reflexivity|]. rewrite IH.
    destruct (Nat.eqb k k0) eqn:E; cbn [orb].
    - apply Nat.eqb_eq in E. subst k0. destruct (aget l k) as [v|] eqn:Al.
      + now destruct (existsb (Nat.eqb k) ks0).
      + destruct (aget e k) as [w|] eqn:Ae; [|now destruct (existsb (Nat.eqb k) ks0)].
        rewrite aget_aset_same. now destruct (existsb (Nat.eqb k) ks0).
    - assert (Ne : k0 <> k) by (intros ->; rewrite Nat.eqb_refl in E; discriminate).
      destruct (aget l k0); [reflexivity|]. destruct (aget e k0) as [w|]; [|reflexivity].
      rewrite (aget_aset_other acc k0 k w Ne). reflexivity. }
  rewrite G. assert (X : existsb (Nat.eqb k) ks = true) by (apply existsb_exists; exists k; split; [exact Hk | apply Nat.eqb_refl]).
  rewrite X. destruct (aget l k) as [v|]; [reflexivity|]. now destruct (aget e k).
Qed.

Lemma forallb_ext_in'' {A} (f g : A -> bool) l : (forall x, In x l -> f x = g x) -> forallb f l = forallb g l.
Proof. induction l as [|a l IH]; intros H; cbn [forallb]; [reflexivity|]. rewrite (H a (or_introl eq_refl)), IH; [reflexivity|]. intros x Hx. apply H. now right. Qed.

Section Den.
  Variable ks : list key.
  Hypothesis ks_ne : ks <> [].

  (* what the operator denotes: full rows with their truth flags, no two alike on the keys *)
  Variable rel : list entry.
  Hypothesis rel_full : forall b o, In (b, o) rel -> full ks b = true.

  (* what it yields, uncached, under a lookup *)
  Variable f : assignment -> list entry.
  (* ... under the lookups that occur ([asked]: the history's lookups) *)
  Variable asked : assignment -> Prop.
  Hypothesis f_rows : forall L r o, asked L -> In (r, o) (f L) -> over ks r = true /\ nonempty r = true /\ sub_on ks L r = true.
  Hypothesis f_flag : forall L r o b o', asked L -> In (r, o) (f L) -> In (b, o') rel -> sub_on ks r b = true -> o' = o.
  Hypothesis f_complete : forall L b o, asked L -> In (b, o) rel -> compatible ks b L = true ->
    exists r, In (r, o) (f L) /\ sub_on ks r b = true.

  (* the full rows a list of (possibly partial) rows stands for *)
  Definition den (rows : list entry) (b : assignment) (o : nat) : Prop :=
    In (b, o) rel /\ exists r, In (r, o) rows /\ sub_on ks r b = true.

  (* a full row that contains a row extending the lookup agrees with the lookup *)
  Lemma full_sub_compat L r b : full ks b = true -> sub_on ks L r = true -> sub_on ks r b = true -> compatible ks b L = true.
  Proof.
    intros F H1 H2. pose proof (sub_on_trans ks L r b H1 H2) as H. unfold compatible, sub_on in *. rewrite forallb_forall in *.
    intros k Hk. specialize (H k Hk). destruct (aget b k) as [x|]; [|reflexivity]. destruct (aget L k) as [y|]; [|reflexivity].
    now rewrite Nat.eqb_sym.
  Qed.

  (* the uncached answer stands for exactly the rows of the relation that agree with the lookup *)
  Theorem uncached_denotes L b o : asked L -> den (f L) b o <-> (In (b, o) rel /\ compatible ks b L = true).
  Proof.
    intros AL. split.
    - intros (Hb & r & Hr & S). split; [exact Hb|]. destruct (f_rows L r o AL Hr) as (_ & _ & E).
      exact (full_sub_compat L r b (rel_full b o Hb) E S).
    - intros (Hb & C). split; [exact Hb|]. exact (f_complete L b o AL Hb C).
  Qed.

  (* ---------- the cached call site over f ---------- *)
  Definition cached_step_f (s : both) (L : assignment) : both * list entry :=
    let s1 := fst (step s (OChk L)) in
    if fst (ic_check (impl s) L)
    then (s1, if replay_keeps_most_general then most_general (ic_retrieve (impl s1) L) else ic_retrieve (impl s1) L)
    else (store_all s1 (if row_flag_is_current then f L else shifted (f L)), f L).
  Fixpoint cached_run_f (s : both) (Ls : list assignment) : list (list entry) :=
    match Ls with [] => [] | L :: Ls' => let r := cached_step_f s L in snd r :: cached_run_f (fst r) Ls' end.

  (* ---------- facts about patterns and sub_on ---------- *)
  Lemma pattern_aget a b : pattern ks a = pattern ks b -> forall k, In k ks -> aget a k = aget b k.
  Proof.
    unfold pattern. intros E k Hk. assert (C : ck_of a k = ck_of b k).
    { clear -E Hk. induction ks as [|k0 ks0 IH]; [destruct Hk|]. cbn [map] in E. injection E as E0 E1.
      destruct Hk as [->|Hk]; [exact E0 | now apply IH]. }
    unfold ck_of in C. destruct (aget a k), (aget b k); congruence.
  Qed.

  Lemma sub_on_ext_l a a' b : (forall k, In k ks -> aget a k = aget a' k) -> sub_on ks a b = sub_on ks a' b.
  Proof. intros H. unfold sub_on. apply forallb_ext_in''. intros k Hk. now rewrite (H k Hk). Qed.

  Lemma sub_on_restrict a L : sub_on ks a (restrict ks L) = sub_on ks a L.
  Proof.
    unfold sub_on. apply forallb_ext_in''. intros k Hk. rewrite aget_restrict.
    assert (X : existsb (Nat.eqb k) ks = true) by (apply existsb_exists; exists k; split; [exact Hk | apply Nat.eqb_refl]).
    now rewrite X.
  Qed.

  (* a full row agreeing with a lookup agrees with every lookup the lookup extends *)
  Lemma compat_weaken b L L0 : compatible ks b L = true -> sub_on ks L0 L = true -> compatible ks b L0 = true.
  Proof.
    unfold compatible, sub_on. rewrite !forallb_forall. intros C S k Hk. specialize (C k Hk). specialize (S k Hk).
    destruct (aget b k) as [x|]; [|reflexivity]. destruct (aget L0 k) as [y|]; [|reflexivity].
    destruct (aget L k) as [z|]; [|discriminate]. apply Nat.eqb_eq in S. subst z. exact C.
  Qed.

  (* a row contained in a full row that agrees with the lookup agrees with the lookup *)
  Lemma sub_compat r b L : sub_on ks r b = true -> compatible ks b L = true -> compatible ks r L = true.
  Proof.
    unfold compatible, sub_on. rewrite !forallb_forall. intros S C k Hk. specialize (C k Hk). specialize (S k Hk).
    destruct (aget r k) as [x|]; [|reflexivity]. destruct (aget L k) as [y|]; [|reflexivity].
    destruct (aget b k) as [z|]; [|discriminate]. apply Nat.eqb_eq in S. subst z. exact C.
  Qed.

  (* the merged assignment is contained in a full row that contains the entry and agrees with the lookup *)
  Lemma merge_sub L e b : full ks b = true -> sub_on ks e b = true -> compatible ks b L = true -> sub_on ks (merge ks L e) b = true.
  Proof.
    unfold full, compatible, sub_on. rewrite !forallb_forall. intros F S C k Hk. rewrite (merge_aget ks L e k Hk).
    specialize (F k Hk). specialize (S k Hk). specialize (C k Hk). unfold bound_at in F.
    destruct (aget b k) as [z|]; [|discriminate]. destruct (aget L k) as [y|]; [now rewrite Nat.eqb_sym|]. exact S.
  Qed.

  (* what a merged assignment binds, the lookup's bindings included, a full row containing it binds alike *)
  Lemma merged_compat L e b : sub_on ks (merge ks L e) b = true -> full ks b = true -> compatible ks b L = true.
  Proof.
    unfold full, compatible, sub_on. rewrite !forallb_forall. intros S F k Hk. specialize (S k Hk). specialize (F k Hk).
    rewrite (merge_aget ks L e k Hk) in S. unfold bound_at in F. destruct (aget b k) as [z|]; [|discriminate].
    destruct (aget L k) as [y|]; [now rewrite Nat.eqb_sym | reflexivity].
  Qed.

  Lemma merged_entry_sub L e b : sub_on ks (merge ks L e) b = true -> compatible ks e L = true -> sub_on ks e b = true.
  Proof.
    unfold compatible, sub_on. rewrite !forallb_forall. intros S C k Hk. specialize (S k Hk). specialize (C k Hk).
    rewrite (merge_aget ks L e k Hk) in S. destruct (aget e k) as [x|]; [|reflexivity].
    destruct (aget L k) as [y|]; [|exact S]. apply Nat.eqb_eq in C. subst y. exact S.
  Qed.

  (* ---------- the most general rows stand for the same full rows ---------- *)
  Lemma in_indexed {A} (l : list A) : forall base j e,
    In (j, e) (combine (seq base (length l)) l) <-> (base <= j /\ nth_error l (j - base) = Some e).
  Proof.
    induction l as [|a l IH]; intros base j e; cbn [length seq combine].
    - split; [intros [] | intros [_ H]; destruct (j - base); discriminate].
    - split.
      + intros [H|H].
        * injection H as -> ->. rewrite Nat.sub_diag. split; [lia | reflexivity].
        * apply IH in H as [H1 H2]. split; [lia|]. replace (j - base) with (S (j - S base)) by lia. exact H2.
      + intros [H1 H2]. destruct (Nat.eq_dec j base) as [->|Ne].
        * rewrite Nat.sub_diag in H2. injection H2 as ->. now left.
        * right. apply IH. split; [lia|]. replace (j - base) with (S (j - S base)) in H2 by lia. exact H2.
  Qed.

  Lemma dominated_has_kept (rows : list entry) :
    forall m i e, nth_error rows i = Some e -> length (fst e) * S (length rows) + i = m ->
    exists e', In e' (most_general rows) /\ snd e' = snd e /\ sub_on ks (fst e') (fst e) = true.
  Proof.
    intros m. induction m as [m IH] using lt_wf_ind. intros i e Hi Hm.
    set (ix := combine (seq 0 (length rows)) rows).
    assert (Iix : In (i, e) ix) by (apply in_indexed; split; [lia | now rewrite Nat.sub_0_r]).
    assert (Ilt : i < length rows) by (apply nth_error_Some; congruence).
    destruct (existsb (fun je : nat * entry => dominates (fst je) (snd je) i e) ix) eqn:D.
    - apply existsb_exists in D as ([j e2] & Hj & Dj). cbn [fst snd] in Dj. unfold dominates in Dj.
      apply andb_prop in Dj as [Dj Dc]. apply andb_prop in Dj as [Dj Dl]. apply andb_prop in Dj as [_ Df].
      apply in_indexed in Hj as [_ Hj]. rewrite Nat.sub_0_r in Hj.
      assert (Jlt : j < length rows) by (apply nth_error_Some; congruence).
      assert (M : length (fst e2) * S (length rows) + j < m).
      { subst m. apply Bool.orb_prop in Dl as [Dl|Dl].
        - apply Nat.ltb_lt in Dl. nia.
        - apply andb_prop in Dl as [E L]. apply Nat.eqb_eq in E. apply Nat.ltb_lt in L. rewrite E. lia. }
      destruct (IH _ M j e2 Hj eq_refl) as (e' & K & F & S).
      exists e'. split; [exact K|]. apply Nat.eqb_eq in Df. split; [congruence|].
      eapply sub_on_trans; [exact S | now apply covers_sub_on].
    - exists e. split; [|split; [reflexivity | apply sub_on_refl]].
      unfold most_general. fold ix. apply in_map_iff. exists (i, e). split; [reflexivity|]. apply filter_In. split; [exact Iix|].
      cbn [fst snd]. now rewrite D.
  Qed.

  Lemma most_general_den rows b o : den (most_general rows) b o <-> den rows b o.
  Proof.
    unfold den. split; intros (Hb & r & Hr & S); (split; [exact Hb|]).
    - exists r. split; [now apply most_general_sub | exact S].
    - apply In_nth_error in Hr as (i & Hi). destruct (dominated_has_kept rows _ i (r, o) Hi eq_refl) as ([r' o'] & K & F & S').
      cbn [fst snd] in F, S'. subst o'. exists r'. split; [exact K | eapply sub_on_trans; eassumption].
  Qed.

  (* ---------- the invariant of a cache that has only ever stored rows of the operator ---------- *)
  Definition Valid (e : assignment) (o : nat) : Prop :=
    over ks e = true /\ forall b o', In (b, o') rel -> sub_on ks e b = true -> o' = o.
  Definition Base (s : both) : Prop :=
    keys (impl s) = ks /\ Inv s /\ Stored s /\ Indexed s /\ (forall e o, In (e, o) (spec s) -> Valid e o).
  (* every binding the coverage list holds comes from a lookup all of whose rows are stored *)
  Definition Closed (s : both) : Prop :=
    forall a, In a (spec_seen s) -> exists L0, asked L0 /\ sub_on ks L0 a = true /\
      forall r o, In (r, o) (f L0) -> exists r' o', In (r', o') (spec s) /\ pattern ks r' = pattern ks r.
  Definition GoodD (s : both) : Prop := Base s /\ Closed s.

  Lemma goodD_init : GoodD (init ks).
  Proof.
    split; [|intros a []]. unfold Base, init. cbn [impl spec spec_seen ic_new keys root]. split; [reflexivity|]. split; [split; reflexivity|].
    split; [split; [apply WF_nil | intros p o []]|].
    split; [split; [apply WF_nil|]; split; [apply Shaped_nil|]; split; [constructor | intros b o []]|]. intros e o [].
  Qed.

  Lemma base_chk s L : Base s -> binds_some ks L = true -> Base (fst (step s (OChk L))).
  Proof.
    intros (K & I & St & Ix & V) B. destruct (chk_same s L) as (E1 & E2 & E3).
    assert (OK : op_ok (keys (impl s)) (OChk L) = true) by (cbn [op_ok]; now rewrite K).
    assert (NE : keys (impl s) <> []) by now rewrite K.
    split; [now rewrite keys_step|]. split; [now apply step_inv|]. split; [now apply stored_step|]. split; [now apply indexed_step|].
    now rewrite E2.
  Qed.

  Lemma valid_row L r o : asked L -> In (r, o) (f L) -> Valid r o.
  Proof. intros AL H. destruct (f_rows L r o AL H) as (Ov & _ & _). split; [exact Ov|]. intros b o' Hb S. exact (f_flag L r o b o' AL H Hb S). Qed.

  Lemma valid_same_pattern e e' o : Valid e o -> over ks e' = true -> pattern ks e' = pattern ks e -> Valid e' o.
  Proof.
    intros [_ Fl] Ov P. split; [exact Ov|]. intros b o' Hb S. apply (Fl b o' Hb).
    rewrite <- S. apply sub_on_ext_l. intros k Hk. symmetry. now apply pattern_aget.
  Qed.

  Lemma base_ins s r o : Base s -> Valid r o -> nonempty r = true -> Base (fst (step s (OIns r o))).
  Proof.
    intros (K & I & St & Ix & V) [Ov Fl] Ne.
    assert (OK : op_ok (keys (impl s)) (OIns r o) = true) by (cbn [op_ok]; rewrite K, Ov, Ne; reflexivity).
    assert (NE : keys (impl s) <> []) by now rewrite K.
    split; [now rewrite keys_step|]. split; [now apply step_inv|]. split; [now apply stored_step|]. split; [now apply indexed_step|].
    cbn [step fst spec]. rewrite K. intros e o1 H. destruct (spec_insert_cases _ _ _ _ _ _ H) as [Q|[(-> & P & o0 & Q)|Q]].
    - injection Q as -> ->. now split.
    - destruct (V e o0 Q) as [Ove _]. apply (valid_same_pattern r e o); [now split | exact Ove | exact P].
    - now apply V.
  Qed.

  (* storing the rows of one evaluation *)
  Lemma store_all_spec rows : forall s, Base s -> (forall r o, In (r, o) rows -> Valid r o /\ nonempty r = true) ->
    let s' := store_all s rows in
    Base s' /\ spec_seen s' = spec_seen s ++ map fst rows /\
    (forall b o0, In (b, o0) (spec s) -> exists o', In (b, o') (spec s')) /\
    (forall r o, In (r, o) rows -> exists r' o', In (r', o') (spec s') /\ pattern ks r' = pattern ks r).
  Proof.
    induction rows as [|[r o] rows IH]; intros s B H; cbv zeta.
    2: change (store_all s ((r, o) :: rows)) with (store_all (fst (step s (OIns r o))) rows).
    - cbn [store_all fold_left]. split; [exact B|]. split; [now rewrite app_nil_r|]. split; [intros b o0 Hb; now exists o0 | intros r o []].
    - destruct (H r o (or_introl eq_refl)) as [Vr Ne]. pose proof (base_ins s r o B Vr Ne) as B1.
      assert (H' : forall r0 o0, In (r0, o0) rows -> Valid r0 o0 /\ nonempty r0 = true) by (intros r0 o0 Hr; apply H; now right).
      destruct (IH _ B1 H') as (B' & Sn & Old & New).
      destruct B as (K & _). split; [exact B'|]. split; [|split].
      + rewrite Sn. cbn [step fst spec_seen fst map]. now rewrite <- app_assoc.
      + intros b o0 Hb. destruct (spec_insert_keeps_binding ks (spec s) r o b o0 Hb) as (o1 & H1). rewrite <- K in H1.
        exact (Old b o1 H1).
      + intros r0 o0 [E|Hr]; [|exact (New r0 o0 Hr)]. injection E as <- <-.
        destruct (spec_insert_new ks (spec s) r o) as (b1 & H1 & P1). rewrite <- K in H1.
        destruct (Old b1 o H1) as (o2 & H2). exists b1, o2. now split.
  Qed.

  (* ---------- one lookup through the cached call site ---------- *)
  Lemma cached_step_f_ok s L : GoodD s -> binds_some ks L = true -> asked L ->
    (forall b o, den (snd (cached_step_f s L)) b o <-> den (f L) b o) /\ GoodD (fst (cached_step_f s L)).
  Proof.
    intros [B C] BS AL. pose proof (base_chk s L B BS) as B1. destruct (chk_same s L) as (E1 & E2 & E3). unfold cached_step_f.
    assert (FC : row_flag_is_current = true) by reflexivity. assert (RK : replay_keeps_most_general = true) by reflexivity. rewrite FC, RK.
    destruct (fst (ic_check (impl s) L)) eqn:Cov; cbn [fst snd].
    - (* covered: answered by the index *)
      split; [|split; [exact B1|]; intros a Ha; rewrite E3 in Ha; destruct (C a Ha) as (L0 & A0 & S0 & R0); exists L0; split; [exact A0|]; split; [exact S0|];
               intros r o Hr; rewrite E2; exact (R0 r o Hr)].
      destruct B as (K & I & St & Ix & V).
      rewrite (check_exact s L I) in Cov by now rewrite K. rewrite K in Cov.
      apply existsb_exists in Cov as (a & Ha & Ca). destruct (C a Ha) as (L0 & A0 & S0 & R0).
      assert (SL : sub_on ks L0 L = true).
      { eapply sub_on_trans; [exact S0|]. rewrite <- sub_on_restrict. now apply covers_sub_on. }
      destruct B1 as (K1 & _ & St1 & Ix1 & _).
      assert (NE1 : keys (impl (fst (step s (OChk L)))) <> []) by now rewrite K1.
      pose proof (retrieve_exact_state _ L NE1 St1 Ix1) as PERM. rewrite K1, E2 in PERM.
      intros b o. rewrite most_general_den. rewrite (uncached_denotes L b o AL). unfold den. split.
      + intros (Hb & r & Hr & S). split; [exact Hb|].
        apply (Permutation_in _ PERM) in Hr. unfold spec_retrieve in Hr. apply in_map_iff in Hr as ([e oe] & E & He). cbn [fst snd] in E.
        injection E as <- <-. exact (merged_compat L e b S (rel_full b oe Hb)).
      + intros (Hb & Cb). split; [exact Hb|].
        pose proof (compat_weaken b L L0 Cb SL) as Cb0. destruct (f_complete L0 b o A0 Hb Cb0) as (r & Hr & Sr).
        destruct (R0 r o Hr) as (r' & o' & Hst & P).
        assert (Sr' : sub_on ks r' b = true) by (rewrite <- Sr; apply sub_on_ext_l; intros k Hk; now apply pattern_aget).
        destruct (V r' o' Hst) as [_ Fl]. pose proof (Fl b o Hb Sr') as ->.
        exists (merge ks L r'). split.
        * apply (Permutation_in _ (Permutation_sym PERM)). unfold spec_retrieve. apply in_map_iff. exists (r', o'). split; [reflexivity|].
          apply filter_In. split; [exact Hst|]. cbn [fst]. exact (sub_compat r' b L Sr' Cb).
        * exact (merge_sub L r' b (rel_full b o' Hb) Sr' Cb).
    - (* not covered: evaluated, yielded, every row stored *)
      split; [intros b o; reflexivity|].
      assert (HR : forall r o, In (r, o) (f L) -> Valid r o /\ nonempty r = true).
      { intros r o Hr. split; [exact (valid_row L r o AL Hr)|]. now destruct (f_rows L r o AL Hr) as (_ & Ne & _). }
      destruct (store_all_spec (f L) _ B1 HR) as (B' & Sn & Old & New). split; [exact B'|].
      intros a Ha. rewrite Sn, E3 in Ha. apply in_app_iff in Ha as [Ha|Ha].
      + destruct (C a Ha) as (L0 & A0 & S0 & R0). exists L0. split; [exact A0|]. split; [exact S0|]. intros r o Hr.
        destruct (R0 r o Hr) as (r' & o' & Hst & P). rewrite <- E2 in Hst. destruct (Old r' o' Hst) as (o2 & H2). exists r', o2. now split.
      + apply in_map_iff in Ha as ([r o] & <- & Hr). cbn [fst]. exists L. split; [exact AL|]. split; [now destruct (f_rows L r o AL Hr) as (_ & _ & S)|].
        intros r0 o0 Hr0. exact (New r0 o0 Hr0).
  Qed.

  (* ---------- any history of lookups: the cached answers stand for exactly the rows of the relation that agree with the lookup ---------- *)
  Theorem cached_run_denotes Ls : forall s, GoodD s -> Forall (fun L => binds_some ks L = true /\ asked L) Ls ->
    Forall2 (fun rows L => forall b o, den rows b o <-> (In (b, o) rel /\ compatible ks b L = true)) (cached_run_f s Ls) Ls.
  Proof.
    induction Ls as [|L Ls IH]; intros s G F; cbn [cached_run_f]; [constructor|].
    inversion F as [|? ? [FL AL] FLs]; subst. destruct (cached_step_f_ok s L G FL AL) as [D G']. constructor; [|now apply IH].
    intros b o. rewrite D. now apply uncached_denotes.
  Qed.

  Corollary cached_denotes Ls : Forall (fun L => binds_some ks L = true /\ asked L) Ls ->
    Forall2 (fun rows L => forall b o, den rows b o <-> (In (b, o) rel /\ compatible ks b L = true)) (cached_run_f (init ks) Ls) Ls.
  Proof. apply cached_run_denotes, goodD_init. Qed.

  (* ================= a covered lookup is answered with ONE row: the lookup itself =================
     What the selection of the most general retrieved rows is for.  A lookup L is covered when some stored binding is contained in
     it; that entry merged into L is L itself, every other retrieved row is L plus the entry's further keys - so L is contained in
     every retrieved row, and (all retrieved rows carrying the same truth flag, because a full row extends entry and lookup) the
     selection keeps exactly one row, L.  Hence no assignment comes out twice: a cached answer is either the operator's own rows
     or this single row. *)
  Lemma aset_length_ge (a : assignment) k v : length a <= length (aset a k v).
  Proof. induction a as [|[k' v'] a IH]; cbn [aset length]; [lia|]. destruct (Nat.eqb k k'); cbn [length]; lia. Qed.
  Lemma aset_length_new (a : assignment) k v : aget a k = None -> length (aset a k v) = S (length a).
  Proof.
    induction a as [|[k' v'] a IH]; cbn [aset aget length]; intros H; [reflexivity|].
    destruct (Nat.eqb k k'); [discriminate|]. cbn [length]. now rewrite IH.
  Qed.

  Lemma merge_shape L e :
    (merge ks L e = L \/ length L < length (merge ks L e)) /\ (forall k v, aget L k = Some v -> aget (merge ks L e) k = Some v).
  Proof.
    unfold merge.
    assert (G : forall ks0 acc, (acc = L \/ length L < length acc) /\ (forall k v, aget L k = Some v -> aget acc k = Some v) ->
              (fold_left (fun acc k0 => match aget L k0, aget e k0 with None, Some v => aset acc k0 v | _, _ => acc end) ks0 acc = L \/
               length L < length (fold_left (fun acc k0 => match aget L k0, aget e k0 with None, Some v => aset acc k0 v | _, _ => acc end) ks0 acc)) /\
              (forall k v, aget L k = Some v ->
                 aget (fold_left (fun acc k0 => match aget L k0, aget e k0 with None, Some v => aset acc k0 v | _, _ => acc end) ks0 acc) k = Some v)).
    { induction ks0 as [|k0 ks0 IH]; intros acc H; cbn [fold_left]; [exact H|]. apply IH.
      destruct (aget L k0) eqn:A; [exact H|]. destruct (aget e k0) as [w|]; [|exact H].
      destruct H as [H1 H2]. split.
      - right. destruct H1 as [->|H1]; [rewrite aset_length_new by exact A; lia | pose proof (aset_length_ge acc k0 w); lia].
      - intros k v Hk. rewrite aget_aset_other; [now apply H2|]. intros ->. congruence. }
    apply G. split; [now left | auto].
  Qed.

  Lemma merge_covered L e : (forall k, In k ks -> aget L k = None -> aget e k = None) -> merge ks L e = L.
  Proof.
    unfold merge. intros H.
    assert (G : forall ks0 acc, (forall k, In k ks0 -> aget L k = None -> aget e k = None) ->
              fold_left (fun acc k0 => match aget L k0, aget e k0 with None, Some v => aset acc k0 v | _, _ => acc end) ks0 acc = acc).
    { induction ks0 as [|k0 ks0 IH]; intros acc H0; cbn [fold_left]; [reflexivity|].
      rewrite IH by (intros k Hk; apply H0; now right).
      destruct (aget L k0) eqn:A; [reflexivity|]. now rewrite (H0 k0 (or_introl eq_refl) A). }
    now apply G.
  Qed.

  Lemma In_aget_nodup (a : assignment) k v : NoDup (map fst a) -> In (k, v) a -> aget a k = Some v.
  Proof.
    induction a as [|[k' v'] a IH]; intros N H; [destruct H|]. cbn [map fst] in N. inversion N as [|? ? N1 N2]; subst.
    cbn [aget]. destruct H as [H|H].
    - injection H as -> ->. now rewrite Nat.eqb_refl.
    - destruct (Nat.eqb k k') eqn:E; [|now apply IH]. apply Nat.eqb_eq in E. subst k'. exfalso. apply N1.
      apply in_map_iff. exists (k, v). now split.
  Qed.

  Lemma covers_extends L m : NoDup (map fst L) -> (forall k v, aget L k = Some v -> aget m k = Some v) -> covers L m = true.
  Proof.
    intros N H. unfold covers. apply forallb_forall. intros [k v] I. cbn [fst snd].
    rewrite (H k v (In_aget_nodup L k v N I)). apply Nat.eqb_refl.
  Qed.

  Lemma entry_eq_dec (x y : entry) : {x = y} + {x <> y}.
  Proof. repeat decide equality. Qed.

  Lemma in_split_first {A} (dec : forall x y : A, {x = y} + {x <> y}) (x : A) l :
    In x l -> exists pre post, l = pre ++ x :: post /\ ~ In x pre.
  Proof.
    induction l as [|a l IH]; intros H; [destruct H|]. destruct (dec a x) as [->|Ne].
    - exists [], l. split; [reflexivity | intros []].
    - destruct H as [H|H]; [contradiction|]. destruct (IH H) as (pre & post & -> & N). exists (a :: pre), post.
      split; [reflexivity|]. intros [E|I]; [contradiction | now apply N].
  Qed.

  Lemma combine_seq_app {A} (l1 l2 : list A) : forall base,
    combine (seq base (length (l1 ++ l2))) (l1 ++ l2)
    = combine (seq base (length l1)) l1 ++ combine (seq (base + length l1) (length l2)) l2.
  Proof.
    induction l1 as [|a l1 IH]; intros base; cbn [app length seq combine].
    - now rewrite Nat.add_0_r.
    - rewrite IH. now replace (S base + length l1) with (base + S (length l1)) by lia.
  Qed.

  Lemma filter_none {A} (P : A -> bool) l : (forall x, In x l -> P x = false) -> filter P l = [].
  Proof. induction l as [|a l IH]; intros H; cbn [filter]; [reflexivity|]. rewrite (H a (or_introl eq_refl)). apply IH. intros x Hx. apply H. now right. Qed.

  Lemma most_general_single (rows : list entry) L o0 :
    In (L, o0) rows -> covers L L = true ->
    (forall e, In e rows -> snd e = o0 /\ (fst e = L \/ (length L < length (fst e) /\ covers L (fst e) = true))) ->
    most_general rows = [(L, o0)].
  Proof.
    intros HIn CLL Hall. destruct (in_split_first entry_eq_dec _ _ HIn) as (pre & post & E & Npre). subst rows.
    assert (Hpre : forall e, In e pre -> snd e = o0 /\ length L < length (fst e) /\ covers L (fst e) = true).
    { intros [r o] He. destruct (Hall (r, o)) as [F [S|S]]; [apply in_app_iff; now left | |now split].
      cbn [fst snd] in F, S. subst. contradiction. }
    assert (Hpost : forall e, In e post -> snd e = o0 /\ (fst e = L \/ (length L < length (fst e) /\ covers L (fst e) = true))).
    { intros e He. apply Hall. apply in_app_iff. right. now right. }
    unfold most_general. rewrite combine_seq_app. cbn [length seq combine]. rewrite Nat.add_0_l.
    pose (ix := combine (seq 0 (length pre)) pre ++ (length pre, (L, o0)) :: combine (seq (S (length pre)) (length post)) post).
    assert (Imid : In (length pre, (L, o0)) ix) by (apply in_app_iff; right; now left).
    pose (P := fun ie : nat * entry => negb (existsb (fun je : nat * entry => dominates (fst je) (snd je) (fst ie) (snd ie)) ix)).
    change (map snd (filter P ix) = [(L, o0)]). unfold ix at 1. rewrite filter_app. cbn [filter].
    assert (H1 : forall x, In x (combine (seq 0 (length pre)) pre) -> P x = false).
    { intros [j e] Hj. apply in_indexed in Hj as [_ Hj]. rewrite Nat.sub_0_r in Hj.
      assert (Jlt : j < length pre) by (apply nth_error_Some; congruence). apply nth_error_In in Hj.
      destruct (Hpre e Hj) as (F & Len & C). unfold P. cbn [fst snd]. apply Bool.negb_false_iff. apply existsb_exists.
      exists (length pre, (L, o0)). split; [exact Imid|]. cbn [fst snd]. unfold dominates. cbn [fst snd].
      rewrite F, Nat.eqb_refl, C. assert (X : Nat.eqb j (length pre) = false) by (apply Nat.eqb_neq; lia). rewrite X.
      assert (Y : Nat.ltb (length L) (length (fst e)) = true) by now apply Nat.ltb_lt. now rewrite Y. }
    assert (H3 : forall x, In x (combine (seq (S (length pre)) (length post)) post) -> P x = false).
    { intros [j e] Hj. apply in_indexed in Hj as [Jge Hj]. apply nth_error_In in Hj.
      destruct (Hpost e Hj) as (F & S). unfold P. cbn [fst snd]. apply Bool.negb_false_iff. apply existsb_exists.
      exists (length pre, (L, o0)). split; [exact Imid|]. cbn [fst snd]. unfold dominates. cbn [fst snd].
      rewrite F, Nat.eqb_refl. assert (X : Nat.eqb j (length pre) = false) by (apply Nat.eqb_neq; lia). rewrite X.
      destruct S as [->|[Len C]].
      - rewrite CLL, Nat.eqb_refl, Nat.ltb_irrefl. assert (Y : Nat.ltb (length pre) j = true) by (apply Nat.ltb_lt; lia). now rewrite Y.
      - rewrite C. assert (Y : Nat.ltb (length L) (length (fst e)) = true) by now apply Nat.ltb_lt. now rewrite Y. }
    assert (H2 : P (length pre, (L, o0)) = true).
    { unfold P. cbn [fst snd]. apply Bool.negb_true_iff. apply Bool.not_true_iff_false. intros D.
      apply existsb_exists in D as ([j e] & Hj & D). cbn [fst snd] in D. unfold dominates in D. cbn [fst snd] in D.
      apply andb_prop in D as [D _]. apply andb_prop in D as [D Dl]. apply andb_prop in D as [Dn _].
      apply Bool.negb_true_iff, Nat.eqb_neq in Dn.
      apply in_app_iff in Hj as [Hj|[Hj|Hj]].
      - apply in_indexed in Hj as [_ Hj]. rewrite Nat.sub_0_r in Hj. apply nth_error_In in Hj. destruct (Hpre e Hj) as (_ & Len & _).
        apply Bool.orb_prop in Dl as [Dl|Dl]; [apply Nat.ltb_lt in Dl; lia|]. apply andb_prop in Dl as [Dl _]. apply Nat.eqb_eq in Dl. lia.
      - injection Hj as <- _. now apply Dn.
      - apply in_indexed in Hj as [Jge Hj]. apply nth_error_In in Hj. destruct (Hpost e Hj) as (_ & S).
        apply Bool.orb_prop in Dl as [Dl|Dl].
        + apply Nat.ltb_lt in Dl. destruct S as [S|[S _]]; [rewrite S in Dl|]; lia.
        + apply andb_prop in Dl as [_ Dl]. apply Nat.ltb_lt in Dl. lia. }
    rewrite (filter_none P _ H1), (filter_none P _ H3), H2. reflexivity.
  Qed.

  (* the further invariants: every covered binding still has an entry, and every entry is (on the keys) a row of the operator *)
  Definition SeenStored (s : both) : Prop :=
    forall a, In a (spec_seen s) -> exists e o, In (e, o) (spec s) /\ pattern ks e = pattern ks a.
  Definition Orig (s : both) : Prop :=
    forall e o, In (e, o) (spec s) -> exists L0 r o0, asked L0 /\ In (r, o0) (f L0) /\ pattern ks e = pattern ks r.
  Definition GoodS (s : both) : Prop := GoodD s /\ SeenStored s /\ Orig s.

  Lemma goodS_init : GoodS (init ks).
  Proof. split; [apply goodD_init|]. split; [intros a [] | intros e o []]. Qed.

  Lemma extra_store L rows : asked L -> (forall r o, In (r, o) rows -> In (r, o) (f L)) ->
    forall s, keys (impl s) = ks -> SeenStored s -> Orig s -> SeenStored (store_all s rows) /\ Orig (store_all s rows).
  Proof.
    intros AL. induction rows as [|[r o] rows IH]; intros Hrows s K SS Or; [now split|].
    change (store_all s ((r, o) :: rows)) with (store_all (fst (step s (OIns r o))) rows).
    apply IH.
    - intros r0 o0 H. apply Hrows. now right.
    - now rewrite keys_step.
    - cbn [step fst spec spec_seen]. rewrite K. intros a Ha. apply in_app_iff in Ha as [Ha|[<-|[]]].
      + destruct (SS a Ha) as (e & o1 & He & P). destruct (spec_insert_keeps_binding ks (spec s) r o e o1 He) as (o2 & H2).
        exists e, o2. now split.
      + destruct (spec_insert_new ks (spec s) r o) as (b & Hb & P). exists b, o. now split.
    - cbn [step fst spec spec_seen]. rewrite K. intros e o1 He.
      destruct (spec_insert_cases _ _ _ _ _ _ He) as [Q|[(_ & P & o0 & Q)|Q]].
      + injection Q as -> ->. exists L, r, o. split; [exact AL|]. split; [apply Hrows; now left | reflexivity].
      + exact (Or e o0 Q).
      + exact (Or e o1 Q).
  Qed.

  (* a full row extends a stored row together with a lookup it agrees with: the domains are not empty and lookups bind values
     of the domains *)
  Hypothesis inhabited : forall L L0 r o, asked L -> asked L0 -> In (r, o) (f L0) -> compatible ks r L = true ->
    exists b o', In (b, o') rel /\ sub_on ks (merge ks L r) b = true.

  Lemma sub_on_merge L e : sub_on ks L (merge ks L e) = true.
  Proof.
    unfold sub_on. apply forallb_forall. intros k Hk. rewrite (merge_aget ks L e k Hk).
    destruct (aget L k) as [v|]; [apply Nat.eqb_refl | reflexivity].
  Qed.

  Lemma compatible_ext_l a a' L : (forall k, In k ks -> aget a k = aget a' k) -> compatible ks a L = compatible ks a' L.
  Proof. intros H. unfold compatible. apply forallb_ext_in''. intros k Hk. now rewrite (H k Hk). Qed.

  Lemma covered_single s L : GoodS s -> binds_some ks L = true -> asked L -> NoDup (map fst L) ->
    fst (ic_check (impl s) L) = true -> exists o0, snd (cached_step_f s L) = [(L, o0)].
  Proof.
    intros ([B C] & SS & Or) BS AL ND Cov. pose proof (base_chk s L B BS) as B1. destruct (chk_same s L) as (E1 & E2 & E3).
    unfold cached_step_f. rewrite Cov. cbn [snd].
    assert (RK : replay_keeps_most_general = true) by reflexivity. rewrite RK.
    destruct B as (K & I & St & Ix & V).
    rewrite (check_exact s L I) in Cov by now rewrite K. rewrite K in Cov.
    apply existsb_exists in Cov as (a & Ha & Ca). destruct (SS a Ha) as (e0 & o0 & He0 & P0).
    assert (Sa : sub_on ks a L = true) by (rewrite <- sub_on_restrict; now apply covers_sub_on).
    assert (S0 : sub_on ks e0 L = true) by (rewrite <- Sa; apply sub_on_ext_l; intros k Hk; now apply pattern_aget).
    destruct B1 as (K1 & _ & St1 & Ix1 & _).
    assert (NE1 : keys (impl (fst (step s (OChk L)))) <> []) by now rewrite K1.
    pose proof (retrieve_exact_state _ L NE1 St1 Ix1) as PERM. rewrite K1, E2 in PERM.
    exists o0. apply most_general_single.
    - apply (Permutation_in _ (Permutation_sym PERM)). unfold spec_retrieve. apply in_map_iff. exists (e0, o0). cbn [fst snd]. split.
      + f_equal. apply merge_covered. intros k Hk HL. unfold sub_on in S0. rewrite forallb_forall in S0. specialize (S0 k Hk).
        rewrite HL in S0. destruct (aget e0 k); [discriminate | reflexivity].
      + apply filter_In. split; [exact He0|]. cbn [fst]. apply (sub_compat e0 L L S0). apply agree_compat. reflexivity.
    - apply covers_extends; [exact ND | auto].
    - intros [m o] Hm. apply (Permutation_in _ PERM) in Hm. unfold spec_retrieve in Hm. apply in_map_iff in Hm as ([e oe] & E & He).
      cbn [fst snd] in E. injection E as <- <-. apply filter_In in He as [He Ce]. cbn [fst] in Ce. cbn [fst snd].
      destruct (merge_shape L e) as [Sh Ag]. split.
      + destruct (Or e oe He) as (L0 & r & o1 & A0 & Hr & Pr).
        assert (Cr : compatible ks r L = true) by (rewrite <- Ce; apply compatible_ext_l; intros k Hk; symmetry; now apply pattern_aget).
        destruct (inhabited L L0 r o1 AL A0 Hr Cr) as (b & o' & Hb & Sb).
        assert (Sb' : sub_on ks (merge ks L e) b = true).
        { rewrite <- Sb. apply sub_on_ext_l. intros k Hk. rewrite !merge_aget by exact Hk.
          destruct (aget L k); [reflexivity|]. now apply pattern_aget. }
        destruct (V e oe He) as [_ Fe]. rewrite <- (Fe b o' Hb (merged_entry_sub L e b Sb' Ce)).
        destruct (V e0 o0 He0) as [_ F0]. apply (F0 b o' Hb).
        eapply sub_on_trans; [exact S0|]. eapply sub_on_trans; [apply sub_on_merge | exact Sb'].
      + destruct Sh as [Sh|Sh]; [now left|]. right. split; [exact Sh|]. now apply covers_extends.
  Qed.

  Lemma cached_step_f_rows s L : GoodS s -> binds_some ks L = true -> asked L -> NoDup (map fst L) ->
    (if fst (ic_check (impl s) L) then exists o, snd (cached_step_f s L) = [(L, o)] else snd (cached_step_f s L) = f L) /\
    GoodS (fst (cached_step_f s L)).
  Proof.
    intros G BS AL ND. split.
    - destruct (fst (ic_check (impl s) L)) eqn:Cov; [now apply covered_single|]. unfold cached_step_f. now rewrite Cov.
    - destruct G as (GD & SS & Or). split; [exact (proj2 (cached_step_f_ok s L GD BS AL))|].
      destruct (chk_same s L) as (E1 & E2 & E3). unfold cached_step_f.
      assert (FC : row_flag_is_current = true) by reflexivity. rewrite FC.
      destruct (fst (ic_check (impl s) L)); cbn [fst].
      + split; [intros a Ha; rewrite E3 in Ha; rewrite E2; exact (SS a Ha) | intros e o He; rewrite E2 in He; exact (Or e o He)].
      + apply (extra_store L (f L) AL (fun r o H => H)).
        * rewrite keys_step. now destruct GD as [(K & _) _].
        * intros a Ha. rewrite E3 in Ha. rewrite E2. exact (SS a Ha).
        * intros e o He. rewrite E2 in He. exact (Or e o He).
  Qed.

  (* no full row is stood for by two rows of an answer *)
  Definition once (rows : list entry) : Prop :=
    forall i j ri oi rj oj b, nth_error rows i = Some (ri, oi) -> nth_error rows j = Some (rj, oj) ->
      full ks b = true -> sub_on ks ri b = true -> sub_on ks rj b = true -> i = j.

  Lemma once_single e : once [e].
  Proof.
    intros i j ri oi rj oj b Hi Hj _ _ _. destruct i as [|i]; [|destruct i; discriminate]. destruct j as [|j]; [reflexivity | destruct j; discriminate].
  Qed.

  (* rows that disagree pairwise on a key both bind stand for disjoint sets of full rows *)
  Definition pairwise_apart (rows : list entry) : bool :=
    let ix := combine (seq 0 (length rows)) rows in
    forallb (fun ie => forallb (fun je => Nat.eqb (fst ie) (fst je) || negb (compatible ks (fst (snd ie)) (fst (snd je)))) ix) ix.

  Lemma once_of_apart rows : pairwise_apart rows = true -> once rows.
  Proof.
    unfold pairwise_apart. intros H i j ri oi rj oj b Hi Hj Fb Si Sj. rewrite forallb_forall in H.
    assert (Ii : In (i, (ri, oi)) (combine (seq 0 (length rows)) rows)) by (apply in_indexed; split; [lia | now rewrite Nat.sub_0_r]).
    assert (Ij : In (j, (rj, oj)) (combine (seq 0 (length rows)) rows)) by (apply in_indexed; split; [lia | now rewrite Nat.sub_0_r]).
    specialize (H _ Ii). rewrite forallb_forall in H. specialize (H _ Ij). cbn [fst snd] in H.
    apply Bool.orb_prop in H as [H|H]; [now apply Nat.eqb_eq|]. exfalso. apply Bool.negb_true_iff in H.
    assert (C : compatible ks ri rj = true); [|congruence].
    unfold compatible, sub_on in *. rewrite forallb_forall in *. intros k Hk. specialize (Si k Hk). specialize (Sj k Hk).
    destruct (aget ri k) as [x|]; [|reflexivity]. destruct (aget rj k) as [y|]; [|reflexivity].
    destruct (aget b k) as [z|]; [|discriminate]. apply Nat.eqb_eq in Si, Sj. subst. apply Nat.eqb_refl.
  Qed.

  Hypothesis f_once : forall L, asked L -> once (f L).

  (* ANY history of lookups: each answer of the cached call site is the operator's own rows for the lookup (evaluated), or the
     single row "the lookup itself" (covered); so no assignment comes out twice *)
  Theorem cached_run_rows Ls : forall s, GoodS s -> Forall (fun L => binds_some ks L = true /\ asked L /\ NoDup (map fst L)) Ls ->
    Forall2 (fun rows L => (rows = f L \/ exists o, rows = [(L, o)]) /\ once rows) (cached_run_f s Ls) Ls.
  Proof.
    induction Ls as [|L Ls IH]; intros s G F; cbn [cached_run_f]; [constructor|].
    inversion F as [|? ? (FL & AL & ND) FLs]; subst. destruct (cached_step_f_rows s L G FL AL ND) as [R G']. constructor; [|now apply IH].
    destruct (fst (ic_check (impl s) L)).
    - destruct R as [o R]. rewrite R. split; [right; now exists o | apply once_single].
    - rewrite R. split; [now left | now apply f_once].
  Qed.

  Corollary cached_rows_once Ls : Forall (fun L => binds_some ks L = true /\ asked L /\ NoDup (map fst L)) Ls ->
    Forall2 (fun rows L => (rows = f L \/ exists o, rows = [(L, o)]) /\ once rows) (cached_run_f (init ks) Ls) Ls.
  Proof. apply cached_run_rows, goodS_init. Qed.
End Den.
