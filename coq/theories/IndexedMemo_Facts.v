(* IndexedMemo_Facts.v — result caching through the CONCRETE index (the model of cache_data.IndexedCache / SeenSet of
   IndexedCache.v, tied to the code by C20's operation-level correspondence) is transparent for an operator whose cached rows
   bind every cache key: the shape of every call site of symbolic.py as long as no row leaves a cache key open (a Comparator
   over two variables, an AND whose right side binds all its variables).  Rows that leave a key open put the wildcard into the
   index - the region of known finding C05-wildcard-retrieval - and are outside this theorem. *)
From EQL Require Import Base Generated IndexedCache IndexedCache_Facts IndexedCache_Sound.

Lemma NoDup_map_inj {A B} (f : A -> B) (l : list A) x y : NoDup (map f l) -> In x l -> In y l -> f x = f y -> x = y.
Proof.
  induction l as [|a l IH]; intros N Hx Hy E; [destruct Hx|]. cbn [map] in N. inversion N as [|? ? Na Nl]; subst.
  destruct Hx as [<-|Hx], Hy as [<-|Hy]; auto.
  - exfalso. apply Na. rewrite E. now apply in_map.
  - exfalso. apply Na. rewrite <- E. now apply in_map.
Qed.

Section FullRows.
  Variable ks : list key.
  Hypothesis ks_ne : ks <> [].

  Definition bound_at (b : assignment) (k : key) : bool := match aget b k with Some _ => true | None => false end.
  Definition full (b : assignment) : bool := forallb (bound_at b) ks.

  (* the operator: a finite relation over the cache keys, each row with the truth flag the operator reports for it *)
  Variable rel : list entry.
  Hypothesis rel_full : forall b o, In (b, o) rel -> full b = true.
  Hypothesis rel_over : forall b o, In (b, o) rel -> over ks b = true /\ nonempty b = true.
  Hypothesis rel_nodup : NoDup (pats ks rel).

  (* what the operator yields, uncached, under a lookup: its rows that agree with the lookup *)
  Definition answers (L : assignment) : list entry := filter (fun e => compatible ks (fst e) L) rel.

  (* the call site: covered -> replay what the index returns; otherwise evaluate, yield, and store every row *)
  Definition store_all (s : both) (rows : list entry) : both :=
    fold_left (fun s e => fst (step s (OIns (fst e) (snd e)))) rows s.
  (* what is stored with a row is the row's OWN truth flag - provided the code sets the flag before it stores the row
     (Generated.row_flag_is_current, re-read from Comparator / AND / ElseIf ._evaluate__ on every run); otherwise every row would
     be stored with the flag of the row before it *)
  Definition shifted (rows : list entry) : list entry := combine (map fst rows) (0 :: map snd rows).
  (* BinaryOperator._most_general_: of the retrieved rows keep those that no other retrieved row with the same truth flag
     contains (a shorter one, or an equally long one retrieved earlier) *)
  Definition dominates (j : nat) (e' : entry) (i : nat) (e : entry) : bool :=
    negb (Nat.eqb i j) && Nat.eqb (snd e') (snd e) &&
    (Nat.ltb (length (fst e')) (length (fst e)) || (Nat.eqb (length (fst e')) (length (fst e)) && Nat.ltb j i)) &&
    covers (fst e') (fst e).
  Definition most_general (rows : list entry) : list entry :=
    let ix := combine (seq 0 (length rows)) rows in
    map snd (filter (fun ie => negb (existsb (fun je => dominates (fst je) (snd je) (fst ie) (snd ie)) ix)) ix).

  Definition cached_step (s : both) (L : assignment) : both * list entry :=
    let s1 := fst (step s (OChk L)) in
    if fst (ic_check (impl s) L)
    then (s1, if replay_keeps_most_general then most_general (ic_retrieve (impl s1) L) else ic_retrieve (impl s1) L)
    else (store_all s1 (if row_flag_is_current then answers L else shifted (answers L)), answers L).
  Fixpoint cached_run (s : both) (Ls : list assignment) : list (list entry) :=
    match Ls with [] => [] | L :: Ls' => let r := cached_step s L in snd r :: cached_run (fst r) Ls' end.

  (* rows are compared as sets of (binding restricted to the cache keys, flag) *)
  Definition obs (r : list entry) : list (list ckey * nat) := map (fun e => (pattern ks (fst e), snd e)) r.
  Definition same (r1 r2 : list entry) : Prop := forall x, In x (obs r1) <-> In x (obs r2).

  (* ---------- levels that hold concrete keys only ---------- *)
  Inductive AllVal : list (ckey * trie) -> Prop :=
  | AllVal_intro l : forallb (fun c => negb (is_all c)) (map fst l) = true ->
                     (forall c ch, In (c, Node ch) l -> AllVal ch) -> AllVal l.

  Lemma AllVal_nil : AllVal [].
  Proof. constructor; [reflexivity | intros c ch []]. Qed.

  Lemma tset_allval l c t : WF l -> AllVal l -> is_all c = false -> (forall ch, t = Node ch -> AllVal ch) -> AllVal (tset l c t).
  Proof.
    intros W A Hc Ht. inversion A as [? A1 A2]; subst. inversion W as [? N _]; subst. constructor.
    - rewrite tset_keys. destruct (existsb (ckey_eqb c) (map fst l)); [exact A1|].
      rewrite forallb_app, A1. cbn [forallb]. now rewrite Hc.
    - intros c' ch Hin. destruct (tset_in l c t c' (Node ch) N Hin) as [[-> E]|[_ Hold]]; [now apply Ht | now apply (A2 c' ch)].
  Qed.

  Lemma insert_at_allval ks' a out : forall l, (forall k, In k ks' -> bound_at a k = true) -> WF l -> AllVal l ->
    AllVal (insert_at ks' a out l).
  Proof.
    induction ks' as [|k ks' IH]; intros l Hb W A; [exact A|].
    assert (Ck : is_all (ck_of a k) = false).
    { specialize (Hb k (or_introl eq_refl)). unfold bound_at in Hb. unfold ck_of. now destruct (aget a k). }
    destruct ks' as [|k2 ks''].
    - rewrite insert_at_one. apply tset_allval; auto. intros ch E. discriminate.
    - rewrite insert_at_two. apply tset_allval; auto. intros ch E. injection E as <-.
      apply IH; [intros k' Hk'; apply Hb; now right | |].
      + destruct (tget l (ck_of a k)) as [[o|ch]|] eqn:G; try apply WF_nil. eapply tget_node_wf; eauto.
      + destruct (tget l (ck_of a k)) as [[o|ch]|] eqn:G; try apply AllVal_nil.
        inversion A as [? _ A2]; subst. apply (A2 (ck_of a k) ch). now apply tget_in.
  Qed.

  (* a lookup that binds every remaining key is returned unchanged (nothing is merged into it) *)
  Lemma retrieve_at_full ks' a : forall l res r o, (forall k, In k ks' -> bound_at a k = true) ->
    In (r, o) (retrieve_at ks' a l res) -> r = res.
  Proof.
    induction ks' as [|k ks' IH]; intros l res r o Hb H; cbn [retrieve_at] in H; [destruct H|].
    destruct l as [|ct0 l0] eqn:El; [destruct H|]. rewrite <- El in *. clear El ct0 l0.
    pose proof (Hb k (or_introl eq_refl)) as Bk. unfold bound_at in Bk. destruct (aget a k) as [v|]; [|discriminate].
    assert (D : forall t, In (r, o) (match t with Leaf o' => [(res, o')] | Node ch => retrieve_at ks' a ch res end) -> r = res).
    { intros [o'|ch] Hd; [destruct Hd as [Hd|[]]; now injection Hd as <- _|]. eapply IH; [|exact Hd]. intros k' Hk'. apply Hb. now right. }
    apply in_app_iff in H as [H|H].
    - destruct (tget l (CVal v)) as [t|]; [now apply (D t) | destruct H].
    - destruct (tget l CAll) as [w|]; [now apply (D w) | destruct H].
  Qed.

  (* ---------- small facts about bindings ---------- *)
  Lemma aget_In (a : assignment) k v : aget a k = Some v -> In (k, v) a.
  Proof.
    induction a as [|[k' v'] a IH]; cbn [aget]; intros H; [discriminate|].
    destruct (Nat.eqb k k') eqn:E; [apply Nat.eqb_eq in E; subst; injection H as ->; now left | right; now apply IH].
  Qed.

  Lemma in_ks k : In k ks -> existsb (Nat.eqb k) ks = true.
  Proof. intros H. apply existsb_exists. exists k. split; [exact H | apply Nat.eqb_refl]. Qed.

  (* a full binding contained in a lookup: the lookup binds every key, to the same value *)
  Lemma cover_full a L : covers a (restrict ks L) = true -> full a = true -> forall k, In k ks -> aget L k = aget a k.
  Proof.
    intros C F k Hk. unfold full in F. rewrite forallb_forall in F. specialize (F k Hk). unfold bound_at in F.
    destruct (aget a k) as [v|] eqn:A; [|discriminate]. unfold covers in C. rewrite forallb_forall in C.
    specialize (C (k, v) (aget_In a k v A)). cbn [fst snd] in C. rewrite aget_restrict, (in_ks k Hk) in C.
    destruct (aget L k) as [w|]; [|discriminate]. apply Nat.eqb_eq in C. now subst.
  Qed.

  Lemma pattern_ext a b : (forall k, In k ks -> aget a k = aget b k) -> pattern ks a = pattern ks b.
  Proof. intros H. unfold pattern. apply map_ext_in. intros k Hk. unfold ck_of. now rewrite (H k Hk). Qed.

  (* two bindings that bind every key and are compatible agree on every key *)
  Lemma compat_full b L : compatible ks b L = true -> full b = true -> full L = true -> forall k, In k ks -> aget b k = aget L k.
  Proof.
    intros C Fb FL k Hk. unfold compatible in C. unfold full in *. rewrite forallb_forall in *.
    specialize (C k Hk). specialize (Fb k Hk). specialize (FL k Hk). unfold bound_at in *.
    destruct (aget b k), (aget L k); try discriminate. apply Nat.eqb_eq in C. now subst.
  Qed.

  Lemma agree_compat b L : (forall k, In k ks -> aget b k = aget L k) -> compatible ks b L = true.
  Proof.
    intros H. unfold compatible. apply forallb_forall. intros k Hk. rewrite (H k Hk). destruct (aget L k); [apply Nat.eqb_refl | reflexivity].
  Qed.

  Lemma rel_inj b o b' o' : In (b, o) rel -> In (b', o') rel -> pattern ks b = pattern ks b' -> (b, o) = (b', o').
  Proof. intros H H' E. apply (NoDup_map_inj (fun e : entry => pattern ks (fst e)) rel (b, o) (b', o') rel_nodup H H' E). Qed.

  (* ---------- the reference store under an insertion ---------- *)
  Lemma spec_insert_cases st a out b o : In (b, o) (spec_insert ks st a out) ->
    (b, o) = (a, out) \/ (o = out /\ pattern ks b = pattern ks a /\ exists o0, In (b, o0) st) \/ In (b, o) st.
  Proof.
    induction st as [|[b0 o0] st IH]; cbn [spec_insert]; intros H.
    - destruct H as [H|[]]. left. now symmetry.
    - destruct (pat_eqb (pattern ks b0) (pattern ks a)) eqn:E.
      + destruct H as [H|H]; [|right; right; now right]. injection H as <- <-. right. left.
        split; [reflexivity|]. split; [now apply pat_eqb_eq|]. exists o0. now left.
      + destruct H as [H|H]; [right; right; now left|]. destruct (IH H) as [Q|[(Q1 & Q2 & o1 & Q3)|Q]].
        * now left.
        * right. left. split; [exact Q1|]. split; [exact Q2|]. exists o1. now right.
        * right. right. now right.
  Qed.

  Lemma spec_insert_keeps_binding st a out b o0 : In (b, o0) st -> exists o', In (b, o') (spec_insert ks st a out).
  Proof.
    induction st as [|[b1 o1] st IH]; intros H; [destruct H|]. cbn [spec_insert].
    destruct (pat_eqb (pattern ks b1) (pattern ks a)).
    - destruct H as [H|H]; [injection H as -> ->; exists out; now left | exists o0; now right].
    - destruct H as [H|H]; [injection H as -> ->; exists o0; now left|]. destruct (IH H) as (o' & Ho'). exists o'. now right.
  Qed.

  (* ---------- the invariant of a cache that has only ever stored rows of the operator ---------- *)
  Definition Good (s : both) : Prop :=
    keys (impl s) = ks /\ Inv s /\ Stored s /\ Indexed s /\ AllVal (root (impl s)) /\
    (forall b o, In (b, o) (spec s) -> In (b, o) rel) /\
    (forall a, In a (spec_seen s) -> exists o, In (a, o) (spec s)).

  Lemma good_init : Good (init ks).
  Proof.
    unfold Good, init. cbn [impl spec spec_seen ic_new keys root]. split; [reflexivity|]. split; [split; reflexivity|].
    split; [split; [apply WF_nil | intros p o []]|].
    split; [split; [apply WF_nil|]; split; [apply Shaped_nil|]; split; [constructor | intros b o []]|].
    split; [apply AllVal_nil|]. split; [intros b o [] | intros a []].
  Qed.

  Lemma chk_same s L : root (impl (fst (step s (OChk L)))) = root (impl s) /\ spec (fst (step s (OChk L))) = spec s /\
                       spec_seen (fst (step s (OChk L))) = spec_seen s.
  Proof.
    cbn [step]. destruct (ic_check (impl s) L) as [b c'] eqn:E. cbn [fst impl spec spec_seen]. split; [|now split].
    unfold ic_check in E. destruct (restrict (keys (impl s)) L) as [|kv ra]; [now injection E as _ <-|].
    destruct (ss_check (sset (impl s)) (kv :: ra)). now injection E as _ <-.
  Qed.

  Lemma good_chk s L : Good s -> binds_some ks L = true -> Good (fst (step s (OChk L))).
  Proof.
    intros (K & I & St & Ix & A & R & Sn) B. destruct (chk_same s L) as (E1 & E2 & E3).
    assert (OK : op_ok (keys (impl s)) (OChk L) = true) by (cbn [op_ok]; now rewrite K).
    assert (NE : keys (impl s) <> []) by now rewrite K.
    split; [now rewrite keys_step|]. split; [now apply step_inv|]. split; [now apply stored_step|]. split; [now apply indexed_step|].
    rewrite E1, E2, E3. now split; [|split].
  Qed.

  Lemma good_ins s b o : Good s -> In (b, o) rel -> Good (fst (step s (OIns b o))).
  Proof.
    intros (K & I & St & Ix & A & R & Sn) Hb. destruct (rel_over b o Hb) as [Ov Ne].
    assert (OK : op_ok (keys (impl s)) (OIns b o) = true) by (cbn [op_ok]; rewrite K, Ov, Ne; reflexivity).
    assert (NE : keys (impl s) <> []) by now rewrite K.
    assert (SP : forall b' o', In (b', o') (spec_insert ks (spec s) b o) -> In (b', o') rel).
    { intros b' o' H. destruct (spec_insert_cases _ _ _ _ _ H) as [Q|[(-> & P & o0 & Q)|Q]].
      - now rewrite Q.
      - pose proof (rel_inj b' o0 b o (R _ _ Q) Hb P) as E. injection E as -> _. exact Hb.
      - now apply R. }
    split; [now rewrite keys_step|]. split; [now apply step_inv|]. split; [now apply stored_step|]. split; [now apply indexed_step|].
    cbn [step fst]. destruct b as [|kv b'] eqn:Eb; [discriminate|]. rewrite <- Eb in *. 
    assert (II : ic_insert (impl s) b o = {| keys := keys (impl s); root := insert_at (keys (impl s)) b o (root (impl s));
                                            sset := ss_add (sset (impl s)) b; flat := flat (impl s) |}) by (rewrite Eb; reflexivity).
    rewrite II. cbn [impl spec spec_seen root keys]. rewrite K. split; [|split].
    - apply insert_at_allval; [|apply St | exact A]. intros k Hk. pose proof (rel_full b o Hb) as F. unfold full in F.
      rewrite forallb_forall in F. now apply F.
    - exact SP.
    - intros a Ha. apply in_app_iff in Ha as [Ha|[<-|[]]].
      + destruct (Sn a Ha) as (oa & Hoa). now apply (spec_insert_keeps_binding _ b o a oa).
      + destruct (spec_insert_new ks (spec s) b o) as (b1 & H1 & P1).
        pose proof (rel_inj b1 o b o (SP _ _ H1) Hb P1) as E. injection E as ->. exists o. exact H1.
  Qed.

  Lemma good_store s rows : Good s -> (forall e, In e rows -> In e rel) -> Good (store_all s rows).
  Proof.
    revert s. induction rows as [|[b o] rows IH]; intros s G H; cbn [store_all fold_left]; [exact G|].
    apply IH; [apply good_ins; [exact G | apply H; now left] | intros e He; apply H; now right].
  Qed.

  (* ---------- keeping the most general rows ---------- *)
  Lemma most_general_sub rows e : In e (most_general rows) -> In e rows.
  Proof.
    unfold most_general. intros H. apply in_map_iff in H as ([i e'] & E & H). cbn [snd] in E. subst e'.
    apply filter_In in H as [H _]. now apply in_combine_r in H.
  Qed.

  (* the row retrieved first survives when no retrieved row is shorter *)
  Lemma most_general_keeps_first e rows :
    (forall e', In e' (e :: rows) -> length (fst e') = length (fst e)) -> In e (most_general (e :: rows)).
  Proof.
    intros Hlen. unfold most_general. cbn [length seq combine]. apply in_map_iff. exists (0, e). split; [reflexivity|].
    apply filter_In. split; [now left|]. cbn [fst snd]. apply Bool.negb_true_iff. apply Bool.not_true_iff_false. intros H.
    apply existsb_exists in H as ([j e'] & Hin & D). cbn [fst snd] in D. unfold dominates in D.
    apply andb_prop in D as [D _]. apply andb_prop in D as [D Dl]. apply andb_prop in D as [Dne _].
    assert (Le : length (fst e') = length (fst e)).
    { apply Hlen. destruct Hin as [Hin|Hin]; [injection Hin as _ <-; now left | right; now apply in_combine_r in Hin]. }
    rewrite Le, Nat.ltb_irrefl, Nat.eqb_refl in Dl. cbn [orb andb] in Dl. apply Nat.ltb_lt in Dl. lia.
  Qed.

  (* ---------- one lookup through the cached call site ---------- *)
  Lemma full_of_agree a L : full a = true -> (forall k, In k ks -> aget L k = aget a k) -> full L = true.
  Proof.
    intros F H. unfold full in *. rewrite forallb_forall in *. intros k Hk. specialize (F k Hk). unfold bound_at in *. now rewrite (H k Hk).
  Qed.

  Lemma cached_step_ok s L : Good s -> binds_some ks L = true ->
    same (snd (cached_step s L)) (answers L) /\ Good (fst (cached_step s L)).
  Proof.
    intros G B. pose proof (good_chk s L G B) as G1. unfold cached_step.
    assert (FC : row_flag_is_current = true) by reflexivity. rewrite FC.
    assert (RK : replay_keeps_most_general = true) by reflexivity. rewrite RK.
    destruct (fst (ic_check (impl s) L)) eqn:Cov; cbn [fst snd].
    2:{ split; [intros x; reflexivity|]. apply good_store; [exact G1|]. intros e He. unfold answers in He. now apply filter_In in He as [He _]. }
    split; [|exact G1].
    destruct G as (K & I & St & Ix & A & R & Sn).
    rewrite (check_exact s L I) in Cov by now rewrite K. rewrite K in Cov.
    apply existsb_exists in Cov as (a & Ha & Ca). destruct (Sn a Ha) as (o & Hao). pose proof (R a o Hao) as Hrel.
    pose proof (rel_full a o Hrel) as Fa. pose proof (cover_full a L Ca Fa) as AG. pose proof (full_of_agree a L Fa AG) as FL.
    destruct (chk_same s L) as (E1 & E2 & E3). unfold ic_retrieve. rewrite keys_step, K, E1.
    assert (BL : forall k, In k ks -> bound_at L k = true) by (unfold full in FL; now rewrite forallb_forall in FL).
    destruct St as [W P]. destruct Ix as (_ & Sh & _ & Q). rewrite K in P, Sh, Q.
    (* the only row of the operator that agrees with this (fully bound) lookup is the stored one *)
    assert (ONLY : forall b ob, In (b, ob) rel -> compatible ks b L = true -> (b, ob) = (a, o)).
    { intros b ob Hb C. apply (rel_inj b ob a o Hb Hrel). apply pattern_ext. intros k Hk.
      rewrite (compat_full b L C (rel_full b ob Hb) FL k Hk). now apply AG. }
    intros [p ox]. unfold obs. rewrite !in_map_iff. split.
    - intros ([r' o'] & E & H). cbn [fst snd] in E. injection E as <- <-. apply most_general_sub in H.
      pose proof (retrieve_at_full ks L _ _ _ _ BL H) as ->.
      destruct (retrieve_at_sound ks L _ _ _ _ H) as (p & Hp & Cp). destruct (P p o' Hp) as (b & Hb & <-).
      rewrite pcompat_pattern in Cp. pose proof (ONLY b o' (R b o' Hb) Cp) as E. injection E as -> ->.
      exists (a, o). cbn [fst snd]. split; [f_equal; apply pattern_ext; intros k Hk; symmetry; now apply AG|].
      unfold answers. apply filter_In. split; [exact Hrel | exact Cp].
    - intros ([b ob] & E & H). cbn [fst snd] in E. injection E as <- <-. unfold answers in H. apply filter_In in H as [Hb C]. cbn [fst] in C.
      pose proof (ONLY b ob Hb C) as E. injection E as -> ->.
      assert (C' : pcompat_strict ks (pattern ks a) L = true) by now rewrite pcompat_strict_pattern.
      destruct (retrieve_at_complete ks L (root (impl s)) L (pattern ks a) o W Sh (Q a o Hao) C') as (r' & Hr').
      pose proof (retrieve_at_full ks L _ _ _ _ BL Hr') as ->.
      (* every retrieved row is the lookup itself with the stored flag: the first one survives the selection *)
      assert (ALL : forall e, In e (retrieve_at ks L (root (impl s)) L) -> e = (L, o)).
      { intros [r2 o2] H2. pose proof (retrieve_at_full ks L _ _ _ _ BL H2) as ->.
        destruct (retrieve_at_sound ks L _ _ _ _ H2) as (p2 & Hp2 & Cp2). destruct (P p2 o2 Hp2) as (b2 & Hb2 & <-).
        rewrite pcompat_pattern in Cp2. pose proof (ONLY b2 o2 (R b2 o2 Hb2) Cp2) as EQ2. now injection EQ2 as _ ->. }
      destruct (retrieve_at ks L (root (impl s)) L) as [|e0 rest] eqn:ER; [destruct Hr'|].
      pose proof (ALL e0 (or_introl eq_refl)) as ->. exists (L, o). cbn [fst snd]. split; [f_equal; apply pattern_ext; exact AG|].
      apply most_general_keeps_first. intros e' He'. now rewrite (ALL e' He').
  Qed.

  (* ---------- any history of lookups ---------- *)
  Theorem cached_run_transparent Ls : forall s, Good s -> Forall (fun L => binds_some ks L = true) Ls ->
    Forall2 same (cached_run s Ls) (map answers Ls).
  Proof.
    induction Ls as [|L Ls IH]; intros s G F; cbn [cached_run map]; [constructor|].
    inversion F as [|? ? FL FLs]; subst. destruct (cached_step_ok s L G FL) as [S G']. constructor; [exact S | now apply IH].
  Qed.

  Corollary cached_transparent Ls : Forall (fun L => binds_some ks L = true) Ls ->
    Forall2 same (cached_run (init ks) Ls) (map answers Ls).
  Proof. apply cached_run_transparent, good_init. Qed.
End FullRows.

(* ---- histories in which some retrievals are reduced to their most general rows (what a cached operator replays): run by the
   correspondence check of C20 against BinaryOperator._most_general_(cache.retrieve(lookup)) ---- *)
Fixpoint run_mg (s : both) (ops : list (op * bool)) : list (string * string) :=
  match ops with
  | [] => []
  | (ORet a, true) :: ops' =>
      (show_res (most_general (ic_retrieve (impl s) a)), show_res (most_general (spec_retrieve (keys (impl s)) (spec s) a)))
      :: run_mg s ops'
  | (o, _) :: ops' => let '(s', obs) := step s o in
                      match obs with Some x => x :: run_mg s' ops' | None => run_mg s' ops' end
  end.

Open Scope string_scope.
Definition run_case_mg (n : nat) (ks : list key) (ops : list (op * bool)) : string :=
  let r := run_mg {| impl := ic_new ks; spec := []; spec_seen := [] |} ops in
  "CASE " ++ show_nat n ++ " H " ++ show_bool (forallb (fun ob => op_ok ks (fst ob)) ops) ++ " M " ++ String.concat " " (map fst r) ++ " S " ++ String.concat " " (map snd r).
Close Scope string_scope.
