(* Infer_Facts.v — rule inference (C11): the constructor arguments of the head are the selected expressions of the query,
   bound one after the other under the binding of the row (Variable._generate_combinations_for_child_vars_values_). *)
From EQL Require Import Base Values Syntax Spec Elab Elab_Facts EvalPure EvalPure_Facts Query_Facts Elab_Frag.

Section I.
  Variable h : heap.
  Variable dom : key -> list val.
  Variable U : list key.
  Hypothesis dom_nodup : forall x, In x U -> NoDup (dom x).

  Notation eval_term := (eval_term h dom).
  Notation agreesb := (agreesb U).
  Notation valid := (valid dom U).
  Notation tclosed := (tclosed U).
  Notation basic := (basic U).
  Notation bind_sel := (bind_sel h dom).
  Notation final := (final h dom).

  (* evaluating a term extends the binding and binds every variable the term mentions *)
  Lemma eval_term_binds t : flat_free t = true -> forall b b1 v, In (b1, v) (eval_term t b) ->
    (forall y w, lookup b y = Some w -> lookup b1 y = Some w) /\ (forall x, In x (tvars t) -> bound b1 x = true).
  Proof.
    induction t as [w|x|m t IH|id t IH|id t IH]; intros F b b1 v H; cbn [EvalPure.eval_term] in H; cbn [flat_free] in F; try discriminate.
    - destruct H as [H|[]]. injection H as <- _. split; [auto | intros x []].
    - cbn [tvars]. destruct (lookup b x) as [o|] eqn:L.
      + destruct H as [H|[]]. injection H as <- _. split; [auto|]. intros y [<-|[]]. unfold bound. now rewrite L.
      + apply in_map_iff in H as (o & H & _). injection H as <- _. split.
        * intros y w Ly. rewrite lookup_bind. destruct (Nat.eqb y x) eqn:E; [|exact Ly]. apply Nat.eqb_eq in E. subst y. congruence.
        * intros y [<-|[]]. unfold bound. rewrite lookup_bind, Nat.eqb_refl. reflexivity.
    - apply in_map_iff in H as ([b2 v2] & H & H2). injection H as <- _. cbn [tvars]. eapply IH; eassumption.
  Qed.

  Lemma bound_mono b b1 x : (forall y w, lookup b y = Some w -> lookup b1 y = Some w) -> bound b x = true -> bound b1 x = true.
  Proof. unfold bound. intros M H. destruct (lookup b x) as [w|] eqn:L; [|discriminate]. now rewrite (M x w L). Qed.

  (* after the selected expressions are bound, every variable any of them mentions is bound *)
  Lemma bind_sel_binds sel : forallb flat_free sel = true -> forall b b', In b' (bind_sel sel b) ->
    (forall y w, lookup b y = Some w -> lookup b' y = Some w) /\
    (forall t, In t sel -> forall x, In x (tvars t) -> bound b' x = true).
  Proof.
    induction sel as [|t sel IH]; intros F b b' H; cbn [EvalPure_Facts.bind_sel] in H.
    - destruct H as [<-|[]]. split; [auto | intros t []].
    - cbn [forallb] in F. apply andb_prop in F as [Ft Fs]. apply in_flat_map in H as ([b1 v1] & H1 & H). cbn [fst] in H.
      destruct (eval_term_binds t Ft b b1 v1 H1) as [M1 B1]. destruct (IH Fs b1 b' H) as [M2 B2]. split.
      + intros y w L. apply M2, M1, L.
      + intros t' [<-|Ht'] x Hx; [|now apply (B2 t')]. eapply bound_mono; [exact M2 | now apply B1].
  Qed.

  (* a term all of whose variables are bound has exactly one row: the binding itself *)
  Lemma eval_term_bound t : flat_free t = true -> forall b, (forall x, In x (tvars t) -> bound b x = true) ->
    exists v, eval_term t b = [(b, v)].
  Proof.
    induction t as [w|x|m t IH|id t IH|id t IH]; intros F b B; cbn [flat_free] in F; try discriminate; cbn [EvalPure.eval_term].
    - eexists; reflexivity.
    - specialize (B x (or_introl eq_refl)). unfold bound in B. destruct (lookup b x); [eexists; reflexivity | discriminate].
    - destruct (IH F b B) as (v & ->). eexists; reflexivity.
  Qed.

  Lemma tclosed_flat_free sel : forallb tclosed sel = true -> forallb flat_free sel = true.
  Proof.
    intros H. apply forallb_forall. intros t Ht. rewrite forallb_forall in H. specialize (H t Ht).
    unfold EvalPure_Facts.tclosed in H. now apply andb_prop in H as [H _].
  Qed.

  (* the fields of a constructed instance are the values of the head expressions under ANY total assignment that agrees with
     the binding the instance was built from *)
  Theorem fields_of_instance sel c b e : basic c = true -> forallb tclosed sel = true -> In b (final sel c) ->
    agreesb b e = true -> valid e -> row_of h dom sel b = map (fun t => tval h t e) sel.
  Proof.
    intros B S Hb A V. unfold row_of. apply map_ext_in. intros t Ht.
    unfold Query_Facts.final in Hb. apply in_flat_map in Hb as (b0 & _ & Hb).
    destruct (bind_sel_binds sel (tclosed_flat_free sel S) b0 b Hb) as [_ Bd].
    assert (Ct : tclosed t = true) by (rewrite forallb_forall in S; now apply S).
    assert (Ft : flat_free t = true) by (unfold EvalPure_Facts.tclosed in Ct; now apply andb_prop in Ct as [Ft _]).
    destruct (eval_term_bound t Ft b (Bd t Ht)) as (v & E). rewrite E.
    destruct (term_cover h dom U dom_nodup t Ct b e A V) as [_ V1]. apply (V1 b v); [rewrite E; now left | exact A].
  Qed.

  (* that binding assigns every rule variable the head mentions a member of its domain: an instance is built from ONE
     assignment of the rule variables *)
  Theorem instance_from_one_assignment sel c b : basic c = true -> forallb tclosed sel = true -> In b (final sel c) ->
    forall x, (exists t, In t sel /\ In x (tvars t)) -> exists v, lookup b x = Some v /\ In v (dom x).
  Proof.
    intros B S Hb x (t & Ht & Hx).
    pose proof (final_in_dom h dom U sel c b B S Hb) as D.
    unfold Query_Facts.final in Hb. apply in_flat_map in Hb as (b0 & _ & Hb).
    destruct (bind_sel_binds sel (tclosed_flat_free sel S) b0 b Hb) as [_ Bd].
    specialize (Bd t Ht x Hx). unfold bound in Bd. destruct (lookup b x) as [v|] eqn:L; [|discriminate].
    exists v. split; [reflexivity | now apply D].
  Qed.
End I.
