(* Lazy.v — the memoised, lazily consumed domain of a variable (hashed_data.HashedIterable: `values` = the materialised
   prefix, `iterable` = the unconsumed remainder of a one-shot iterator) and, on top of it, the evaluation of
   single-variable queries as a resumable process: which elements are delivered, in which order, and what the domain state
   is AT THE MOMENT each one is delivered.  Histories of full / partial / aborted evaluations are folds over that state.
   Objects are identities (nat).  No proofs here. *)
From EQL Require Import Base Values Syntax Spec Generated.

Record lazy := { mat : list nat; rem : list nat }.

Definition memb (v : nat) (l : list nat) : bool := existsb (Nat.eqb v) l.

(* HashedIterable.__iter__, second loop, as the translator found it (Generated.iter_skips_memoised / iter_memoises_before_yield,
   re-extracted from hashed_data.py on every run): an element pulled from the iterator that is already memoised is skipped (or
   handed out again), a new one is memoised before (or only after) it is handed out.  [deliver_rem m r] = the elements handed
   out while consuming r, each with the state AT THAT MOMENT - what remains if the consumer stops there. *)
Fixpoint deliver_rem (m r : list nat) : list (nat * lazy) :=
  match r with
  | [] => []
  | v :: r' =>
      if iter_skips_memoised && memb v m then deliver_rem m r'
      else let m1 := if memb v m then m else m ++ [v] in
           (v, {| mat := if iter_memoises_before_yield then m1 else m; rem := r' |}) :: deliver_rem m1 r'
  end.

(* the behaviour the theorems are about: skip what is memoised, memoise before handing out *)
Fixpoint deliver_rem_std (m r : list nat) : list (nat * lazy) :=
  match r with
  | [] => []
  | v :: r' => if memb v m then deliver_rem_std m r'
               else (v, {| mat := m ++ [v]; rem := r' |}) :: deliver_rem_std (m ++ [v]) r'
  end.

(* first loop: the memoised elements, nothing is pulled *)
Definition deliver (s : lazy) : list (nat * lazy) := map (fun v => (v, s)) (mat s) ++ deliver_rem (mat s) (rem s).

(* what the domain ranges over, whatever has been consumed so far *)
Fixpoint fresh_of (m r : list nat) : list nat :=
  match r with
  | [] => []
  | v :: r' => if memb v m then fresh_of m r' else v :: fresh_of (m ++ [v]) r'
  end.
Definition content (s : lazy) : list nat := mat s ++ fresh_of (mat s) (rem s).
Definition exhausted (s : lazy) : lazy := {| mat := content s; rem := [] |}.
Definition fresh (d : list nat) : lazy := {| mat := []; rem := d |}.

(* ---- a single-variable query: every delivered element is tested (the whole condition tree is evaluated under the binding),
   qualifying ones are yielded to the consumer ---- *)
Section OneVar.
  Variable q : nat -> bool.                 (* does the element qualify *)

  Definition results (s : lazy) : list (nat * lazy) := filter (fun p => q (fst p)) (deliver s).

  (* list(query.evaluate()) *)
  Definition full (s : lazy) : list nat * lazy := (map fst (results s), exhausted s).

  (* it = query.evaluate(); take k results with next(it); it.close().  k = 0: nothing runs at all.  Fewer than k results:
     the evaluation runs to exhaustion. *)
  Definition take (k : nat) (s : lazy) : list nat * lazy :=
    match k with
    | 0 => ([], s)
    | S k' => let rs := results s in
              if Nat.leb (length rs) k' then (map fst rs, exhausted s)
              else (map fst (firstn k rs), snd (nth k' rs (0, s)))
    end.

  (* the condition is  and_(guard, p(x))  with p a user predicate that raises at its j-th call (j >= 1): p is called on the
     delivered elements that pass the guard; the evaluation is aborted there *)
  Variable guard : nat -> bool.
  Variable p : nat -> bool.
  Definition raise_at (j : nat) (s : lazy) : list nat * lazy :=
    let calls := filter (fun e => guard (fst e)) (deliver s) in
    match j with
    | 0 => full s
    | S j' => if Nat.leb (length calls) j' then full s
              else (map fst (filter (fun e => p (fst e)) (firstn j' calls)), snd (nth j' calls (0, s)))
    end.
End OneVar.

(* ---- histories over a pool of single-variable queries that share the variable ---- *)
Inductive lop :=
| LFull (i : nat)                 (* list(q_i.evaluate()) *)
| LTake (i : nat) (k : nat)       (* k results of q_i, then close *)
| LRaise (i : nat) (j : nat).     (* q_i = and_(guard_i, p(x)); p raises at its j-th call *)

Record lquery := { lq_guard : nat -> bool; lq_pred : nat -> bool }.      (* qualifies = guard && pred *)
Definition lq_q (c : lquery) : nat -> bool := fun v => lq_guard c v && lq_pred c v.
Definition nthq (pool : list lquery) (i : nat) : lquery := nth i pool {| lq_guard := fun _ => false; lq_pred := fun _ => false |}.

Definition lstep (pool : list lquery) (s : lazy) (o : lop) : list nat * lazy :=
  match o with
  | LFull i => full (lq_q (nthq pool i)) s
  | LTake i k => take (lq_q (nthq pool i)) k s
  | LRaise i j => raise_at (lq_q (nthq pool i)) (lq_guard (nthq pool i)) (lq_pred (nthq pool i)) j s
  end.

Fixpoint lrun (pool : list lquery) (s : lazy) (ops : list lop) : list (list nat * lazy) :=
  match ops with
  | [] => []
  | o :: ops' => let r := lstep pool s o in r :: lrun pool (snd r) ops'
  end.
Fixpoint lafter (pool : list lquery) (s : lazy) (ops : list lop) : lazy :=
  match ops with [] => s | o :: ops' => lafter pool (snd (lstep pool s o)) ops' end.

(* ---- running a case: conditions are surface conditions over variable 1; RaiseAt queries are and_(guard, x.big()) ---- *)
Record lcase_query := { cq_guard : option scond; cq_pred : option term }.   (* at least one of the two is given *)

Definition ev1 (o : nat) : env := fun _ => VObj o.
Definition mk_query (h : heap) (c : lcase_query) : lquery :=
  {| lq_guard := fun o => match cq_guard c with Some g => sat h (fun _ => []) g (ev1 o) | None => true end;
     lq_pred := fun o => match cq_pred c with Some t => truthy (tval h t (ev1 o)) | None => true end |}.

Open Scope string_scope.
Definition show_lobs (d0 : list nat) (r : list nat * lazy) : string :=
  "[" ++ String.concat "," (map show_nat (fst r)) ++ "]p" ++ show_nat (length d0 - length (rem (snd r)))
      ++ "m" ++ show_nat (length (mat (snd r))).

(* ---- the specification of demand (no lazy state in it): how much of the supplied iterator a step may have read.
   [need f [] d k] = the length of the shortest prefix of d that holds k distinct objects satisfying f (all of d when there are
   fewer); a history has read the longest prefix any of its steps needed ---- *)
Fixpoint need (f : nat -> bool) (seen d : list nat) (k : nat) {struct d} : nat :=
  match d with
  | [] => 0
  | v :: d' =>
      match k with
      | 0 => 0
      | S k' => S (if memb v seen then need f seen d' k
                   else if f v then need f (seen ++ [v]) d' k' else need f (seen ++ [v]) d' k)
      end
  end.

Definition required (pool : list lquery) (d : list nat) (o : lop) : nat :=
  match o with
  | LFull _ => length d
  | LTake i k => need (lq_q (nthq pool i)) [] d k
  | LRaise i j => match j with 0 => length d | _ => need (lq_guard (nthq pool i)) [] d j end
  end.

Fixpoint spec_pulls (pool : list lquery) (d : list nat) (sofar : nat) (ops : list lop) : list nat :=
  match ops with
  | [] => []
  | o :: ops' => let n := Nat.max sofar (required pool d o) in n :: spec_pulls pool d n ops'
  end.

(* model: every step of the history; specification: for every step that is a FULL evaluation, the answer of the same query
   evaluated on untouched data (the domain without repetitions, filtered); for every step, how much of the iterator has been read *)
Definition spec_lobs (h : heap) (pool : list lquery) (d0 : list nat) (o : lop) (pulled : nat) : string :=
  match o with
  | LFull i => "[" ++ String.concat "," (map show_nat (filter (lq_q (nthq pool i)) (content (fresh d0)))) ++ "]"
  | _ => "-"
  end ++ "p" ++ show_nat pulled.

Definition run_lcase (n : nat) (h : heap) (d0 : list nat) (qs : list lcase_query) (ops : list lop) : string :=
  let pool := map (mk_query h) qs in
  "CASE " ++ show_nat n ++ " M " ++ String.concat " " (map (show_lobs d0) (lrun pool (fresh d0) ops))
          ++ " S " ++ String.concat " " (map (fun op => spec_lobs h pool d0 (fst op) (snd op)) (combine ops (spec_pulls pool d0 0 ops))).
Close Scope string_scope.
