(* Lazy_Demand.v — how much of a one-shot iterator a history of evaluations has read: exactly the longest prefix any of its
   steps needed, where "needed" is stated on the supplied sequence alone ([Lazy.need]: the shortest prefix holding k distinct
   qualifying objects), with no reference to the lazy state. *)
From EQL Require Import Base Values Syntax Spec Generated Lazy Lazy_Facts.

(* the distinct objects of a sequence, in order of first occurrence *)
Definition dedup (l : list nat) : list nat := fresh_of [] l.

Lemma fresh_of_app p : forall s q, fresh_of s (p ++ q) = fresh_of s p ++ fresh_of (s ++ fresh_of s p) q.
Proof.
  induction p as [|v p IH]; intros s q; cbn [app fresh_of]; [now rewrite app_nil_r|].
  destruct (memb v s); [apply IH|]. cbn [app]. rewrite IH. f_equal. now rewrite <- app_assoc.
Qed.

Lemma snoc_app {A} (m : list A) v l : m ++ v :: l = (m ++ [v]) ++ l.
Proof. now rewrite <- app_assoc. Qed.

(* the state after exactly n elements of d have been read *)
Definition at_ (d : list nat) (n : nat) (s : lazy) : Prop :=
  n <= length d /\ rem s = skipn n d /\ mat s = dedup (firstn n d).

Lemma at_fresh d : at_ d 0 (fresh d).
Proof. unfold at_, fresh. cbn. split; [lia|]. split; reflexivity. Qed.

Lemma at_pulled d n s : at_ d n s -> length d - length (rem s) = n.
Proof. intros (L & R & _). rewrite R, skipn_length. lia. Qed.

Lemma at_exhausted d n s : at_ d n s -> at_ d (length d) (exhausted s).
Proof.
  intros (L & R & M). unfold at_, exhausted, content. cbn [mat rem]. split; [lia|]. split; [now rewrite skipn_all|].
  rewrite M, R, firstn_all. unfold dedup. transitivity (fresh_of [] (firstn n d ++ skipn n d)); [|now rewrite firstn_skipn].
  rewrite fresh_of_app. reflexivity.
Qed.

(* ---------- [need] against the recursion of the iteration ---------- *)
Definition sel (f : nat -> bool) (l : list (nat * lazy)) := filter (fun e : nat * lazy => f (fst e)) l.

(* consuming the remainder r with memo m: either fewer than k qualifying new objects come (then all of r is needed), or the
   state at the k-th has read exactly [need f m r k] elements of r *)
Lemma need_deliver f r : forall m k,
  let es := sel f (deliver_rem_std m r) in
  (length es <= k -> need f m r (S k) = length r) /\
  (k < length es ->
     let j := need f m r (S k) in
     j <= length r /\ rem (snd (nth k es (0, {| mat := m; rem := r |}))) = skipn j r /\
     mat (snd (nth k es (0, {| mat := m; rem := r |}))) = m ++ fresh_of m (firstn j r)).
Proof.
  induction r as [|v r IH]; intros m k; cbn zeta.
  - cbn. split; [reflexivity | lia].
  - cbn [deliver_rem_std need]. destruct (memb v m) eqn:E.
    + destruct (IH m k) as [A B]. split.
      * intros H. cbn [length]. now rewrite A.
      * intros H. destruct (B H) as (L & R & M). cbn [length skipn firstn fresh_of]. rewrite E. split; [lia|]. split.
        -- rewrite <- R. f_equal. f_equal. apply nth_indep. exact H.
        -- rewrite <- M. f_equal. f_equal. apply nth_indep. exact H.
    + unfold sel. cbn [filter fst]. destruct (f v) eqn:Fv.
      * cbn [length]. destruct k as [|k].
        -- split; [lia|]. intros _. cbn [nth snd rem mat].
           assert (N0 : need f (m ++ [v]) r 0 = 0) by (destruct r; reflexivity). rewrite N0.
           cbn [skipn firstn fresh_of length]. rewrite E. split; [lia|]. split; [reflexivity|]. destruct r; reflexivity.
        -- destruct (IH (m ++ [v]) k) as [A B]. split.
           ++ intros H. rewrite A; [reflexivity|]. unfold sel. lia.
           ++ intros H. assert (H' : k < length (sel f (deliver_rem_std (m ++ [v]) r))) by (unfold sel; lia).
              destruct (B H') as (L & R & M). cbn [nth length skipn firstn fresh_of]. rewrite E. split; [lia|]. split.
              ** rewrite <- R. f_equal. f_equal. apply nth_indep. exact H'.
              ** cbn [app]. rewrite (snoc_app m v (fresh_of (m ++ [v]) _)). rewrite <- M. f_equal. f_equal. apply nth_indep. exact H'.
      * destruct (IH (m ++ [v]) k) as [A B]. split.
        -- intros H. cbn [length]. now rewrite A.
        -- intros H. destruct (B H) as (L & R & M). cbn [length skipn firstn fresh_of]. rewrite E. split; [lia|]. split.
           ++ rewrite <- R. f_equal. f_equal. apply nth_indep. exact H.
           ++ rewrite (snoc_app m v (fresh_of (m ++ [v]) _)). rewrite <- M. f_equal. f_equal. apply nth_indep. exact H.
Qed.

Lemma need_0 f d : forall s, need f s d 0 = 0.
Proof. destruct d; reflexivity. Qed.

Lemma need_le f d : forall s k, need f s d k <= length d.
Proof.
  induction d as [|v d IH]; intros s k; cbn [need length]; [lia|]. destruct k as [|k]; [lia|].
  destruct (memb v s); [specialize (IH s (S k)); lia|]. destruct (f v); [specialize (IH (s ++ [v]) k) | specialize (IH (s ++ [v]) (S k))]; lia.
Qed.

(* [need] over a sequence cut in two: either the first part already holds k qualifying objects, or all of it is needed and
   the second part is searched for the rest, with what the first part showed remembered *)
Lemma need_app f p : forall s q k,
  need f s (p ++ q) k =
  if Nat.leb k (length (filter f (fresh_of s p))) then need f s p k
  else length p + need f (s ++ fresh_of s p) q (k - length (filter f (fresh_of s p))).
Proof.
  induction p as [|v p IH]; intros s q k.
  - cbn [app fresh_of filter length need]. destruct k as [|k]; cbn [Nat.leb]; [now rewrite need_0|].
    now rewrite app_nil_r.
  - destruct k as [|k]; [reflexivity|]. cbn [app need fresh_of]. destruct (memb v s) eqn:E.
    + rewrite IH. destruct (Nat.leb (S k) _); cbn [length]; lia.
    + destruct (f v) eqn:Fv; cbn [filter]; rewrite Fv, IH.
      * cbn [length Nat.leb Nat.sub]. rewrite (snoc_app s v (fresh_of (s ++ [v]) p)).
        destruct (Nat.leb k _); lia.
      * rewrite (snoc_app s v (fresh_of (s ++ [v]) p)). destruct (Nat.leb (S k) _); cbn [length]; lia.
Qed.

Lemma firstn_plus {A} n : forall j (l : list A), firstn (n + j) l = firstn n l ++ firstn j (skipn n l).
Proof.
  induction n as [|n IH]; intros j l; cbn [plus firstn skipn app]; [reflexivity|].
  destruct l as [|a l]; [now destruct j|]. cbn [firstn skipn app]. now rewrite IH.
Qed.

Lemma sel_app f a b : sel f (a ++ b) = sel f a ++ sel f b.
Proof. apply filter_app. Qed.

Lemma sel_memo f (s : lazy) m : sel f (map (fun v => (v, s)) m) = map (fun v => (v, s)) (filter f m).
Proof. unfold sel. induction m as [|v m IH]; cbn [map filter fst]; [reflexivity|]. destruct (f v); cbn [map]; now rewrite IH. Qed.

(* one demand on a state that has read n elements: the k-th (counting from 0) qualifying object handed out *)
Lemma demand_at f d n s k : at_ d n s ->
  let es := sel f (deliver s) in
  (length es <= k -> need f [] d (S k) = length d) /\
  (k < length es -> at_ d (Nat.max n (need f [] d (S k))) (snd (nth k es (0, s)))).
Proof.
  intros (L & R & M). cbn zeta. unfold deliver. rewrite deliver_rem_is_std, sel_app, sel_memo, app_length, map_length.
  set (m := mat s) in *. set (r := rem s) in *. set (c := length (filter f m)).
  assert (N : need f [] d (S k) = if Nat.leb (S k) c then need f [] (firstn n d) (S k) else n + need f m r (S k - c)).
  { rewrite <- (firstn_skipn n d) at 1. rewrite need_app. fold (dedup (firstn n d)). rewrite <- M. fold c.
    rewrite firstn_length_le by exact L. cbn [app]. replace (skipn n d) with r by exact R. reflexivity. }
  assert (Ld : length d = n + length r) by (rewrite R, skipn_length; lia).
  destruct (need_deliver f r m (k - c)) as [A B]. cbn zeta in B. split.
  - intros H. rewrite N. destruct (Nat.leb (S k) c) eqn:Ec; [apply Nat.leb_le in Ec; lia|].
    apply Nat.leb_gt in Ec. replace (S k - c) with (S (k - c)) by lia. rewrite A; [lia|]. fold (sel f (deliver_rem_std m r)). lia.
  - intros H. destruct (Nat.leb (S k) c) eqn:Ec.
    + apply Nat.leb_le in Ec. rewrite app_nth1 by (rewrite map_length; fold c; lia).
      assert (X : snd (nth k (map (fun v : nat => (v, s)) (filter f m)) (0, s)) = s).
      { destruct (nth_in_or_default (map (fun v : nat => (v, s)) (filter f m)) k (0, s)) as [I|I]; [|now rewrite I].
        apply in_map_iff in I as (x & I & _). now rewrite <- I. }
      rewrite X. rewrite N. pose proof (need_le f (firstn n d) [] (S k)) as Q. rewrite firstn_length_le in Q by exact L.
      rewrite Nat.max_l by lia. split; [exact L|]. split; assumption.
    + apply Nat.leb_gt in Ec. rewrite app_nth2 by (rewrite map_length; fold c; lia). rewrite map_length. fold c.
      assert (H' : k - c < length (sel f (deliver_rem_std m r))) by lia.
      destruct (B H') as (Lj & Rj & Mj).
      assert (Es : s = {| mat := m; rem := r |}) by (destruct s; reflexivity). rewrite Es at 1.
      rewrite N. replace (S k - c) with (S (k - c)) by lia. set (j := need f m r (S (k - c))) in *.
      rewrite Nat.max_r by lia. split; [lia|]. split.
      * rewrite Rj, R. apply skipn_skipn'.
      * rewrite Mj, M, R. unfold dedup. rewrite firstn_plus, fresh_of_app. reflexivity.
Qed.

Lemma lstep_at pool d n s o : at_ d n s -> at_ d (Nat.max n (required pool d o)) (snd (lstep pool s o)).
Proof.
  intros H. assert (L : n <= length d) by apply H. destruct o as [i|i k|i j]; cbn [lstep required].
  - cbn [full snd]. rewrite Nat.max_r by lia. eapply at_exhausted; exact H.
  - destruct k as [|k]; cbn [take].
    + cbn [snd]. rewrite need_0, Nat.max_0_r. exact H.
    + destruct (demand_at (lq_q (nthq pool i)) d n s k H) as [A B]. unfold sel in A, B. unfold results.
      destruct (Nat.leb _ k) eqn:E; cbn [snd].
      * apply Nat.leb_le in E. rewrite (A E), Nat.max_r by lia. eapply at_exhausted; exact H.
      * apply Nat.leb_gt in E. exact (B E).
  - destruct j as [|j]; cbn [raise_at].
    + cbn [full snd]. rewrite Nat.max_r by lia. eapply at_exhausted; exact H.
    + destruct (demand_at (lq_guard (nthq pool i)) d n s j H) as [A B]. unfold sel in A, B.
      destruct (Nat.leb _ j) eqn:E; cbn [full snd].
      * apply Nat.leb_le in E. rewrite (A E), Nat.max_r by lia. eapply at_exhausted; exact H.
      * apply Nat.leb_gt in E. exact (B E).
Qed.

(* every step of every history has read exactly the longest prefix any step so far needed *)
Theorem pulls_as_specified pool d ops : forall n s, at_ d n s ->
  map (fun r => length d - length (rem (snd r))) (lrun pool s ops) = spec_pulls pool d n ops.
Proof.
  induction ops as [|o ops IH]; intros n s H; cbn [lrun spec_pulls map]; [reflexivity|].
  pose proof (lstep_at pool d n s o H) as H1. f_equal; [now apply at_pulled | now apply IH].
Qed.

Corollary history_pulls pool d ops :
  map (fun r => length d - length (rem (snd r))) (lrun pool (fresh d) ops) = spec_pulls pool d 0 ops.
Proof. apply pulls_as_specified, at_fresh. Qed.
