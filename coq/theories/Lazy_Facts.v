(* Lazy_Facts.v — the lazily consumed domain: what it ranges over never changes, elements are pulled once and only as needed. *)
From EQL Require Import Base Values Syntax Spec Generated Lazy.

Lemma memb_In v l : memb v l = true <-> In v l.
Proof.
  unfold memb. rewrite existsb_exists. split.
  - intros (y & H & E). apply Nat.eqb_eq in E. now subst.
  - intros H. exists v. split; [exact H | apply Nat.eqb_refl].
Qed.

Lemma skipn_skipn' {A} n1 : forall n2 (l : list A), skipn n2 (skipn n1 l) = skipn (n1 + n2) l.
Proof.
  induction n1 as [|n1 IH]; intros n2 l; cbn [skipn plus]; [reflexivity|].
  destruct l as [|a l]; [now destruct n2|]. apply IH.
Qed.

Lemma nodup_snoc' (l : list nat) x : NoDup l -> ~ In x l -> NoDup (l ++ [x]).
Proof.
  induction l as [|a l IH]; intros N H; cbn [app]; [constructor; [intros []|constructor]|].
  inversion N as [|? ? Ha Nl]; subst. constructor.
  - rewrite in_app_iff. intros [H1|[H1|[]]]; [contradiction|]. subst. apply H. now left.
  - apply IH; [exact Nl|]. intros H1. apply H. now right.
Qed.

(* ---------- the iteration found in hashed_data.py is the one the theorems are about ---------- *)
(* (stops compiling when HashedIterable.__iter__ hands an element out before memoising it, or hands memoised ones out again) *)
Lemma iteration_as_modelled : iter_skips_memoised = true /\ iter_memoises_before_yield = true.
Proof. split; reflexivity. Qed.

Lemma deliver_rem_is_std r : forall m, deliver_rem m r = deliver_rem_std m r.
Proof.
  destruct iteration_as_modelled as [S B].
  induction r as [|v r IH]; intros m; cbn [deliver_rem deliver_rem_std]; [reflexivity|]. rewrite S, B. cbn [andb].
  destruct (memb v m); [apply IH|]. now rewrite IH.
Qed.

(* ---------- what is handed out is the content ---------- *)
Lemma deliver_rem_fst r : forall m, map fst (deliver_rem m r) = fresh_of m r.
Proof.
  intros m. rewrite deliver_rem_is_std. revert m.
  induction r as [|v r IH]; intros m; cbn [deliver_rem_std fresh_of]; [reflexivity|].
  destruct (memb v m); [apply IH|]. cbn [map fst]. now rewrite IH.
Qed.

Lemma deliver_fst s : map fst (deliver s) = content s.
Proof. unfold deliver, content. rewrite map_app, map_map. cbn [fst]. rewrite map_id. now rewrite deliver_rem_fst. Qed.

(* a state reached from [s] by pulling: same content, the remainder is a suffix of the old remainder, the memo only grows *)
Definition later (s s' : lazy) : Prop :=
  content s' = content s /\ (exists n, rem s' = skipn n (rem s)) /\ (exists l, mat s' = mat s ++ l).

Lemma later_refl s : later s s.
Proof. split; [reflexivity|]. split; [exists 0; reflexivity | exists []; now rewrite app_nil_r]. Qed.

Lemma later_trans a b c : later a b -> later b c -> later a c.
Proof.
  intros (C1 & (n1 & R1) & (l1 & M1)) (C2 & (n2 & R2) & (l2 & M2)). split; [congruence|]. split.
  - exists (n1 + n2). rewrite R2, R1. apply skipn_skipn'.
  - exists (l1 ++ l2). rewrite M2, M1. now rewrite app_assoc.
Qed.

Lemma deliver_rem_later r : forall m v s', In (v, s') (deliver_rem m r) -> later {| mat := m; rem := r |} s'.
Proof.
  intros m v s' H. rewrite deliver_rem_is_std in H. revert m v s' H.
  induction r as [|v0 r IH]; intros m v s' H; cbn [deliver_rem_std] in H; [destruct H|].
  destruct (memb v0 m) eqn:E.
  - apply IH in H. destruct H as (C & (n & R) & (l & M)). unfold later, content in *. cbn [mat rem fresh_of] in *. rewrite E.
    split; [exact C|]. split; [exists (S n); exact R | exists l; exact M].
  - assert (L0 : later {| mat := m; rem := v0 :: r |} {| mat := m ++ [v0]; rem := r |}).
    { unfold later, content. cbn [mat rem fresh_of]. rewrite E. split; [now rewrite <- app_assoc|].
      split; [exists 1; reflexivity | exists [v0]; reflexivity]. }
    destruct H as [H|H]; [injection H as _ <-; exact L0|].
    eapply later_trans; [exact L0 | eapply IH; exact H].
Qed.

Lemma deliver_later s v s' : In (v, s') (deliver s) -> later s s'.
Proof.
  unfold deliver. intros H. apply in_app_iff in H as [H|H].
  - apply in_map_iff in H as (x & H & _). injection H as _ <-. apply later_refl.
  - destruct s as [m r]. cbn [mat rem] in H. eapply deliver_rem_later; exact H.
Qed.

Lemma exhausted_later s : later s (exhausted s).
Proof.
  unfold later, exhausted, content. cbn [mat rem fresh_of]. split; [now rewrite app_nil_r|].
  split; [exists (length (rem s)); now rewrite skipn_all | eexists; reflexivity].
Qed.

Lemma nth_in_or_default {A} (l : list A) n d : In (nth n l d) l \/ nth n l d = d.
Proof. destruct (nth_in_or_default n l d); [now left | now right]. Qed.

Lemma picked_later s (l : list (nat * lazy)) n : (forall e, In e l -> In e (deliver s)) -> later s (snd (nth n l (0, s))).
Proof.
  intros Sub. destruct (nth_in_or_default l n (0, s)) as [H|H].
  - destruct (nth n l (0, s)) as [v s'] eqn:E. cbn [snd]. eapply deliver_later. apply Sub. exact H.
  - rewrite H. apply later_refl.
Qed.

Lemma full_later q s : later s (snd (full q s)).
Proof. apply exhausted_later. Qed.

Lemma take_later q k s : later s (snd (take q k s)).
Proof.
  destruct k as [|k]; cbn [take snd]; [apply later_refl|].
  destruct (Nat.leb (length (results q s)) k); cbn [snd]; [apply exhausted_later|].
  apply picked_later. intros e H. unfold results in H. now apply filter_In in H as [H _].
Qed.

Lemma raise_later q g p j s : later s (snd (raise_at q g p j s)).
Proof.
  destruct j as [|j]; cbn [raise_at]; [apply exhausted_later|].
  destruct (Nat.leb (length (filter (fun e : nat * lazy => g (fst e)) (deliver s))) j); cbn [snd]; [apply exhausted_later|].
  apply picked_later. intros e H. now apply filter_In in H as [H _].
Qed.

Lemma lstep_later pool s o : later s (snd (lstep pool s o)).
Proof. destruct o; cbn [lstep]; [apply full_later | apply take_later | apply raise_later]. Qed.

Theorem history_later pool ops : forall s, later s (lafter pool s ops).
Proof.
  induction ops as [|o ops IH]; intros s; cbn [lafter]; [apply later_refl|].
  eapply later_trans; [apply lstep_later | apply IH].
Qed.

(* ---------- a full evaluation returns the qualifying part of the content ---------- *)
Lemma map_fst_filter {A B} (f : A -> bool) (l : list (A * B)) : map fst (filter (fun p => f (fst p)) l) = filter f (map fst l).
Proof. induction l as [|[a b] l IH]; cbn [filter map fst]; [reflexivity|]. destruct (f a); cbn [map fst]; now rewrite IH. Qed.

Lemma full_rows q s : fst (full q s) = filter q (content s).
Proof. cbn [full fst]. unfold results. now rewrite map_fst_filter, deliver_fst. Qed.

(* C04: whatever happened before - full, abandoned or aborted evaluations of any queries of the pool, in any number and
   order - the query returns what it returns on the untouched domain *)
Theorem history_independent pool ops q s : fst (full q (lafter pool s ops)) = fst (full q s).
Proof. rewrite !full_rows. now destruct (history_later pool ops s) as (-> & _). Qed.

(* a domain that lists an object several times: each object once, in order of first occurrence, the first time and later *)
Fixpoint dedup (seen d : list nat) : list nat :=
  match d with [] => [] | v :: d' => if memb v seen then dedup seen d' else v :: dedup (seen ++ [v]) d' end.

Lemma fresh_of_dedup r : forall m, fresh_of m r = dedup m r.
Proof. induction r as [|v r IH]; intros m; cbn [fresh_of dedup]; [reflexivity|]. destruct (memb v m); now rewrite IH. Qed.

Lemma dedup_nodup d : forall seen, NoDup seen -> NoDup (seen ++ dedup seen d).
Proof.
  induction d as [|v d IH]; intros seen N; cbn [dedup]; [now rewrite app_nil_r|].
  destruct (memb v seen) eqn:E; [now apply IH|].
  replace (seen ++ v :: dedup (seen ++ [v]) d) with ((seen ++ [v]) ++ dedup (seen ++ [v]) d) by now rewrite <- app_assoc.
  apply IH. apply nodup_snoc'; [exact N|]. intros H. apply memb_In in H. congruence.
Qed.

Theorem repeated_object_first_and_later q d pool ops :
  fst (full q (fresh d)) = filter q (dedup [] d) /\ NoDup (dedup [] d) /\
  fst (full q (lafter pool (fresh d) ops)) = filter q (dedup [] d).
Proof.
  assert (E : fst (full q (fresh d)) = filter q (dedup [] d)).
  { rewrite full_rows. unfold content, fresh. cbn [mat rem app]. now rewrite fresh_of_dedup. }
  split; [exact E|]. split; [exact (dedup_nodup d [] (NoDup_nil _)) | now rewrite history_independent].
Qed.

(* ---------- C07: demand-driven ---------- *)
(* nothing is pulled twice: after any history the remainder is a suffix of the supplied sequence *)
Theorem never_pulled_twice pool ops d : exists n, rem (lafter pool (fresh d) ops) = skipn n d.
Proof. destruct (history_later pool ops (fresh d)) as (_ & H & _). exact H. Qed.

(* ... and it only shrinks along the history *)
Theorem pulls_monotone pool ops1 ops2 d :
  exists n, rem (lafter pool (fresh d) (ops1 ++ ops2)) = skipn n (rem (lafter pool (fresh d) ops1)).
Proof.
  assert (A : forall ops s, lafter pool s (ops ++ ops2) = lafter pool (lafter pool s ops) ops2).
  { induction ops as [|o ops IH]; intros s; cbn [app lafter]; [reflexivity | apply IH]. }
  rewrite A. destruct (history_later pool ops2 (lafter pool (fresh d) ops1)) as (_ & H & _). exact H.
Qed.

Lemma deliver_rem_nodup r : forall m k v s', NoDup (m ++ r) -> nth_error (deliver_rem m r) k = Some (v, s') ->
  nth_error r k = Some v /\ mat s' = m ++ firstn (S k) r /\ rem s' = skipn (S k) r.
Proof.
  intros m k v s' N H. rewrite deliver_rem_is_std in H. revert m k v s' N H.
  induction r as [|v0 r IH]; intros m k v s' N H; cbn [deliver_rem_std] in H; [destruct k; discriminate|].
  assert (E : memb v0 m = false).
  { destruct (memb v0 m) eqn:E; [|reflexivity]. apply memb_In in E. exfalso.
    apply NoDup_remove_2 in N. apply N. apply in_app_iff. now left. }
  rewrite E in H. destruct k as [|k]; cbn [nth_error] in H.
  - injection H as <- <-. cbn [mat rem firstn skipn nth_error]. auto.
  - assert (N' : NoDup ((m ++ [v0]) ++ r)) by (rewrite <- app_assoc; exact N).
    destruct (IH (m ++ [v0]) k v s' N' H) as (A & B & C). cbn [nth_error firstn skipn]. split; [exact A|]. split; [|exact C].
    rewrite B. now rewrite <- app_assoc.
Qed.

Lemma nth_error_filter {A} (f : A -> bool) (l : list A) : forall k x, nth_error (filter f l) k = Some x ->
  exists i, nth_error l i = Some x /\ length (filter f (firstn i l)) = k /\ f x = true.
Proof.
  induction l as [|a l IH]; intros k x H; cbn [filter] in H; [destruct k; discriminate|].
  destruct (f a) eqn:Fa.
  - destruct k as [|k]; cbn [nth_error] in H.
    + injection H as <-. exists 0. cbn. auto.
    + destruct (IH k x H) as (i & Hi & Hl & Hf). exists (S i). cbn [nth_error firstn filter]. rewrite Fa. cbn [length]. auto.
  - destruct (IH k x H) as (i & Hi & Hl & Hf). exists (S i). cbn [nth_error firstn filter]. rewrite Fa. auto.
Qed.

Lemma fresh_of_nodup r : forall m, NoDup (m ++ r) -> fresh_of m r = r.
Proof.
  induction r as [|v r IH]; intros m N; cbn [fresh_of]; [reflexivity|].
  destruct (memb v m) eqn:E.
  - apply memb_In in E. exfalso. apply NoDup_remove_2 in N. apply N. apply in_app_iff. now left.
  - f_equal. apply IH. now rewrite <- app_assoc.
Qed.

(* the (k+1)-th result of an evaluation over a fresh one-shot domain d (distinct objects) is delivered when EXACTLY the prefix of d
   that ends at the (k+1)-th qualifying element has been pulled: that element is the result, everything after it is still in
   the iterator *)
Theorem exact_prefix q d k v s' : NoDup d -> nth_error (results q (fresh d)) k = Some (v, s') ->
  exists i, nth_error d i = Some v /\ q v = true /\
            mat s' = firstn (S i) d /\ rem s' = skipn (S i) d /\ length (filter q (firstn (S i) d)) = S k.
Proof.
  intros N H. unfold results, deliver, fresh in H. cbn [mat rem map app] in H.
  destruct (nth_error_filter (fun p : nat * lazy => q (fst p)) (deliver_rem [] d) k (v, s') H) as (i & A & B & C). cbn [fst] in C.
  destruct (deliver_rem_nodup d [] i v s' N A) as (D1 & D2 & D3). exists i. split; [exact D1|]. split; [exact C|].
  split; [exact D2|]. split; [exact D3|].
  assert (F : filter q (firstn i d) = map fst (filter (fun p : nat * lazy => q (fst p)) (firstn i (deliver_rem [] d)))).
  { rewrite map_fst_filter. f_equal. rewrite <- firstn_map. now rewrite deliver_rem_fst, (fresh_of_nodup d [] N). }
  assert (G : firstn (S i) d = firstn i d ++ [v]).
  { clear -D1. revert i D1. induction d as [|a d IH]; intros i D1; [destruct i; discriminate|].
    destruct i as [|i]; cbn [nth_error] in D1; [injection D1 as ->; reflexivity|]. cbn [firstn app]. f_equal. now apply IH. }
  rewrite G, filter_app. cbn [filter]. rewrite C. rewrite app_length. cbn [length]. rewrite F, map_length, B. lia.
Qed.

(* creating the iterator without asking for a result does nothing *)
Theorem nothing_before_first_request q s : take q 0 s = ([], s).
Proof. reflexivity. Qed.

(* taking k results delivers the first k of the answer *)
Theorem take_is_prefix q k s : fst (take q k s) = firstn k (filter q (content s)).
Proof.
  destruct k as [|k]; [reflexivity|]. cbn [take].
  destruct (Nat.leb (length (results q s)) k) eqn:E; cbn [fst].
  - apply Nat.leb_le in E. change (map fst (results q s)) with (fst (full q s)). rewrite full_rows.
    assert (L : length (filter q (content s)) <= S k).
    { rewrite <- full_rows. cbn [full fst]. rewrite map_length. lia. }
    symmetry. apply firstn_all2. exact L.
  - rewrite <- firstn_map. change (map fst (results q s)) with (fst (full q s)). now rewrite full_rows.
Qed.
