(* Memo_Facts.v — result caching is transparent when the memo satisfies its contract (property C05, abstract memo of
   DESIGN.md 3.4): the concrete IndexedCache is modelled in IndexedCache.v and proved exact (C20_retrieve); the call-site shape on
   top of it is IndexedMemo_Facts.v. *)
From EQL Require Import Base.

Section Memo.
  Variables K R : Type.                         (* lookup keys (bindings restricted to the cache keys), results (row lists) *)
  Variable keqb : K -> K -> bool.
  Hypothesis keqb_eq : forall a b, keqb a b = true <-> a = b.
  Variable f : K -> R.                          (* the operator's uncached result under a binding *)

  Definition memo := list (K * R).
  Fixpoint find (st : memo) (k : K) : option R :=
    match st with [] => None | (k', r) :: st' => if keqb k k' then Some r else find st' k end.

  (* the five call sites all have this shape: covered -> replay the stored rows, otherwise evaluate and store *)
  Definition memo_eval (st : memo) (k : K) : R * memo :=
    match find st k with Some r => (r, st) | None => (f k, (k, f k) :: st) end.

  (* the contract: whatever is stored under a covered lookup is the uncached result for it *)
  Definition Kontract (st : memo) : Prop := forall k r, find st k = Some r -> r = f k.

  Lemma memo_step st k : Kontract st -> fst (memo_eval st k) = f k /\ Kontract (snd (memo_eval st k)).
  Proof.
    intros HK. unfold memo_eval. destruct (find st k) as [r|] eqn:E; cbn [fst snd].
    - split; [now apply HK | exact HK].
    - split; [reflexivity|]. intros k' r'. cbn [find]. destruct (keqb k' k) eqn:Q.
      + apply keqb_eq in Q; subst k'. now intros H; injection H as <-.
      + apply HK.
  Qed.

  (* any history of lookups (first evaluation, re-evaluations, other queries sharing the operator): every answer equals the
     uncached one *)
  Fixpoint run (st : memo) (ks : list K) : list R :=
    match ks with [] => [] | k :: ks' => let '(r, st') := memo_eval st k in r :: run st' ks' end.

  Theorem memo_transparent ks : forall st, Kontract st -> run st ks = map f ks.
  Proof.
    induction ks as [|k ks IH]; intros st HK; cbn [run map]; [reflexivity|].
    destruct (memo_step st k HK) as [E HK']. destruct (memo_eval st k) as [r st'] eqn:M. cbn [fst snd] in *.
    now rewrite E, (IH st' HK').
  Qed.

  Theorem memo_empty : Kontract [].
  Proof. intros k r H. discriminate. Qed.
End Memo.
