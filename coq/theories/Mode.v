(* Mode.v — the symbolic-mode machine (properties C08, C09): the context variable `_symbolic_mode`, the class-level
   expression stack, and the life cycle of result iterators, which also write the mode.
   How An.evaluate / The.evaluate bracket the mode is read from the source by the translator (Generated.v):
     an_mode_off_around_next  : every `next(results)` of An.evaluate sits inside `with symbolic_mode(mode=None)`
     an_yield_inside_mode_block : some `yield` of An.evaluate sits inside such a block (the generator is then SUSPENDED
                                   while holding a pending restore of the mode it saw at its first resumption)
     an_close_under_mode_off, the_mode_off
     block_restores_entry_mode : symbolic_mode / rule_mode save the mode found on entry and write it back on every exit
   The model below covers both bracketings; the theorems need the good one and so re-check the source on every run. *)
From EQL Require Import Base Generated.

Inductive mode := MQuery | MRule.
Definition omode := option mode.

Inductive block := BQuery | BRule | BRuleQ | BWithQ.      (* symbolic_mode() / rule_mode() / rule_mode(q) / `with q:` *)

Inductive op :=
| OEnter (b : block)
| OLeave                       (* normal exit of the innermost block *)
| ORaise                       (* an exception raised inside the innermost block propagates out of it *)
| OCreate (i : nat)            (* it_i = q_i.evaluate() *)
| ONext (i : nat) (exhausts : bool)    (* next(it_i); [exhausts] = the generator finishes during this resumption *)
| OClose (i : nat)             (* it_i.close() *)
| ODrop (i : nat)              (* the last reference to it_i is dropped (finalisation = close) *)
| ONextP (i : nat) (exhausts : bool)   (* next(it_i) for a query whose condition calls a user predicate that opens a symbolic block of
                                  its own, builds a query there and evaluates it COMPLETELY (a nested evaluate()) before the
                                  resumption continues *)
| OThe (raises : bool).        (* a the(...) query evaluated here; [raises]: it fails (no / several solutions) and the exception is
                                  handled on the spot, inside whatever blocks are open *)

Inductive istate := IFresh | ISusp (saved : omode) (holds : bool) | IDone.
(* holds = the suspended generator sits inside `with symbolic_mode(None)` and will write [saved] when it leaves it *)

Record frame := { f_block : block; f_prev : omode }.
Record state := { cur : omode; frames : list frame; estack : nat; iters : list (nat * istate) }.

Definition init : state := {| cur := None; frames := []; estack := 0; iters := [] |}.

Definition mode_of (b : block) (m : omode) : omode :=
  match b with BQuery => Some MQuery | BRule | BRuleQ => Some MRule | BWithQ => m end.
Definition pushes (b : block) : bool := match b with BRuleQ | BWithQ => true | _ => false end.

Definition set_iter (s : state) (i : nat) (x : istate) : state :=
  {| cur := cur s; frames := frames s; estack := estack s; iters := aset (iters s) i x |}.
Definition set_cur (s : state) (m : omode) : state :=
  {| cur := m; frames := frames s; estack := estack s; iters := iters s |}.

Definition leave (s : state) : state :=
  match frames s with
  | [] => s
  | f :: fs =>
      {| cur := match f_block f with
                | BWithQ => cur s                                              (* `with q:` does not touch the mode *)
                | _ => if block_restores_entry_mode then f_prev f else cur s   (* Generated: symbolic_mode's finally clause *)
                end;
         frames := fs; estack := if pushes (f_block f) then estack s - 1 else estack s; iters := iters s |}
  end.

(* finishing a generator that holds a pending restore writes the saved mode *)
Definition finish (s : state) (i : nat) (st : istate) : state :=
  match st with
  | ISusp saved true => set_iter (set_cur s saved) i IDone
  | _ => set_iter s i IDone
  end.

(* the nested block + nested evaluation of ONextP: they run while the mode is what the resumption made it, inside a block that saves
   that mode on entry and writes it back on exit (symbolic_mode); the nested evaluate() brackets itself in the same way *)
Definition nested (s : state) : state :=
  let during := if an_mode_off_around_next then None else cur s in
  let inside := {| cur := mode_of BQuery during; frames := {| f_block := BQuery; f_prev := during |} :: frames s;
                   estack := estack s; iters := iters s |} in
  let after := leave inside in
  (* the resumption's own `with symbolic_mode(None)` (if any) writes back the mode it found *)
  if an_mode_off_around_next then set_cur after (if block_restores_entry_mode then cur s else cur after) else after.

Definition step_next (s : state) (i : nat) (exhausts : bool) : state :=
  match aget (iters s) i with
  | Some IFresh =>
      (* first resumption: enters the body; with the yield INSIDE the mode block the block is entered once and held *)
      if an_yield_inside_mode_block then
        let s1 := set_cur s None in
        if exhausts then finish s1 i (ISusp (cur s) true) else set_iter s1 i (ISusp (cur s) true)
      else
        (* mode switched off around this resumption only (if at all) and restored before control returns *)
        if exhausts then set_iter s i IDone else set_iter s i (ISusp (cur s) false)
  | Some (ISusp saved holds) =>
      if exhausts then finish s i (ISusp saved holds) else s
  | _ => s
  end.

Definition step (s : state) (o : op) : state :=
  match o with
  | OEnter b =>
      {| cur := mode_of b (cur s); frames := {| f_block := b; f_prev := cur s |} :: frames s;
         estack := if pushes b then S (estack s) else estack s; iters := iters s |}
  | OLeave | ORaise => leave s
  | OCreate i => set_iter s i IFresh
  | ONext i exhausts => step_next s i exhausts
  | ONextP i exhausts => step_next (nested s) i exhausts
  | OClose i | ODrop i =>
      match aget (iters s) i with
      | Some (ISusp saved holds) => finish s i (ISusp saved holds)
      | Some IFresh => set_iter s i IDone          (* a generator that never started runs no finally block *)
      | _ => s
      end
  | OThe _ => s      (* The.evaluate switches the mode off inside a `with symbolic_mode(None)` block (Generated.the_mode_off) or not
                        at all: either way whatever it did is undone on every exit, the exceptional ones included *)
  end.

Definition run (ops : list op) : state := fold_left step ops init.

(* the mode user predicates and instance construction see DURING a resumption of the result generator / during the(...) *)
Definition mode_during_an (ambient : omode) : omode :=
  if an_mode_off_around_next then None else ambient.
Definition mode_during_the (ambient : omode) : omode :=
  if the_mode_off then None else ambient.

(* ---- the reference: a stack of block kinds; mode = innermost mode-setting block or none; iterators are irrelevant ---- *)
Fixpoint ref_mode (bs : list block) : omode :=
  match bs with
  | [] => None
  | BQuery :: _ => Some MQuery
  | (BRule | BRuleQ) :: _ => Some MRule
  | BWithQ :: bs' => ref_mode bs'
  end.
Definition ref_depth (bs : list block) : nat := length (filter pushes bs).
Definition ref_step (bs : list block) (o : op) : list block :=
  match o with
  | OEnter b => b :: bs
  | OLeave | ORaise => tl bs
  | _ => bs
  end.
Definition ref_run (ops : list op) : list block := fold_left ref_step ops [].

(* ---- printing ---- *)
Open Scope string_scope.
Definition show_mode (m : omode) : string := match m with None => "N" | Some MQuery => "Q" | Some MRule => "R" end.
Definition obs (s : state) : string := show_mode (cur s) ++ show_nat (estack s).
Definition ref_obs (bs : list block) : string := show_mode (ref_mode bs) ++ show_nat (ref_depth bs).

Fixpoint trace (s : state) (bs : list block) (ops : list op) : list (string * string) :=
  match ops with
  | [] => []
  | o :: ops' => let s' := step s o in let bs' := ref_step bs o in (obs s', ref_obs bs') :: trace s' bs' ops'
  end.

Definition run_mcase (n : nat) (ops : list op) : string :=
  let t := trace init [] ops in
  "CASE " ++ show_nat n ++ " M " ++ String.concat " " (map fst t) ++ " S " ++ String.concat " " (map snd t).
Close Scope string_scope.
