(* Mode09_Facts.v — evaluation sees no symbolic mode (C09); kept apart from Mode_Facts.v so that C08 and C09 break separately. *)
From EQL Require Import Base Generated Mode.

Lemma mode_off_around_every_resumption : an_mode_off_around_next = true.
Proof. reflexivity. Qed.
Lemma close_under_mode_off : an_close_under_mode_off = true.
Proof. reflexivity. Qed.
Lemma the_evaluates_with_mode_off : the_mode_off = true.
Proof. reflexivity. Qed.

(* C09: during evaluation user predicates and instance construction see no symbolic mode, whatever the ambient mode *)
Theorem evaluation_sees_no_mode ambient : mode_during_an ambient = None /\ mode_during_the ambient = None.
Proof. unfold mode_during_an, mode_during_the. now rewrite mode_off_around_every_resumption, the_evaluates_with_mode_off. Qed.
