(* Mode_Facts.v — symbolic mode is confined to its block (C08) and evaluation sees no mode (C09).
   The proofs use the bracketing flags the translator reads from An.evaluate / The.evaluate (Generated.v). *)
From EQL Require Import Base Generated Mode.

(* the facts about the CURRENT source the proofs need: they fail to compile if the code regresses *)
Lemma yields_outside_mode_block : an_yield_inside_mode_block = false.
Proof. reflexivity. Qed.
(* frames mirror the reference stack and remember the mode of what is below them *)
Fixpoint frames_ok (fs : list frame) (bs : list block) : Prop :=
  match fs, bs with
  | [], [] => True
  | f :: fs', b :: bs' => f_block f = b /\ f_prev f = ref_mode bs' /\ frames_ok fs' bs'
  | _, _ => False
  end.
(* no suspended iterator holds a pending write of the mode *)
Definition no_pending (its : list (nat * istate)) : Prop :=
  forall i saved, aget its i <> Some (ISusp saved true).

Definition Inv (s : state) (bs : list block) : Prop :=
  frames_ok (frames s) bs /\ cur s = ref_mode bs /\ estack s = ref_depth bs /\ no_pending (iters s).

Lemma no_pending_aset its i x : no_pending its -> (forall saved, x <> ISusp saved true) -> no_pending (aset its i x).
Proof.
  intros H Hx j saved. destruct (Nat.eq_dec i j) as [<-|Hne].
  - rewrite aget_aset_same. intros E; injection E as E. now apply (Hx saved).
  - rewrite aget_aset_other by assumption. apply H.
Qed.

Lemma inv_init : Inv init [].
Proof. repeat split. intros i saved. discriminate. Qed.

(* a block and a complete evaluation NESTED in a resumption (a user predicate that queries) leave no trace: the block writes back
   the mode it found, and so does the resumption's own bracket - both facts come from Generated.v *)
Lemma nested_transparent s : nested s = s.
Proof.
  unfold nested, leave. cbn [frames f_block f_prev cur estack iters pushes].
  assert (E1 : block_restores_entry_mode = true) by reflexivity. rewrite E1.
  destruct an_mode_off_around_next; unfold set_cur; cbn [cur frames estack iters]; destruct s; reflexivity.
Qed.

Lemma inv_step_next s bs i ex : Inv s bs -> Inv (step_next s i ex) bs.
Proof.
  intros (HF & HC & HE & HP). unfold step_next. rewrite yields_outside_mode_block.
  destruct (aget (iters s) i) as [[|saved holds|]|] eqn:EI.
  - destruct ex; repeat split; cbn; auto; apply no_pending_aset; try exact HP; intros sv; discriminate.
  - destruct holds; [exfalso; exact (HP i saved EI)|].
    destruct ex; [|repeat split; auto]. cbn [finish]. repeat split; cbn; auto. apply no_pending_aset; [exact HP | discriminate].
  - repeat split; auto.
  - repeat split; auto.
Qed.

Lemma inv_step s bs o : Inv s bs -> Inv (step s o) (ref_step bs o).
Proof.
  intros (HF & HC & HE & HP). destruct o as [b| | |i|i ex|i|i|i ex|r]; cbn [step ref_step].
  - (* enter *) repeat split; cbn.
    + exact HC.
    + exact HF.
    + rewrite HC. destruct b; reflexivity.
    + unfold ref_depth in *. cbn [filter]. destruct (pushes b); cbn [length]; now rewrite HE.
    + exact HP.
  - (* leave *) unfold leave. destruct (frames s) as [|f fs] eqn:EF; destruct bs as [|b bs']; cbn in HF; try contradiction.
    + repeat split; cbn; rewrite ?EF; auto.
    + destruct HF as (Hb & Hp & HF'). repeat split; cbn.
      * exact HF'.
      * rewrite Hb. destruct b; cbn in *; try exact Hp. exact HC.
      * rewrite Hb. unfold ref_depth in *. cbn [filter] in HE. destruct (pushes b); cbn [length] in HE; lia.
      * exact HP.
  - (* raise = leave *) unfold leave. destruct (frames s) as [|f fs] eqn:EF; destruct bs as [|b bs']; cbn in HF; try contradiction.
    + repeat split; cbn; rewrite ?EF; auto.
    + destruct HF as (Hb & Hp & HF'). repeat split; cbn.
      * exact HF'.
      * rewrite Hb. destruct b; cbn in *; try exact Hp. exact HC.
      * rewrite Hb. unfold ref_depth in *. cbn [filter] in HE. destruct (pushes b); cbn [length] in HE; lia.
      * exact HP.
  - (* create *) repeat split; cbn; auto. apply no_pending_aset; [exact HP | discriminate].
  - (* next *) now apply inv_step_next.
  - (* close *) destruct (aget (iters s) i) as [[|saved holds|]|] eqn:EI.
    + repeat split; cbn; auto. apply no_pending_aset; [exact HP | discriminate].
    + destruct holds; [exfalso; exact (HP i saved EI)|]. cbn [finish]. repeat split; cbn; auto. apply no_pending_aset; [exact HP | discriminate].
    + repeat split; auto.
    + repeat split; auto.
  - (* drop *) destruct (aget (iters s) i) as [[|saved holds|]|] eqn:EI.
    + repeat split; cbn; auto. apply no_pending_aset; [exact HP | discriminate].
    + destruct holds; [exfalso; exact (HP i saved EI)|]. cbn [finish]. repeat split; cbn; auto. apply no_pending_aset; [exact HP | discriminate].
    + repeat split; auto.
    + repeat split; auto.
  - (* next, with a block and an evaluation nested in the resumption *) rewrite nested_transparent. now apply inv_step_next.
  - (* the *) repeat split; auto.
Qed.

Lemma inv_run ops : forall s bs, Inv s bs -> Inv (fold_left step ops s) (fold_left ref_step ops bs).
Proof. induction ops as [|o ops IH]; intros s bs H; cbn [fold_left]; [exact H|]. apply IH. now apply inv_step. Qed.

(* C08: after EVERY finite history of block entries / exits / exceptions and iterator creations, advances, closes and
   finalisations — at any point inside or outside any block — the mode is that of the innermost enclosing mode-setting block
   (none outside every block) and the expression stack holds exactly the enclosing `with q:` / rule_mode(q) blocks *)
Theorem mode_confined ops : cur (run ops) = ref_mode (ref_run ops) /\ estack (run ops) = ref_depth (ref_run ops).
Proof. destruct (inv_run ops init [] inv_init) as (_ & HC & HE & _). split; assumption. Qed.

Lemma iterator_ops_leave_ref inside :
  (forall o, In o inside -> match o with OEnter _ | OLeave | ORaise => False | _ => True end) ->
  forall bs, fold_left ref_step inside bs = bs.
Proof.
  induction inside as [|o l IH]; intros Hin bs; cbn [fold_left]; [reflexivity|].
  assert (Ho := Hin o (or_introl eq_refl)).
  assert (Hl : forall o', In o' l -> match o' with OEnter _ | OLeave | ORaise => False | _ => True end) by (intros o' H'; apply Hin; now right).
  destruct o; try contradiction; cbn [ref_step]; now apply IH.
Qed.

(* leaving a block by any path restores exactly what was active before it, whatever happened to iterators inside *)
Theorem block_restores ops b inside :
  (forall o, In o inside -> match o with OEnter _ | OLeave | ORaise => False | _ => True end) ->
  forall leave_op, leave_op = OLeave \/ leave_op = ORaise ->
  cur (run (ops ++ OEnter b :: inside ++ [leave_op])) = cur (run ops) /\
  estack (run (ops ++ OEnter b :: inside ++ [leave_op])) = estack (run ops).
Proof.
  intros Hin lo Hlo.
  destruct (mode_confined (ops ++ OEnter b :: inside ++ [lo])) as [C1 E1]. destruct (mode_confined ops) as [C0 E0].
  rewrite C1, E1, C0, E0.
  assert (R : ref_run (ops ++ OEnter b :: inside ++ [lo]) = ref_run ops).
  { unfold ref_run. rewrite fold_left_app. cbn [fold_left ref_step]. rewrite fold_left_app.
    rewrite (iterator_ops_leave_ref inside Hin). destruct Hlo as [-> | ->]; reflexivity. }
  now rewrite R.
Qed.

(* outside every block construction is concrete and operators are rejected: the mode is none *)
Theorem outside_is_concrete ops : ref_run ops = [] -> cur (run ops) = None.
Proof. intros H. destruct (mode_confined ops) as [C _]. now rewrite C, H. Qed.

