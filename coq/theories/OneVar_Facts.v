(* OneVar_Facts.v — a single-variable query is the ORDERED filter of its domain (property C01).
   Sequence-level argument: a bound evaluation yields at most one row flagged by truth, an unbound
   evaluation is the domain loop around bound ones. *)
From EQL Require Import Base Values Syntax Spec EvalPure EvalPure_Facts.

Section One.
  Variable h : heap.
  Variable dom : key -> list val.
  Variable x : key.                              (* the variable of the query *)

  Notation eval_term := (eval_term h dom).
  Notation eval := (eval h dom).
  Notation tval := (tval h).
  Notation isat := (isat h dom).

  Definition ev (v : val) : env := upd env0 x v.

  (* terms over the one variable: no flatten, no other variable *)
  Fixpoint t1 (t : term) : bool :=
    match t with
    | TLit _ => true
    | TVar y => Nat.eqb y x
    | TMap _ t' => t1 t'
    | TFlat _ _ | TConcat _ _ => false
    end.
  Definition mentions (t : term) : bool := match tvars t with [] => false | _ => true end.

  (* conditions over the one variable in which every leaf mentions it (a leaf needs a symbolic operand) *)
  Fixpoint c1 (c : cond) : bool :=
    match c with
    | CCmp _ l r => t1 l && t1 r && (mentions l || mentions r)
    | CTruth t _ => t1 t && mentions t
    | CAnd a b | CElseIf a b => c1 a && c1 b
    | CForAll _ _ => false
    | CSub sel c' => forallb t1 sel && c1 c'
    end.

  Lemma t1_tvars t : t1 t = true -> forall y, In y (tvars t) -> y = x.
  Proof.
    induction t as [w|y|m t IH|id t IH|id t IH]; cbn [t1 tvars]; intros H z Hz; try discriminate.
    - destruct Hz.
    - destruct Hz as [<-|[]]. now apply Nat.eqb_eq.
    - now apply IH.
  Qed.

  (* the value of a one-variable term depends on the variable only *)
  Lemma tval_ev t e v : t1 t = true -> e x = v -> tval t e = tval t (ev v).
  Proof.
    induction t as [w|y|m t IH|id t IH|id t IH]; cbn [t1 Spec.tval]; intros H E; try discriminate.
    - reflexivity.
    - apply Nat.eqb_eq in H; subst y. unfold ev, upd. now rewrite Nat.eqb_refl.
    - f_equal. now apply IH.
  Qed.

  Lemma term_bound t b v : t1 t = true -> lookup b x = Some v -> eval_term t b = [(b, tval t (ev v))].
  Proof.
    induction t as [w|y|m t IH|id t IH|id t IH]; cbn [t1 EvalPure.eval_term Spec.tval]; intros H L; try discriminate.
    - reflexivity.
    - apply Nat.eqb_eq in H; subst y. rewrite L. unfold ev, upd. now rewrite Nat.eqb_refl.
    - rewrite (IH H L). reflexivity.
  Qed.

  Lemma term_closed t b : t1 t = true -> mentions t = false -> forall e, eval_term t b = [(b, tval t e)].
  Proof.
    unfold mentions. induction t as [w|y|m t IH|id t IH|id t IH]; cbn [t1 tvars EvalPure.eval_term Spec.tval]; intros H M e; try discriminate.
    - reflexivity.
    - rewrite (IH H M e). reflexivity.
  Qed.

  Lemma term_closed_val t : t1 t = true -> mentions t = false -> forall e e', tval t e = tval t e'.
  Proof.
    unfold mentions. induction t as [w|y|m t IH|id t IH|id t IH]; cbn [t1 tvars Spec.tval]; intros H M e e'; try discriminate.
    - reflexivity.
    - f_equal. now apply IH.
  Qed.

  Lemma term_unbound t b : t1 t = true -> mentions t = true -> lookup b x = None ->
    eval_term t b = map (fun v => (bind b x v, tval t (ev v))) (dom x).
  Proof.
    unfold mentions. induction t as [w|y|m t IH|id t IH|id t IH]; cbn [t1 tvars EvalPure.eval_term Spec.tval]; intros H M L; try discriminate.
    - apply Nat.eqb_eq in H; subst y. rewrite L. apply map_ext. intros v. unfold ev, upd. now rewrite Nat.eqb_refl.
    - rewrite (IH H M L), map_map. reflexivity.
  Qed.

  (* what one bound evaluation yields *)
  Definition out (b : binding) (s ywf : bool) : list (binding * bool) :=
    if s then [(b, false)] else if ywf then [(b, true)] else [].

  Lemma bound_in_false t b : t1 t = true -> lookup b x = None -> bound_in t b = false.
  Proof.
    intros H L. unfold bound_in. apply not_true_is_false. intros E. apply existsb_exists in E as (y & Hy & B).
    rewrite (t1_tvars t H y Hy) in B. unfold bound in B. now rewrite L in B.
  Qed.

  Lemma bind_sel_bound sel b v : forallb t1 sel = true -> lookup b x = Some v -> bind_sel h dom sel b = [b].
  Proof.
    induction sel as [|t sel IH]; intros H L; cbn [EvalPure_Facts.bind_sel]; [reflexivity|].
    cbn [forallb] in H. apply andb_prop in H as [Ht Hs]. rewrite (term_bound t b v Ht L). cbn [flat_map fst].
    rewrite (IH Hs L). reflexivity.
  Qed.

  Lemma eval_bound c : c1 c = true -> forall b v ywf, lookup b x = Some v -> eval c b ywf = out b (isat c (ev v)) ywf.
  Proof.
    induction c as [o l r|t inv|a IHa b' IHb|a IHa b' IHb|u c IH|sel c IH]; intros C b v ywf L; cbn [c1] in C; try discriminate.
    - apply andb_prop in C as [C _]. apply andb_prop in C as [Cl Cr]. cbn [EvalPure.eval Spec.isat]. unfold cmp_rows, out.
      rewrite (term_bound l b v Cl L), (term_bound r b v Cr L).
      destruct (bound_in r b); cbn [flat_map fst snd app];
        rewrite ?(term_bound l b v Cl L), ?(term_bound r b v Cr L); cbn [flat_map fst snd app]; rewrite ?app_nil_r;
        destruct (apply_op o (tval l (ev v)) (tval r (ev v))), ywf; reflexivity.
    - apply andb_prop in C as [Ct _]. cbn [EvalPure.eval Spec.isat]. rewrite (term_bound t b v Ct L). cbn [flat_map fst snd]. unfold out.
      rewrite app_nil_r, negb_involutive. destruct (xorb inv (truthy (tval t (ev v)))), ywf; reflexivity.
    - apply andb_prop in C as [Ca Cb]. cbn [EvalPure.eval Spec.isat]. rewrite (IHa Ca b v ywf L). unfold out at 1.
      destruct (isat a (ev v)); cbn [flat_map fst snd andb].
      + rewrite app_nil_r. apply IHb; assumption.
      + destruct ywf; reflexivity.
    - apply andb_prop in C as [Ca Cb]. cbn [EvalPure.eval Spec.isat]. rewrite (IHa Ca b v true L). unfold out at 1.
      destruct (isat a (ev v)); cbn [flat_map fst snd orb].
      + reflexivity.
      + rewrite app_nil_r. apply IHb; assumption.
    - apply andb_prop in C as [Cs Cc]. rewrite eval_sub_eq. cbn [Spec.isat]. rewrite (IH Cc b v ywf L). unfold out.
      destruct (isat c (ev v)); [|destruct ywf]; cbn [flat_map fst snd]; rewrite ?(bind_sel_bound sel b v Cs L); reflexivity.
  Qed.

  Lemma lookup_bind_self b v : lookup (bind b x v) x = Some v.
  Proof. cbn. now rewrite Nat.eqb_refl. Qed.

  Lemma flat_map_out_comp (g : binding * bool -> list (binding * bool)) b (s : val -> bool) ywf (k : val -> list (binding * bool)) l :
    (forall v, flat_map g (out (bind b x v) (s v) ywf) = k v) ->
    flat_map g (flat_map (fun v => out (bind b x v) (s v) ywf) l) = flat_map k l.
  Proof.
    intros H. induction l as [|v l IH]; cbn [flat_map]; [reflexivity|]. now rewrite flat_map_app, H, IH.
  Qed.

  (* the nested-loop lemma: an unbound evaluation is the domain loop around bound evaluations *)
  Lemma eval_unbound c : c1 c = true -> forall b ywf, lookup b x = None ->
    eval c b ywf = flat_map (fun v => out (bind b x v) (isat c (ev v)) ywf) (dom x).
  Proof.
    induction c as [o l r|t inv|a IHa b' IHb|a IHa b' IHb|u c IH|sel c IH]; intros C b ywf L; cbn [c1] in C; try discriminate.
    - apply andb_prop in C as [C M]. apply andb_prop in C as [Cl Cr]. cbn [EvalPure.eval Spec.isat].
      rewrite (bound_in_false r b Cr L). unfold cmp_rows.
      destruct (mentions l) eqn:Ml.
      + rewrite (term_unbound l b Cl Ml L). rewrite flat_map_concat_map, map_map, <- flat_map_concat_map.
        apply flat_map_ext. intros v. cbn [fst snd].
        rewrite (term_bound r (bind b x v) v Cr (lookup_bind_self b v)). cbn [flat_map fst snd]. rewrite app_nil_r. unfold out.
        destruct (apply_op o (tval l (ev v)) (tval r (ev v))), ywf; reflexivity.
      + cbn [orb] in M. rewrite (term_closed l b Cl Ml env0). cbn [flat_map fst snd]. rewrite app_nil_r.
        rewrite (term_unbound r b Cr M L). rewrite flat_map_concat_map, map_map, <- flat_map_concat_map.
        apply flat_map_ext. intros v. cbn [fst snd]. unfold out.
        rewrite (term_closed_val l Cl Ml (ev v) env0).
        destruct (apply_op o (tval l env0) (tval r (ev v))), ywf; reflexivity.
    - apply andb_prop in C as [Ct M]. cbn [EvalPure.eval Spec.isat]. rewrite (term_unbound t b Ct M L).
      rewrite flat_map_concat_map, map_map, <- flat_map_concat_map. apply flat_map_ext. intros v. cbn [fst snd]. unfold out.
      rewrite negb_involutive. destruct (xorb inv (truthy (tval t (ev v)))), ywf; reflexivity.
    - apply andb_prop in C as [Ca Cb]. cbn [EvalPure.eval Spec.isat]. rewrite (IHa Ca b ywf L).
      apply flat_map_out_comp. intros v. unfold out at 1.
      destruct (isat a (ev v)); cbn [flat_map fst snd andb].
      + rewrite app_nil_r. apply (eval_bound b' Cb (bind b x v) v ywf (lookup_bind_self b v)).
      + destruct ywf; reflexivity.
    - apply andb_prop in C as [Ca Cb]. cbn [EvalPure.eval Spec.isat]. rewrite (IHa Ca b true L).
      destruct (dom x) as [|v0 d] eqn:D.
      + cbn [flat_map]. rewrite (IHb Cb b ywf L). rewrite ?D. reflexivity.
      + rewrite <- D.
        assert (NE : flat_map (fun v => out (bind b x v) (isat a (ev v)) true) (dom x) <> []).
        { rewrite D. cbn [flat_map]. unfold out. destruct (isat a (ev v0)); discriminate. }
        destruct (flat_map (fun v => out (bind b x v) (isat a (ev v)) true) (dom x)) as [|p0 ls] eqn:E; [congruence|].
        rewrite <- E. clear E NE p0 ls.
        apply flat_map_out_comp. intros v. unfold out at 1.
        destruct (isat a (ev v)); cbn [flat_map fst snd orb].
        * reflexivity.
        * rewrite app_nil_r. apply (eval_bound b' Cb (bind b x v) v ywf (lookup_bind_self b v)).
    - apply andb_prop in C as [Cs Cc]. rewrite eval_sub_eq. cbn [Spec.isat]. rewrite (IH Cc b ywf L).
      apply flat_map_out_comp. intros v. unfold out.
      destruct (isat c (ev v)); [|destruct ywf]; cbn [flat_map fst snd];
        rewrite ?(bind_sel_bound sel (bind b x v) v Cs (lookup_bind_self b v)); reflexivity.
  Qed.

  (* C01: exact, ordered domain filter — equality of LISTS *)
  Theorem one_var_filter c : c1 c = true ->
    run_query h dom [TVar x] (Some c) = map (fun v => [v]) (filter (fun v => isat c (ev v)) (dom x)).
  Proof.
    intros C. unfold run_query. rewrite (eval_unbound c C [] false eq_refl).
    induction (dom x) as [|v d IH]; cbn [flat_map filter map]; [reflexivity|].
    rewrite filter_app, map_app, flat_map_app, IH. unfold out.
    destruct (isat c (ev v)); cbn [filter map flat_map snd fst negb app]; [|reflexivity].
    cbn [bind_selected EvalPure.eval_term]. rewrite lookup_bind_self. cbn [flat_map fst app map].
    unfold row_of. cbn [map EvalPure.eval_term]. rewrite lookup_bind_self. reflexivity.
  Qed.

  (* no condition at all: the whole domain, in order *)
  Theorem one_var_all : run_query h dom [TVar x] None = map (fun v => [v]) (dom x).
  Proof.
    unfold run_query. cbn [flat_map]. rewrite app_nil_r. cbn [bind_selected EvalPure.eval_term lookup].
    induction (dom x) as [|v d IH]; [reflexivity|]. cbn [map flat_map fst app]. f_equal; [|exact IH].
    unfold row_of. cbn [map EvalPure.eval_term]. rewrite lookup_bind_self. reflexivity.
  Qed.

  (* a selected attribute / index / call expression is delivered with its value, whatever that value is *)
  Theorem select_expression m c : c1 c = true ->
    run_query h dom [TVar x; TMap m (TVar x)] (Some c)
    = map (fun v => [v; apply_map h m v]) (filter (fun v => isat c (ev v)) (dom x)).
  Proof.
    intros C. unfold run_query. rewrite (eval_unbound c C [] false eq_refl).
    induction (dom x) as [|v d IH]; cbn [flat_map filter map]; [reflexivity|].
    rewrite filter_app, map_app, flat_map_app, IH. unfold out.
    destruct (isat c (ev v)); cbn [filter map flat_map snd fst negb app]; [|reflexivity].
    cbn [bind_selected EvalPure.eval_term]. rewrite lookup_bind_self. cbn [flat_map fst app map].
    rewrite lookup_bind_self. cbn [flat_map fst app map].
    unfold row_of. cbn [map EvalPure.eval_term]. rewrite lookup_bind_self. reflexivity.
  Qed.
End One.
