(* PredForm.v — the predicate form  T(From(d), a1 … ak, f=v …)  (predicate.py: symbolic_new,
   update_domain_and_kwargs_from_args, extract_selected_variable_and_expression; symbolic.py:
   properties_to_expression_tree) and the explicit form  x := let(T, d);  x.f == v …  it abbreviates.
   The index arithmetic that maps a positional argument to a constructor field is NOT written here:
   it is [Generated.positional_field], regenerated from predicate.py on every run.  No proofs here. *)
From EQL Require Import Base Values Syntax Spec Generated Elab EvalPure.

(* ---- classes: a single-inheritance forest; isinstance(o, T) ---- *)
Definition cid := nat.
Definition ctable := list (option cid).          (* parent of every class *)

Fixpoint subclass_fuel (n : nat) (ct : ctable) (c T : cid) : bool :=
  Nat.eqb c T ||
  match n with
  | 0 => false
  | S n' => match nth c ct None with Some p => subclass_fuel n' ct p T | None => false end
  end.
Definition subclass (ct : ctable) (c T : cid) : bool := subclass_fuel (length ct) ct c T.

(* [cls_of] gives the class of every heap object *)
Definition instance_of (ct : ctable) (cls_of : list cid) (T : cid) (v : val) : bool :=
  match v with
  | VA (AObj o) => match nth_error cls_of o with Some c => subclass ct c T | None => false end
  | _ => false
  end.

(* extract_selected_variable_and_expression: filter(lambda v: isinstance(v, symbolic_cls), domain) *)
Definition type_filter (ct : ctable) (cls_of : list cid) (T : cid) (d : list val) : list val :=
  filter (instance_of ct cls_of T) d.

(* ---- predicate-form terms ----
   PT x T d args : the term T(From(d), args) whose variable is x.  Arguments in the order written:
   positional ones (APos) and keyword ones (AKw f: the f-th field of T's signature, self excluded).
   A value is a constant, an expression over variables declared elsewhere, or a nested term. *)
Inductive pterm := PT (x : key) (T : cid) (d : list val) (a : pargs)
with pargs := ANil | APos (v : pval) (rest : pargs) | AKw (f : nat) (v : pval) (rest : pargs)
with pval := PConst (v : val) | PRef (t : term) | PNest (p : pterm).

(* what update_domain_and_kwargs_from_args does with the positional arguments: the argument at position
   [pos] among ALL positional arguments (From(d) sits at position 0) constrains the field
   [positional_field true pos] *)
Fixpoint explicit (p : pterm) : pterm :=
  match p with PT x T d a => PT x T d (explicit_args 1 a) end
with explicit_args (pos : nat) (a : pargs) : pargs :=
  match a with
  | ANil => ANil
  | APos v r => AKw (positional_field true pos) (explicit_val v) (explicit_args (S pos) r)
  | AKw f v r => AKw f (explicit_val v) (explicit_args pos r)
  end
with explicit_val (v : pval) : pval :=
  match v with PNest p => PNest (explicit p) | other => other end.

(* what the property says it should mean: the k-th positional argument after the domain constrains the k-th field *)
Fixpoint intended (p : pterm) : pterm :=
  match p with PT x T d a => PT x T d (intended_args 0 a) end
with intended_args (k : nat) (a : pargs) : pargs :=
  match a with
  | ANil => ANil
  | APos v r => AKw k (intended_val v) (intended_args (S k) r)
  | AKw f v r => AKw f (intended_val v) (intended_args k r)
  end
with intended_val (v : pval) : pval :=
  match v with PNest p => PNest (intended p) | other => other end.

Definition pvar (p : pterm) : key := match p with PT x _ _ _ => x end.
Definition value_term (v : pval) : term :=
  match v with PConst c => TLit c | PRef t => t | PNest p => TVar (pvar p) end.

(* the variables a term declares, with class and raw domain (own variable first) *)
Fixpoint binders_of (p : pterm) : list (key * (cid * list val)) :=
  match p with PT x T d a => (x, (T, d)) :: binders_args a end
with binders_args (a : pargs) : list (key * (cid * list val)) :=
  match a with
  | ANil => []
  | APos v r | AKw _ v r => binders_val v ++ binders_args r
  end
with binders_val (v : pval) : list (key * (cid * list val)) :=
  match v with PNest p => binders_of p | _ => [] end.

(* properties_to_expression_tree: one equality per constrained field; a nested term contributes its own
   equalities (C15: a quantifier used as an operand restricts the operand to the sub-query's solutions).
   Only meaningful on keyword-only terms (after [explicit] / [intended]); a positional argument that
   survived is given the impossible field 1000 so that nothing is silently dropped. *)
Fixpoint conds_of (p : pterm) : list scond :=
  match p with PT x _ _ a => conds_args x a end
with conds_args (x : key) (a : pargs) : list scond :=
  match a with
  | ANil => []
  | APos v r => SCmp Eq (TMap (MField 1000) (TVar x)) (value_term v) :: conds_val v ++ conds_args x r
  | AKw f v r => SCmp Eq (TMap (MField f) (TVar x)) (value_term v) :: conds_val v ++ conds_args x r
  end
with conds_val (v : pval) : list scond :=
  match v with PNest p => conds_of p | _ => [] end.

(* and_(c1, …, cn): left fold, as chained_logic *)
Definition conj (cs : list scond) : option scond :=
  match cs with [] => None | c :: cs' => Some (chain SAnd c cs') end.

(* ---- a query made of predicate-form terms ---- *)
Record pcase := {
  pc_heap : heap;
  pc_cls : list cid;                 (* class of every heap object *)
  pc_ct : ctable;
  pc_terms : list pterm;             (* the top-level terms, in the order they are written *)
  pc_extra : list scond;             (* further conditions passed to the descriptor *)
  pc_sel : list key                  (* selected variables *)
}.

Definition all_binders (ts : list pterm) : list (key * (cid * list val)) := flat_map binders_of ts.
Definition pdoms (c : pcase) (ts : list pterm) : list (key * list val) :=
  map (fun b => (fst b, type_filter (pc_ct c) (pc_cls c) (fst (snd b)) (snd (snd b)))) (all_binders ts).
Definition pdom (c : pcase) (ts : list pterm) : key -> list val :=
  fun k => match aget (pdoms c ts) k with Some l => l | None => [] end.
Definition pcond (ts : list pterm) (extra : list scond) : option scond := conj (flat_map conds_of ts ++ extra).

Open Scope string_scope.
Definition show_row (r : list val) : string := String.concat "," (map show_val r).
Definition show_rows (rs : list (list val)) : string := String.concat ";" (map show_row rs).

(* model: the P-model on what the implementation builds (positional arguments through Generated.positional_field);
   specification: the brute-force filter of the product of the type-filtered domains by the INTENDED reading *)
Definition run_pcase (n : nat) (c : pcase) : string :=
  let ts := map explicit (pc_terms c) in
  let ti := map intended (pc_terms c) in
  let sel := map TVar (pc_sel c) in
  let model :=
    match pcond ts (pc_extra c) with
    | None => "R " ++ show_rows (run_query (pc_heap c) (pdom c ts) sel None)
    | Some sc => match elab sc with
                 | Some ic => "R " ++ show_rows (run_query (pc_heap c) (pdom c ts) sel (Some ic))
                 | None => "X elab"
                 end
    end in
  let spec := show_rows (spec_rows (pc_heap c) (pdom c ti) (map (fun b => BVar (fst b)) (all_binders ti)) sel
                                   (pcond ti (pc_extra c))) in
  "CASE " ++ show_nat n ++ " M " ++ model ++ " S R " ++ spec.
Close Scope string_scope.
