(* PredForm_Facts.v — lemmas about the predicate form (C13). *)
From EQL Require Import Base Values Syntax Spec Generated Elab Elab_Facts EvalPure EvalPure_Facts Query_Facts Elab_Frag PredForm.

(* ---------- the index arithmetic extracted from predicate.py ---------- *)
Lemma positional_after_domain k : positional_field true (S k) = k.
Proof. unfold positional_field. cbn. lia. Qed.

Lemma positional_without_domain k : positional_field false k = k.
Proof. reflexivity. Qed.

Scheme pterm_mind := Induction for pterm Sort Prop
  with pargs_mind := Induction for pargs Sort Prop
  with pval_mind := Induction for pval Sort Prop.
Combined Scheme pterm_mutind from pterm_mind, pargs_mind, pval_mind.

(* what the implementation builds from the positional arguments is what the property intends *)
Lemma explicit_intended_all :
  (forall p, explicit p = intended p) /\
  (forall a k, explicit_args (S k) a = intended_args k a) /\
  (forall v, explicit_val v = intended_val v).
Proof.
  apply pterm_mutind.
  - intros x T d a IH. cbn [explicit intended]. now rewrite IH.
  - reflexivity.
  - intros v IHv r IHr k. cbn [explicit_args intended_args]. now rewrite positional_after_domain, IHv, IHr.
  - intros f v IHv r IHr k. cbn [explicit_args intended_args]. now rewrite IHv, IHr.
  - reflexivity.
  - reflexivity.
  - intros p IH. cbn [explicit_val intended_val]. now rewrite IH.
Qed.

Lemma explicit_intended p : explicit p = intended p.
Proof. apply explicit_intended_all. Qed.

Lemma map_explicit_intended ts : map explicit ts = map intended ts.
Proof. apply map_ext. exact explicit_intended. Qed.

(* ---------- what the built conjunction means ---------- *)
Section Meaning.
  Variable h : heap.
  Variable dom : key -> list val.

  (* the reading the property gives: every given field of every (nested) term equals the given value,
     the k-th positional argument being the k-th field *)
  Fixpoint holds (e : env) (p : pterm) : bool :=
    match p with PT x _ _ a => holds_args e x 0 a end
  with holds_args (e : env) (x : key) (k : nat) (a : pargs) : bool :=
    match a with
    | ANil => true
    | APos v r => veqb (apply_map h (MField k) (e x)) (tval h (value_term v) e) && holds_val e v && holds_args e x (S k) r
    | AKw f v r => veqb (apply_map h (MField f) (e x)) (tval h (value_term v) e) && holds_val e v && holds_args e x k r
    end
  with holds_val (e : env) (v : pval) : bool :=
    match v with PNest p => holds e p | _ => true end.

  Lemma value_term_intended v : value_term (intended_val v) = value_term v.
  Proof. destruct v as [c|t|[x T d a]]; reflexivity. Qed.

  Lemma conds_meaning_all e :
    (forall p, forallb (fun c => sat h dom c e) (conds_of (intended p)) = holds e p) /\
    (forall a x k, forallb (fun c => sat h dom c e) (conds_args x (intended_args k a)) = holds_args e x k a) /\
    (forall v, forallb (fun c => sat h dom c e) (conds_val (intended_val v)) = holds_val e v).
  Proof.
    apply pterm_mutind.
    - intros x T d a IH. cbn [intended conds_of holds]. apply IH.
    - reflexivity.
    - intros v IHv r IHr x k. cbn [intended_args conds_args holds_args forallb]. rewrite forallb_app, IHv, IHr.
      cbn [sat tval]. rewrite value_term_intended. now rewrite andb_assoc.
    - intros f v IHv r IHr x k. cbn [intended_args conds_args holds_args forallb]. rewrite forallb_app, IHv, IHr.
      cbn [sat tval]. rewrite value_term_intended. now rewrite andb_assoc.
    - reflexivity.
    - reflexivity.
    - intros p IH. cbn [intended_val conds_val holds_val]. apply IH.
  Qed.

  Lemma sat_chain cs : forall c e, sat h dom (chain SAnd c cs) e = sat h dom c e && forallb (fun c' => sat h dom c' e) cs.
  Proof.
    induction cs as [|c' cs IH]; intros c e; cbn [chain forallb]; [now rewrite andb_true_r|].
    rewrite IH. cbn [sat]. now rewrite andb_assoc.
  Qed.

  Lemma sat_conj cs sc e : conj cs = Some sc -> sat h dom sc e = forallb (fun c => sat h dom c e) cs.
  Proof. destruct cs as [|c cs]; cbn [conj]; intros H; [discriminate|]. injection H as <-. apply sat_chain. Qed.

  Lemma forallb_flat_map {A B} (f : B -> bool) (g : A -> list B) l :
    forallb f (flat_map g l) = forallb (fun a => forallb f (g a)) l.
  Proof. induction l as [|a l IH]; cbn [flat_map forallb]; [reflexivity|]. now rewrite forallb_app, IH. Qed.

  Theorem pcond_meaning ts extra sc e : pcond (map intended ts) extra = Some sc ->
    sat h dom sc e = forallb (holds e) ts && forallb (fun c => sat h dom c e) extra.
  Proof.
    unfold pcond. intros H. rewrite (sat_conj _ _ e H), forallb_app, forallb_flat_map. f_equal. clear H.
    induction ts as [|p ts IH]; cbn [map forallb]; [reflexivity|]. rewrite IH. f_equal. apply conds_meaning_all.
  Qed.
End Meaning.

(* ---------- isinstance ---------- *)
Inductive Sub (ct : ctable) : cid -> cid -> Prop :=
| Sub_refl c : Sub ct c c
| Sub_step c p T : nth c ct None = Some p -> Sub ct p T -> Sub ct c T.

Definition wf_ctable (ct : ctable) : Prop := forall c p, nth c ct None = Some p -> p < c.

Lemma subclass_fuel_sound ct n : forall c T, subclass_fuel n ct c T = true -> Sub ct c T.
Proof.
  induction n as [|n IH]; intros c T; cbn [subclass_fuel].
  - rewrite orb_false_r. intros E. apply Nat.eqb_eq in E. subst. constructor.
  - destruct (Nat.eqb c T) eqn:E; [intros _; apply Nat.eqb_eq in E; subst; constructor|]. cbn [orb].
    destruct (nth c ct None) as [p|] eqn:P; [|discriminate]. intros H. eapply Sub_step; [exact P | now apply IH].
Qed.

Lemma subclass_fuel_complete ct : wf_ctable ct -> forall c T, Sub ct c T -> forall n, c < n -> subclass_fuel n ct c T = true.
Proof.
  intros W c T S. induction S as [c|c p T P S IH]; intros n L.
  - destruct n; cbn [subclass_fuel]; now rewrite Nat.eqb_refl.
  - destruct n as [|n]; [lia|]. cbn [subclass_fuel]. rewrite P. rewrite (IH n); [apply orb_true_r|]. specialize (W c p P). lia.
Qed.

Theorem subclass_spec ct c T : wf_ctable ct -> (subclass ct c T = true <-> Sub ct c T).
Proof.
  intros W. split; [apply subclass_fuel_sound|]. intros S. unfold subclass.
  destruct (Nat.lt_ge_cases c (length ct)) as [L|G]; [now apply subclass_fuel_complete|].
  inversion S as [|c' p T' P _]; subst.
  - destruct (length ct); cbn [subclass_fuel]; now rewrite Nat.eqb_refl.
  - rewrite nth_overflow in P; [discriminate | exact G].
Qed.

Lemma type_filter_In ct cls T d v : In v (type_filter ct cls T d) <-> In v d /\ instance_of ct cls T v = true.
Proof. apply filter_In. Qed.

Lemma type_filter_NoDup ct cls T d : NoDup d -> NoDup (type_filter ct cls T d).
Proof. apply NoDup_filter. Qed.

(* the filter keeps the order of the supplied domain: it is a sub-list *)
Lemma type_filter_order ct cls T d1 d2 :
  type_filter ct cls T (d1 ++ d2) = type_filter ct cls T d1 ++ type_filter ct cls T d2.
Proof. apply filter_app. Qed.

(* ---------- rows: the C02 evaluator theorems on the type-filtered domains ---------- *)
Section Rows.
  Variable c : pcase.
  Let ts := map explicit (pc_terms c).
  Let dom := pdom c ts.
  Let h := pc_heap c.

  Theorem pred_rows_complete U sc ic e :
    (forall x, In x U -> NoDup (dom x)) -> pcond ts (pc_extra c) = Some sc -> sbasic U sc = true -> elab sc = Some ic ->
    (forall x, In x (pc_sel c) -> In x U) -> valid dom U e ->
    forallb (holds h e) (pc_terms c) && forallb (fun c' => sat h dom c' e) (pc_extra c) = true ->
    In (map e (pc_sel c)) (run_query h dom (map TVar (pc_sel c)) (Some ic)).
  Proof.
    intros ND PC SB EL HU V HH.
    apply (selection_complete h dom U ND (pc_sel c) ic e (elab_basic U sc ic EL SB) HU V).
    rewrite (elab_sat h dom sc ic EL e).
    subst ts. rewrite map_explicit_intended in PC. now rewrite (pcond_meaning h dom _ _ sc e PC).
  Qed.

  Theorem pred_rows_sound U sc ic r :
    (forall x, In x U -> NoDup (dom x)) -> pcond ts (pc_extra c) = Some sc -> sbasic U sc = true -> elab sc = Some ic ->
    (forall x, In x (pc_sel c) -> In x U) -> (forall x, In x U -> dom x <> []) ->
    In r (run_query h dom (map TVar (pc_sel c)) (Some ic)) ->
    exists e, valid dom U e /\ r = map e (pc_sel c) /\
              forallb (holds h e) (pc_terms c) && forallb (fun c' => sat h dom c' e) (pc_extra c) = true.
  Proof.
    intros ND PC SB EL HU NE H.
    destruct (selection_sound h dom U ND (pc_sel c) ic r (elab_basic U sc ic EL SB) HU NE H) as (e & V & T & R).
    exists e. split; [exact V|]. split; [exact R|].
    rewrite (elab_sat h dom sc ic EL e) in T.
    subst ts. rewrite map_explicit_intended in PC. now rewrite <- (pcond_meaning h dom _ _ sc e PC).
  Qed.
End Rows.
