(* Property C01 — a single-variable query is an exact, ordered, duplicate-free domain filter.
   Only statements, `exact`, and Print Assumptions. *)
From EQL Require Import Base Values Syntax Spec Generated Elab Elab_Facts EvalPure EvalPure_Facts OneVar_Facts Elab_Frag Lazy Lazy_Facts Dedup Dedup_Facts.

(* For EVERY heap, EVERY domain, EVERY condition the user can write over the one variable x (any nesting of and_/or_/not_
   over the six comparisons written either way round, in_/contains, attribute chains, indexes, method calls and expressions
   in condition position; nested sub-queries as conditions): the rows the evaluator delivers are, as a LIST, the domain
   filtered by ordinary truth of the condition — membership, order and multiplicity at once.  No bound on tree depth or
   domain size.  (NoDup is the property's own premise; the P-model does not need it, the code's lazy domain does.) *)
Theorem C01_filter : forall h dom x sc ic,
  NoDup (dom x) -> s1 x sc = true -> elab sc = Some ic ->
  run_query h dom [TVar x] (Some ic) = map (fun v => [v]) (filter (fun v => sat h dom sc (ev x v)) (dom x)).
Proof.
  intros h dom x sc ic _ S E. rewrite (one_var_filter h dom x ic (elab_c1 x sc ic E S)).
  f_equal. apply filter_ext. intros v. exact (elab_sat h dom sc ic E (ev x v)).
Qed.
Print Assumptions C01_filter.

(* the same WITH the de-duplication of rows in place (Dedup.v: the evaluator with the seen sets of `_is_duplicate_output_`; tied to
   symbolic.py by exact row sequences): over one selected variable nothing is ever dropped, the rows are the ordered filter *)
Theorem C01_filter_dedup : forall h dom x sc ic,
  NoDup (dom x) -> dom x <> [] -> s1 x sc = true -> sbasic [x] sc = true -> elab sc = Some ic ->
  run_queryD h dom [TVar x] (Some ic) = map (fun v => [v]) (filter (fun v => sat h dom sc (ev x v)) (dom x)).
Proof.
  intros h dom x sc ic N NE S SB E.
  rewrite (all_selected_no_dedup h dom [x]); [apply C01_filter; assumption | | | exact (elab_basic [x] sc ic E SB) |].
  - intros y [<-|[]]. exact N.
  - intros y [<-|[]]. exact NE.
  - intros y [<-|[]]. cbn. now left.
Qed.
Print Assumptions C01_filter_dedup.

(* everything writable in that vocabulary elaborates (the hypothesis `elab sc = Some ic` is never the obstacle) *)
Theorem C01_elab_total : forall sc, writable sc = true -> exists ic, elab sc = Some ic.
Proof. exact elab_writable. Qed.
Print Assumptions C01_elab_total.

(* no condition: the whole domain in order *)
Theorem C01_no_condition : forall h dom x, run_query h dom [TVar x] None = map (fun v => [v]) (dom x).
Proof. exact one_var_all. Qed.
Print Assumptions C01_no_condition.

(* the same over the LAZILY CONSUMED, memoised domain (Lazy.v: the model of HashedIterable), after any history of full, abandoned
   and aborted evaluations of any queries over the variable: the objects of the supplied sequence d (distinct objects) that
   qualify, in the order supplied, each once *)
Theorem C01_over_lazy_domain : forall pool ops q d, NoDup d -> fst (full q (lafter pool (fresh d) ops)) = filter q d.
Proof.
  intros pool ops q d N. rewrite history_independent, full_rows. unfold content, fresh. cbn [mat rem app].
  now rewrite (fresh_of_nodup d [] N).
Qed.
Print Assumptions C01_over_lazy_domain.

(* non-vacuity: a concrete heap, a five-object domain and a condition with nested negation, a literal on the left,
   membership and an expression in condition position meet the hypotheses; two of five objects qualify, in domain order *)
Example C01_nonvacuous :
  let h := [[VInt 1; VA (ABool true); VTup [AInt 1]]; [VInt 2; VA (ABool false); VTup []];
            [VInt 3; VA (ABool false); VTup [AInt 3; AInt 0]]; [VInt 0; VA (ABool true); VTup [AInt 2]];
            [VInt 3; VA (ABool true); VTup []]] in
  let dom := fun k : key => if Nat.eqb k 1 then [VObj 4; VObj 0; VObj 2; VObj 1; VObj 3] else [] in
  let a := TMap (MField 0) (TVar 1) in
  let sc := SNot (SOr (SNot (SOr (SCmp Lt (TLit (VInt 2)) a) (SIn a (TMap (MField 2) (TVar 1)))))
                      (SAnd (STruth (TMap (MField 1) (TVar 1))) (SNot (SNot (SCmp Eq a (TLit (VInt 3))))))) in
  s1 1 sc = true /\ writable sc = true /\
  exists ic, elab sc = Some ic /\ run_query h dom [TVar 1] (Some ic) = [[VObj 0]; [VObj 2]].
Proof. cbv zeta. split; [reflexivity|]. split; [reflexivity|]. eexists. split; [vm_compute; reflexivity | vm_compute; reflexivity]. Qed.
