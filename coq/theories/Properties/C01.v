From EQL Require Import Base.
Theorem C01_placeholder : True. Proof. exact I. Qed.
