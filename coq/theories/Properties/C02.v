(* Property C02 — a multi-variable query returns exactly the satisfying assignments.
   Only statements, `exact`, and Print Assumptions. *)
From EQL Require Import Base Values Syntax Spec Generated Elab Elab_Facts EvalPure EvalPure_Facts Query_Facts Elab_Frag Infer_Facts Dedup Dedup_Facts.

(* U = the variables of the query (any number), each with a duplicate-free domain; sc = any condition the user can write
   over them (mentioning any subset, self-joins, chained attributes, nested sub-queries as conditions, negation at any depth);
   `valid e` = e assigns every variable of U a member of its domain, i.e. e is an element of the Cartesian product. *)

(* every variable selected: every satisfying assignment of the product is returned EXACTLY ONCE, every other assignment
   NEVER (so the row count is the number of satisfying assignments) *)
Theorem C02_all_selected : forall h dom U sc ic e,
  (forall x, In x U -> NoDup (dom x)) -> sbasic U sc = true -> elab sc = Some ic -> valid dom U e ->
  count_row (map e U) (run_query h dom (map TVar U) (Some ic)) = if sat h dom sc e then 1 else 0.
Proof.
  intros h dom U sc ic e ND S E V. rewrite (all_selected_count h dom U ND ic e (elab_basic U sc ic E S) V).
  rewrite (elab_sat h dom sc ic E e). reflexivity.
Qed.
Print Assumptions C02_all_selected.

(* any selection xs of the variables, in any order: the projection of every satisfying assignment is returned ... *)
Theorem C02_complete : forall h dom U xs sc ic e,
  (forall x, In x U -> NoDup (dom x)) -> sbasic U sc = true -> elab sc = Some ic -> (forall x, In x xs -> In x U) ->
  valid dom U e -> sat h dom sc e = true ->
  In (map e xs) (run_query h dom (map TVar xs) (Some ic)).
Proof.
  intros h dom U xs sc ic e ND S E HU V T. apply (selection_complete h dom U ND xs ic e (elab_basic U sc ic E S) HU V).
  now rewrite (elab_sat h dom sc ic E e).
Qed.
Print Assumptions C02_complete.

(* ... and nothing else is: every returned row is the projection of a satisfying assignment of the whole product
   (the product must be non-empty in every component: with an empty domain the product is empty) *)
Theorem C02_sound : forall h dom U xs sc ic r,
  (forall x, In x U -> NoDup (dom x)) -> sbasic U sc = true -> elab sc = Some ic -> (forall x, In x xs -> In x U) ->
  (forall x, In x U -> dom x <> []) ->
  In r (run_query h dom (map TVar xs) (Some ic)) ->
  exists e, valid dom U e /\ sat h dom sc e = true /\ r = map e xs.
Proof.
  intros h dom U xs sc ic r ND S E HU NE H.
  destruct (selection_sound h dom U ND xs ic r (elab_basic U sc ic E S) HU NE H) as (e & V & T & R).
  exists e. split; [exact V|]. split; [|exact R]. now rewrite <- (elab_sat h dom sc ic E e).
Qed.
Print Assumptions C02_sound.

(* selected EXPRESSIONS (attribute chains, indexes, calls, constants next to variables, in any order): every row maps every
   selected expression to the value it has under the assignment the row was produced from; that assignment gives every variable
   the selection mentions a member of its domain *)
Theorem C02_row_values : forall h dom U sel sc ic b e,
  (forall x, In x U -> NoDup (dom x)) -> sbasic U sc = true -> elab sc = Some ic -> forallb (tclosed U) sel = true ->
  In b (final h dom sel ic) -> agreesb U b e = true -> valid dom U e ->
  row_of h dom sel b = map (fun t => tval h t e) sel.
Proof.
  intros h dom U sel sc ic b e ND S E C Hb A V. exact (fields_of_instance h dom U ND sel ic b e (elab_basic U sc ic E S) C Hb A V).
Qed.
Print Assumptions C02_row_values.

(* the invariant behind them (DESIGN.md 3.5): the true rows of every node PARTITION the satisfying extensions of the
   incoming binding, the false rows (when requested) partition the others *)
Theorem C02_partition : forall h dom U,
  (forall x, In x U -> NoDup (dom x)) -> forall c, basic U c = true -> forall b ywf e, agreesb U b e = true -> valid dom U e ->
  cover U false (eval h dom c b ywf) e = ind (isat h dom c e) /\
  cover U true (eval h dom c b ywf) e = ind (ywf && negb (isat h dom c e)).
Proof. exact eval_cover. Qed.
Print Assumptions C02_partition.

(* ---- the same two statements WITH the de-duplication of rows in place (Dedup.v: the per-operator seen sets of
   `_is_duplicate_output_`, keyed on the variables `_required_variables_from_child_` reports; run_queryD is tied to symbolic.py by
   exact row SEQUENCES of projections).  An operator may drop a row only if what it drops is still delivered: ---- *)
Theorem C02_dedup_complete : forall h dom U xs sc ic e,
  (forall x, In x U -> NoDup (dom x)) -> sbasic U sc = true -> elab sc = Some ic -> (forall x, In x xs -> In x U) ->
  valid dom U e -> sat h dom sc e = true ->
  In (map e xs) (run_queryD h dom (map TVar xs) (Some ic)).
Proof.
  intros h dom U xs sc ic e ND S E HU V T. apply (dedup_complete h dom U ND xs ic e (elab_basic U sc ic E S) HU V).
  now rewrite (elab_sat h dom sc ic E e).
Qed.
Print Assumptions C02_dedup_complete.

Theorem C02_dedup_sound : forall h dom U xs sc ic r,
  (forall x, In x U -> NoDup (dom x)) -> sbasic U sc = true -> elab sc = Some ic -> (forall x, In x xs -> In x U) ->
  (forall x, In x U -> dom x <> []) ->
  In r (run_queryD h dom (map TVar xs) (Some ic)) ->
  exists e, valid dom U e /\ sat h dom sc e = true /\ r = map e xs.
Proof.
  intros h dom U xs sc ic r ND S E HU NE H.
  destruct (dedup_sound h dom U ND xs ic r (elab_basic U sc ic E S) HU NE H) as (e & V & T & R).
  exists e. split; [exact V|]. split; [|exact R]. now rewrite <- (elab_sat h dom sc ic E e).
Qed.
Print Assumptions C02_dedup_sound.

(* every variable selected, WITH the de-duplication in place: nothing is ever dropped - the de-duplicating evaluator returns the
   P-model's rows, in the same order (the rows a node emits are pairwise disjoint, and with every variable required a recorded
   row can only swallow a row that extends it); so every satisfying assignment is returned exactly once *)
Theorem C02_all_selected_no_dedup : forall h dom U,
  (forall x, In x U -> NoDup (dom x)) -> (forall x, In x U -> dom x <> []) -> forall sel c, basic U c = true -> incl U (req_top sel) ->
  run_queryD h dom sel (Some c) = run_query h dom sel (Some c).
Proof. exact all_selected_no_dedup. Qed.
Print Assumptions C02_all_selected_no_dedup.

Theorem C02_all_selected_dedup : forall h dom U sc ic e,
  (forall x, In x U -> NoDup (dom x)) -> (forall x, In x U -> dom x <> []) -> sbasic U sc = true -> elab sc = Some ic -> valid dom U e ->
  count_row (map e U) (run_queryD h dom (map TVar U) (Some ic)) = if sat h dom sc e then 1 else 0.
Proof.
  intros h dom U sc ic e ND NE S E V.
  rewrite (all_selected_no_dedup h dom U ND NE (map TVar U) ic (elab_basic U sc ic E S) (req_top_vars U)).
  rewrite (all_selected_count h dom U ND ic e (elab_basic U sc ic E S) V), (elab_sat h dom sc ic E e). reflexivity.
Qed.
Print Assumptions C02_all_selected_dedup.

(* the invariant behind them: over ALL activations of a node in one evaluation, whatever an activation should serve is covered by
   an emitted row with the same truth value that agrees with it on the variables the node's parent requires *)
Theorem C02_dedup_cover : forall h dom U,
  (forall x, In x U -> NoDup (dom x)) -> forall c, basic U c = true -> forall k bs ywf, Forall (in_dom dom) bs ->
  forall b e f, In b bs -> target h dom U c ywf b e f -> covered dom U k (fst (evalDs h dom c k bs ywf DL)) e f.
Proof. exact evalDs_cover. Qed.
Print Assumptions C02_dedup_cover.

(* what the proof needs of BinaryOperator / OR `._required_variables_from_child_` as extracted from the source on this run:
   in particular a TRUE left operand of a conjunction asks the parent what it requires in EITHER case (the conjunction may still
   come out false and be handed to the other branch of an enclosing disjunction) *)
Theorem C02_required_variables :
  (forall t, and_adds_right true t = true) /\ and_parent_arg true (Some true) = None /\
  and_parent_arg true (Some false) = Some false /\ (forall t, and_parent_arg false t = t) /\
  or_parent_arg true (Some true) = Some true /\ or_adds_right true (Some false) = true /\
  or_parent_arg true (Some false) = None /\ (forall t, or_parent_arg false t = t) /\
  and_parent_arg true None = None /\ or_parent_arg true None = None /\ or_adds_right true None = true.
Proof. exact req_tables. Qed.
Print Assumptions C02_required_variables.

(* the duplicate check of the D-model is `_is_duplicate_output_` over the line-by-line model of `SeenSet` (both bodies are pinned by the
   translator on every run, and so are the two places AND / ElseIf apply the check at), as long as `all_seen` is off - and it stays off: the set is never asked about an empty assignment *)
Theorem C02_duplicate_check_is_seenset : forall R s b, ss_all s = false ->
  is_duplicate R s b = (fst (dup_check R (ss_seen s) b), {| ss_seen := snd (dup_check R (ss_seen s) b); ss_all := false |}) /\
  dedup_site_as_modelled = true /\ (and_dedup_site = SiteFalseLeft /\ else_dedup_site = SiteRightTrue) /\
  comparator_right_first_iff_bound = true.
Proof.
  intros R s b A. split; [exact (is_duplicate_dup_check R s b A) | split; [exact dedup_site_pinned | split; [exact dedup_sites_as_modelled | exact operand_order_as_modelled]]].
Qed.
Print Assumptions C02_duplicate_check_is_seenset.

(* non-vacuity of the de-duplication: or_(x.a == 5, x.a < y.a) selecting x: two assignments share the projection, the second row of
   the disjunction's right side is dropped as a duplicate - the P-model returns the object twice, the D-model (and symbolic.py) once *)
Example C02_dedup_fires :
  let h := [[VInt 1]; [VInt 2]; [VInt 3]] in
  let dom := fun k : key => match k with 1 => [VObj 0] | 2 => [VObj 1; VObj 2] | _ => [] end in
  let a t := TMap (MField 0) t in
  let sc := SOr (SCmp Eq (a (TVar 1)) (TLit (VInt 5))) (SCmp Lt (a (TVar 1)) (a (TVar 2))) in
  sbasic [1; 2] sc = true /\
  exists ic, elab sc = Some ic /\ run_query h dom [TVar 1] (Some ic) = [[VObj 0]; [VObj 0]] /\ run_queryD h dom [TVar 1] (Some ic) = [[VObj 0]].
Proof. cbv zeta. split; [reflexivity|]. eexists. split; [vm_compute; reflexivity|]. split; vm_compute; reflexivity. Qed.

(* non-vacuity: three variables, a self-join on a chained attribute, a disjunction whose branches mention different variables,
   one variable mentioned nowhere in the condition; 8 of 18 assignments qualify *)
Example C02_nonvacuous :
  let h := [[VInt 1; VObj 1]; [VInt 2; VObj 0]; [VInt 3; VObj 2]] in
  let dom := fun k : key => match k with 1 => [VObj 0; VObj 1; VObj 2] | 2 => [VObj 2; VObj 0] | 3 => [VObj 1; VObj 2] | _ => [] end in
  let a t := TMap (MField 0) t in
  let sc := SOr (SCmp Lt (a (TMap (MField 1) (TVar 1))) (a (TVar 2))) (SNot (SCmp Ne (a (TVar 1)) (TLit (VInt 3)))) in
  let U := [3; 1; 2] in
  sbasic U sc = true /\
  exists ic, elab sc = Some ic /\ length (run_query h dom (map TVar U) (Some ic)) = 8.
Proof. cbv zeta. split; [reflexivity|]. eexists. split; vm_compute; reflexivity. Qed.
