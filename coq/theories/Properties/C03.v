(* Property C03 — negation returns the exact complement, at any nesting depth.
   Only statements, `exact`, and Print Assumptions.  Everything below is proved over Generated.v
   (regenerated from /repo on every run) and Elab.v. *)
From EQL Require Import Base Values Syntax Spec Generated Elab Elab_Facts.

(* every comparison / membership operator has an inverse in the table extracted from the code ... *)
Theorem C03_inverse_total : forall o, exists o', inverse_op o = Some o'.
Proof. exact inverse_total. Qed.
Print Assumptions C03_inverse_total.

(* ... which is its TRUE inverse on every pair of operands ... *)
Theorem C03_inverse_negates : forall o o' a b, inverse_op o = Some o' -> apply_op o' a b = negb (apply_op o a b).
Proof. exact inverse_negates. Qed.
Print Assumptions C03_inverse_negates.

(* ... and inverting twice restores the operator *)
Theorem C03_inverse_involutive : forall o o', inverse_op o = Some o' -> inverse_op o' = Some o.
Proof. exact inverse_involutive. Qed.
Print Assumptions C03_inverse_involutive.

(* the Not dispatch extracted from the code is De Morgan on AND / OR and a flag toggle on leaves *)
Theorem C03_not_rule :
  not_rule KAND = NegBoth_ElseIf /\ not_rule KOR = NegBoth_AND /\ not_rule KOther = NegToggle /\
  not_rule KResultQuantifier = NegRaise /\ not_rule KEntity = NegDescriptor /\ not_rule KSetOf = NegDescriptor.
Proof. exact not_rule_demorgan. Qed.
Print Assumptions C03_not_rule.

(* Not is defined on every tree of comparisons, memberships, expressions in condition position, and / or — at any depth,
   whatever negations were applied to build it *)
Theorem C03_neg_total : forall c, negatable c = true -> exists c', neg c = Some c' /\ negatable c' = true.
Proof. exact neg_total. Qed.
Print Assumptions C03_neg_total.

(* the negated tree holds exactly on the assignments on which the tree does not — any heap, domains, tree, depth *)
Theorem C03_complement : forall h dom c c', neg c = Some c' -> forall e, isat h dom c' e = negb (isat h dom c e).
Proof. exact neg_complement. Qed.
Print Assumptions C03_complement.

(* negating a negated condition restores the ORIGINAL node *)
Theorem C03_double : forall c c', neg c = Some c' -> neg c' = Some c.
Proof. exact neg_involutive. Qed.
Print Assumptions C03_double.

(* surface level: what the user writes means what it says (not_ included, at any depth) ... *)
Theorem C03_elab_sat : forall h dom c ic, elab c = Some ic -> forall e, isat h dom ic e = sat h dom c e.
Proof. exact elab_sat. Qed.
Print Assumptions C03_elab_sat.

(* ... and not_(not_(c)) builds the very tree c builds *)
Theorem C03_surface_double : forall c ic, elab (SNot (SNot c)) = Some ic -> elab c = Some ic.
Proof. exact elab_double_neg. Qed.
Print Assumptions C03_surface_double.

(* non-vacuity: a tree with a negation under a negation under De Morgan, all leaf kinds *)
Example C03_nonvacuous :
  let c := SNot (SAnd (SNot (STruth (TMap (MField 5) (TVar 1))))
                      (SOr (SNot (SNot (SCmp Le (TMap (MField 0) (TVar 1)) (TLit (VInt 2)))))
                           (SIn (TMap (MField 0) (TVar 1)) (TMap (MField 3) (TVar 1))))) in
  exists ic, elab c = Some ic /\ negatable ic = true /\
             ic = CElseIf (CTruth (TMap (MField 5) (TVar 1)) false)
                          (CAnd (CCmp Gt (TMap (MField 0) (TVar 1)) (TLit (VInt 2)))
                                (CCmp NotContains (TMap (MField 3) (TVar 1)) (TMap (MField 0) (TVar 1)))).
Proof. eexists. split; [vm_compute; reflexivity|]. split; reflexivity. Qed.

(* a CONSTANT operand (and_(c, flag) with a Python bool) is negated like every other expression in condition position: the
   complement of "the constant is truthy" (symbolic.py: Literal._evaluate__ reads the constant as a boolean and honours _invert_,
   repaired by 1e19dac; the generators pass bool constants as operands of and_ / or_ / not_) *)
Theorem C03_constant_operand : forall h dom v e,
  sat h dom (SNot (STruth (TLit v))) e = negb (truthy v) /\
  sat h dom (SNot (SAnd (STruth (TLit v)) (SNot (STruth (TLit v))))) e = true.
Proof. intros. cbn [sat tval]. split; [reflexivity | destruct (truthy v); reflexivity]. Qed.
Print Assumptions C03_constant_operand.
