(* Property C04 — a query's answer does not depend on what was evaluated before it.
   Only statements, `exact`, and Print Assumptions. *)
From EQL Require Import Base Values Syntax Spec Generated EvalPure Lazy Lazy_Facts History_Facts Dedup Dedup_Facts.

(* ONE variable, any pool of queries over it, ANY finite history of operations - evaluate fully, take k results then close,
   evaluate while a user predicate raises at its j-th call, in any number and order: a query evaluated afterwards returns
   exactly what it returns on the untouched domain (as a list: same rows, same order) *)
Theorem C04_history_independent : forall pool ops q s, fst (full q (lafter pool s ops)) = fst (full q s).
Proof. exact history_independent. Qed.
Print Assumptions C04_history_independent.

(* the reason: a history only moves a prefix of the unconsumed remainder into the memo - what the domain ranges over, in which
   order, never changes (content), the remainder is a suffix of the old one, the memo only grows *)
Theorem C04_content_invariant : forall pool ops s, later s (lafter pool s ops).
Proof. exact history_later. Qed.
Print Assumptions C04_content_invariant.

(* a domain that lists the same object more than once: each object once, in order of first occurrence, on the FIRST evaluation
   and on every later one, whatever happened in between *)
Theorem C04_repeated_object : forall q d pool ops,
  fst (full q (fresh d)) = filter q (dedup [] d) /\ NoDup (dedup [] d) /\
  fst (full q (lafter pool (fresh d) ops)) = filter q (dedup [] d).
Proof. exact repeated_object_first_and_later. Qed.
Print Assumptions C04_repeated_object.

(* SEVERAL variables, each with its own lazily consumed domain, any query (any condition tree incl. for_all and sub-queries,
   any selection): however far earlier evaluations advanced each domain, the evaluator returns the same rows in the same order *)
Theorem C04_any_advance : forall h S S' sel c, advanced S S' ->
  run_query h (dom_of_state S') sel c = run_query h (dom_of_state S) sel c.
Proof. exact any_advance. Qed.
Print Assumptions C04_any_advance.

(* evaluation never modifies the user's collections: the model's state holds copies of object identities only; the supplied
   sequence [d] is an argument that no operation returns changed (structural); the implementation is checked for it after every
   generated history (heap objects and inner collections compared with the case description). *)

(* non-vacuity: a domain listing object 7 twice; take 2, an aborted evaluation, another query taken once, then the first query *)
Example C04_nonvacuous :
  let d := [7; 2; 7; 5; 2; 8] in
  let pool := [{| lq_guard := fun o => Nat.ltb 2 o; lq_pred := fun _ => true |}; {| lq_guard := fun _ => true; lq_pred := Nat.even |}] in
  let ops := [LTake 0 2; LRaise 1 3; LTake 1 1] in
  lafter pool (fresh d) ops = {| mat := [7; 2; 5]; rem := [2; 8] |} /\
  fst (full (lq_q (nthq pool 0)) (lafter pool (fresh d) ops)) = [7; 5; 8] /\ fst (full (lq_q (nthq pool 0)) (fresh d)) = [7; 5; 8].
Proof. cbv zeta. split; [|split]; vm_compute; reflexivity. Qed.

(* the operators' DE-DUPLICATION state (Dedup.v): any history of evaluations of one query object - each consumed completely or
   abandoned / aborted after n results, the abandoned iterator closed, dropped or STILL REFERENCED (then its finally clause has not
   run) - whatever state an evaluation leaves in the seen sets and from whatever state the history starts: every evaluation returns
   (a prefix of) what the query returns on its own.  That An.evaluate / The.evaluate reset the state before they start and in a
   `finally` clause around the whole evaluation is read from the source by the translator on every run: the theorem stops
   compiling if the reset at the start disappears *)
Theorem C04_dedup_state_reset : forall h dom leftover sel c steps i s,
  history_rows h dom leftover sel c steps i s =
  map (fun st : option nat * bool => match fst st with None => run_queryD h dom sel c | Some n => firstn n (run_queryD h dom sel c) end) steps.
Proof. exact history_rows_independent. Qed.
Print Assumptions C04_dedup_state_reset.

(* the reset at the start is there (it covers the evaluation whose iterator is still referenced; with it the reset in `finally` is
   no longer needed for this statement: the model reads it from the source too, but nothing is demanded of it) *)
Theorem C04_reset_at_start : evaluation_resets_dedup_state_at_start = true.
Proof. exact evaluation_resets_at_start. Qed.
Print Assumptions C04_reset_at_start.
