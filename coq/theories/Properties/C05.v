(* Property C05 — result caching is transparent.
   Only statements, `exact`, and Print Assumptions.

   FULL STATEMENT: for every query and dataset, the rows with caching enabled = the rows with caching disabled, on the first
   evaluation and on re-evaluation.
   PROVED PART (C05_memo_transparent_partial): an operator that answers covered lookups from a memo and stores what it
   evaluates returns, over ANY history of lookups, exactly the uncached results — provided every stored entry is the
   uncached result of its lookup (the contract).  MISSING: that the concrete index (IndexedCache + the five call sites of
   symbolic.py) meets the contract.  Its retrieval half is REFUTED for the concrete index (Properties/C20.v,
   C20_retrieve_refuted; known findings C20-wildcard-preference / C05-wildcard-retrieval); the glue between call sites and
   index is covered by the correspondence check only (cache on vs cache off vs specification, with hit counts). *)
From EQL Require Import Base Memo_Facts.

Theorem C05_memo_transparent_partial : forall (K R : Type) (keqb : K -> K -> bool),
  (forall a b, keqb a b = true <-> a = b) -> forall (f : K -> R) ks st,
  Kontract K R keqb f st -> run K R keqb f st ks = map f ks.
Proof. exact memo_transparent. Qed.
Print Assumptions C05_memo_transparent_partial.

Theorem C05_fresh_memo_meets_contract : forall (K R : Type) (keqb : K -> K -> bool) (f : K -> R), Kontract K R keqb f [].
Proof. exact memo_empty. Qed.
Print Assumptions C05_fresh_memo_meets_contract.

(* non-vacuity: a history with repeated lookups is answered from the memo and agrees with the uncached function *)
Example C05_nonvacuous :
  run nat nat Nat.eqb (fun k => k * k) [] [3; 4; 3; 3; 5; 4] = map (fun k => k * k) [3; 4; 3; 3; 5; 4].
Proof. vm_compute. reflexivity. Qed.
