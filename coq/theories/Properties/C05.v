(* Property C05 — result caching is transparent.
   Only statements, `exact`, and Print Assumptions.

   FULL STATEMENT: for every query and dataset, the rows with caching enabled = the rows with caching disabled, on the first
   evaluation and on re-evaluation.
   PROVED PART (C05_memo_transparent_partial): an operator that answers covered lookups from a memo and stores what it
   evaluates returns, over ANY history of lookups, exactly the uncached results — provided every stored entry is the
   uncached result of its lookup (the contract).
   PROVED PART (C05_indexed_full_rows): the same for the CONCRETE index (the model of cache_data.IndexedCache / SeenSet,
   tied to the code by C20's operation-level correspondence) behind the shape all five call sites of symbolic.py share
   (coverage check -> replay the most general of the rows retrieval returns; otherwise evaluate, yield, store every row), for every operator whose
   rows bind every cache key, over ANY history of lookups.
   MISSING: the same for operators whose rows leave a cache key open (the wildcard enters the index).  The index itself is
   now proved exact there too (Properties/C20.v, C20_retrieve: retrieval = the reference answer for EVERY history - at the pinned
   commit that statement was refuted and caused row losses, known findings C20-wildcard-preference / C05-wildcard-retrieval, both
   repaired in /repo), but a cached operator may then hold the same row under several lookups and keeps, of the retrieved rows,
   the most general ones - that step, that each call site of symbolic.py has the modelled shape, and which `yield_when_false` a
   cached row was recorded under are covered by the correspondence check (cache on vs cache off vs specification), not by a theorem. *)
From EQL Require Import Base Memo_Facts IndexedCache IndexedCache_Facts IndexedCache_Sound IndexedMemo_Facts.

Theorem C05_memo_transparent_partial : forall (K R : Type) (keqb : K -> K -> bool),
  (forall a b, keqb a b = true <-> a = b) -> forall (f : K -> R) ks st,
  Kontract K R keqb f st -> Memo_Facts.run K R keqb f st ks = map f ks.
Proof. exact memo_transparent. Qed.
Print Assumptions C05_memo_transparent_partial.

Theorem C05_fresh_memo_meets_contract : forall (K R : Type) (keqb : K -> K -> bool) (f : K -> R), Kontract K R keqb f [].
Proof. exact memo_empty. Qed.
Print Assumptions C05_fresh_memo_meets_contract.

(* The concrete index.  ks: the cache keys (at least one); rel: the operator as a finite relation over them - every row binds
   every key ([full]), mentions cache keys only, and no two rows bind the keys alike; [answers L]: what the operator yields,
   uncached, under the lookup L - its rows that agree with L; [cached_run]: the call site on top of IndexedCache.check /
   retrieve / insert, started on an empty cache.  For EVERY history of lookups that bind at least one key, every answer of the
   cached call site is, as a set of (binding over the cache keys, truth flag), the uncached answer. *)
Theorem C05_indexed_full_rows : forall ks, ks <> [] -> forall rel,
  (forall b o, In (b, o) rel -> full ks b = true) ->
  (forall b o, In (b, o) rel -> over ks b = true /\ nonempty b = true) ->
  NoDup (pats ks rel) ->
  forall Ls, Forall (fun L => binds_some ks L = true) Ls ->
  Forall2 (same ks) (cached_run ks rel (init ks) Ls) (map (answers ks rel) Ls).
Proof. exact cached_transparent. Qed.
Print Assumptions C05_indexed_full_rows.

(* non-vacuity: a comparator over two variables (keys 1 and 2) with three rows; lookups binding one key are evaluated and stored,
   the fully bound lookups that follow are covered and served from the index - with the stored flag *)
Example C05_indexed_nonvacuous :
  let ks := [1; 2] in
  let rel := [([(1, 0); (2, 0)], 0); ([(1, 0); (2, 1)], 1); ([(1, 1); (2, 1)], 0)] in
  let Ls := [[(1, 0)]; [(1, 0); (2, 1)]; [(2, 1)]; [(1, 1); (2, 1)]; [(1, 1); (2, 0)]] in
  Forall (fun L => binds_some ks L = true) Ls /\ NoDup (pats ks rel) /\
  map (map snd) (cached_run ks rel (init ks) Ls) = [[0; 1]; [1]; [1; 0]; [0]; []] /\
  (* the second and the fourth lookup were answered by the index, not by the operator *)
  fst (ic_check (impl (fst (cached_step ks rel (init ks) [(1, 0)]))) [(1, 0); (2, 1)]) = true.
Proof.
  cbv zeta. split; [repeat constructor|]. split; [|split; vm_compute; reflexivity].
  vm_compute. repeat constructor; cbn; intuition discriminate.
Qed.

(* non-vacuity: a history with repeated lookups is answered from the memo and agrees with the uncached function *)
Example C05_nonvacuous :
  Memo_Facts.run nat nat Nat.eqb (fun k => k * k) [] [3; 4; 3; 3; 5; 4] = map (fun k => k * k) [3; 4; 3; 3; 5; 4].
Proof. vm_compute. reflexivity. Qed.
