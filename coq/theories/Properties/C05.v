(* Property C05 — result caching is transparent.
   Only statements, `exact`, and Print Assumptions.

   FULL STATEMENT: for every query and dataset, the rows with caching enabled = the rows with caching disabled, on the first
   evaluation and on re-evaluation.
   PROVED PART (C05_memo_transparent_partial): an operator that answers covered lookups from a memo and stores what it
   evaluates returns, over ANY history of lookups, exactly the uncached results — provided every stored entry is the
   uncached result of its lookup (the contract).
   PROVED PART (C05_indexed_full_rows): the same for the CONCRETE index (the model of cache_data.IndexedCache / SeenSet,
   tied to the code by C20's operation-level correspondence) behind the shape all five call sites of symbolic.py share
   (coverage check -> replay the most general of the rows retrieval returns; otherwise evaluate, yield, store every row), for every operator whose
   rows bind every cache key, over ANY history of lookups.
   PROVED PART (C05_indexed_denotation): for EVERY operator - rows that leave cache keys open included, the region in which the
   index was broken at the pinned commit (known findings C20-wildcard-preference / C05-wildcard-retrieval, both repaired in /repo;
   the index itself is now proved exact, Properties/C20.v) - the cached call site answers, over ANY history of lookups, rows that
   stand for exactly the assignments the uncached operator's rows stand for: transparency as a SET of assignments.
   THE CALL SITES HAVE THE MODELLED SHAPE (C05_call_sites_as_modelled): the translator locates, in Comparator / AND / ElseIf
   ._evaluate__, the one coverage test of the operator's cache, checks that a covered lookup is replayed from the cache and nothing
   else (most general of the retrieved rows), that rows are stored by update_cache with the flag of the current row, and WHERE the
   test stands (ElseIf asks its right-side cache only for a row its left side rejected) - on every run.
   PROVED PART (C05_indexed_no_assignment_twice): for every such operator and ANY history of lookups a covered lookup is answered
   with exactly ONE row - the lookup itself - and an uncovered one with the operator's own rows: no assignment comes out twice
   (what the selection of the most general retrieved rows is for).
   PROVED PART (C05_cached_evaluator): the operator of the last two theorems instantiated with the P-model's EVALUATOR of any basic
   condition - their hypotheses are proved from the evaluator's partition theorem, nothing is left abstract.
   (either mode: with or without false rows; a node has ONE mode in a query - it is fixed by its position).
   MISSING: a node evaluated under BOTH modes during the life of its cache (a query evaluated on its own and later nested under a
   disjunction), and the composition of the five call sites inside one evaluator: covered by the correspondence check (cache on vs cache off vs specification), not by a theorem. *)
From EQL Require Import Base Values Syntax Spec Generated Elab EvalPure EvalPure_Facts Memo_Facts IndexedCache IndexedCache_Facts IndexedCache_Sound IndexedMemo_Facts IndexedMemo_Den CachedEval.

Theorem C05_memo_transparent_partial : forall (K R : Type) (keqb : K -> K -> bool),
  (forall a b, keqb a b = true <-> a = b) -> forall (f : K -> R) ks st,
  Kontract K R keqb f st -> Memo_Facts.run K R keqb f st ks = map f ks.
Proof. exact memo_transparent. Qed.
Print Assumptions C05_memo_transparent_partial.

Theorem C05_fresh_memo_meets_contract : forall (K R : Type) (keqb : K -> K -> bool) (f : K -> R), Kontract K R keqb f [].
Proof. exact memo_empty. Qed.
Print Assumptions C05_fresh_memo_meets_contract.

(* The concrete index.  ks: the cache keys (at least one); rel: the operator as a finite relation over them - every row binds
   every key ([full]), mentions cache keys only, and no two rows bind the keys alike; [answers L]: what the operator yields,
   uncached, under the lookup L - its rows that agree with L; [cached_run]: the call site on top of IndexedCache.check /
   retrieve / insert, started on an empty cache.  For EVERY history of lookups that bind at least one key, every answer of the
   cached call site is, as a set of (binding over the cache keys, truth flag), the uncached answer. *)
Theorem C05_indexed_full_rows : forall ks, ks <> [] -> forall rel,
  (forall b o, In (b, o) rel -> full ks b = true) ->
  (forall b o, In (b, o) rel -> over ks b = true /\ nonempty b = true) ->
  NoDup (pats ks rel) ->
  forall Ls, Forall (fun L => binds_some ks L = true) Ls ->
  Forall2 (same ks) (cached_run ks rel (init ks) Ls) (map (answers ks rel) Ls).
Proof. exact cached_transparent. Qed.
Print Assumptions C05_indexed_full_rows.

(* non-vacuity: a comparator over two variables (keys 1 and 2) with three rows; lookups binding one key are evaluated and stored,
   the fully bound lookups that follow are covered and served from the index - with the stored flag *)
Example C05_indexed_nonvacuous :
  let ks := [1; 2] in
  let rel := [([(1, 0); (2, 0)], 0); ([(1, 0); (2, 1)], 1); ([(1, 1); (2, 1)], 0)] in
  let Ls := [[(1, 0)]; [(1, 0); (2, 1)]; [(2, 1)]; [(1, 1); (2, 1)]; [(1, 1); (2, 0)]] in
  Forall (fun L => binds_some ks L = true) Ls /\ NoDup (pats ks rel) /\
  map (map snd) (cached_run ks rel (init ks) Ls) = [[0; 1]; [1]; [1; 0]; [0]; []] /\
  (* the second and the fourth lookup were answered by the index, not by the operator *)
  fst (ic_check (impl (fst (cached_step ks rel (init ks) [(1, 0)]))) [(1, 0); (2, 1)]) = true.
Proof.
  cbv zeta. split; [repeat constructor|]. split; [|split; vm_compute; reflexivity].
  vm_compute. repeat constructor; cbn; intuition discriminate.
Qed.

(* EVERY operator, rows that leave cache keys open included (the wildcard enters the index: the region of the former known
   findings).  The operator is described by what it DENOTES: [rel], a finite relation of full rows (every cache key bound) with
   their truth flags; [f L], the rows it yields uncached under the lookup L - each extends L, may leave keys open (it then stands for
   every value of them: [sub_on ks r b], the full row b contains r), carries the flag of every row of [rel] it stands for, and
   together they stand for every row of [rel] that agrees with L ([asked]: the lookups of the history).  [den rows b o]: the full
   row b with flag o is one of the rows [rows] stand for.  For EVERY history of lookups, what the cached call site answers -
   coverage check, complete retrieval, the most general of the retrieved rows; or evaluation and storing - stands for exactly the
   rows of [rel] that agree with the lookup: the cache is transparent as a SET of assignments.  (That no assignment comes out
   twice is what the selection of the most general rows is for; that half is covered by the correspondence, and by
   C05_indexed_full_rows where no row leaves a key open.) *)
Theorem C05_indexed_denotation : forall ks, ks <> [] -> forall rel,
  (forall b o, In (b, o) rel -> full ks b = true) ->
  forall (f : assignment -> list entry) (asked : assignment -> Prop),
  (forall L r o, asked L -> In (r, o) (f L) -> over ks r = true /\ nonempty r = true /\ sub_on ks L r = true) ->
  (forall L r o b o', asked L -> In (r, o) (f L) -> In (b, o') rel -> sub_on ks r b = true -> o' = o) ->
  (forall L b o, asked L -> In (b, o) rel -> compatible ks b L = true -> exists r, In (r, o) (f L) /\ sub_on ks r b = true) ->
  forall Ls, Forall (fun L => binds_some ks L = true /\ asked L) Ls ->
  Forall2 (fun rows L => forall b o, den ks rel rows b o <-> (In (b, o) rel /\ compatible ks b L = true))
          (cached_run_f f (init ks) Ls) Ls.
Proof. exact cached_denotes. Qed.
Print Assumptions C05_indexed_denotation.

(* non-vacuity: an else-if over x (key 1) and z (key 2): "x = 0, or else z = 1".  A row for x = 0 leaves z open unless the lookup
   binds it.  The history stores {x:0, z:1} and {x:1, z:1} (lookup z = 1), then {x:0} with z open (lookup x = 0) - one level of the
   index now holds the wildcard AND a concrete key -, and the covered lookup {x:0, z:1} retrieves two entries and answers one row. *)
Definition elseif_op (L : assignment) : list entry :=
  flat_map (fun x => if Nat.eqb x 0
                     then [(match aget L 2 with Some z => [(1, x); (2, z)] | None => [(1, x)] end, 0)]
                     else match aget L 2 with
                          | Some z => if Nat.eqb z 1 then [([(1, x); (2, z)], 0)] else []
                          | None => [([(1, x); (2, 1)], 0)]
                          end)
           (match aget L 1 with Some x => [x] | None => [0; 1] end).

Example C05_denotation_nonvacuous :
  let ks := [1; 2] in
  let rel := [([(1, 0); (2, 0)], 0); ([(1, 0); (2, 1)], 0); ([(1, 1); (2, 1)], 0)] in
  let Ls := [[(2, 1)]; [(1, 0)]; [(1, 0); (2, 1)]; [(1, 1)]] in
  let asked := fun L => In L Ls in
  (forall b o, In (b, o) rel -> full ks b = true) /\
  (forall L r o, asked L -> In (r, o) (elseif_op L) -> over ks r = true /\ nonempty r = true /\ sub_on ks L r = true) /\
  (forall L r o b o', asked L -> In (r, o) (elseif_op L) -> In (b, o') rel -> sub_on ks r b = true -> o' = o) /\
  (forall L b o, asked L -> In (b, o) rel -> compatible ks b L = true -> exists r, In (r, o) (elseif_op L) /\ sub_on ks r b = true) /\
  Forall (fun L => binds_some ks L = true /\ asked L) Ls /\
  map (map fst) (cached_run_f elseif_op (init ks) Ls)
    = [[[(1, 0); (2, 1)]; [(1, 1); (2, 1)]]; [[(1, 0)]]; [[(1, 0); (2, 1)]]; [[(1, 1); (2, 1)]]] /\
  (* the third lookup was covered, and the index returned TWO entries for it *)
  (let s2 := fst (cached_step_f elseif_op (fst (cached_step_f elseif_op (init ks) [(2, 1)])) [(1, 0)]) in
   fst (ic_check (impl s2) [(1, 0); (2, 1)]) = true /\ length (ic_retrieve (impl s2) [(1, 0); (2, 1)]) = 2).
Proof.
  cbv zeta. split; [|split; [|split; [|split; [|split; [|split]]]]].
  - intros b o H. repeat (destruct H as [H|H]; [injection H as <- <-; reflexivity|]). destruct H.
  - intros L r o A H. repeat (destruct A as [<-|A]; [cbn in H; repeat (destruct H as [H|H]; [injection H as <- <-; repeat split; reflexivity|]); destruct H|]). destruct A.
  - intros L r o b o' A H Hb _.
    assert (o' = 0) by (repeat (destruct Hb as [Hb|Hb]; [now injection Hb as _ <-|]); destruct Hb).
    assert (o = 0); [|congruence].
    repeat (destruct A as [<-|A]; [cbn in H; repeat (destruct H as [H|H]; [now injection H as _ <-|]); destruct H|]). destruct A.
  - intros L b o A Hb C.
    repeat (destruct A as [<-|A];
            [repeat (destruct Hb as [Hb|Hb];
                     [injection Hb as <- <-; first [discriminate C
                                                  | eexists; split; [left; reflexivity | reflexivity]
                                                  | eexists; split; [right; left; reflexivity | reflexivity]]|]); destruct Hb|]).
    destruct A.
  - repeat (apply Forall_cons; [split; [reflexivity | cbn; tauto]|]). apply Forall_nil.
  - vm_compute. reflexivity.
  - vm_compute. split; reflexivity.
Qed.

(* NO ASSIGNMENT TWICE.  Same operators (rows may leave cache keys open).  Further hypotheses: a full row extends a stored row
   together with a lookup it agrees with (the domains are not empty and lookups bind values of the domains), the lookups are
   dicts (no key twice), and the UNCACHED operator yields no assignment twice ([once]: no full row is stood for by two rows of one
   answer - for the operators of the P-model that is the partition theorem of C01).  Then over ANY history of lookups every
   answer of the cached call site is EITHER the operator's own rows for the lookup (the lookup was evaluated) OR the single row
   "the lookup itself" (it was covered: the stored binding that covers it, merged into the lookup, is the lookup; every other
   retrieved row contains it with the same truth flag; the selection of the most general rows keeps exactly it) - so no answer
   yields an assignment twice.  Together with C05_indexed_denotation: the cached call site yields the same assignments, each
   once. *)
Theorem C05_indexed_no_assignment_twice : forall ks, ks <> [] -> forall rel,
  (forall b o, In (b, o) rel -> full ks b = true) ->
  forall (f : assignment -> list entry) (asked : assignment -> Prop),
  (forall L r o, asked L -> In (r, o) (f L) -> over ks r = true /\ nonempty r = true /\ sub_on ks L r = true) ->
  (forall L r o b o', asked L -> In (r, o) (f L) -> In (b, o') rel -> sub_on ks r b = true -> o' = o) ->
  (forall L b o, asked L -> In (b, o) rel -> compatible ks b L = true -> exists r, In (r, o) (f L) /\ sub_on ks r b = true) ->
  (forall L L0 r o, asked L -> asked L0 -> In (r, o) (f L0) -> compatible ks r L = true ->
     exists b o', In (b, o') rel /\ sub_on ks (merge ks L r) b = true) ->
  (forall L, asked L -> once ks (f L)) ->
  forall Ls, Forall (fun L => binds_some ks L = true /\ asked L /\ NoDup (map fst L)) Ls ->
  Forall2 (fun rows L => (rows = f L \/ exists o, rows = [(L, o)]) /\ once ks rows) (cached_run_f f (init ks) Ls) Ls.
Proof. exact cached_rows_once. Qed.
Print Assumptions C05_indexed_no_assignment_twice.

(* non-vacuity: the else-if operator and the history of C05_denotation_nonvacuous meet the further hypotheses *)
Example C05_once_nonvacuous :
  let ks := [1; 2] in
  let rel := [([(1, 0); (2, 0)], 0); ([(1, 0); (2, 1)], 0); ([(1, 1); (2, 1)], 0)] in
  let Ls := [[(2, 1)]; [(1, 0)]; [(1, 0); (2, 1)]; [(1, 1)]] in
  let asked := fun L => In L Ls in
  (forall L L0 r o, asked L -> asked L0 -> In (r, o) (elseif_op L0) -> compatible ks r L = true ->
     exists b o', In (b, o') rel /\ sub_on ks (merge ks L r) b = true) /\
  (forall L, asked L -> once ks (elseif_op L)) /\
  Forall (fun L => binds_some ks L = true /\ asked L /\ NoDup (map fst L)) Ls.
Proof.
  cbv zeta. split; [|split].
  - assert (Hb : forallb (fun L => forallb (fun L0 => forallb (fun ro => implb (compatible [1; 2] (fst ro) L)
                    (existsb (fun bo => sub_on [1; 2] (merge [1; 2] L (fst ro)) (fst bo))
                             [([(1, 0); (2, 0)], 0); ([(1, 0); (2, 1)], 0); ([(1, 1); (2, 1)], 0)])) (elseif_op L0))
                    [[(2, 1)]; [(1, 0)]; [(1, 0); (2, 1)]; [(1, 1)]]) [[(2, 1)]; [(1, 0)]; [(1, 0); (2, 1)]; [(1, 1)]] = true)
      by (vm_compute; reflexivity).
    intros L L0 r o AL A0 Hr C. rewrite forallb_forall in Hb. specialize (Hb L AL). rewrite forallb_forall in Hb. specialize (Hb L0 A0).
    rewrite forallb_forall in Hb. specialize (Hb (r, o) Hr). cbn [fst] in Hb. rewrite C in Hb. cbn [implb] in Hb.
    apply existsb_exists in Hb as ([b o'] & Hin & S). exists b, o'. now split.
  - intros L A. apply once_of_apart. repeat (destruct A as [<-|A]; [vm_compute; reflexivity|]). destruct A.
  - repeat (apply Forall_cons; [split; [reflexivity|]; split; [cbn; tauto | repeat constructor; cbn; intuition discriminate]|]). apply Forall_nil.
Qed.

(* THE EVALUATOR AS THE CACHED OPERATOR.  The operator of the two theorems above is now the P-model's evaluator itself: [eval h dom c]
   for ANY basic condition c (comparisons, memberships, expressions in condition position, and / or / not to any depth, nested
   queries) over the variables U - the cache keys -, every domain duplicate-free and non-empty; rows and lookups are encoded for
   the index by the positions of the values in their domains ([encB]: the index compares ids).  [rel]: every total assignment over
   the domains with the truth of c - all of them when the node is asked for false rows too (ywf = true), the satisfying ones
   otherwise -; [f L]: the rows the evaluator yields in that mode under the incoming binding L, restricted to U.  The hypotheses of C05_indexed_denotation and C05_indexed_no_assignment_twice are PROVED for it from the
   evaluator's partition theorem (C02's invariant), so: for ANY history of incoming bindings (dicts over the domains that bind at
   least one cache key) the cached evaluation of c answers rows that stand for exactly the total assignments agreeing with the
   incoming binding, each with the truth value of c, none twice - and each answer is the evaluator's own rows or the single row
   "the incoming binding itself". *)
Theorem C05_cached_evaluator : forall h dom U c ywf,
  U <> [] -> (forall x, In x U -> NoDup (dom x)) -> (forall x, In x U -> dom x <> []) -> basic U c = true ->
  forall bs : list binding, Forall (ok_lookup dom U) bs ->
  Forall2 (fun rows L => (forall a o, den U (rel h dom U c ywf) rows a o <-> (In (a, o) (rel h dom U c ywf) /\ compatible U a L = true)) /\
                         (rows = f h dom U c ywf L \/ exists o, rows = [(L, o)]) /\ once U rows)
          (cached_run_f (f h dom U c ywf) (init U) (map (encB dom) bs)) (map (encB dom) bs).
Proof. exact cached_eval_transparent. Qed.
Print Assumptions C05_cached_evaluator.

(* non-vacuity: or_(x.a == 1, x.a < y.a) over x in {o0, o1}, y in {o1, o2}; five incoming bindings, the third and the fifth are
   covered by what the first two / the fourth stored and are answered by the index with one row *)
Example C05_cached_evaluator_nonvacuous :
  let h : heap := [[VInt 1]; [VInt 2]; [VInt 3]] in
  let dom := fun k : Syntax.key => match k with 1 => [VObj 0; VObj 1] | 2 => [VObj 1; VObj 2] | _ => [] end in
  let a t := TMap (MField 0) t in
  let sc := SOr (SCmp Eq (a (TVar 1)) (TLit (VInt 1))) (SCmp Lt (a (TVar 1)) (a (TVar 2))) in
  let bs : list binding := [[(2, VObj 1)]; [(1, VObj 0)]; [(1, VObj 0); (2, VObj 1)]; [(1, VObj 1)]; [(2, VObj 2); (1, VObj 1)]] in
  exists ic, elab sc = Some ic /\ basic [1; 2] ic = true /\ Forall (ok_lookup dom [1; 2]) bs /\
    cached_run_f (f h dom [1; 2] ic true) (init [1; 2]) (map (encB dom) bs)
      = [[([(1, 0); (2, 0)], 0); ([(1, 1); (2, 0)], 1)]; [([(1, 0)], 0)]; [([(1, 0); (2, 0)], 0)];
         [([(2, 0); (1, 1)], 1); ([(2, 1); (1, 1)], 0)]; [([(2, 1); (1, 1)], 0)]] /\
    (let s2 := fst (cached_step_f (f h dom [1; 2] ic true) (fst (cached_step_f (f h dom [1; 2] ic true) (init [1; 2]) [(2, 0)])) [(1, 0)]) in
     fst (ic_check (impl s2) [(1, 0); (2, 0)]) = true).
Proof.
  cbv zeta. eexists. split; [vm_compute; reflexivity|]. split; [reflexivity|]. split; [|split; vm_compute; reflexivity].
  repeat (apply Forall_cons; [split; [split; [repeat constructor; cbn; intuition discriminate|];
                                      intros k v H; cbn in H; repeat (destruct H as [H|H]; [injection H as <- <-; cbn; tauto|]); destruct H
                                     | reflexivity]|]).
  apply Forall_nil.
Qed.

(* non-vacuity: a history with repeated lookups is answered from the memo and agrees with the uncached function *)
Example C05_nonvacuous :
  Memo_Facts.run nat nat Nat.eqb (fun k => k * k) [] [3; 4; 3; 3; 5; 4] = map (fun k => k * k) [3; 4; 3; 3; 5; 4].
Proof. vm_compute. reflexivity. Qed.

(* the three facts about the CURRENT source the call-site model rests on (re-read on every run; each stops compiling if the code
   moves away from the modelled shape) *)
Theorem C05_call_sites_as_modelled :
  cached_call_sites_as_modelled = true /\ replay_keeps_most_general = true /\ row_flag_is_current = true.
Proof. repeat split; reflexivity. Qed.
Print Assumptions C05_call_sites_as_modelled.
