(* Property C06 — `the` returns the unique solution or raises, consistently with `an`.
   Only statements, `exact`, and Print Assumptions.  U = the variables of the description, ALL selected;
   [the_of rows] is the model of The._evaluate_: consume the rows of the description, fail on the second, fail if none. *)
From EQL Require Import Base Values Syntax Spec Generated Elab Elab_Facts EvalPure EvalPure_Facts Query_Facts Elab_Frag Quant_Facts Dedup Dedup_Facts.

(* NoSolutionFound exactly when no assignment of the product satisfies the description *)
Theorem C06_none : forall h dom U, (forall x, In x U -> NoDup (dom x)) -> forall c, basic U c = true ->
  (the_of (run_query h dom (map TVar U) (Some c)) = ONone <-> forall e, valid dom U e -> isat h dom c e = false).
Proof. exact the_none. Qed.
Print Assumptions C06_none.

(* a value is returned only when exactly one assignment satisfies it, and it is that assignment *)
Theorem C06_value : forall h dom U, (forall x, In x U -> NoDup (dom x)) -> forall c r, basic U c = true ->
  the_of (run_query h dom (map TVar U) (Some c)) = OValue r ->
  exists e, valid dom U e /\ isat h dom c e = true /\ r = map e U /\
            (forall e', valid dom U e' -> isat h dom c e' = true -> map e' U = r).
Proof. exact the_value. Qed.
Print Assumptions C06_value.

(* MultipleSolutionFound only when two different assignments satisfy it *)
Theorem C06_many : forall h dom U, (forall x, In x U -> NoDup (dom x)) -> forall c, basic U c = true ->
  the_of (run_query h dom (map TVar U) (Some c)) = OMany ->
  exists e1 e2, valid dom U e1 /\ valid dom U e2 /\ isat h dom c e1 = true /\ isat h dom c e2 = true /\ map e1 U <> map e2 U.
Proof. exact the_many. Qed.
Print Assumptions C06_many.

(* the value returned is the row `an` yields for the same description *)
Theorem C06_same_as_an : forall h dom U c r,
  the_of (run_query h dom (map TVar U) (Some c)) = OValue r -> run_query h dom (map TVar U) (Some c) = [r].
Proof. exact the_is_an. Qed.
Print Assumptions C06_same_as_an.

(* non-vacuity: the three outcomes are all reached by one description over three datasets *)
Example C06_nonvacuous :
  let c := CCmp Gt (TMap (MField 0) (TVar 1)) (TLit (VInt 1)) in
  let d (l : list val) := fun k : key => if Nat.eqb k 1 then l else [] in
  let h := [[VInt 1]; [VInt 2]; [VInt 3]] in
  basic [1] c = true /\
  the_of (run_query h (d [VObj 0]) [TVar 1] (Some c)) = ONone /\
  the_of (run_query h (d [VObj 0; VObj 1]) [TVar 1] (Some c)) = OValue [VObj 1] /\
  the_of (run_query h (d [VObj 0; VObj 1; VObj 2]) [TVar 1] (Some c)) = OMany.
Proof. vm_compute. repeat split. Qed.

(* RE-EVALUATION and evaluation after other queries: the(...) starts from an empty de-duplication state whatever was evaluated - or
   abandoned with its iterator still referenced - before, on nodes this description shares with other queries (An.evaluate AND
   The.evaluate reset before they evaluate: read from the source by the translator on every run), and the rows of a full evaluation
   do not depend on the state left behind (Dedup_Facts.history_rows_independent, for any history of full / partial evaluations) *)
Theorem C06_reset_at_start : evaluation_resets_dedup_state_at_start = true.
Proof. exact evaluation_resets_at_start. Qed.
Print Assumptions C06_reset_at_start.

Theorem C06_rows_independent_of_history : forall h dom leftover sel c steps i s,
  history_rows h dom leftover sel c steps i s =
  map (fun st : option nat * bool => match fst st with None => run_queryD h dom sel c | Some n => firstn n (run_queryD h dom sel c) end) steps.
Proof. exact history_rows_independent. Qed.
Print Assumptions C06_rows_independent_of_history.
