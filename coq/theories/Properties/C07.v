(* Property C07 — evaluation is demand-driven and consumes lazily supplied domains only as needed.
   Only statements, `exact`, and Print Assumptions.
   Model (Lazy.v): the domain of the variable is a pair (memoised elements, unconsumed remainder of the one-shot iterator);
   a single-variable query tests every element it is handed and yields the qualifying ones; [results q s] lists the results
   together with the domain state at the moment each is delivered. *)
From EQL Require Import Base Values Syntax Spec Lazy Lazy_Facts Lazy_Demand.

(* evaluate() without asking for a result does no work: nothing is pulled, nothing changes *)
Theorem C07_nothing_before_first_request : forall q s, take q 0 s = ([], s).
Proof. exact nothing_before_first_request. Qed.
Print Assumptions C07_nothing_before_first_request.

(* for EVERY qualification predicate (every condition tree and dataset), every one-shot domain d of distinct objects and every k:
   when the (k+1)-th result is delivered, exactly the prefix of d that ends at the (k+1)-th qualifying element has been pulled -
   that element is the result, everything after it is still inside the iterator *)
Theorem C07_exact_prefix : forall q d k v s', NoDup d -> nth_error (results q (fresh d)) k = Some (v, s') ->
  exists i, nth_error d i = Some v /\ q v = true /\
            mat s' = firstn (S i) d /\ rem s' = skipn (S i) d /\ length (filter q (firstn (S i) d)) = S k.
Proof. exact exact_prefix. Qed.
Print Assumptions C07_exact_prefix.

(* taking k results delivers the first k rows of the answer (in domain order) *)
Theorem C07_take_is_prefix : forall q k s, fst (take q k s) = firstn k (filter q (content s)).
Proof. exact take_is_prefix. Qed.
Print Assumptions C07_take_is_prefix.

(* however many full, partial (any k) and aborted evaluations of any queries over the variable follow one another:
   what is left in the iterator is always a SUFFIX of what was supplied (no element is ever pulled twice or out of order) ... *)
Theorem C07_never_pulled_twice : forall pool ops d, exists n, rem (lafter pool (fresh d) ops) = skipn n d.
Proof. exact never_pulled_twice. Qed.
Print Assumptions C07_never_pulled_twice.

(* ... and it only shrinks as the history goes on *)
Theorem C07_pulls_monotone : forall pool ops1 ops2 d,
  exists n, rem (lafter pool (fresh d) (ops1 ++ ops2)) = skipn n (rem (lafter pool (fresh d) ops1)).
Proof. exact pulls_monotone. Qed.
Print Assumptions C07_pulls_monotone.

(* THE WHOLE HISTORY, EXACTLY: after every step of every history of full / partial (any k) / aborted evaluations of any queries
   over the variable, the number of elements read from the one-shot iterator d (repetitions in d allowed) is the length of the
   longest prefix any step so far NEEDED - where what a step needs is stated on d alone ([Lazy.required]: for `take k` the
   shortest prefix of d holding k distinct qualifying objects, all of d when there are fewer or for a full evaluation; for an
   evaluation aborted at the j-th call of a user predicate the shortest prefix holding j distinct objects passing the guard).
   Nothing is read before it is needed, nothing is read again. *)
Theorem C07_pulls_as_specified : forall pool d ops,
  map (fun r => length d - length (rem (snd r))) (lrun pool (fresh d) ops) = spec_pulls pool d 0 ops.
Proof. exact history_pulls. Qed.
Print Assumptions C07_pulls_as_specified.

(* non-vacuity: objects 5 3 8 1 9 4, the even ones qualify... (here: 8 and 4); the 1st result arrives after 3 pulls, the 2nd after 6;
   a history: take 1, then an evaluation aborted at the 2nd predicate call, then a full one *)
Example C07_nonvacuous :
  let q := fun o => Nat.even o in let d := [5; 3; 8; 1; 9; 4] in
  NoDup d /\
  map (fun r => (fst r, length (mat (snd r)), length (rem (snd r)))) (results q (fresh d)) = [(8, 3, 3); (4, 6, 0)] /\
  let pool := [{| lq_guard := fun _ => true; lq_pred := q |}] in
  map (fun r => (fst r, length d - length (rem (snd r)))) (lrun pool (fresh d) [LTake 0 1; LRaise 0 5; LFull 0])
    = [([8], 3); ([8], 5); ([8; 4], 6)].
Proof. cbv zeta. split; [repeat constructor; cbn; intuition congruence|]. split; vm_compute; reflexivity. Qed.
