(* Property C08 — symbolic mode is confined to its block.
   Only statements, `exact`, and Print Assumptions.  The model (Mode.v) takes the way An.evaluate brackets the mode from
   Generated.v, regenerated from /repo on every run: these theorems do not compile if a `yield` of the result generator moves
   back inside `with symbolic_mode(None)`. *)
From EQL Require Import Base Generated Mode Mode_Facts.

(* after EVERY finite history (any length, any nesting) of: enter/leave symbolic_mode / rule_mode / rule_mode(q) / `with q:`,
   raise inside a block, create / advance (also with a block and an evaluation nested in the advance) / close / drop result
   iterators at any point inside or outside any block:
   the mode is the one of the innermost enclosing mode-setting block (none outside all blocks) and the expression stack holds
   exactly the enclosing query blocks *)
Theorem C08_confined : forall ops,
  cur (run ops) = ref_mode (ref_run ops) /\ estack (run ops) = ref_depth (ref_run ops).
Proof. exact mode_confined. Qed.
Print Assumptions C08_confined.

(* leaving a block by normal exit or by an exception restores exactly the mode and expression context active before it,
   whatever was done to iterators inside it *)
Theorem C08_block_restores : forall ops b inside,
  (forall o, In o inside -> match o with OEnter _ | OLeave | ORaise => False | _ => True end) ->
  forall leave_op, leave_op = OLeave \/ leave_op = ORaise ->
  cur (run (ops ++ OEnter b :: inside ++ [leave_op])) = cur (run ops) /\
  estack (run (ops ++ OEnter b :: inside ++ [leave_op])) = estack (run ops).
Proof. exact block_restores. Qed.
Print Assumptions C08_block_restores.

(* outside every block the mode is none: construction is concrete, symbolic operators are rejected *)
Theorem C08_outside : forall ops, ref_run ops = [] -> cur (run ops) = None.
Proof. exact outside_is_concrete. Qed.
Print Assumptions C08_outside.

(* a resumption during which a user predicate opens a symbolic block of its own and runs a complete nested evaluate() there leaves
   exactly the state a plain resumption leaves (the histories above may contain such resumptions: ONextP) *)
Theorem C08_nested_evaluation_transparent : forall s i ex, step s (ONextP i ex) = step s (ONext i ex).
Proof. intros s i ex. cbn [step]. now rewrite nested_transparent. Qed.
Print Assumptions C08_nested_evaluation_transparent.

(* non-vacuity: the three-step witness of the repaired defect and a nested history *)
Example C08_nonvacuous :
  cur (run [OEnter BQuery; OCreate 0; ONext 0 false]) = Some MQuery /\
  cur (run [OEnter BQuery; OCreate 0; ONext 0 false; OLeave; OClose 0]) = None /\
  cur (run [OEnter BRule; OCreate 1; ONext 1 false; OEnter BWithQ; ODrop 1]) = Some MRule /\
  estack (run [OEnter BRuleQ; OEnter BWithQ; ORaise; OCreate 2; ONext 2 true]) = 1.
Proof. vm_compute. repeat split. Qed.
