(* Property C09 — evaluation gives the same answer inside and outside a symbolic block.
   Only statements, `exact`, and Print Assumptions.  User predicates and instance construction read the symbolic mode at the
   moment they are called; the model reads off Generated.v (regenerated from /repo on every run) whether An.evaluate switches
   the mode off around every resumption of the result generator and whether The.evaluate evaluates with the mode off. *)
From EQL Require Import Base Generated Mode Mode09_Facts.

(* whatever the ambient mode (none, query, rule), during evaluation — for `an`, `infer` (An.evaluate) and `the` (The.evaluate) —
   predicates are executed and instances are constructed with NO symbolic mode, i.e. concretely *)
Theorem C09_ambient : forall ambient, mode_during_an ambient = None /\ mode_during_the ambient = None.
Proof. exact evaluation_sees_no_mode. Qed.
Print Assumptions C09_ambient.

(* hence the mode seen during evaluation under any ambient mode is the one seen with no ambient mode *)
Theorem C09_same_as_outside : forall ambient,
  mode_during_an ambient = mode_during_an None /\ mode_during_the ambient = mode_during_the None.
Proof. intros a. destruct (evaluation_sees_no_mode a) as [-> ->]. destruct (evaluation_sees_no_mode None) as [-> ->]. split; reflexivity. Qed.
Print Assumptions C09_same_as_outside.

Example C09_nonvacuous : mode_during_the (Some MRule) = None /\ mode_during_an (Some MQuery) = None.
Proof. vm_compute. split; reflexivity. Qed.
