(* Property C10 — for_all yields exactly the bindings whose condition holds for every value.
   Only statements, `exact`, and Print Assumptions.

   FULL STATEMENT, now proved (C10_forall): for a non-empty universal domain, the rows of  eval (CForAll u c) b ywf  are
   exactly - each flagged true - the rows  merge b (canon e)  of the assignments e of the free variables (members of their
   domains, agreeing with the incoming binding b) with  forall v in dom u, isat c (e, u := v),  i.e.  isat (CForAll u c) e.
   The two halves: C10_one_pass (one pass returns exactly the satisfying assignments of the free variables under that
   universal value: the partition invariant of C02 with the universal variable pre-bound and the free variables completed) and
   C10_intersection (one pass per universal value, running intersection, early exit = matched in EVERY pass). *)
From EQL Require Import Base Values Syntax Spec Generated EvalPure EvalPure_Facts Query_Facts ForAll_Facts ForAll_Full Dedup Dedup_Facts.

(* c = the condition of for_all(u, c) - any tree of comparisons / memberships / expressions / and / or / not / sub-queries over
   u and any number of free variables (free u c = the other variables of c); every domain duplicate-free, the free variables range
   over objects; b = the binding for_all is entered with (empty at top level, the left row when and_-ed on the right) *)
Theorem C10_forall : forall h dom u c b ywf r,
  (forall x, In x (UF u c) -> NoDup (dom x)) -> basic (UF u c) c = true ->
  (forall x v, In x (free u c) -> In v (dom x) -> exists o, v = VObj o) ->
  dom u <> [] -> in_dom dom b -> lookup b u = None ->
  (In r (eval h dom (CForAll u c) b ywf) <->
   exists e, (forall x, In x (free u c) -> In (e x) (dom x)) /\
             agreesb (UF u c) b (upd e u (hd (VA ANone) (dom u))) = true /\
             r = (merge b (canon u c e), false) /\
             isat h dom (CForAll u c) e = true).
Proof. exact forall_rows_spec. Qed.
Print Assumptions C10_forall.

Theorem C10_one_pass : forall h dom u c,
  (forall x, In x (UF u c) -> NoDup (dom x)) -> basic (UF u c) c = true -> forall b v s,
  In v (dom u) -> in_dom dom b -> lookup b u = None ->
  (In s (pass h dom u c b v) <->
   exists e, valid dom (UF u c) e /\ e u = v /\ agreesb (UF u c) b e = true /\ s = canon u c e /\ isat h dom c e = true).
Proof. exact pass_spec. Qed.
Print Assumptions C10_one_pass.

Theorem C10_intersection : forall pass v0 vs s,
  In s (inter pass (v0 :: vs)) <-> In s (pass v0) /\ forall v, In v vs -> existsb (binding_eqb s) (pass v) = true.
Proof. exact inter_forall. Qed.
Print Assumptions C10_intersection.

Theorem C10_rows_true : forall h dom u c b ywf r, In r (eval h dom (CForAll u c) b ywf) -> snd r = false.
Proof. exact forall_rows. Qed.
Print Assumptions C10_rows_true.

(* the evaluator WITH its de-duplication of rows (Dedup.v) computes for_all exactly as above: every pass starts from a fresh state
   and for_all requires from its condition EVERY variable of the condition (read from ForAll._required_variables_from_child_ by the
   translator on every run), so inside a pass nothing is dropped - whatever the query selects (U = the variables of the condition) *)
Theorem C10_forall_dedup : forall h dom U u c k b ywf s,
  (forall x, In x U -> NoDup (dom x)) -> (forall x, In x U -> dom x <> []) -> basic U c = true -> incl U (cvars c) ->
  in_dom dom b ->
  evalD h dom (CForAll u c) k b ywf s = (eval h dom (CForAll u c) b ywf, s).
Proof. exact forall_no_dedup. Qed.
Print Assumptions C10_forall_dedup.

Theorem C10_forall_requires_condition_variables : forall_adds_condition_variables = true.
Proof. reflexivity. Qed.
Print Assumptions C10_forall_requires_condition_variables.

(* non-vacuity of the hypotheses, and the witness of the repaired defect: for_all(u, or_(y.a != u.b, x.a != u.a)) selecting y only -
   x = o0 works for both universal values; had the passes been keyed on the selection, only the first x per value would survive *)
Example C10_dedup_nonvacuous :
  let h := [[VInt 3; VInt 1]; [VInt 0; VInt 0]; [VInt 0; VInt 0]; [VInt 2; VInt 0]] in
  let dom := fun k : key => match k with 1 => [VObj 2; VObj 0] | 2 => [VObj 2] | 9 => [VObj 2; VObj 3] | _ => [] end in
  let a k := TMap (MField 0) (TVar k) in let b k := TMap (MField 1) (TVar k) in
  let c := CElseIf (CCmp Ne (a 2) (b 9)) (CCmp Ne (a 1) (a 9)) in
  basic [9; 1; 2] c = true /\ incl [9; 1; 2] (cvars c) /\
  run_queryD h dom [TVar 2] (Some (CForAll 9 c)) = [[VObj 2]].
Proof. cbv zeta. split; [reflexivity|]. split; [intros x Hx; cbn in *; tauto|]. vm_compute. reflexivity. Qed.

(* non-vacuity: a disjunction whose first branch omits the free variable, two universal values, two free values —
   the defect witness of the repaired code: exactly the free value for which the condition holds for BOTH universal values *)
Example C10_nonvacuous :
  let h := [[VInt 1]; [VInt 0]; [VInt 3]; [VInt 0]] in
  let dom := fun k : key => match k with 1 => [VObj 2; VObj 3] | 9 => [VObj 0; VObj 1] | _ => [] end in
  let a k := TMap (MField 0) (TVar k) in
  let c := CForAll 9 (CElseIf (CCmp Gt (a 9) (TLit (VInt 0))) (CCmp Gt (a 1) (TLit (VInt 1)))) in
  run_query h dom [TVar 1] (Some c) = [[VObj 2]].
Proof. vm_compute. reflexivity. Qed.
