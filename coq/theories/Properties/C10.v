(* Property C10 — for_all yields exactly the bindings whose condition holds for every value.
   Only statements, `exact`, and Print Assumptions.

   FULL STATEMENT (what the property demands), for a non-empty universal domain:
     the rows of  eval (CForAll u c) b ywf  restricted to the free variables are exactly the assignments s of the free
     variables with  forall v in dom u, isat c (s, u := v).
   PROVED PART (C10_intersection_partial): the algorithm of ForAll._evaluate__ — one pass per universal value, running
   intersection, early exit — keeps exactly the rows of the first pass that are matched in EVERY other pass, whatever the
   number of universal values (induction over the domain).  MISSING for the full statement: that one pass returns exactly the
   satisfying assignments of the free variables under that universal value (the partition invariant of C02 with the
   universal variable pre-bound and the free variables completed); that half rests on the correspondence check. *)
From EQL Require Import Base Values Syntax Spec EvalPure ForAll_Facts.

Theorem C10_intersection_partial : forall pass v0 vs s,
  In s (inter pass (v0 :: vs)) <-> In s (pass v0) /\ forall v, In v vs -> existsb (binding_eqb s) (pass v) = true.
Proof. exact inter_forall. Qed.
Print Assumptions C10_intersection_partial.

Theorem C10_rows_true : forall h dom u c b ywf r, In r (eval h dom (CForAll u c) b ywf) -> snd r = false.
Proof. exact forall_rows. Qed.
Print Assumptions C10_rows_true.

(* non-vacuity: a disjunction whose first branch omits the free variable, two universal values, two free values —
   the defect witness of the repaired code: exactly the free value for which the condition holds for BOTH universal values *)
Example C10_nonvacuous :
  let h := [[VInt 1]; [VInt 0]; [VInt 3]; [VInt 0]] in
  let dom := fun k : key => match k with 1 => [VObj 2; VObj 3] | 9 => [VObj 0; VObj 1] | _ => [] end in
  let a k := TMap (MField 0) (TVar k) in
  let c := CForAll 9 (CElseIf (CCmp Gt (a 9) (TLit (VInt 0))) (CCmp Gt (a 1) (TLit (VInt 1)))) in
  run_query h dom [TVar 1] (Some c) = [[VObj 2]].
Proof. vm_compute. reflexivity. Qed.
