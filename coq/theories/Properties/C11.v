(* Property C11 — rule inference builds one instance per satisfying binding, from that binding.
   Only statements, `exact`, and Print Assumptions.

   A rule  infer(entity(T(f1 = e1, ..., fn = en), body))  is the query whose selected expressions are the constructor
   arguments [head = e1 .. en]; the evaluator builds one instance per final binding [b] of that query
   ([Query_Facts.final]: true rows of the body, the arguments bound one after the other under the row's binding), with
   fields [row_of head b].  U = the rule variables, each with a duplicate-free domain; `valid e` = e is an assignment of the
   rule variables to members of their domains. *)
From EQL Require Import Base Values Syntax Spec Generated Elab Elab_Facts EvalPure EvalPure_Facts Query_Facts Elab_Frag Infer_Facts.

(* exactly ONE instance is built from a binding that agrees with a satisfying assignment, NONE from one that agrees with a
   non-satisfying assignment - for every body the user can write (any nesting of and_/or_/not_, any subset of the variables) *)
Theorem C11_one_per_assignment : forall h dom U head sc ic e,
  (forall x, In x U -> NoDup (dom x)) -> sbasic U sc = true -> elab sc = Some ic -> forallb (tclosed U) head = true -> valid dom U e ->
  length (filter (fun b => agreesb U b e) (final h dom head ic)) = if sat h dom sc e then 1 else 0.
Proof.
  intros h dom U head sc ic e ND S E C V.
  rewrite (final_count h dom U ND head ic e (elab_basic U sc ic E S) C V). now rewrite (elab_sat h dom sc ic E e).
Qed.
Print Assumptions C11_one_per_assignment.

(* every instance is built from ONE assignment: its binding gives every rule variable the head mentions a member of that
   variable's domain (when the head mentions all rule variables, a total assignment) ... *)
Theorem C11_built_from_one_assignment : forall h dom U head sc ic b,
  (forall x, In x U -> NoDup (dom x)) -> sbasic U sc = true -> elab sc = Some ic -> forallb (tclosed U) head = true ->
  In b (final h dom head ic) ->
  forall x, (exists t, In t head /\ In x (tvars t)) -> exists v, lookup b x = Some v /\ In v (dom x).
Proof.
  intros h dom U head sc ic b ND S E C Hb. exact (instance_from_one_assignment h dom U head ic b (elab_basic U sc ic E S) C Hb).
Qed.
Print Assumptions C11_built_from_one_assignment.

(* ... and each field holds the value of its expression under that same assignment (object values are the heap objects
   themselves: values are identities in the model), constants are passed through whatever their truthiness *)
Theorem C11_fields_from_that_assignment : forall h dom U head sc ic b e,
  (forall x, In x U -> NoDup (dom x)) -> sbasic U sc = true -> elab sc = Some ic -> forallb (tclosed U) head = true ->
  In b (final h dom head ic) -> agreesb U b e = true -> valid dom U e ->
  row_of h dom head b = map (fun t => tval h t e) head.
Proof.
  intros h dom U head sc ic b e ND S E C Hb A V.
  exact (fields_of_instance h dom U ND head ic b e (elab_basic U sc ic E S) C Hb A V).
Qed.
Print Assumptions C11_fields_from_that_assignment.

(* the constructed field tuples are exactly what the query returns *)
Theorem C11_instances_are_rows : forall h dom head ic, run_query h dom head (Some ic) = map (row_of h dom head) (final h dom head ic).
Proof. intros. apply run_query_final. Qed.
Print Assumptions C11_instances_are_rows.

(* non-vacuity: two rule variables, body a disjunction one side of which leaves y unbound; head Pair-like with an attribute of
   y mentioned twice and a falsy constant; 4 of 6 assignments satisfy the body: 4 instances, fields not mixed *)
Example C11_nonvacuous :
  let h := [[VInt 1; VInt 7]; [VInt 2; VInt 8]; [VInt 0; VInt 9]] in
  let dom := fun k : key => match k with 1 => [VObj 0; VObj 1] | 2 => [VObj 0; VObj 1; VObj 2] | _ => [] end in
  let a k := TMap (MField 0) (TVar k) in let b k := TMap (MField 1) (TVar k) in
  let sc := SOr (SCmp Eq (a 1) (TLit (VInt 1))) (SCmp Eq (a 2) (TLit (VInt 0))) in
  let head := [TVar 1; b 2; TLit (VInt 0); TVar 2; b 2] in
  sbasic [1; 2] sc = true /\ forallb (tclosed [1; 2]) head = true /\
  exists ic, elab sc = Some ic /\
    run_query h dom head (Some ic) =
      [[VObj 0; VInt 7; VInt 0; VObj 0; VInt 7]; [VObj 0; VInt 8; VInt 0; VObj 1; VInt 8]; [VObj 0; VInt 9; VInt 0; VObj 2; VInt 9];
       [VObj 1; VInt 9; VInt 0; VObj 2; VInt 9]].
Proof. cbv zeta. split; [reflexivity|]. split; [reflexivity|]. eexists. split; vm_compute; reflexivity. Qed.
