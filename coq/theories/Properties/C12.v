(* Property C12 — a rule tree selects, per match, the conclusion ripple-down rules prescribe.
   Only statements, `exact`, and Print Assumptions. *)
From EQL Require Import Base Generated RuleTree RuleTree_Facts RuleTree_Grown.

(* For EVERY rule program - a base rule and, nested to ANY depth and in ANY order, refinements and alternatives under the
   base, under refinements and under alternatives (branches with pairwise distinct conclusions) - the operator tree the
   builders assemble by their in-place edits (rule.refinement wraps the current node in an ExceptIf and re-links it,
   rule.alternative climbs to the top of the chain, wraps it in an Alternative and re-links it) is the intended tree ... *)
Theorem C12_shape : forall base, NoDup (tags_n base) -> build_checked base = Some (chain_t base).
Proof.
  intros base N. unfold build_checked.
  assert (B : builders_as_modelled = true) by reflexivity.   (* the linking behaviour extracted from rule.py on this run *)
  rewrite B. f_equal. exact (build_is_intended base N).
Qed.
Print Assumptions C12_shape.

(* ... and evaluating that tree (ExceptIf: the right side's conclusion replaces the left's; Alternative: consulted only where
   everything before it is false) yields, for every item, exactly the conclusion ripple-down rules prescribe: the branch
   chosen is the first of its level whose conditions hold, its conclusion is replaced by that of the first applicable
   exception, recursively; an item no branch applies to gets no conclusion *)
Theorem C12_rdr : forall base t x, NoDup (tags_n base) -> build_checked base = Some t -> fire t x = rdr base x.
Proof.
  intros base t x N H. rewrite (C12_shape base N) in H. injection H as <-. exact (intended_tree_rdr base x).
Qed.
Print Assumptions C12_rdr.

(* the two halves separately *)
Theorem C12_builders : forall base, NoDup (tags_n base) -> build base = chain_t base.
Proof. exact build_is_intended. Qed.
Print Assumptions C12_builders.

Theorem C12_evaluation : forall n x, fire (chain_t n) x = rdr n x.
Proof. exact intended_tree_rdr. Qed.
Print Assumptions C12_evaluation.

(* what the specification says at the base: an alternative contributes only where the base does not hold; where it holds,
   the conclusion is the base's unless an exception applies *)
Theorem C12_alternative_only_when_base_fails : forall c tag b x, holds c x = false -> rdr (RN c tag b) x = alt_sel b x.
Proof. exact rdr_base_false. Qed.
Theorem C12_refinement_replaces : forall c tag b x, holds c x = true ->
  rdr (RN c tag b) x = Some (match exc_sel b x with Some t => t | None => tag end).
Proof. exact rdr_base_true. Qed.
Print Assumptions C12_refinement_replaces.

(* GROWN trees.  Re-entering `with rule_mode(query)` attaches at the query's conditions root ([reenter]: the new branch wraps the
   whole tree).  Alternatives added that way - any number, with any blocks of their own, to a tree t assembled so far, after any
   evaluation - build exactly the tree a single block would have built ([build_b] continuing from the base rule, the leftmost
   branch of t): the theorems above therefore cover rule trees maintained the ripple-down way, one alternative after the other.
   (A refinement added after re-entering a wrapped tree is a refinement of the WHOLE tree, not of the base rule:
   RuleTree_Grown.grown_refinement_differs.) *)
Theorem C12_grown_alternatives : forall b t, only_alts b = true -> grow b t = build_b b t (leftmost t).
Proof. exact grown_alternatives. Qed.
Print Assumptions C12_grown_alternatives.

(* ... and ANY statement written after re-entering, one per session: a refinement written then refines the WHOLE tree built so far
   (wherever some conclusion was selected, the refinement's conclusion - the most specific applicable one inside its own block -
   replaces it where the refinement applies), an alternative applies where nothing was selected.  [sel_grown v later x]: that
   reading, from the conclusion v the first session's program selects.  Proved for every base program, every sequence of later
   sessions (each statement with a block of any shape) and every item; tags pairwise different. *)
Theorem C12_grown_sessions : forall base later x, NoDup (tags_n base ++ tags_b later) ->
  fire (grow later (build base)) x = sel_grown (rdr base x) later x.
Proof. exact grown_program. Qed.
Print Assumptions C12_grown_sessions.

Example C12_grown_sessions_nonvacuous :
  let base := RN [(0,1)] 1 (BCons KAlt (RN [(1,1)] 2 BNil) BNil) in
  let later := BCons KRef (RN [(2,1)] 3 (BCons KAlt (RN [(3,1)] 4 BNil) BNil)) (BCons KRef (RN [(3,0)] 5 BNil) BNil) in
  NoDup (tags_n base ++ tags_b later) /\
  show_tree (grow later (build base)) = "E(E(A(L1,L2),A(L3,L4)),L5)"%string /\
  (* base false, alternative true, first later refinement applies: the conclusion of the whole tree so far (2) is replaced *)
  map (fun x => fire (grow later (build base)) x) [[0;1;1;1]; [0;1;0;1]; [1;0;0;0]; [0;0;1;1]] = [Some 3; Some 4; Some 5; None].
Proof. cbv zeta. split; [repeat constructor; cbn; intuition congruence|]. split; vm_compute; reflexivity. Qed.

Example C12_grown_nonvacuous :
  let base := RN [(0,1)] 1 (BCons KRef (RN [(1,1)] 2 BNil) BNil) in
  let later := BCons KAlt (RN [(2,1)] 3 (BCons KRef (RN [(3,1)] 4 BNil) BNil)) (BCons KAlt (RN [(3,0)] 5 BNil) BNil) in
  only_alts later = true /\ leftmost (build base) = 1 /\
  show_tree (grow later (build base)) = "A(A(E(L1,L2),E(L3,L4)),L5)"%string.
Proof. vm_compute. repeat split. Qed.

(* non-vacuity: base b0=1 with a refinement (b1=1) that has its own refinement (b2=1) and an alternative (b3=1), a second
   refinement of the base, and two alternatives of the base, the second with a refinement; all 16 four-bit items *)
Example C12_nonvacuous :
  let prog := RN [(0,1)] 1 (BCons KRef (RN [(1,1)] 2 (BCons KRef (RN [(2,1)] 3 BNil) (BCons KAlt (RN [(3,1)] 4 BNil) BNil)))
                          (BCons KRef (RN [(2,0)] 5 BNil)
                          (BCons KAlt (RN [(1,1)] 6 BNil)
                          (BCons KAlt (RN [(2,1)] 7 (BCons KRef (RN [(3,1)] 8 BNil) BNil)) BNil)))) in
  NoDup (tags_n prog) /\
  show_tree (build prog) = "A(A(E(E(L1,L5),A(E(L2,L3),L4)),L6),E(L7,L8))"%string /\
  map (rdr prog) [[1;1;1;0]; [1;1;0;0]; [1;0;0;1]; [1;0;1;0]; [0;1;0;0]; [0;0;1;1]; [0;0;1;0]; [0;0;0;1]]
    = [Some 3; Some 2; Some 4; Some 1; Some 6; Some 8; Some 7; None].
Proof. cbv zeta. split; [repeat constructor; cbn; intuition congruence|]. split; vm_compute; reflexivity. Qed.
