(* Property C13 — predicate-form terms equal the explicit form and filter by type.
   Only statements, `exact`, and Print Assumptions. *)
From EQL Require Import Base Values Syntax Spec Generated Elab Elab_Facts EvalPure EvalPure_Facts Query_Facts Elab_Frag
  PredForm PredForm_Facts.

(* The k-th positional argument after From(d) constrains the k-th constructor field (0-based, self excluded).
   [positional_field] is extracted from predicate.update_domain_and_kwargs_from_args on every run: with the index
   expression `init_args[i+1]` of the pinned commit this statement does not hold (it gave field S k) and stops compiling. *)
Theorem C13_positional : forall k, positional_field true (S k) = k.
Proof. exact positional_after_domain. Qed.
Print Assumptions C13_positional.

(* at any nesting depth, what the implementation builds from positional arguments is the keyword form the property intends *)
Theorem C13_explicit_is_intended : forall p, explicit p = intended p.
Proof. exact explicit_intended. Qed.
Print Assumptions C13_explicit_is_intended.

(* the conjunction built for the terms T(From(d), …) of a query (plus further conditions) is true under an assignment
   exactly when every given field of every term, nested ones included, equals the given value (constant, expression over
   other variables, or the value of the nested term's variable) — one equality per given field, nothing else *)
Theorem C13_meaning : forall h dom ts extra sc e, pcond (map intended ts) extra = Some sc ->
  sat h dom sc e = forallb (holds h e) ts && forallb (fun c => sat h dom c e) extra.
Proof. exact pcond_meaning. Qed.
Print Assumptions C13_meaning.

(* rows: over the type-filtered domains, exactly the projections of the assignments under which every field equality holds
   (any number of terms, any nesting, any class table, any heap; U = all variables of the query) *)
Theorem C13_rows_complete : forall c U sc ic e,
  let ts := map explicit (pc_terms c) in let dom := pdom c ts in
  (forall x, In x U -> NoDup (dom x)) -> pcond ts (pc_extra c) = Some sc -> sbasic U sc = true -> elab sc = Some ic ->
  (forall x, In x (pc_sel c) -> In x U) -> valid dom U e ->
  forallb (holds (pc_heap c) e) (pc_terms c) && forallb (fun c' => sat (pc_heap c) dom c' e) (pc_extra c) = true ->
  In (map e (pc_sel c)) (run_query (pc_heap c) dom (map TVar (pc_sel c)) (Some ic)).
Proof. exact pred_rows_complete. Qed.
Print Assumptions C13_rows_complete.

Theorem C13_rows_sound : forall c U sc ic r,
  let ts := map explicit (pc_terms c) in let dom := pdom c ts in
  (forall x, In x U -> NoDup (dom x)) -> pcond ts (pc_extra c) = Some sc -> sbasic U sc = true -> elab sc = Some ic ->
  (forall x, In x (pc_sel c) -> In x U) -> (forall x, In x U -> dom x <> []) ->
  In r (run_query (pc_heap c) dom (map TVar (pc_sel c)) (Some ic)) ->
  exists e, valid dom U e /\ r = map e (pc_sel c) /\
            forallb (holds (pc_heap c) e) (pc_terms c) && forallb (fun c' => sat (pc_heap c) dom c' e) (pc_extra c) = true.
Proof. exact pred_rows_sound. Qed.
Print Assumptions C13_rows_sound.

(* a variable of type T over a supplied domain ranges over exactly the members that are instances of T, in the
   order supplied, each as often as supplied; instances of subclasses (any depth) included *)
Theorem C13_typefilter_members : forall ct cls T d v,
  In v (type_filter ct cls T d) <-> In v d /\ instance_of ct cls T v = true.
Proof. exact type_filter_In. Qed.
Print Assumptions C13_typefilter_members.

Theorem C13_typefilter_order : forall ct cls T d1 d2,
  type_filter ct cls T (d1 ++ d2) = type_filter ct cls T d1 ++ type_filter ct cls T d2.
Proof. exact type_filter_order. Qed.
Print Assumptions C13_typefilter_order.

Theorem C13_subclasses_included : forall ct c T, wf_ctable ct -> (subclass ct c T = true <-> Sub ct c T).
Proof. exact subclass_spec. Qed.
Print Assumptions C13_subclasses_included.

(* non-vacuity: class 1 is a subclass of class 0; K0(From(d), 1, f1 = K1(From(d), 2)) over a mixed domain; the positional 1
   constrains field 0, the nested term is matched by the object of the subclass; one of two candidates qualifies *)
Example C13_nonvacuous :
  let c := {| pc_heap := [[VInt 1; VObj 2]; [VInt 1; VObj 3]; [VInt 2; VInt 0]; [VInt 0; VInt 0]; [VInt 5]];
              pc_cls := [0; 0; 1; 1; 2]; pc_ct := [None; Some 0; None];
              pc_terms := [PT 1 0 [VObj 4; VObj 0; VObj 1; VObj 2] (APos (PConst (VInt 1)) (AKw 1 (PNest (PT 2 1 [VObj 3; VObj 4; VObj 2] (APos (PConst (VInt 2)) ANil))) ANil))];
              pc_extra := []; pc_sel := [1] |} in
  let ts := map explicit (pc_terms c) in
  pdom c ts 1 = [VObj 0; VObj 1; VObj 2] /\ pdom c ts 2 = [VObj 3; VObj 2] /\
  exists sc ic, pcond ts (pc_extra c) = Some sc /\ sbasic [1; 2] sc = true /\ elab sc = Some ic /\
    run_query (pc_heap c) (pdom c ts) [TVar 1] (Some ic) = [[VObj 0]].
Proof. cbv zeta. split; [reflexivity|]. split; [reflexivity|]. eexists. eexists.
  split; [vm_compute; reflexivity|]. split; [vm_compute; reflexivity|]. split; vm_compute; reflexivity. Qed.
