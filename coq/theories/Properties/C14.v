(* Property C14 — a variable without a domain ranges over exactly the live registry of instances.
   Only statements, `exact`, and Print Assumptions. *)
From Coq Require Import Permutation.
From EQL Require Import Base PredForm Registry Registry_Facts.

(* For EVERY class table and EVERY finite history of concrete constructions (any class, any signature style), symbolic
   constructions, rule inferences (any number of instances), clearings, queries and ABANDONED queries (k results taken, then
   closed), observed step by step: every query of a
   class T returns a permutation of the concrete constructions of T and of its subclasses logged since the last clearing
   (reference: a plain list, Registry.refstep), WITHOUT repetition, and the number of initialisations that ran equals the
   number of concrete constructions (so symbolic construction never initialises). *)
Theorem C14_registry : forall ct ops, all_obs_ok ops (rrun ct rinit ops) (refrun ct refinit ops).
Proof. intros ct ops. exact (run_refines ct ops rinit refinit inv_init). Qed.
Print Assumptions C14_registry.

(* the same, stated on the state reached after any history and for any class queried then *)
Theorem C14_query_after : forall ct ops T,
  Permutation (reg_query ct (reg (rstate_after ct rinit ops)) T) (ref_query ct (lg (refstate_after ct refinit ops)) T) /\
  NoDup (reg_query ct (reg (rstate_after ct rinit ops)) T).
Proof. intros ct ops T. exact (query_refines ct _ _ T (after_inv ct ops rinit refinit inv_init)). Qed.
Print Assumptions C14_query_after.

(* symbolic construction registers nothing and initialises nothing: the state is unchanged *)
Theorem C14_symbolic_inert : forall ct s c, rstep ct s (OSymbolic c) = (s, []).
Proof. reflexivity. Qed.
Print Assumptions C14_symbolic_inert.

(* instances created by rule inference are registered like any concrete construction *)
Theorem C14_inferred_are_registered : forall ct s c n, fst (rstep ct s (OInfer c n)) = concrete_n n s c.
Proof. reflexivity. Qed.
Print Assumptions C14_inferred_are_registered.

(* non-vacuity: class 1 and 2 are subclasses of 0, class 3 of 1; constructions of four classes, a symbolic construction, an
   inference of two instances, a clearing in the middle; the final query of the root returns the three objects built after it *)
Example C14_nonvacuous :
  let ct := [None; Some 0; Some 0; Some 1] in
  let ops := [OConcrete 1; OConcrete 3; OQuery 0; OClear; OConcrete 2; OSymbolic 0; OInfer 3 2; OConcrete 0; OQuery 1; OQuery 0] in
  map fst (rrun ct rinit ops) = [[]; []; [0; 1]; []; []; []; []; []; [3; 4]; [2; 3; 4; 5]] /\
  map fst (refrun ct refinit ops) = [[]; []; [0; 1]; []; []; []; []; []; [3; 4]; [2; 3; 4; 5]].
Proof. split; vm_compute; reflexivity. Qed.
