(* Property C15 — a sub-query used inside a query means the same as its conditions inlined.
   Only statements, `exact`, and Print Assumptions. *)
From EQL Require Import Base Values Syntax Spec Elab Elab_Facts EvalPure EvalPure_Facts Query_Facts Elab_Frag Quant_Facts Dedup Dedup_Facts.

(* inlining every an(entity(v, c)) / an(set_of(vs, c)) used as a condition does not change truth ... *)
Theorem C15_inline_sat : forall h dom c e, sat h dom (inline c) e = sat h dom c e.
Proof. exact sat_inline. Qed.
Print Assumptions C15_inline_sat.

(* ... nor the rows the evaluator returns: for every context built from & | not and further sub-queries (any depth), any
   selection of variables, any heap and (duplicate-free, non-empty) domains — the nested An node yields, flag for flag,
   what its condition yields (eval_cover covers CSub, C02_partition) *)
Theorem C15_inline_rows : forall h dom U xs sc ic ic',
  (forall x, In x U -> NoDup (dom x)) -> sbasic U sc = true -> elab sc = Some ic -> elab (inline sc) = Some ic' ->
  (forall x, In x xs -> In x U) -> (forall x, In x U -> dom x <> []) ->
  forall r, In r (run_query h dom (map TVar xs) (Some ic)) <-> In r (run_query h dom (map TVar xs) (Some ic')).
Proof.
  intros h dom U xs sc ic ic' ND B E E' HU NE.
  apply (same_sat_same_rows h dom U ND xs sc (inline sc) ic ic' B (sbasic_inline U sc B) E E'); [|exact HU|exact NE].
  intros e. symmetry. apply sat_inline.
Qed.
Print Assumptions C15_inline_rows.

(* ... also for the evaluator WITH its de-duplication of rows (Dedup.v: the operators of a nested query key their duplicate checks on
   what the nested query selects and on what the enclosing operators require; tied to symbolic.py by exact row sequences) *)
Theorem C15_inline_rows_dedup : forall h dom U xs sc ic ic',
  (forall x, In x U -> NoDup (dom x)) -> sbasic U sc = true -> elab sc = Some ic -> elab (inline sc) = Some ic' ->
  (forall x, In x xs -> In x U) -> (forall x, In x U -> dom x <> []) ->
  forall r, In r (run_queryD h dom (map TVar xs) (Some ic)) <-> In r (run_queryD h dom (map TVar xs) (Some ic')).
Proof.
  intros h dom U xs sc ic ic' ND B E E' HU NE r.
  pose proof (elab_basic U sc ic E B) as Bi. pose proof (elab_basic U (inline sc) ic' E' (sbasic_inline U sc B)) as Bi'.
  split; intros H.
  - destruct (dedup_sound h dom U ND xs ic r Bi HU NE H) as (e & V & T & ->).
    apply (dedup_complete h dom U ND xs ic' e Bi' HU V).
    rewrite (elab_sat h dom (inline sc) ic' E' e), sat_inline, <- (elab_sat h dom sc ic E e). exact T.
  - destruct (dedup_sound h dom U ND xs ic' r Bi' HU NE H) as (e & V & T & ->).
    apply (dedup_complete h dom U ND xs ic e Bi HU V).
    rewrite (elab_sat h dom sc ic E e), <- sat_inline, <- (elab_sat h dom (inline sc) ic' E' e). exact T.
Qed.
Print Assumptions C15_inline_rows_dedup.

(* non-vacuity: (sub-query | condition) & sub-query, two variables *)
Example C15_nonvacuous :
  let h := [[VInt 1]; [VInt 2]; [VInt 3]] in
  let dom := fun k : key => match k with 1 => [VObj 0; VObj 1; VObj 2] | 2 => [VObj 1; VObj 2] | _ => [] end in
  let a k := TMap (MField 0) (TVar k) in
  let sc := SAnd (SOr (SSub [TVar 1] (SCmp Gt (a 1) (TLit (VInt 2)))) (SCmp Eq (a 1) (a 2))) (SSub [TVar 2; TVar 1] (SCmp Lt (a 2) (TLit (VInt 3)))) in
  sbasic [1; 2] sc = true /\
  exists ic ic', elab sc = Some ic /\ elab (inline sc) = Some ic' /\ ic <> ic' /\
    run_query h dom [TVar 1; TVar 2] (Some ic) = [[VObj 1; VObj 1]; [VObj 2; VObj 1]] /\
    run_query h dom [TVar 1; TVar 2] (Some ic') = [[VObj 1; VObj 1]; [VObj 2; VObj 1]].
Proof. cbv zeta. split; [reflexivity|]. eexists. eexists. split; [vm_compute; reflexivity|]. split; [vm_compute; reflexivity|].
  split; [discriminate|]. split; vm_compute; reflexivity. Qed.
