(* Property C16 — flatten behaves as UNNEST: one row per inner element, correlated with its parent.
   Only statements, `exact`, and Print Assumptions.  x = the parent variable, id = the flatten node, t = the flattened
   expression (any attribute chain / index / call over the parent); inner v = the elements of t under parent v
   (a non-iterable value counts as a single element). *)
From EQL Require Import Base Values Syntax Spec EvalPure EvalPure_Facts OneVar_Facts Shapes_Facts.

(* parent and element selected: one row per inner element of every parent, each paired with ITS parent, in order,
   with multiplicity — any heap, any parent domain, inner collections of any length (empty, overlapping, repeated) *)
Theorem C16_unnest : forall h dom x id t, Nat.eqb id x = false -> t1 x t = true -> mentions t = true ->
  run_query h dom [TVar x; TFlat id t] None = flat_map (fun v => map (fun e => [v; e]) (inner h x t v)) (dom x).
Proof. intros. apply unnest_parent_elem; assumption. Qed.
Print Assumptions C16_unnest.

(* only the element selected *)
Theorem C16_unnest_elem : forall h dom x id t, Nat.eqb id x = false -> t1 x t = true -> mentions t = true ->
  run_query h dom [TFlat id t] None = flat_map (fun v => map (fun e => [e]) (inner h x t v)) (dom x).
Proof. intros. apply unnest_elem; assumption. Qed.
Print Assumptions C16_unnest_elem.

(* a further condition on the flattened element filters the element rows and keeps every other binding *)
Theorem C16_unnest_filtered : forall h dom x id, Nat.eqb id x = false -> forall t, t1 x t = true -> mentions t = true -> forall o w,
  run_query h dom [TVar x; TFlat id t] (Some (CCmp o (TFlat id t) (TLit w)))
  = flat_map (fun v => map (fun e => [v; e]) (filter (fun e => apply_op o e w) (inner h x t v))) (dom x).
Proof. intros. apply unnest_filtered; assumption. Qed.
Print Assumptions C16_unnest_filtered.

(* ANY condition on the parent - any tree of comparisons, memberships, expressions in condition position, and / or / not and
   nested queries over the parent variable (c1 x c) -: the parents are filtered, every surviving parent is unnested in full, in order *)
Theorem C16_unnest_where : forall h dom x id t, Nat.eqb id x = false -> t1 x t = true -> mentions t = true -> forall c, c1 x c = true ->
  run_query h dom [TVar x; TFlat id t] (Some c)
  = flat_map (fun v => if isat h dom c (ev x v) then map (fun e => [v; e]) (inner h x t v) else []) (dom x).
Proof. intros. apply unnest_where; assumption. Qed.
Print Assumptions C16_unnest_where.

(* ... and a condition on the parent AND a condition on the flattened element *)
Theorem C16_unnest_where_filtered : forall h dom x id t, Nat.eqb id x = false -> t1 x t = true -> mentions t = true ->
  forall c o w, c1 x c = true ->
  run_query h dom [TVar x; TFlat id t] (Some (CAnd c (CCmp o (TFlat id t) (TLit w))))
  = flat_map (fun v => if isat h dom c (ev x v) then map (fun e => [v; e]) (filter (fun e => apply_op o e w) (inner h x t v)) else [])
             (dom x).
Proof. intros. apply unnest_where_filtered; assumption. Qed.
Print Assumptions C16_unnest_where_filtered.

(* a DISJUNCTION over items / attributes of the flattened element, an ITEM of the element selected (not the element itself): one
   row per element that satisfies either branch - two elements of one parent are two rows, whichever branch admits them -, each
   carrying its own item.  (The shape of the defect repaired by 3f0ecc1: the implementation keyed the rows of the right branch on the
   parent only.) *)
Theorem C16_unnest_item_disjunction : forall h dom x id t, Nat.eqb id x = false -> t1 x t = true -> mentions t = true ->
  forall m m1 o1 w1 m2 o2 w2,
  run_query h dom [TMap m (TFlat id t)]
    (Some (CElseIf (CCmp o1 (TMap m1 (TFlat id t)) (TLit w1)) (CCmp o2 (TMap m2 (TFlat id t)) (TLit w2))))
  = flat_map (fun v => map (fun e => [apply_map h m e])
                           (filter (fun e => apply_op o1 (apply_map h m1 e) w1 || apply_op o2 (apply_map h m2 e) w2) (inner h x t v))) (dom x).
Proof. intros. apply unnest_item_disjunction; assumption. Qed.
Print Assumptions C16_unnest_item_disjunction.

(* the same disjunction with the PARENT alone selected: one row per qualifying element - a parent that qualifies through its
   second element only is still delivered (the shape of the defect repaired by 448bd07) *)
Theorem C16_unnest_parent_disjunction : forall h dom x id t, Nat.eqb id x = false -> t1 x t = true -> mentions t = true ->
  forall m1 o1 w1 m2 o2 w2,
  run_query h dom [TVar x]
    (Some (CElseIf (CCmp o1 (TMap m1 (TFlat id t)) (TLit w1)) (CCmp o2 (TMap m2 (TFlat id t)) (TLit w2))))
  = flat_map (fun v => map (fun _ => [v])
                           (filter (fun e => apply_op o1 (apply_map h m1 e) w1 || apply_op o2 (apply_map h m2 e) w2) (inner h x t v))) (dom x).
Proof. intros. apply unnest_parent_disjunction; assumption. Qed.
Print Assumptions C16_unnest_parent_disjunction.

Example C16_where_nonvacuous :
  let h := [[VTup [AInt 1; AInt 2]; VInt 0]; [VTup []; VInt 1]; [VTup [AInt 2; AInt 2; AInt 0]; VInt 1]; [VInt 7; VInt 0]] in
  let dom := fun k : key => if Nat.eqb k 1 then [VObj 0; VObj 1; VObj 2; VObj 3] else [] in
  let t := TMap (MField 0) (TVar 1) in
  let c := CElseIf (CCmp Eq (TMap (MField 1) (TVar 1)) (TLit (VInt 1))) (CCmp Eq (TMap (MField 0) (TVar 1)) (TLit (VInt 7))) in
  c1 1 c = true /\
  run_query h dom [TVar 1; TFlat 5 t] (Some c) = [[VObj 2; VInt 2]; [VObj 2; VInt 2]; [VObj 2; VInt 0]; [VObj 3; VInt 7]] /\
  run_query h dom [TVar 1; TFlat 5 t] (Some (CAnd c (CCmp Ge (TFlat 5 t) (TLit (VInt 2))))) = [[VObj 2; VInt 2]; [VObj 2; VInt 2]; [VObj 3; VInt 7]].
Proof. vm_compute. repeat split. Qed.

Example C16_nonvacuous :
  let h := [[VTup [AInt 1; AInt 2]]; [VTup []]; [VTup [AInt 2; AInt 2; AInt 0]]; [VInt 7]] in
  let dom := fun k : key => if Nat.eqb k 1 then [VObj 0; VObj 1; VObj 2; VObj 3] else [] in
  let t := TMap (MField 0) (TVar 1) in
  run_query h dom [TVar 1; TFlat 5 t] None
  = [[VObj 0; VInt 1]; [VObj 0; VInt 2]; [VObj 2; VInt 2]; [VObj 2; VInt 2]; [VObj 2; VInt 0]; [VObj 3; VInt 7]] /\
  run_query h dom [TVar 1; TFlat 5 t] (Some (CCmp Ge (TFlat 5 t) (TLit (VInt 2))))
  = [[VObj 0; VInt 2]; [VObj 2; VInt 2]; [VObj 2; VInt 2]; [VObj 3; VInt 7]].
Proof. vm_compute. split; reflexivity. Qed.
