(* Property C17 — concatenate yields a single value: all inner elements, in order.
   Only statements, `exact`, and Print Assumptions. *)
From EQL Require Import Base Values Syntax Spec EvalPure EvalPure_Facts OneVar_Facts Shapes_Facts.

(* exactly ONE row, whose value is the list of all elements of t over all parents: domain order, inner order, multiplicity
   (all_elems is a flat_map over the domain) — for any parent domain, including the empty one and all-empty collections *)
Theorem C17_single : forall h dom x id t, t1 x t = true -> mentions t = true ->
  run_query h dom [TConcat id t] None = [[all_elems h dom x t]].
Proof. intros. apply concat_single; assumption. Qed.
Print Assumptions C17_single.

(* membership (o = Contains) and non-membership (o = NotContains) of an outer variable's attribute against it select exactly
   the outer values that are (are not) in the combined list, in outer-domain order *)
Theorem C17_membership : forall h dom x id t, t1 x t = true -> mentions t = true ->
  forall y, Nat.eqb y id = false -> forall o m,
  run_query h dom [TVar y] (Some (CCmp o (TConcat id t) (TMap m (TVar y))))
  = map (fun w => [w]) (filter (fun w => apply_op o (all_elems h dom x t) (apply_map h m w)) (dom y)).
Proof. intros. apply concat_membership; assumption. Qed.
Print Assumptions C17_membership.

(* the same for ANY concatenated expression u (an attribute chain, flatten(...) of one, ...): the single value lists, in order,
   the elements of every row u has ([concat_value]: a flat_map over the rows of u) ... *)
Theorem C17_single_any : forall h dom cid u, run_query h dom [TConcat cid u] None = [[concat_value h dom u]].
Proof. exact concat_any_single. Qed.
Print Assumptions C17_single_any.

Theorem C17_membership_any : forall h dom cid u y, Nat.eqb y cid = false -> forall o m,
  run_query h dom [TVar y] (Some (CCmp o (TConcat cid u) (TMap m (TVar y))))
  = map (fun w => [w]) (filter (fun w => apply_op o (concat_value h dom u) (apply_map h m w)) (dom y)).
Proof. exact concat_any_membership. Qed.
Print Assumptions C17_membership_any.

(* ... and the concatenation binds ONLY itself: a variable it ranges over (x) stays free - selected next to the outer variable it
   takes every value of its domain for every qualifying outer value.  (The pinned code bound x to the list of all its values:
   a second concatenation over x crashed, selecting x returned lists; repaired in /repo.) *)
Theorem C17_parent_stays_free : forall h dom cid u y, Nat.eqb y cid = false -> forall x, Nat.eqb x cid = false -> Nat.eqb x y = false ->
  forall o m,
  run_query h dom [TVar y; TVar x] (Some (CCmp o (TConcat cid u) (TMap m (TVar y))))
  = flat_map (fun w => map (fun v => [w; v]) (dom x))
             (filter (fun w => apply_op o (concat_value h dom u) (apply_map h m w)) (dom y)).
Proof. exact concat_any_leaves_parent_free. Qed.
Print Assumptions C17_parent_stays_free.

(* ... and for u = flatten(t) these are the elements of the elements of t, parent by parent (a collection of collections is
   concatenated one level deeper than concatenate(t) would) *)
Theorem C17_concat_of_flatten : forall h dom x fid t, t1 x t = true -> mentions t = true ->
  concat_value h dom (TFlat fid t)
  = VTup (flat_map (fun v => flat_map atoms_of (elements (tval h t (ev x v)))) (dom x)).
Proof. exact concat_value_flat. Qed.
Print Assumptions C17_concat_of_flatten.

Example C17_nonvacuous :
  let h := [[VTup [AInt 1; AInt 2]; VInt 2]; [VTup []; VInt 5]; [VTup [AInt 2; AInt 0]; VInt 0]] in
  let dom := fun k : key => match k with 1 => [VObj 2; VObj 1; VObj 0] | 2 => [VObj 0; VObj 1; VObj 2] | _ => [] end in
  let t := TMap (MField 0) (TVar 1) in
  run_query h dom [TConcat 6 t] None = [[VTup [AInt 2; AInt 0; AInt 1; AInt 2]]] /\
  run_query h dom [TVar 2] (Some (CCmp NotContains (TConcat 6 t) (TMap (MField 1) (TVar 2)))) = [[VObj 1]] /\
  run_query h (fun _ => []) [TConcat 6 t] None = [[VTup []]] /\
  (* a collection of collections (groups (1,2) and (), the scalar 7): concatenate lists the groups, concatenate(flatten) their elements *)
  let h2 := [[VTup [ATup [1; 2]%Z; ATup []; AInt 7]]; [VTup [ATup [2]%Z]]] in
  let dom2 := fun k : key => match k with 1 => [VObj 0; VObj 1] | _ => [] end in
  run_query h2 dom2 [TConcat 6 t] None = [[VTup [ATup [1; 2]%Z; ATup []; AInt 7; ATup [2]%Z]]] /\
  run_query h2 dom2 [TConcat 6 (TFlat 5 t)] None = [[VTup [AInt 1; AInt 2; AInt 7; AInt 2]]].
Proof. vm_compute. repeat split. Qed.
