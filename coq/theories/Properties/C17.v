(* Property C17 — concatenate yields a single value: all inner elements, in order.
   Only statements, `exact`, and Print Assumptions. *)
From EQL Require Import Base Values Syntax Spec EvalPure EvalPure_Facts OneVar_Facts Shapes_Facts.

(* exactly ONE row, whose value is the list of all elements of t over all parents: domain order, inner order, multiplicity
   (all_elems is a flat_map over the domain) — for any parent domain, including the empty one and all-empty collections *)
Theorem C17_single : forall h dom x id t, t1 x t = true -> mentions t = true ->
  run_query h dom [TConcat id t] None = [[all_elems h dom x t]].
Proof. intros. apply concat_single; assumption. Qed.
Print Assumptions C17_single.

(* membership (o = Contains) and non-membership (o = NotContains) of an outer variable's attribute against it select exactly
   the outer values that are (are not) in the combined list, in outer-domain order *)
Theorem C17_membership : forall h dom x id t, t1 x t = true -> mentions t = true ->
  forall y, Nat.eqb y id = false -> forall o m,
  run_query h dom [TVar y] (Some (CCmp o (TConcat id t) (TMap m (TVar y))))
  = map (fun w => [w]) (filter (fun w => apply_op o (all_elems h dom x t) (apply_map h m w)) (dom y)).
Proof. intros. apply concat_membership; assumption. Qed.
Print Assumptions C17_membership.

Example C17_nonvacuous :
  let h := [[VTup [AInt 1; AInt 2]; VInt 2]; [VTup []; VInt 5]; [VTup [AInt 2; AInt 0]; VInt 0]] in
  let dom := fun k : key => match k with 1 => [VObj 2; VObj 1; VObj 0] | 2 => [VObj 0; VObj 1; VObj 2] | _ => [] end in
  let t := TMap (MField 0) (TVar 1) in
  run_query h dom [TConcat 6 t] None = [[VTup [AInt 2; AInt 0; AInt 1; AInt 2]]] /\
  run_query h dom [TVar 2] (Some (CCmp NotContains (TConcat 6 t) (TMap (MField 1) (TVar 2)))) = [[VObj 1]] /\
  run_query h (fun _ => []) [TConcat 6 t] None = [[VTup []]].
Proof. vm_compute. repeat split. Qed.
