(* Property C18 — meaning-preserving rewrites of a query do not change its result set.
   Only statements, `exact`, and Print Assumptions.  [rw] is the closure (reflexive, transitive, under and/or/not contexts) of:
   commutativity and (re-)association of and_ / or_, mirroring a comparison (a < b as b > a, a literal on either side),
   contains(c, i) vs in_(i, c). *)
From EQL Require Import Base Values Syntax Spec Generated Elab Elab_Facts EvalPure EvalPure_Facts Query_Facts Elab_Frag Quant_Facts Dedup Dedup_Facts.

(* every composition of the listed rewrites preserves truth under every assignment *)
Theorem C18_rewrite_sat : forall h dom c c', rw c c' -> forall e, sat h dom c e = sat h dom c' e.
Proof. exact rw_sat. Qed.
Print Assumptions C18_rewrite_sat.

(* ... hence the result set, for any selection of variables (implementation level: a corollary of C02 on both sides) *)
Theorem C18_invariant : forall h dom U xs sc sc' ic ic',
  (forall x, In x U -> NoDup (dom x)) -> rw sc sc' -> sbasic U sc = true -> sbasic U sc' = true ->
  elab sc = Some ic -> elab sc' = Some ic' -> (forall x, In x xs -> In x U) -> (forall x, In x U -> dom x <> []) ->
  forall r, In r (run_query h dom (map TVar xs) (Some ic)) <-> In r (run_query h dom (map TVar xs) (Some ic')).
Proof.
  intros h dom U xs sc sc' ic ic' ND R B B' E E' HU NE.
  apply (same_sat_same_rows h dom U ND xs sc sc' ic ic' B B' E E'); [|exact HU|exact NE]. now apply rw_sat.
Qed.
Print Assumptions C18_invariant.

(* ... and the same for the evaluator WITH its de-duplication of rows (Dedup.v: the per-operator seen sets keyed on what
   `_required_variables_from_child_` reports - the tables are re-extracted from symbolic.py on every run, and run_queryD is the model
   the implementation is compared with row by row): whatever the rewrites do to the order of operands, hence to which rows an
   operator drops as duplicates, the result SET of every projection stays the same *)
Theorem C18_invariant_dedup : forall h dom U xs sc sc' ic ic',
  (forall x, In x U -> NoDup (dom x)) -> rw sc sc' -> sbasic U sc = true -> sbasic U sc' = true ->
  elab sc = Some ic -> elab sc' = Some ic' -> (forall x, In x xs -> In x U) -> (forall x, In x U -> dom x <> []) ->
  forall r, In r (run_queryD h dom (map TVar xs) (Some ic)) <-> In r (run_queryD h dom (map TVar xs) (Some ic')).
Proof.
  intros h dom U xs sc sc' ic ic' ND R B B' E E' HU NE r.
  assert (X : forall s s' i i', (forall e, sat h dom s e = sat h dom s' e) -> sbasic U s = true -> sbasic U s' = true ->
              elab s = Some i -> elab s' = Some i' ->
              In r (run_queryD h dom (map TVar xs) (Some i)) -> In r (run_queryD h dom (map TVar xs) (Some i'))).
  { intros s s' i i' Q Bs Bs' Es Es' H.
    destruct (dedup_sound h dom U ND xs i r (elab_basic U s i Es Bs) HU NE H) as (e & V & T & ->).
    apply (dedup_complete h dom U ND xs i' e (elab_basic U s' i' Es' Bs') HU V).
    rewrite (elab_sat h dom s' i' Es' e), <- Q, <- (elab_sat h dom s i Es e). exact T. }
  split; [apply (X sc sc' ic ic') | apply (X sc' sc ic' ic)]; try assumption.
  - now apply rw_sat.
  - intros e. symmetry. now apply rw_sat.
Qed.
Print Assumptions C18_invariant_dedup.

(* permuting the elements of a domain (dom' has the same members) does not change the result set *)
Theorem C18_domain_permutation : forall h dom dom' U xs sc ic,
  (forall x, In x U -> NoDup (dom x)) -> (forall x, In x U -> NoDup (dom' x)) ->
  (forall x v, In v (dom x) <-> In v (dom' x)) -> forall_free sc = true ->
  sbasic U sc = true -> elab sc = Some ic -> (forall x, In x xs -> In x U) -> (forall x, In x U -> dom x <> []) ->
  forall r, In r (run_query h dom (map TVar xs) (Some ic)) -> In r (run_query h dom' (map TVar xs) (Some ic)).
Proof.
  intros h dom dom' U xs sc ic ND ND' P FF B E HU NE r H.
  destruct (selection_sound h dom U ND xs ic r (elab_basic U sc ic E B) HU NE H) as (e & V & S & ->).
  apply (selection_complete h dom' U ND' xs ic e (elab_basic U sc ic E B) HU).
  - intros x Hx. apply P. now apply V.
  - rewrite (elab_sat h dom' sc ic E e), <- (sat_dom_irrelevant h dom dom' sc FF e), <- (elab_sat h dom sc ic E e). exact S.
Qed.
Print Assumptions C18_domain_permutation.

(* the tables behind the rewrites, regenerated from the source: chains fold to the left with AND / _optimize_or,
   contains(c, i) and in_(i, c) build the same node *)
Theorem C18_tables : chain_left_fold = true /\ and_builder = B_AND /\ or_builder = B_optimize_or /\
  (forall cont i, elab_contains cont i = elab_in i cont).
Proof. repeat split. Qed.
Print Assumptions C18_tables.

Example C18_nonvacuous :
  let a k := TMap (MField 0) (TVar k) in
  let c := SAnd (SAnd (SCmp Lt (a 1) (TLit (VInt 3))) (SContains (TMap (MField 1) (TVar 2)) (a 1))) (SNot (SCmp Ge (TLit (VInt 1)) (a 2))) in
  let c' := SAnd (SNot (SCmp Le (a 2) (TLit (VInt 1)))) (SAnd (SIn (a 1) (TMap (MField 1) (TVar 2))) (SCmp Gt (TLit (VInt 3)) (a 1))) in
  rw c c'.
Proof.
  cbv zeta. eapply rw_trans; [apply rw_and_comm|]. eapply rw_trans; [apply rw_and_l, rw_not, rw_mirror; reflexivity|].
  apply rw_and_r. eapply rw_trans; [apply rw_and_comm|]. eapply rw_trans; [apply rw_and_l, rw_contains_in|].
  apply rw_and_r. apply rw_mirror. reflexivity.
Qed.
