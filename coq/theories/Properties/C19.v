(* Property C19 — values are not truth: falsy values are handled like any other value.
   Only statements, `exact`, and Print Assumptions.
   The theorems of C01 / C02 carry NO hypothesis about the truthiness of any value: in the P-model a term in value
   position (operand, selected expression) is never filtered — only CTruth, an expression standing in condition position,
   reads `truthy`.  The statements below spell that out for the positions the property lists. *)
From EQL Require Import Base Values Syntax Spec Generated Elab Elab_Facts EvalPure EvalPure_Facts OneVar_Facts Elab_Frag.

(* operand position: comparing any attribute / index / call expression with ANY literal w — 0, '', (), None, False included —
   returns exactly the objects on which the comparison holds, in order *)
Theorem C19_operand : forall h dom x o m w,
  six o = true ->
  exists ic, elab (SCmp o (TMap m (TVar x)) (TLit w)) = Some ic /\
  run_query h dom [TVar x] (Some ic) = map (fun v => [v]) (filter (fun v => apply_op o (apply_map h m v) w) (dom x)).
Proof.
  intros h dom x o m w S.
  destruct (elab_writable (SCmp o (TMap m (TVar x)) (TLit w)) S) as (ic & E). exists ic. split; [exact E|].
  assert (S1 : s1 x (SCmp o (TMap m (TVar x)) (TLit w)) = true) by (cbn -[Nat.eqb]; rewrite !Nat.eqb_refl; reflexivity).
  rewrite (one_var_filter h dom x ic (elab_c1 x _ ic E S1)). f_equal. apply filter_ext. intros v.
  rewrite (elab_sat h dom _ ic E (ev x v)). cbn. unfold ev, upd. now rewrite Nat.eqb_refl.
Qed.
Print Assumptions C19_operand.

(* membership position: `w in x.items` for ANY literal w *)
Theorem C19_membership : forall h dom x m w,
  exists ic, elab (SIn (TLit w) (TMap m (TVar x))) = Some ic /\
  run_query h dom [TVar x] (Some ic) = map (fun v => [v]) (filter (fun v => vin w (apply_map h m v)) (dom x)).
Proof.
  intros h dom x m w. eexists. split; [reflexivity|].
  rewrite one_var_filter by (cbn -[Nat.eqb]; rewrite !Nat.eqb_refl; reflexivity). f_equal. apply filter_ext. intros v.
  cbn. unfold ev, upd. now rewrite Nat.eqb_refl.
Qed.
Print Assumptions C19_membership.

(* selected-output position: a selected expression is delivered with its value whatever that value is *)
Theorem C19_selected : forall h dom x m c, c1 x c = true ->
  run_query h dom [TVar x; TMap m (TVar x)] (Some c)
  = map (fun v => [v; apply_map h m v]) (filter (fun v => isat h dom c (ev x v)) (dom x)).
Proof. exact select_expression. Qed.
Print Assumptions C19_selected.

(* only an expression standing in condition position is read as a boolean *)
Theorem C19_condition_position : forall h dom x m,
  run_query h dom [TVar x] (Some (CTruth (TMap m (TVar x)) false))
  = map (fun v => [v]) (filter (fun v => truthy (apply_map h m v)) (dom x)).
Proof.
  intros h dom x m. rewrite one_var_filter by (cbn -[Nat.eqb]; rewrite !Nat.eqb_refl; reflexivity). f_equal. apply filter_ext. intros v.
  cbn. unfold ev, upd. rewrite Nat.eqb_refl. apply xorb_false_l.
Qed.
Print Assumptions C19_condition_position.

(* non-vacuity: the falsy alphabet routed through operand, membership and selected positions *)
Example C19_nonvacuous :
  let h := [[VInt 0; VA (AStr ""); VTup []]; [VInt 2; VA (AStr "u"); VTup [AInt 0; AInt 1]]; [VInt 0; VA ANone; VTup [AInt 2]]] in
  let dom := fun k : key => if Nat.eqb k 1 then [VObj 0; VObj 1; VObj 2] else [] in
  run_query h dom [TVar 1] (Some (CCmp Eq (TMap (MField 0) (TVar 1)) (TLit (VInt 0)))) = [[VObj 0]; [VObj 2]] /\
  run_query h dom [TVar 1] (Some (CCmp Contains (TMap (MField 2) (TVar 1)) (TLit (VInt 0)))) = [[VObj 1]] /\
  run_query h dom [TVar 1; TMap (MField 1) (TVar 1)] (Some (CCmp Ne (TMap (MField 2) (TVar 1)) (TLit (VTup [AInt 2]))))
  = [[VObj 0; VA (AStr "")]; [VObj 1; VA (AStr "u")]].
Proof. vm_compute. repeat split. Qed.

(* a CONSTANT in condition position (and_(c, flag), not_(flag) with a Python value) is read as a boolean like every other
   expression there: one row - the incoming binding, untouched - flagged by the truth of the constant (inverted under not_), and
   nothing when the constant is false and false rows are not asked for.  (symbolic.py: Literal._evaluate__, repaired by 1e19dac;
   the generators pass bool constants as operands of and_ / or_ / not_.) *)
Theorem C19_constant_condition : forall h dom v inv b ywf,
  eval h dom (CTruth (TLit v) inv) b ywf
  = (if ywf || negb (negb (xorb inv (truthy v))) then [(b, negb (xorb inv (truthy v)))] else []).
Proof. intros. cbn [eval eval_term flat_map fst snd]. now rewrite app_nil_r. Qed.
Print Assumptions C19_constant_condition.

(* ... so a false constant conjunct empties the result and a true one changes nothing (truth of the elaborated condition) *)
Theorem C19_constant_conjunct : forall h dom c v e,
  isat h dom (CAnd c (CTruth (TLit v) false)) e = isat h dom c e && truthy v.
Proof. intros. cbn [isat tval]. now rewrite Bool.xorb_false_l. Qed.
Print Assumptions C19_constant_conjunct.
