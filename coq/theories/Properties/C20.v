(* Property C20 — the result-cache index returns exactly the stored entries matching a lookup.
   Only statements, `exact`, and Print Assumptions live here. *)
From EQL Require Import Base IndexedCache IndexedCache_Facts IndexedCache_Sound IndexedCache_Perm.
From Coq Require Import Permutation.

(* Coverage: after ANY well-formed history (inserts under non-empty bindings over the key list,
   checks of lookups binding at least one key, retrievals, clears — any number, any order), a check
   of a lookup that binds at least one key succeeds exactly when some binding inserted since the
   last clear is contained in the lookup.  Unbounded in history length, key list and alphabet. *)
Theorem C20_check : forall ks ops a,
  forallb (op_ok ks) ops = true -> binds_some ks a = true ->
  fst (ic_check (impl (state_after ks ops)) a)
  = existsb (fun c => covers c a) (spec_seen (state_after ks ops)).
Proof. exact check_after_history. Qed.
Print Assumptions C20_check.

(* non-vacuity: a history with partial bindings, an overwrite and a check meets the hypotheses,
   and the check is answered positively *)
Example C20_check_nonvacuous :
  let ks := [1; 2; 3] in
  let ops := [OIns [(1, 0)] 7; OIns [(2, 1); (3, 0)] 8; OChk [(1, 1)]; OIns [(1, 0)] 9] in
  forallb (op_ok ks) ops = true /\ binds_some ks [(1, 0); (2, 2)] = true /\
  fst (ic_check (impl (state_after ks ops)) [(1, 0); (2, 2)]) = true.
Proof. vm_compute. auto. Qed.

(* Clearing empties the index: nothing is retrieved and no lookup is covered. *)
Theorem C20_clear : forall c a,
  ic_retrieve (ic_clear c) a = [] /\
  (binds_some (keys c) a = true -> fst (ic_check (ic_clear c) a) = false).
Proof. exact clear_empties. Qed.
Print Assumptions C20_clear.

(* Retrieval, IN FULL: after ANY well-formed history, for every key list (at least one key) and every lookup - full, partial or
   empty -, retrieval returns a permutation of the reference answer: each stored entry whose binding agrees with the lookup on
   every key they share, all of them, each once, paired with that entry's binding merged into the lookup, and nothing else.
   (At the pinned commit this statement was REFUTED - theorem C20_retrieve_refuted of earlier runs, known finding
   C20-wildcard-preference: a level holding both the wildcard and a concrete key lost one of the two.  The defect was repaired in
   /repo; the model follows the repaired code line by line and is compared with it on every run.) *)
Theorem C20_retrieve : forall ks ops l, ks <> [] -> forallb (op_ok ks) ops = true ->
  Permutation (ic_retrieve (impl (state_after ks ops)) l) (spec_retrieve ks (spec (state_after ks ops)) l).
Proof. exact retrieve_exact. Qed.
Print Assumptions C20_retrieve.

(* its two halves, as they are used elsewhere (C05_indexed_full_rows) *)
Theorem C20_retrieve_sound : forall ks ops l r o, ks <> [] -> forallb (op_ok ks) ops = true ->
  In (r, o) (ic_retrieve (impl (state_after ks ops)) l) ->
  exists b, In (b, o) (spec (state_after ks ops)) /\ compatible ks b l = true.
Proof. exact retrieve_sound. Qed.
Print Assumptions C20_retrieve_sound.

Theorem C20_retrieve_complete : forall ks ops l b o, ks <> [] -> forallb (op_ok ks) ops = true ->
  In (b, o) (spec (state_after ks ops)) -> compatible ks b l = true ->
  exists r, In (r, o) (ic_retrieve (impl (state_after ks ops)) l).
Proof. exact retrieve_complete. Qed.
Print Assumptions C20_retrieve_complete.

(* non-vacuity: the former counter-example (wildcard and concrete key on one level; the empty lookup) and a history with an
   overwrite, a partial lookup and mixed levels *)
Example C20_retrieve_nonvacuous :
  let ks := [1; 2] in
  let ops := [OIns [(1, 0)] 7; OIns [(2, 0)] 8; OIns [(1, 0); (2, 1)] 5; OIns [(1, 0)] 9] in
  forallb (op_ok ks) ops = true /\
  map snd (ic_retrieve (impl (state_after ks ops)) []) = [9; 5; 8] /\
  map snd (ic_retrieve (impl (state_after ks ops)) [(1, 0)]) = [9; 5; 8] /\
  map snd (ic_retrieve (impl (state_after ks ops)) [(1, 0); (2, 0)]) = [9; 8] /\
  map snd (ic_retrieve (impl (state_after ks ops)) [(1, 1)]) = [8].
Proof. cbv zeta. split; [reflexivity|]. repeat split; vm_compute; reflexivity. Qed.
