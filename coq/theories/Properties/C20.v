(* Property C20 — the result-cache index returns exactly the stored entries matching a lookup.
   Only statements, `exact`, and Print Assumptions live here. *)
From EQL Require Import Base IndexedCache IndexedCache_Facts IndexedCache_Sound.
From Coq Require Import Permutation.

(* Coverage: after ANY well-formed history (inserts under non-empty bindings over the key list,
   checks of lookups binding at least one key, retrievals, clears — any number, any order), a check
   of a lookup that binds at least one key succeeds exactly when some binding inserted since the
   last clear is contained in the lookup.  Unbounded in history length, key list and alphabet. *)
Theorem C20_check : forall ks ops a,
  forallb (op_ok ks) ops = true -> binds_some ks a = true ->
  fst (ic_check (impl (state_after ks ops)) a)
  = existsb (fun c => covers c a) (spec_seen (state_after ks ops)).
Proof. exact check_after_history. Qed.
Print Assumptions C20_check.

(* non-vacuity: a history with partial bindings, an overwrite and a check meets the hypotheses,
   and the check is answered positively *)
Example C20_check_nonvacuous :
  let ks := [1; 2; 3] in
  let ops := [OIns [(1, 0)] 7; OIns [(2, 1); (3, 0)] 8; OChk [(1, 1)]; OIns [(1, 0)] 9] in
  forallb (op_ok ks) ops = true /\ binds_some ks [(1, 0); (2, 2)] = true /\
  fst (ic_check (impl (state_after ks ops)) [(1, 0); (2, 2)]) = true.
Proof. vm_compute. auto. Qed.

(* Clearing empties the index: nothing is retrieved and no lookup is covered. *)
Theorem C20_clear : forall c a,
  ic_retrieve (ic_clear c) a = [] /\
  (binds_some (keys c) a = true -> fst (ic_check (ic_clear c) a) = false).
Proof. exact clear_empties. Qed.
Print Assumptions C20_clear.

(* Retrieval.  FULL STATEMENT (what the property demands):
     forall ks ops l, forallb (op_ok ks) ops = true ->
       Permutation (ic_retrieve (impl (state_after ks ops)) l)
                   (spec_retrieve ks (spec (state_after ks ops)) l).
   It is false of the faithful model (and of the code — known finding C20-wildcard-preference):
   witness keys [1;2], insert {1:0}->7, insert {2:0}->8, retrieve {} returns one entry, not two. *)
Theorem C20_retrieve_refuted :
  exists ks ops l,
    forallb (op_ok ks) ops = true /\
    let s := state_after ks ops in
    ~ Permutation (ic_retrieve (impl s) l) (spec_retrieve ks (spec s) l).
Proof. exact retrieve_complete_refuted. Qed.
Print Assumptions C20_retrieve_refuted.

(* The SOUND half of retrieval holds, for every key list (at least one key), every well-formed history and every lookup:
   whatever retrieve returns is the output currently stored for an entry of the reference store whose binding is compatible
   with the lookup - retrieval never invents an entry, never returns an overwritten output, never returns an entry that
   contradicts the lookup.  With C20_retrieve_refuted this fixes the direction of the known finding: entries are LOST only. *)
Theorem C20_retrieve_sound : forall ks ops l r o, ks <> [] -> forallb (op_ok ks) ops = true ->
  In (r, o) (ic_retrieve (impl (state_after ks ops)) l) ->
  exists b, In (b, o) (spec (state_after ks ops)) /\ compatible ks b l = true.
Proof. exact retrieve_sound. Qed.
Print Assumptions C20_retrieve_sound.

Example C20_retrieve_sound_nonvacuous :
  let ks := [1; 2] in let ops := [OIns [(1, 0)] 7; OIns [(2, 0)] 8; OIns [(1, 0)] 9] in
  forallb (op_ok ks) ops = true /\ map snd (ic_retrieve (impl (state_after ks ops)) [(1, 0)]) = [9].
Proof. split; vm_compute; reflexivity. Qed.

(* ... and retrieval is COMPLETE whenever no level of the index holds both the wildcard and a concrete key: every stored entry
   compatible with the lookup is returned.  So the known finding needs a MIXED level - exactly what the run-time signature of
   the finding observes (a retrieval that visits a level holding All and a concrete key). *)
Theorem C20_retrieve_complete_unmixed : forall ks ops l b o, ks <> [] -> forallb (op_ok ks) ops = true ->
  Unmixed (root (impl (state_after ks ops))) ->
  In (b, o) (spec (state_after ks ops)) -> compatible ks b l = true ->
  exists r, In (r, o) (ic_retrieve (impl (state_after ks ops)) l).
Proof. exact retrieve_complete_unmixed. Qed.
Print Assumptions C20_retrieve_complete_unmixed.

(* non-vacuity: full bindings only (what the unit tests reach): no mixed level, a partial lookup returns both compatible entries *)
Example C20_unmixed_nonvacuous :
  let ks := [1; 2] in let ops := [OIns [(1, 0); (2, 0)] 7; OIns [(1, 0); (2, 1)] 8; OIns [(1, 1); (2, 0)] 9] in
  forallb (op_ok ks) ops = true /\ map snd (ic_retrieve (impl (state_after ks ops)) [(1, 0)]) = [7; 8] /\
  Unmixed (root (impl (state_after ks ops))).
Proof.
  cbv zeta. split; [reflexivity|]. split; [vm_compute; reflexivity|]. vm_compute.
  constructor; [right; reflexivity|]. intros c ch [H|[H|[]]]; injection H as _ <-;
    (constructor; [right; reflexivity | intros c' ch' H'; cbn in H'; intuition discriminate]).
Qed.
