(* Quant_Facts.v — `the` (C06), sub-queries inlined (C15), meaning-preserving rewrites (C18): corollaries of the
   evaluator theorems of Query_Facts.v. *)
From EQL Require Import Base Values Syntax Spec Elab Elab_Facts EvalPure EvalPure_Facts Query_Facts Elab_Frag.

Section T.
  Variable h : heap.
  Variable dom : key -> list val.
  Variable U : list key.
  Hypothesis dom_nodup : forall x, In x U -> NoDup (dom x).

  Notation isat := (isat h dom).
  Notation valid := (valid dom U).
  Notation basic := (basic U).
  Notation rows c := (run_query h dom (map TVar U) (Some c)).

  (* with every variable selected no extension of the row is needed: soundness without the non-emptiness premise *)
  Lemma all_selected_sound c r : basic c = true -> In r (rows c) -> exists e, valid e /\ isat c e = true /\ r = map e U.
  Proof.
    intros B H. rewrite run_query_final in H. apply in_map_iff in H as (b & <- & Hb).
    assert (C : forallb (tclosed U) (map TVar U) = true).
    { apply forallb_forall. intros t Ht. apply in_map_iff in Ht as (x & <- & Hx). unfold tclosed. cbn.
      rewrite andb_true_r. now apply inU. }
    pose proof (final_in_dom h dom U _ _ _ B C Hb) as D.
    pose proof Hb as Hb'. unfold final in Hb'. apply in_flat_map in Hb' as (b1 & _ & Hb').
    destruct (bind_sel_vars_bound h dom U b1 b Hb') as [_ Q].
    set (e := valof b).
    assert (V : valid e).
    { intros x Hx. unfold e, valof. specialize (Q x Hx). unfold bound in Q. destruct (lookup b x) eqn:L; [now apply D | discriminate]. }
    assert (A : agreesb U b e = true).
    { unfold agreesb. apply forallb_forall. intros x Hx. unfold e, valof. destruct (lookup b x); [apply val_eqb_refl | reflexivity]. }
    exists e. split; [exact V|]. split.
    - pose proof (final_count h dom U dom_nodup (map TVar U) c e B C V) as N.
      destruct (isat c e); [reflexivity|]. cbn [ind] in N.
      assert (Hin : In b (filter (fun b => agreesb U b e) (final h dom (map TVar U) c))) by (apply filter_In; now split).
      destruct (filter (fun b => agreesb U b e) (final h dom (map TVar U) c)); [destruct Hin | discriminate].
    - rewrite row_of_vars by exact Q. reflexivity.
  Qed.

  Lemma all_selected_complete c e : basic c = true -> valid e -> isat c e = true -> In (map e U) (rows c).
  Proof. intros B V S. apply (selection_complete h dom U dom_nodup U c e B (fun x H => H) V S). Qed.

  Lemma count_row_cons_same r l : count_row r (r :: l) = S (count_row r l).
  Proof. unfold count_row. cbn [filter]. assert (E : row_eqb r r = true) by now apply row_eqb_eq. now rewrite E. Qed.

  (* ---------- C06 ---------- *)
  Theorem the_none c : basic c = true ->
    (the_of (rows c) = ONone <-> forall e, valid e -> isat c e = false).
  Proof.
    intros B. split.
    - intros H e V. destruct (isat c e) eqn:S; [exfalso|reflexivity]. pose proof (all_selected_complete c e B V S) as I.
      destruct (rows c) as [|r0 l0]; [destruct I | destruct l0; discriminate H].
    - intros H. destruct (rows c) as [|r l] eqn:E; [reflexivity|]. exfalso.
      destruct (all_selected_sound c r B) as (e & V & S & _); [rewrite E; now left|]. rewrite (H e V) in S. discriminate.
  Qed.

  Theorem the_value c r : basic c = true -> the_of (rows c) = OValue r ->
    exists e, valid e /\ isat c e = true /\ r = map e U /\ (forall e', valid e' -> isat c e' = true -> map e' U = r).
  Proof.
    intros B H. destruct (rows c) as [|r0 [|r1 l]] eqn:E; try discriminate. injection H as ->.
    destruct (all_selected_sound c r B) as (e & V & S & R); [rewrite E; now left|].
    exists e. repeat split; try assumption. intros e' V' S'. pose proof (all_selected_complete c e' B V' S') as I.
    rewrite E in I. destruct I as [I|[]]. now symmetry.
  Qed.

  Theorem the_many c : basic c = true -> the_of (rows c) = OMany ->
    exists e1 e2, valid e1 /\ valid e2 /\ isat c e1 = true /\ isat c e2 = true /\ map e1 U <> map e2 U.
  Proof.
    intros B H. destruct (rows c) as [|r0 [|r1 l]] eqn:E; try discriminate.
    destruct (all_selected_sound c r0 B) as (e1 & V1 & S1 & R1); [rewrite E; now left|].
    destruct (all_selected_sound c r1 B) as (e2 & V2 & S2 & R2); [rewrite E; right; now left|].
    exists e1, e2. repeat split; try assumption. intros Heq.
    pose proof (all_selected_count h dom U dom_nodup c e1 B V1) as N. rewrite S1, E in N. cbn [ind] in N.
    rewrite <- R1 in N. rewrite count_row_cons_same in N. rewrite R1, Heq, <- R2 in N. rewrite count_row_cons_same in N. discriminate.
  Qed.

  (* the value `the` returns is the row `an` yields *)
  Theorem the_is_an c r : the_of (rows c) = OValue r -> rows c = [r].
  Proof. destruct (rows c) as [|r0 [|r1 l]]; try discriminate. now intros H; injection H as ->. Qed.

  (* ---------- C15: a sub-query used as a condition means its condition ---------- *)
  Fixpoint inline (c : scond) : scond :=
    match c with
    | SAnd a b => SAnd (inline a) (inline b)
    | SOr a b => SOr (inline a) (inline b)
    | SNot a => SNot (inline a)
    | SForAll u c' => SForAll u (inline c')
    | SSub _ c' => inline c'
    | leaf => leaf
    end.

  Lemma sat_inline c : forall e, sat h dom (inline c) e = sat h dom c e.
  Proof.
    induction c as [o l r|i cont|cont i|t|a IHa b IHb|a IHa b IHb|a IHa|u c IH|sel c IH]; intros e; cbn [inline Spec.sat]; try reflexivity.
    - now rewrite IHa, IHb.
    - now rewrite IHa, IHb.
    - now rewrite IHa.
    - apply forallb_ext'. intros v. apply IH.
    - apply IH.
  Qed.

  Lemma sbasic_inline c : sbasic U c = true -> sbasic U (inline c) = true.
  Proof.
    induction c as [o l r|i cont|cont i|t|a IHa b IHb|a IHa b IHb|a IHa|u c IH|sel c IH]; cbn [inline sbasic]; intros H; try assumption; try discriminate.
    - apply andb_prop in H as [Ha Hb]. now rewrite IHa, IHb.
    - apply andb_prop in H as [Ha Hb]. now rewrite IHa, IHb.
    - now apply IHa.
    - apply andb_prop in H as [_ Hc]. now apply IH.
  Qed.

  (* two queries whose conditions are true on the same assignments return the same rows, for any selection *)
  Theorem same_sat_same_rows xs sc sc' ic ic' :
    sbasic U sc = true -> sbasic U sc' = true -> elab sc = Some ic -> elab sc' = Some ic' ->
    (forall e, sat h dom sc e = sat h dom sc' e) ->
    (forall x, In x xs -> In x U) -> (forall x, In x U -> dom x <> []) ->
    forall r, In r (run_query h dom (map TVar xs) (Some ic)) <-> In r (run_query h dom (map TVar xs) (Some ic')).
  Proof.
    intros B B' E E' EQ HU NE r.
    assert (G : forall s s' i i', sbasic U s = true -> elab s = Some i -> sbasic U s' = true -> elab s' = Some i' ->
                (forall e, sat h dom s e = sat h dom s' e) ->
                In r (run_query h dom (map TVar xs) (Some i)) -> In r (run_query h dom (map TVar xs) (Some i'))).
    { intros s s' i i' Bs Es Bs' Es' Q H.
      destruct (selection_sound h dom U dom_nodup xs i r (elab_basic U s i Es Bs) HU NE H) as (e & V & S & ->).
      apply (selection_complete h dom U dom_nodup xs i' e (elab_basic U s' i' Es' Bs') HU V).
      rewrite (elab_sat h dom s' i' Es' e), <- Q, <- (elab_sat h dom s i Es e). exact S. }
    split; [apply (G sc sc' ic ic') | apply (G sc' sc ic' ic)]; auto.
  Qed.
End T.

(* ---------- C18: the listed rewrites preserve truth ---------- *)
Definition mirror (o : cmpop) : cmpop := match o with Lt => Gt | Gt => Lt | Le => Ge | Ge => Le | x => x end.

Inductive rw : scond -> scond -> Prop :=
| rw_refl c : rw c c
| rw_trans a b c : rw a b -> rw b c -> rw a c
| rw_and_comm a b : rw (SAnd a b) (SAnd b a)
| rw_or_comm a b : rw (SOr a b) (SOr b a)
| rw_and_assoc a b c : rw (SAnd (SAnd a b) c) (SAnd a (SAnd b c))
| rw_and_assoc' a b c : rw (SAnd a (SAnd b c)) (SAnd (SAnd a b) c)
| rw_or_assoc a b c : rw (SOr (SOr a b) c) (SOr a (SOr b c))
| rw_or_assoc' a b c : rw (SOr a (SOr b c)) (SOr (SOr a b) c)
| rw_mirror o l r : six o = true -> rw (SCmp o l r) (SCmp (mirror o) r l)
| rw_contains_in cont i : rw (SContains cont i) (SIn i cont)
| rw_in_contains cont i : rw (SIn i cont) (SContains cont i)
| rw_and_l a a' b : rw a a' -> rw (SAnd a b) (SAnd a' b)
| rw_and_r a b b' : rw b b' -> rw (SAnd a b) (SAnd a b')
| rw_or_l a a' b : rw a a' -> rw (SOr a b) (SOr a' b)
| rw_or_r a b b' : rw b b' -> rw (SOr a b) (SOr a b')
| rw_not a a' : rw a a' -> rw (SNot a) (SNot a').

Lemma mirror_sound o a b : six o = true -> apply_op (mirror o) b a = apply_op o a b.
Proof.
  destruct o; cbn; intros H; try discriminate; try reflexivity.
  - apply veqb_sym.
  - f_equal. apply veqb_sym.
Qed.

Lemma rw_sat h dom c c' : rw c c' -> forall e, sat h dom c e = sat h dom c' e.
Proof.
  induction 1; intros e; cbn [sat]; try reflexivity.
  - now rewrite IHrw1.
  - apply andb_comm.
  - apply orb_comm.
  - now rewrite andb_assoc.
  - now rewrite andb_assoc.
  - now rewrite orb_assoc.
  - now rewrite orb_assoc.
  - symmetry. now apply mirror_sound.
  - now rewrite IHrw.
  - now rewrite IHrw.
  - now rewrite IHrw.
  - now rewrite IHrw.
  - now rewrite IHrw.
Qed.

(* truth of a for_all-free condition does not depend on the domains (so permuting a domain cannot change it) *)
Fixpoint forall_free (c : scond) : bool :=
  match c with
  | SAnd a b | SOr a b => forall_free a && forall_free b
  | SNot a => forall_free a
  | SForAll _ _ => false
  | SSub _ c' => forall_free c'
  | _ => true
  end.
Lemma sat_dom_irrelevant h d d' c : forall_free c = true -> forall e, sat h d c e = sat h d' c e.
Proof.
  induction c as [o l r|i cont|cont i|t|a IHa b IHb|a IHa b IHb|a IHa|u c IH|sel c IH]; cbn [forall_free sat]; intros F e; try reflexivity; try discriminate.
  - apply andb_prop in F as [Fa Fb]. now rewrite IHa, IHb.
  - apply andb_prop in F as [Fa Fb]. now rewrite IHa, IHb.
  - now rewrite IHa.
  - now apply IH.
Qed.
