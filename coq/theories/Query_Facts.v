(* Query_Facts.v — from the partition invariant to what a query returns (properties C01, C02). *)
From EQL Require Import Base Values Syntax Spec EvalPure EvalPure_Facts.

Lemma flat_map_map_comm {A B C} (f : B -> C) (g : A -> list B) l :
  flat_map (fun a => map f (g a)) l = map f (flat_map g l).
Proof. induction l as [|a l IH]; simpl; [reflexivity|]. now rewrite map_app, IH. Qed.

(* equality of rows, decidable *)
Fixpoint row_eqb (r s : list val) : bool :=
  match r, s with
  | [], [] => true
  | v :: r', w :: s' => val_eqb v w && row_eqb r' s'
  | _, _ => false
  end.
Lemma row_eqb_eq r : forall s, row_eqb r s = true <-> r = s.
Proof.
  induction r as [|v r IH]; intros [|w s]; cbn; split; intros H; try discriminate; try reflexivity.
  - apply andb_prop in H as [H1 H2]. apply val_eqb_eq in H1. apply IH in H2. now subst.
  - injection H as -> ->. apply andb_true_intro. split; [apply val_eqb_refl | now apply IH].
Qed.
(* how many times a row occurs in a result *)
Definition count_row (r : list val) (rows : list (list val)) : nat := length (filter (row_eqb r) rows).

Section Q.
  Variable h : heap.
  Variable dom : key -> list val.
  Variable U : list key.
  Hypothesis dom_nodup : forall x, In x U -> NoDup (dom x).

  Notation eval_term := (eval_term h dom).
  Notation eval := (eval h dom).
  Notation isat := (isat h dom).
  Notation agreesb := (agreesb U).
  Notation valid := (valid dom U).
  Notation tclosed := (tclosed U).
  Notation basic := (basic U).
  Notation bind_sel := (bind_sel h dom).

  (* the bindings a query delivers: true rows of the condition, selected expressions bound *)
  Definition final (sel : list term) (c : cond) : list binding :=
    flat_map (bind_sel sel) (map fst (filter (fun p => negb (snd p)) (eval c [] false))).

  Lemma run_query_final sel c : run_query h dom sel (Some c) = map (row_of h dom sel) (final sel c).
  Proof.
    unfold run_query, final. rewrite <- flat_map_map_comm. apply flat_map_ext. intros b.
    now rewrite bind_selected_eq.
  Qed.

  Lemma agrees_nil e : agreesb [] e = true.
  Proof. unfold EvalPure_Facts.agreesb. apply forallb_forall. intros; reflexivity. Qed.

  (* every satisfying valid assignment is delivered by exactly one final binding, the others by none *)
  Lemma final_count sel c e : basic c = true -> forallb tclosed sel = true -> valid e ->
    length (filter (fun b => agreesb b e) (final sel c)) = ind (isat c e).
  Proof.
    intros B S V. unfold final. rewrite length_filter_flat_map, map_map.
    destruct (eval_cover h dom U dom_nodup c B [] false e (agrees_nil e) V) as [XF _].
    rewrite <- XF. unfold cover. clear XF.
    rewrite (list_sum_indicator _ (fun p => agreesb (fst p) e) 1).
    - rewrite Nat.mul_1_l. f_equal.
      induction (eval c [] false) as [|[b1 f1] l IH]; cbn [filter fst snd]; [reflexivity|].
      destruct f1; cbn [negb Bool.eqb andb filter fst snd]; [exact IH|]. destruct (agreesb b1 e); cbn [length]; now rewrite IH.
    - intros [b1 f1] H1. cbn [fst]. destruct (agreesb b1 e) eqn:A1.
      + apply (bind_sel_cover h dom U dom_nodup); assumption.
      + rewrite filter_all_false; [reflexivity|]. intros b2 H2. destruct (agreesb b2 e) eqn:A2; [|reflexivity].
        rewrite (bind_sel_ext h dom U sel S b1 b2 e H2 A2) in A1. discriminate.
  Qed.

  (* ---------- values bound by the evaluator come from the domains ---------- *)
  Definition in_dom (b : binding) : Prop := forall x v, lookup b x = Some v -> In v (dom x).

  Lemma in_dom_bind b x v : in_dom b -> In v (dom x) -> in_dom (bind b x v).
  Proof.
    intros Hb Hv y w. rewrite lookup_bind. destruct (Nat.eqb y x) eqn:E; [|apply Hb].
    apply Nat.eqb_eq in E; subst y. intros H; injection H as <-. exact Hv.
  Qed.

  Lemma term_in_dom t : flat_free t = true -> forall b b' v, in_dom b -> In (b', v) (eval_term t b) -> in_dom b'.
  Proof.
    induction t as [w|x|m t IH|id t IH|id t IH]; intros F b b' v D; cbn [EvalPure.eval_term]; cbn [flat_free] in F; try discriminate.
    - intros [H|[]]; injection H as <- _; exact D.
    - destruct (lookup b x) eqn:L.
      + intros [H|[]]; injection H as <- _; exact D.
      + intros H. apply in_map_iff in H as (o & H & Ho). injection H as <- _. now apply in_dom_bind.
    - intros H. apply in_map_iff in H as ([b1 v1] & H & H1). injection H as <- _. eapply IH; eassumption.
  Qed.

  Lemma bind_sel_in_dom sel : forallb tclosed sel = true -> forall b b', in_dom b -> In b' (bind_sel sel b) -> in_dom b'.
  Proof.
    induction sel as [|t sel IH]; intros C b b' D H; cbn [EvalPure_Facts.bind_sel] in H.
    - destruct H as [<-|[]]. exact D.
    - cbn [forallb] in C. apply andb_prop in C as [Ct Cs]. apply in_flat_map in H as ([b1 v1] & H1 & H). cbn [fst] in H.
      apply andb_prop in Ct as [F _]. eapply IH; [exact Cs | | exact H]. eapply term_in_dom; eassumption.
  Qed.

  Lemma eval_in_dom c : basic c = true -> forall b ywf b' fl, in_dom b -> In (b', fl) (eval c b ywf) -> in_dom b'.
  Proof.
    induction c as [o l r|t inv|x IHx y IHy|x IHx y IHy|u c IH|sel c IH]; intros B b ywf b' fl D H; cbn [EvalPure_Facts.basic] in B;
      try discriminate.
    - cbn [EvalPure.eval] in H. apply andb_prop in B as [Cl Cr].
      apply andb_prop in Cl as [Fl _]. apply andb_prop in Cr as [Fr _].
      assert (G : forall t1 t2 resf, flat_free t1 = true -> flat_free t2 = true ->
                  In (b', fl) (cmp_rows h dom t1 t2 resf b ywf) -> in_dom b').
      { intros t1 t2 resf F1 F2 G. unfold cmp_rows in G. apply in_flat_map in G as ([b1 v1] & G1 & G).
        apply in_flat_map in G as ([b2 v2] & G2 & G). cbn [fst snd] in G.
        destruct (resf v1 v2 || ywf); [|destruct G]. destruct G as [G|[]]. injection G as <- _.
        eapply (term_in_dom t2 F2 b1 b2 v2); [| exact G2]. eapply (term_in_dom t1 F1 b b1 v1); [exact D | exact G1]. }
      destruct (bound_in r b); [eapply (G r l) | eapply (G l r)]; eassumption.
    - cbn [EvalPure.eval] in H. apply in_flat_map in H as ([b1 v1] & H1 & H). cbn [fst snd] in H.
      destruct (ywf || negb (negb (xorb inv (truthy v1)))); [|destruct H]. destruct H as [H|[]]. injection H as <- _.
      apply andb_prop in B as [F _]. eapply term_in_dom; eassumption.
    - cbn [EvalPure.eval] in H. apply andb_prop in B as [Bx By]. apply in_flat_map in H as ([b1 f1] & H1 & H). cbn [fst snd] in H.
      destruct f1.
      + destruct ywf; [|destruct H]. destruct H as [H|[]]. injection H as <- _. eapply IHx; eassumption.
      + eapply IHy; [exact By | | exact H]. eapply IHx; eassumption.
    - cbn [EvalPure.eval] in H. apply andb_prop in B as [Bx By]. destruct (eval x b true) as [|p0 ls] eqn:E.
      + eapply IHy; eassumption.
      + rewrite <- E in H. apply in_flat_map in H as ([b1 f1] & H1 & H). cbn [fst snd] in H.
        destruct f1.
        * eapply IHy; [exact By | | exact H]. eapply IHx; eassumption.
        * destruct H as [H|[]]. injection H as <- _. eapply IHx; eassumption.
    - rewrite eval_sub_eq in H. apply andb_prop in B as [Bs Bc]. apply in_flat_map in H as ([b1 f1] & H1 & H). cbn [fst snd] in H.
      apply in_map_iff in H as (b2 & H & H2). injection H as <- _.
      eapply bind_sel_in_dom; [exact Bs | | exact H2]. eapply IH; eassumption.
  Qed.

  Lemma final_in_dom sel c b : basic c = true -> forallb tclosed sel = true -> In b (final sel c) -> in_dom b.
  Proof.
    intros B S H. unfold final in H. apply in_flat_map in H as (b1 & H1 & H).
    apply in_map_iff in H1 as ([b0 f0] & <- & H0). apply filter_In in H0 as [H0 _]. cbn [fst] in H.
    eapply bind_sel_in_dom; [exact S | | exact H]. eapply eval_in_dom; [exact B | | exact H0].
    intros x v L. discriminate.
  Qed.

  (* ---------- selections that are variables ---------- *)
  Definition valof (b : binding) (x : key) : val := match lookup b x with Some v => v | None => VA ANone end.

  Lemma bind_sel_vars_bound xs : forall b b', In b' (bind_sel (map TVar xs) b) ->
    (forall x v, lookup b x = Some v -> lookup b' x = Some v) /\ (forall x, In x xs -> bound b' x = true).
  Proof.
    induction xs as [|x xs IH]; intros b b' H; cbn [map EvalPure_Facts.bind_sel] in H.
    - destruct H as [<-|[]]. split; [auto | intros x []].
    - apply in_flat_map in H as ([b1 v1] & H1 & H). cbn [fst] in H. destruct (IH b1 b' H) as [P Q].
      cbn [EvalPure.eval_term] in H1.
      assert (M : (forall y v, lookup b y = Some v -> lookup b1 y = Some v) /\ bound b1 x = true).
      { destruct (lookup b x) eqn:L.
        - destruct H1 as [H1|[]]. injection H1 as <- _. split; [auto|]. unfold bound. now rewrite L.
        - apply in_map_iff in H1 as (o & H1 & _). injection H1 as <- _. split.
          + intros y v Ly. rewrite lookup_bind. destruct (Nat.eqb y x) eqn:E; [|exact Ly].
            apply Nat.eqb_eq in E; subst y. congruence.
          + unfold bound. rewrite lookup_bind, Nat.eqb_refl. reflexivity. }
      destruct M as [M1 M2]. split.
      + intros y v Ly. apply P, M1, Ly.
      + intros y [Hy|Hy]; [subst y|now apply Q]. unfold bound in *. destruct (lookup b1 x) as [w|] eqn:L1; [|discriminate].
        now rewrite (P x w L1).
  Qed.

  Lemma row_of_vars xs b : (forall x, In x xs -> bound b x = true) -> row_of h dom (map TVar xs) b = map (valof b) xs.
  Proof.
    intros H. unfold row_of. rewrite map_map. apply map_ext_in. intros x Hx. cbn [EvalPure.eval_term]. unfold valof.
    specialize (H x Hx). unfold bound in H. destruct (lookup b x); [reflexivity | discriminate].
  Qed.

  Lemma row_agrees xs b e : (forall x, In x xs -> In x U) -> (forall x, In x xs -> bound b x = true) ->
    agreesb b e = true -> map (valof b) xs = map e xs.
  Proof.
    intros HU HB A. apply map_ext_in. intros x Hx. unfold valof. specialize (HB x Hx). unfold bound in HB.
    destruct (lookup b x) eqn:L; [|discriminate]. symmetry. eapply agrees_lookup; eauto.
  Qed.

  (* ---------- C02: any selection of variables ---------- *)
  (* completeness: the projection of every satisfying assignment is returned *)
  Theorem selection_complete xs c e : basic c = true -> (forall x, In x xs -> In x U) -> valid e -> isat c e = true ->
    In (map e xs) (run_query h dom (map TVar xs) (Some c)).
  Proof.
    intros B HU V S. rewrite run_query_final.
    assert (C : forallb tclosed (map TVar xs) = true).
    { apply forallb_forall. intros t Ht. apply in_map_iff in Ht as (x & <- & Hx). unfold EvalPure_Facts.tclosed. cbn.
      rewrite andb_true_r. now apply inU, HU. }
    pose proof (final_count (map TVar xs) c e B C V) as N. rewrite S in N. cbn [ind] in N.
    destruct (filter (fun b => agreesb b e) (final (map TVar xs) c)) as [|b l] eqn:E; [discriminate|].
    assert (Hb : In b (filter (fun b => agreesb b e) (final (map TVar xs) c))) by (rewrite E; now left).
    apply filter_In in Hb as [Hb A]. apply in_map_iff. exists b. split; [|exact Hb].
    unfold final in Hb. apply in_flat_map in Hb as (b1 & _ & Hb). destruct (bind_sel_vars_bound xs b1 b Hb) as [_ Q].
    rewrite row_of_vars by exact Q. now apply row_agrees.
  Qed.

  (* soundness: every returned row is the projection of a satisfying assignment of the whole product *)
  Theorem selection_sound xs c r : basic c = true -> (forall x, In x xs -> In x U) -> (forall x, In x U -> dom x <> []) ->
    In r (run_query h dom (map TVar xs) (Some c)) ->
    exists e, valid e /\ isat c e = true /\ r = map e xs.
  Proof.
    intros B HU NE H. rewrite run_query_final in H. apply in_map_iff in H as (b & <- & Hb).
    assert (C : forallb tclosed (map TVar xs) = true).
    { apply forallb_forall. intros t Ht. apply in_map_iff in Ht as (x & <- & Hx). unfold EvalPure_Facts.tclosed. cbn.
      rewrite andb_true_r. now apply inU, HU. }
    pose proof (final_in_dom _ _ _ B C Hb) as D.
    set (e := fun x => match lookup b x with Some v => v | None => hd (VA ANone) (dom x) end).
    assert (V : valid e).
    { intros x Hx. unfold e. destruct (lookup b x) eqn:L; [now apply D|].
      specialize (NE x Hx). destruct (dom x); [congruence | now left]. }
    assert (A : agreesb b e = true).
    { unfold EvalPure_Facts.agreesb. apply forallb_forall. intros x Hx. unfold e. destruct (lookup b x); [apply val_eqb_refl | reflexivity]. }
    exists e. split; [exact V|]. split.
    - pose proof (final_count (map TVar xs) c e B C V) as N.
      destruct (isat c e); [reflexivity|]. cbn [ind] in N.
      assert (Hin : In b (filter (fun b => agreesb b e) (final (map TVar xs) c))) by (apply filter_In; now split).
      destruct (filter (fun b => agreesb b e) (final (map TVar xs) c)); [destruct Hin | discriminate].
    - pose proof Hb as Hb'. unfold final in Hb'. apply in_flat_map in Hb' as (b1 & _ & Hb'). destruct (bind_sel_vars_bound xs b1 b Hb') as [_ Q].
      rewrite row_of_vars by exact Q. now apply row_agrees.
  Qed.

  (* ---------- C02: every variable selected — each satisfying assignment exactly once ---------- *)
  Theorem all_selected_count c e : basic c = true -> valid e ->
    count_row (map e U) (run_query h dom (map TVar U) (Some c)) = ind (isat c e).
  Proof.
    intros B V. rewrite run_query_final.
    assert (C : forallb tclosed (map TVar U) = true).
    { apply forallb_forall. intros t Ht. apply in_map_iff in Ht as (x & <- & Hx). unfold EvalPure_Facts.tclosed. cbn.
      rewrite andb_true_r. now apply inU. }
    rewrite <- (final_count (map TVar U) c e B C V). unfold count_row. rewrite filter_map_length.
    f_equal. apply filter_ext_in. intros b Hb.
    unfold final in Hb. apply in_flat_map in Hb as (b1 & _ & Hb). destruct (bind_sel_vars_bound U b1 b Hb) as [_ Q].
    rewrite row_of_vars by exact Q.
    destruct (agreesb b e) eqn:A.
    - apply row_eqb_eq. symmetry. now apply row_agrees.
    - destruct (row_eqb (map e U) (map (valof b) U)) eqn:R; [|reflexivity]. apply row_eqb_eq in R.
      exfalso. rewrite <- Bool.not_true_iff_false in A. apply A. unfold EvalPure_Facts.agreesb. apply forallb_forall. intros x Hx.
      assert (G : forall l, map e l = map (valof b) l -> In x l -> e x = valof b x).
      { induction l as [|y l IH]; intros M Hl; [destruct Hl|]. cbn [map] in M. injection M as M1 M2.
        destruct Hl as [<-|Hl]; auto. }
      specialize (G U R Hx). unfold valof in G. specialize (Q x Hx). unfold bound in Q.
      destruct (lookup b x); [|discriminate]. rewrite G. apply val_eqb_refl.
  Qed.
End Q.
