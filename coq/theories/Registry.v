(* Registry.v — the registry of concretely constructed instances (predicate.py: symbol / hybrid_new /
   instantiate_class_and_update_cache; symbolic.py: Variable._cache_; cache_data.py: flat_cache,
   get_cache_keys_for_class_, yield_class_values_from_cache) as a state machine over construction
   histories, and the reference it is compared with (a plain log of concrete constructions).
   No proofs here. *)
From EQL Require Import Base PredForm.

(* Variable._cache_ : an insertion-ordered dict  class -> flat store (ids in insertion order, each once) *)
Definition registry := list (cid * list nat).

Record rstate := {
  reg : registry;
  next_oid : nat;        (* identity of the next object Python allocates (the harness numbers objects in creation order) *)
  inits : nat            (* how often a class's own initialisation ran *)
}.

Inductive rop :=
| OConcrete (c : cid)            (* K(...) outside symbolic mode, any signature style *)
| OSymbolic (c : cid)            (* K(...) inside a symbolic block: builds an expression *)
| OInfer (c : cid) (n : nat)     (* a rule  infer(entity(K(f = e), body))  whose body has n solutions *)
| OClear                         (* the registry is cleared *)
| OQuery (T : cid)               (* list(an(entity(let(T))).evaluate()) *)
| OQueryTake (T : cid) (k : nat). (* it = an(entity(let(T))).evaluate(); k results; it.close()  - or the(...) raising on the second *)

(* HashedIterable.add on the class's flat store: a new id is appended, a known one is left where it is;
   a class seen for the first time gets a new entry at the end (defaultdict) *)
Fixpoint reg_insert (r : registry) (c : cid) (o : nat) : registry :=
  match r with
  | [] => [(c, [o])]
  | (c', l) :: r' =>
      if Nat.eqb c c' then (c', if existsb (Nat.eqb o) l then l else l ++ [o]) :: r'
      else (c', l) :: reg_insert r' c o
  end.

(* get_cache_keys_for_class_ + yield_class_values_from_cache(from_index=False): the classes of the registry that are
   subclasses of T, in registry order, each with its instances in insertion order *)
Definition reg_query (ct : ctable) (r : registry) (T : cid) : list nat :=
  flat_map (fun e : cid * list nat => if subclass ct (fst e) T then snd e else []) r.

Definition concrete (s : rstate) (c : cid) : rstate :=
  {| reg := reg_insert (reg s) c (next_oid s); next_oid := S (next_oid s); inits := S (inits s) |}.

Fixpoint concrete_n (n : nat) (s : rstate) (c : cid) : rstate :=
  match n with 0 => s | S n' => concrete_n n' (concrete s c) c end.

Definition rstep (ct : ctable) (s : rstate) (o : rop) : rstate * list nat :=
  match o with
  | OConcrete c => (concrete s c, [])
  | OSymbolic _ => (s, [])
  | OInfer c n => (concrete_n n s c, [])
  | OClear => ({| reg := []; next_oid := next_oid s; inits := inits s |}, [])
  | OQuery T => (s, reg_query ct (reg s) T)
  | OQueryTake T k => (s, firstn k (reg_query ct (reg s) T))
  end.

Definition rinit : rstate := {| reg := []; next_oid := 0; inits := 0 |}.

(* ---- reference: the log of concrete constructions since the last clearing ---- *)
Definition rlog := list (cid * nat).

Record refstate := { lg : rlog; ref_next : nat; ref_inits : nat }.

Fixpoint log_n (n : nat) (s : refstate) (c : cid) : refstate :=
  match n with
  | 0 => s
  | S n' => log_n n' {| lg := lg s ++ [(c, ref_next s)]; ref_next := S (ref_next s); ref_inits := S (ref_inits s) |} c
  end.

Definition ref_query (ct : ctable) (l : rlog) (T : cid) : list nat :=
  map snd (filter (fun e : cid * nat => subclass ct (fst e) T) l).

Definition refstep (ct : ctable) (s : refstate) (o : rop) : refstate * list nat :=
  match o with
  | OConcrete c => (log_n 1 s c, [])
  | OSymbolic _ => (s, [])
  | OInfer c n => (log_n n s c, [])
  | OClear => ({| lg := []; ref_next := ref_next s; ref_inits := ref_inits s |}, [])
  | OQuery T => (s, ref_query ct (lg s) T)
  | OQueryTake T k => (s, ref_query ct (lg s) T)      (* the reference gives the whole answer: k distinct members of it are delivered *)
  end.

Definition refinit : refstate := {| lg := []; ref_next := 0; ref_inits := 0 |}.

(* ---- running a history: one observation per step ---- *)
Fixpoint rrun (ct : ctable) (s : rstate) (ops : list rop) : list (list nat * nat) :=
  match ops with
  | [] => []
  | o :: ops' => let '(s', out) := rstep ct s o in (out, inits s') :: rrun ct s' ops'
  end.
Fixpoint refrun (ct : ctable) (s : refstate) (ops : list rop) : list (list nat * nat) :=
  match ops with
  | [] => []
  | o :: ops' => let '(s', out) := refstep ct s o in (out, ref_inits s') :: refrun ct s' ops'
  end.

Fixpoint rstate_after (ct : ctable) (s : rstate) (ops : list rop) : rstate :=
  match ops with [] => s | o :: ops' => rstate_after ct (fst (rstep ct s o)) ops' end.
Fixpoint refstate_after (ct : ctable) (s : refstate) (ops : list rop) : refstate :=
  match ops with [] => s | o :: ops' => refstate_after ct (fst (refstep ct s o)) ops' end.

Open Scope string_scope.
Definition show_obs (o : list nat * nat) : string :=
  "[" ++ String.concat "," (map show_nat (fst o)) ++ "]n" ++ show_nat (snd o).
Definition run_rcase (n : nat) (ct : ctable) (ops : list rop) : string :=
  "CASE " ++ show_nat n ++ " M " ++ String.concat " " (map show_obs (rrun ct rinit ops))
          ++ " S " ++ String.concat " " (map show_obs (refrun ct refinit ops)).
Close Scope string_scope.
