(* Registry_Facts.v — the registry model refines the log of concrete constructions (C14). *)
From Coq Require Import Permutation.
From EQL Require Import Base PredForm Registry.

Definition rget (r : registry) (c : cid) : list nat :=
  match find (fun e : cid * list nat => Nat.eqb (fst e) c) r with Some e => snd e | None => [] end.

Lemma rget_cons c' l r c : rget ((c', l) :: r) c = if Nat.eqb c' c then l else rget r c.
Proof. unfold rget. cbn [find fst]. destruct (Nat.eqb c' c); reflexivity. Qed.

Lemma rget_insert_same r c o :
  rget (reg_insert r c o) c = if existsb (Nat.eqb o) (rget r c) then rget r c else rget r c ++ [o].
Proof.
  induction r as [|[c' l] r IH]; cbn [reg_insert].
  - rewrite rget_cons, Nat.eqb_refl. reflexivity.
  - destruct (Nat.eqb c c') eqn:E.
    + apply Nat.eqb_eq in E. subst c'. rewrite !rget_cons, Nat.eqb_refl. reflexivity.
    + rewrite !rget_cons. rewrite Nat.eqb_sym, E. exact IH.
Qed.

Lemma rget_insert_other r c o c' : c <> c' -> rget (reg_insert r c o) c' = rget r c'.
Proof.
  intros N. induction r as [|[c0 l] r IH]; cbn [reg_insert].
  - rewrite rget_cons. destruct (Nat.eqb c c') eqn:E; [apply Nat.eqb_eq in E; contradiction | reflexivity].
  - destruct (Nat.eqb c c0) eqn:E.
    + apply Nat.eqb_eq in E. subst c0. rewrite !rget_cons.
      destruct (Nat.eqb c c') eqn:E'; [apply Nat.eqb_eq in E'; contradiction | reflexivity].
    + rewrite !rget_cons. destruct (Nat.eqb c0 c'); [reflexivity | exact IH].
Qed.

Lemma keys_insert r c o :
  map fst (reg_insert r c o) = if existsb (Nat.eqb c) (map fst r) then map fst r else map fst r ++ [c].
Proof.
  induction r as [|[c' l] r IH]; cbn [reg_insert map fst existsb]; [reflexivity|].
  destruct (Nat.eqb c c') eqn:E; cbn [orb map fst]; [reflexivity|]. rewrite IH.
  destruct (existsb (Nat.eqb c) (map fst r)); reflexivity.
Qed.

Lemma existsb_eqb_In x l : existsb (Nat.eqb x) l = true <-> In x l.
Proof.
  rewrite existsb_exists. split.
  - intros (y & H & E). apply Nat.eqb_eq in E. now subst.
  - intros H. exists x. split; [exact H | apply Nat.eqb_refl].
Qed.

Lemma nodup_snoc {A} (l : list A) x : NoDup l -> ~ In x l -> NoDup (l ++ [x]).
Proof.
  induction l as [|a l IH]; intros N H; cbn [app]; [constructor; [intros []|constructor]|].
  inversion N as [|? ? Ha Nl]; subst. constructor.
  - rewrite in_app_iff. intros [H1|[H1|[]]]; [contradiction|]. subst. apply H. now left.
  - apply IH; [exact Nl|]. intros H1. apply H. now right.
Qed.

Lemma nodup_app {A} (a b : list A) : NoDup a -> NoDup b -> (forall x, In x a -> In x b -> False) -> NoDup (a ++ b).
Proof.
  induction a as [|x a IH]; intros Na Nb D; cbn [app]; [exact Nb|].
  inversion Na as [|? ? Hx Na']; subst. constructor.
  - rewrite in_app_iff. intros [H|H]; [contradiction|]. apply (D x); [now left | exact H].
  - apply IH; [exact Na' | exact Nb|]. intros y Hy. apply D. now right.
Qed.

Lemma keys_insert_nodup r c o : NoDup (map fst r) -> NoDup (map fst (reg_insert r c o)).
Proof.
  intros N. rewrite keys_insert. destruct (existsb (Nat.eqb c) (map fst r)) eqn:E; [exact N|].
  apply nodup_snoc; [exact N|]. intros H. apply existsb_eqb_In in H. congruence.
Qed.

Lemma rget_in r c o : In o (rget r c) -> exists l, In (c, l) r /\ In o l.
Proof.
  unfold rget. destruct (find _ r) as [[c' l]|] eqn:F; [|intros []].
  apply find_some in F as [Hin E]. cbn [fst] in E. apply Nat.eqb_eq in E. subst c'. intros H. exists l. now split.
Qed.

Lemma rget_of_entry r c l : NoDup (map fst r) -> In (c, l) r -> rget r c = l.
Proof.
  induction r as [|[c' l'] r IH]; intros N H; [destruct H|]. rewrite rget_cons.
  cbn [map fst] in N. inversion N as [|? ? Hc N']; subst.
  destruct H as [H|H].
  - injection H as -> ->. now rewrite Nat.eqb_refl.
  - destruct (Nat.eqb c' c) eqn:E; [|now apply IH]. apply Nat.eqb_eq in E. subst c'.
    exfalso. apply Hc. apply in_map_iff. exists (c, l). now split.
Qed.

(* ---------- the invariant ---------- *)
Record Inv (s : rstate) (t : refstate) : Prop := {
  I_next : next_oid s = ref_next t;
  I_inits : inits s = ref_inits t;
  I_fresh : forall c o, In (c, o) (lg t) -> o < ref_next t;
  I_nodup_log : NoDup (map snd (lg t));
  I_keys : NoDup (map fst (reg s));
  I_mem : forall c o, In o (rget (reg s) c) <-> In (c, o) (lg t);
  I_nodup_cls : forall c, NoDup (rget (reg s) c)
}.

Lemma inv_init : Inv rinit refinit.
Proof.
  constructor.
  - reflexivity.
  - reflexivity.
  - intros c o [].
  - constructor.
  - constructor.
  - intros c o. unfold rget. cbn. tauto.
  - intros c. unfold rget. cbn. constructor.
Qed.

Lemma inv_concrete s t c : Inv s t -> Inv (concrete s c) (log_n 1 t c).
Proof.
  intros I. destruct I as [Hn Hi Hf Hl Hk Hm Hc]. cbn [log_n]. unfold concrete.
  assert (NotIn : forall c', ~ In (next_oid s) (rget (reg s) c')).
  { intros c' H. apply Hm in H. apply Hf in H. lia. }
  constructor; cbn [reg next_oid inits lg ref_next ref_inits].
  - now rewrite Hn.
  - now rewrite Hi.
  - intros c' o H. apply in_app_iff in H as [H|[H|[]]].
    + apply Hf in H. lia.
    + injection H as _ <-. lia.
  - rewrite map_app. cbn [map snd]. apply nodup_snoc; [exact Hl|].
    intros H. apply in_map_iff in H as ([c' o] & E & H). cbn [snd] in E. subst o. apply Hf in H. lia.
  - now apply keys_insert_nodup.
  - intros c' o. rewrite in_app_iff. destruct (Nat.eq_dec c c') as [<-|N].
    + rewrite rget_insert_same.
      destruct (existsb (Nat.eqb (next_oid s)) (rget (reg s) c)) eqn:E.
      * apply existsb_eqb_In in E. exfalso. exact (NotIn c E).
      * rewrite in_app_iff, Hm. cbn [In]. rewrite Hn. split.
        -- intros [H|[H|[]]]; [now left | right; left; now subst].
        -- intros [H|[H|[]]]; [now left | right; left; now injection H].
    + rewrite rget_insert_other by exact N. rewrite Hm. split; [now left|].
      intros [H|[H|[]]]; [exact H|]. injection H as E _. contradiction.
  - intros c'. destruct (Nat.eq_dec c c') as [<-|N].
    + rewrite rget_insert_same. destruct (existsb _ _); [apply Hc|]. apply nodup_snoc; [apply Hc | apply NotIn].
    + rewrite rget_insert_other by exact N. apply Hc.
Qed.

Lemma inv_concrete_n n : forall s t c, Inv s t -> Inv (concrete_n n s c) (log_n n t c).
Proof.
  induction n as [|n IH]; intros s t c I; cbn [concrete_n log_n]; [exact I|].
  apply IH. exact (inv_concrete s t c I).
Qed.

Lemma inv_clear s t : Inv s t ->
  Inv {| reg := []; next_oid := next_oid s; inits := inits s |} {| lg := []; ref_next := ref_next t; ref_inits := ref_inits t |}.
Proof.
  intros I. destruct I as [Hn Hi _ _ _ _ _]. constructor; cbn [reg next_oid inits lg ref_next ref_inits].
  - exact Hn.
  - exact Hi.
  - intros c o [].
  - constructor.
  - constructor.
  - intros c o. unfold rget. cbn. tauto.
  - intros c. unfold rget. cbn. constructor.
Qed.

(* ---------- a query returns, each once, exactly the logged constructions of T and its subclasses ---------- *)
Lemma nodup_map_snd_filter {A} (f : A * nat -> bool) l : NoDup (map snd l) -> NoDup (map snd (filter f l)).
Proof.
  induction l as [|x l IH]; cbn [filter map]; intros N; [constructor|]. inversion N as [|? ? Hx N']; subst.
  destruct (f x); [|now apply IH]. cbn [map]. constructor; [|now apply IH].
  intros H. apply Hx. apply in_map_iff in H as (y & E & Hy). apply filter_In in Hy as [Hy _]. apply in_map_iff. now exists y.
Qed.

Lemma log_unique_class (l : rlog) c1 c2 o : NoDup (map snd l) -> In (c1, o) l -> In (c2, o) l -> c1 = c2.
Proof.
  induction l as [|[c o'] l IH]; intros N H1 H2; [destruct H1|]. cbn [map snd] in N. inversion N as [|? ? Ho N']; subst.
  destruct H1 as [H1|H1], H2 as [H2|H2].
  - congruence.
  - injection H1 as -> ->. exfalso. apply Ho. apply in_map_iff. exists (c2, o). now split.
  - injection H2 as -> ->. exfalso. apply Ho. apply in_map_iff. exists (c1, o). now split.
  - now apply IH.
Qed.

Lemma nodup_flat (p : cid -> bool) (r : registry) :
  NoDup (map fst r) -> (forall c l, In (c, l) r -> NoDup l) ->
  (forall c1 l1 c2 l2 o, In (c1, l1) r -> In (c2, l2) r -> In o l1 -> In o l2 -> c1 = c2) ->
  NoDup (flat_map (fun e : cid * list nat => if p (fst e) then snd e else []) r).
Proof.
  induction r as [|[c l] r IH]; intros Nk Nl D; cbn [flat_map fst snd]; [constructor|].
  cbn [map fst] in Nk. inversion Nk as [|? ? Hc Nk']; subst.
  assert (R : NoDup (flat_map (fun e : cid * list nat => if p (fst e) then snd e else []) r)).
  { apply IH; [exact Nk'| |].
    - intros c' l' H. apply (Nl c' l'). now right.
    - intros c1 l1 c2 l2 o H1 H2. apply D; now right. }
  destruct (p c); [|exact R]. apply nodup_app; [apply (Nl c l); now left | exact R|].
  intros o Ho H. apply in_flat_map in H as ([c' l'] & Hin & H). cbn [fst snd] in H.
  destruct (p c'); [|destruct H].
  assert (E : c = c') by (apply (D c l c' l' o); [now left | now right | exact Ho | exact H]).
  subst c'. apply Hc. apply in_map_iff. exists (c, l'). now split.
Qed.

Lemma query_refines ct s t T : Inv s t ->
  Permutation (reg_query ct (reg s) T) (ref_query ct (lg t) T) /\ NoDup (reg_query ct (reg s) T).
Proof.
  intros I. destruct I as [_ _ _ Hl Hk Hm Hc].
  assert (ND : NoDup (reg_query ct (reg s) T)).
  { unfold reg_query. apply (nodup_flat (fun c => subclass ct c T)); [exact Hk| |].
    - intros c l H. rewrite <- (rget_of_entry (reg s) c l Hk H). apply Hc.
    - intros c1 l1 c2 l2 o H1 H2 O1 O2.
      rewrite <- (rget_of_entry (reg s) c1 l1 Hk H1) in O1. rewrite <- (rget_of_entry (reg s) c2 l2 Hk H2) in O2.
      apply Hm in O1, O2. exact (log_unique_class (lg t) c1 c2 o Hl O1 O2). }
  split; [|exact ND]. apply NoDup_Permutation; [exact ND | apply nodup_map_snd_filter; exact Hl|].
  intros o. unfold reg_query, ref_query. rewrite in_flat_map, in_map_iff. split.
  - intros ([c l] & Hin & H). cbn [fst snd] in H. destruct (subclass ct c T) eqn:S; [|destruct H].
    exists (c, o). split; [reflexivity|]. apply filter_In. split; [|exact S].
    apply Hm. now rewrite (rget_of_entry (reg s) c l Hk Hin).
  - intros ([c o'] & E & H). cbn [snd] in E. subst o'. apply filter_In in H as [H S]. cbn [fst] in S.
    apply Hm in H. destruct (rget_in _ _ _ H) as (l & Hin & Ho). exists (c, l). split; [exact Hin|]. cbn [fst snd]. now rewrite S.
Qed.

Lemma step_inv ct s t o : Inv s t -> Inv (fst (rstep ct s o)) (fst (refstep ct t o)).
Proof.
  intros I. destruct o as [c|c|c n| |T|T k]; cbn [rstep refstep fst]; try exact I.
  - exact (inv_concrete s t c I).
  - exact (inv_concrete_n n s t c I).
  - exact (inv_clear s t I).
Qed.

Lemma after_inv ct ops : forall s t, Inv s t -> Inv (rstate_after ct s ops) (refstate_after ct t ops).
Proof.
  induction ops as [|o ops IH]; intros s t I; cbn [rstate_after refstate_after]; [exact I|].
  apply IH. now apply step_inv.
Qed.

(* every observation of every history: a query result is a permutation of the reference answer without repetition; an
   abandoned query (k results taken) delivered k distinct members of the reference answer (all of it if it has fewer);
   the initialisation counts are equal *)
Definition obs_ok (o : rop) (a b : list nat * nat) : Prop :=
  match o with
  | OQueryTake _ k => incl (fst a) (fst b) /\ NoDup (fst a) /\ length (fst a) = Nat.min k (length (fst b)) /\ snd a = snd b
  | _ => Permutation (fst a) (fst b) /\ NoDup (fst a) /\ snd a = snd b
  end.

Inductive all_obs_ok : list rop -> list (list nat * nat) -> list (list nat * nat) -> Prop :=
| obs_nil : all_obs_ok [] [] []
| obs_cons o a b ops la lb : obs_ok o a b -> all_obs_ok ops la lb -> all_obs_ok (o :: ops) (a :: la) (b :: lb).

Lemma nodup_firstn {A} k (l : list A) : NoDup l -> NoDup (firstn k l).
Proof.
  revert l. induction k as [|k IH]; intros l N; cbn [firstn]; [constructor|]. destruct l as [|a l]; [constructor|].
  inversion N as [|? ? Ha Nl]; subst. constructor; [|now apply IH]. intros H. apply Ha. clear -H. revert l H.
  induction k as [|k IH]; intros l H; cbn [firstn] in H; [destruct H|]. destruct l as [|b l]; [destruct H|].
  destruct H as [->|H]; [now left | right; now apply IH].
Qed.

Lemma incl_firstn {A} k (l : list A) : incl (firstn k l) l.
Proof.
  revert l. induction k as [|k IH]; intros l x H; cbn [firstn] in H; [destruct H|]. destruct l as [|a l]; [destruct H|].
  destruct H as [->|H]; [now left | right; now apply IH].
Qed.

Theorem run_refines ct ops : forall s t, Inv s t -> all_obs_ok ops (rrun ct s ops) (refrun ct t ops).
Proof.
  induction ops as [|o ops IH]; intros s t I; cbn [rrun refrun]; [constructor|].
  pose proof (step_inv ct s t o I) as I'.
  destruct (rstep ct s o) as [s' out] eqn:Es. destruct (refstep ct t o) as [t' out'] eqn:Et. cbn [fst] in I'.
  constructor; [|now apply IH]. pose proof (I_inits _ _ I') as Ei.
  destruct o as [c|c|c n| |T|T k]; cbn [rstep refstep] in Es, Et; injection Es as <- <-; injection Et as <- <-; unfold obs_ok; cbn [fst snd].
  - split; [constructor | split; [constructor | exact Ei]].
  - split; [constructor | split; [constructor | exact Ei]].
  - split; [constructor | split; [constructor | exact Ei]].
  - split; [constructor | split; [constructor | exact Ei]].
  - destruct (query_refines ct s t T I) as [P N]. split; [exact P | split; [exact N | exact Ei]].
  - destruct (query_refines ct s t T I) as [P N]. split; [|split; [|split]].
    + intros x Hx. eapply Permutation_in; [exact P|]. eapply incl_firstn; exact Hx.
    + now apply nodup_firstn.
    + rewrite firstn_length. now rewrite (Permutation_length P).
    + exact Ei.
Qed.
