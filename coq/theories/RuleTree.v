(* RuleTree.v — rule trees (rule.py: refinement / alternative; conclusion_selector.py: ExceptIf / Alternative;
   conclusion.py: Add) over ONE rule variable: what the user writes (nested with-blocks), the ripple-down-rule reading of
   it (the specification), the operator tree the builders assemble by in-place edits, and the evaluation of that tree.
   No proofs here. *)
From EQL Require Import Base Generated.

(* ---- data: an item is a vector of small integers; a branch condition is a conjunction of  attribute == value ---- *)
Definition item := list nat.
Definition bcond := list (nat * nat).
Definition holds (c : bcond) (x : item) : bool := forallb (fun p => Nat.eqb (nth (fst p) x 0) (snd p)) c.

(* ---- what the user writes ----
   RN c tag body : a branch with conditions c whose block starts with Add(views, Label(item, tag)) and then contains, in
   order, `with refinement(c'): block` (KRef) and `with alternative(c'): block` (KAlt) statements.  The root is the base rule. *)
Inductive kind := KRef | KAlt.
Inductive rnode := RN (c : bcond) (tag : nat) (b : rbody)
with rbody := BNil | BCons (k : kind) (n : rnode) (rest : rbody).

Definition ncond (n : rnode) := match n with RN c _ _ => c end.
Definition ntag (n : rnode) := match n with RN _ t _ => t end.
Definition nbody (n : rnode) := match n with RN _ _ b => b end.

(* ---- specification: ripple-down rules ----
   A LEVEL is a list of branches tried in order, the first whose condition holds is taken (if / elif).  The branches a
   block adds to its owner's level of exceptions are its refinements, each followed by the alternatives written in that
   refinement's block (and theirs); the alternatives written in a block follow the block's owner in ITS level. *)
Fixpoint altchain_n (n : rnode) : list rnode := altchain_b (nbody n)
with altchain_b (b : rbody) : list rnode :=
  match b with
  | BNil => []
  | BCons KAlt n rest => n :: altchain_n n ++ altchain_b rest
  | BCons KRef _ rest => altchain_b rest
  end.

Fixpoint level_b (b : rbody) : list rnode :=
  match b with
  | BNil => []
  | BCons KRef n rest => n :: altchain_n n ++ level_b rest
  | BCons KAlt _ rest => level_b rest
  end.
Definition level_n (n : rnode) : list rnode := level_b (nbody n).

(* the same reading written as nested if / elif (what the theorems are stated on; [rdr_flat] below is the version over
   flattened levels, compared with this one on every generated case):
   chain_sel n x  : n followed by the alternatives of its block - the first branch whose condition holds decides;
                    within the branch, the first applicable exception (recursively) replaces the branch's own conclusion *)
Fixpoint chain_sel (n : rnode) (x : item) : option nat :=
  match n with
  | RN c tag b =>
      if holds c x then Some (match exc_sel b x with Some t => t | None => tag end) else alt_sel b x
  end
with exc_sel (b : rbody) (x : item) : option nat :=
  match b with
  | BNil => None
  | BCons KRef r rest => match chain_sel r x with Some t => Some t | None => exc_sel rest x end
  | BCons KAlt _ rest => exc_sel rest x
  end
with alt_sel (b : rbody) (x : item) : option nat :=
  match b with
  | BNil => None
  | BCons KAlt a rest => match chain_sel a x with Some t => Some t | None => alt_sel rest x end
  | BCons KRef _ rest => alt_sel rest x
  end.

Definition rdr (base : rnode) (x : item) : option nat := chain_sel base x.

(* flattened levels with explicit fuel (= the reference interpreter of the harness) *)
Fixpoint rdr_level (fuel : nat) (lv : list rnode) (x : item) : option nat :=
  match fuel with
  | 0 => None
  | S f =>
      match find (fun n => holds (ncond n) x) lv with
      | None => None
      | Some n => match rdr_level f (level_n n) x with Some t => Some t | None => Some (ntag n) end
      end
  end.

Fixpoint size_n (n : rnode) : nat := S (size_b (nbody n))
with size_b (b : rbody) : nat := match b with BNil => 0 | BCons _ n rest => size_n n + size_b rest end.

Definition rdr_flat (base : rnode) (x : item) : option nat := rdr_level (S (size_n base)) (base :: altchain_n base) x.

(* ---- the operator tree ---- *)
Inductive otree :=
| Leaf (c : bcond) (tag : nat)          (* a branch's own conditions, carrying its Add conclusion *)
| OExc (l r : otree)                    (* ExceptIf(left, right) *)
| OAlt (l r : otree).                   (* Alternative(left, right) *)

(* evaluation of the tree for one (bound) item: None = the subtree is false; Some t = true, selecting conclusion t.
   ExceptIf: left false -> false; right true -> the right's conclusion replaces the left's; else the left's.
   Alternative (else-if + conclusion selection): left true -> the left's; else right true -> the right's. *)
Fixpoint fire (t : otree) (x : item) : option nat :=
  match t with
  | Leaf c tag => if holds c x then Some tag else None
  | OExc l r => match fire l x with
                | None => None
                | Some cl => match fire r x with Some cr => Some cr | None => Some cl end
                end
  | OAlt l r => match fire l x with Some c => Some c | None => fire r x end
  end.

(* ---- the tree the builders are meant to assemble ---- *)
Fixpoint chain_t (n : rnode) : otree := alts_t (exc_t (Leaf (ncond n) (ntag n)) (nbody n)) (nbody n)
(* the branch with its exceptions: the FIRST refinement written ends up outermost *)
with exc_t (acc : otree) (b : rbody) : otree :=
  match b with
  | BNil => acc
  | BCons KRef n rest => OExc (exc_t acc rest) (chain_t n)
  | BCons KAlt _ rest => exc_t acc rest
  end
(* followed by the alternatives of its block, left-nested in the order written; an alternative's own alternatives
   continue the same chain *)
with alts_t (acc : otree) (b : rbody) : otree :=
  match b with
  | BNil => acc
  | BCons KAlt n rest => alts_t (alts_t (OAlt acc (exc_t (Leaf (ncond n) (ntag n)) (nbody n))) (nbody n)) rest
  | BCons KRef _ rest => alts_t acc rest
  end.

(* ---- the builders, as in-place edits of the tree (rule.py) ----
   refinement(): the current node (a leaf, found by its tag) is replaced IN PLACE by ExceptIf(current, new).
   alternative(): climb from the current node while the parent is an Alternative, or an ExceptIf whose LEFT operand we
   are; the subtree reached is replaced in place by Alternative(subtree, new). *)
Fixpoint do_ref (t : otree) (cur : nat) (nw : otree) : otree :=
  match t with
  | Leaf c tag => if Nat.eqb tag cur then OExc (Leaf c tag) nw else t
  | OExc l r => OExc (do_ref l cur nw) (do_ref r cur nw)
  | OAlt l r => OAlt (do_ref l cur nw) (do_ref r cur nw)
  end.

Inductive climb := NotFound | Climbing | Done (t : otree).

Fixpoint do_alt_in (t : otree) (cur : nat) (nw : otree) : climb :=
  match t with
  | Leaf c tag => if Nat.eqb tag cur then Climbing else NotFound
  | OAlt l r =>
      match do_alt_in l cur nw with
      | Climbing => Climbing                                   (* parent is an Alternative: keep climbing *)
      | Done l' => Done (OAlt l' r)
      | NotFound => match do_alt_in r cur nw with
                    | Climbing => Climbing
                    | Done r' => Done (OAlt l r')
                    | NotFound => NotFound
                    end
      end
  | OExc l r =>
      match do_alt_in l cur nw with
      | Climbing => Climbing                                   (* we are the LEFT operand of an ExceptIf: keep climbing *)
      | Done l' => Done (OExc l' r)
      | NotFound => match do_alt_in r cur nw with
                    | Climbing => Done (OExc l (OAlt r nw))    (* right operand of an ExceptIf: the chain ends here *)
                    | Done r' => Done (OExc l r')
                    | NotFound => NotFound
                    end
      end
  end.

Definition do_alt (t : otree) (cur : nat) (nw : otree) : otree :=
  match do_alt_in t cur nw with
  | Climbing => OAlt t nw
  | Done t' => t'
  | NotFound => t
  end.

(* the with-blocks are executed in order, depth first *)
Fixpoint build_n (n : rnode) (t : otree) : otree := build_b (nbody n) t (ntag n)
with build_b (b : rbody) (t : otree) (cur : nat) : otree :=
  match b with
  | BNil => t
  | BCons KRef n rest => build_b rest (build_n n (do_ref t cur (Leaf (ncond n) (ntag n)))) cur
  | BCons KAlt n rest => build_b rest (build_n n (do_alt t cur (Leaf (ncond n) (ntag n)))) cur
  end.

Definition build (base : rnode) : otree := build_n base (Leaf (ncond base) (ntag base)).

(* the edits above are what rule.py does only if its builders link the new operator the way the translator found them to
   (Generated.v, re-extracted on every run): refinement() re-links whichever operand of the parent it wrapped,
   alternative() climbs the whole chain and re-links the right operand.  Otherwise the builders are NOT modelled. *)
Definition builders_as_modelled : bool :=
  refinement_wraps_current_as_left &&
  match refinement_relink, alternative_climb, alternative_relink with
  | RelinkSide, ClimbLoop, RelinkRightOnly => true
  | _, _, _ => false
  end.
Definition build_checked (base : rnode) : option otree := if builders_as_modelled then Some (build base) else None.

Fixpoint tags_n (n : rnode) : list nat := ntag n :: tags_b (nbody n)
with tags_b (b : rbody) : list nat := match b with BNil => [] | BCons _ n rest => tags_n n ++ tags_b rest end.

(* ---- running a case ---- *)
Open Scope string_scope.
Fixpoint show_tree (t : otree) : string :=
  match t with
  | Leaf _ tag => "L" ++ show_nat tag
  | OExc l r => "E(" ++ show_tree l ++ "," ++ show_tree r ++ ")"
  | OAlt l r => "A(" ++ show_tree l ++ "," ++ show_tree r ++ ")"
  end.

Definition rows_of (f : item -> option nat) (dom : list (nat * item)) : string :=
  String.concat ";" (flat_map (fun p => match f (snd p) with Some t => [show_nat (fst p) ++ ":" ++ show_nat t] | None => [] end) dom).

(* model: the tree the builder model assembles and the rows its evaluation yields, in domain order;
   specification: the ripple-down-rule reading of the program *)
Definition run_tcase (n : nat) (base : rnode) (dom : list (nat * item)) : string :=
  match build_checked base with
  | None => "CASE " ++ show_nat n ++ " M UNMODELLED-BUILDERS  S " ++ show_tree (chain_t base) ++ " " ++ rows_of (rdr base) dom
  | Some t =>
  "CASE " ++ show_nat n ++ " M " ++ show_tree t ++ " " ++ rows_of (fire t) dom ++ " S " ++ show_tree (chain_t base) ++ " " ++ rows_of (rdr base) dom
          ++ (if String.eqb (rows_of (rdr base) dom) (rows_of (rdr_flat base) dom) then "" else " FLAT-DIFFERS")
  end.
Close Scope string_scope.
