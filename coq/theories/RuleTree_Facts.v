(* RuleTree_Facts.v — the intended operator tree evaluates to the ripple-down-rule conclusion (C12). *)
From EQL Require Import Base RuleTree.

Scheme rnode_mind := Induction for rnode Sort Prop
  with rbody_mind := Induction for rbody Sort Prop.
Combined Scheme rnode_mutind from rnode_mind, rbody_mind.

(* a branch wrapped in the exceptions of a block: false where the branch is false; otherwise the first applicable
   exception replaces the conclusion *)
Definition exc_ok (b : rbody) : Prop := forall acc x,
  fire (exc_t acc b) x = match fire acc x with
                         | None => None
                         | Some c => Some (match exc_sel b x with Some t => t | None => c end)
                         end.
(* followed by the alternatives of the block: they are consulted only where everything before them is false *)
Definition alt_ok (b : rbody) : Prop := forall acc x,
  fire (alts_t acc b) x = match fire acc x with Some c => Some c | None => alt_sel b x end.

Lemma tree_sem_all :
  (forall n, (exc_ok (nbody n) /\ alt_ok (nbody n)) /\ forall x, fire (chain_t n) x = chain_sel n x) /\
  (forall b, exc_ok b /\ alt_ok b).
Proof.
  apply rnode_mutind.
  - intros c tag b [E A]. split; [split; assumption|]. intros x. cbn [chain_t ncond ntag nbody chain_sel].
    rewrite A, E. cbn [fire]. destruct (holds c x); reflexivity.
  - split; intros acc x; cbn [exc_t alts_t exc_sel alt_sel]; destruct (fire acc x); reflexivity.
  - intros k n [[En An] Pn] rest [Er Ar]. destruct k.
    + split; intros acc x.
      * cbn [exc_t exc_sel fire]. rewrite Er, Pn. destruct (fire acc x) as [c|]; [|reflexivity].
        destruct (chain_sel n x); reflexivity.
      * cbn [alts_t alt_sel]. apply Ar.
    + split; intros acc x.
      * cbn [exc_t exc_sel]. apply Er.
      * cbn [alts_t alt_sel]. rewrite Ar, An. cbn [fire]. rewrite En. cbn [fire].
        destruct n as [c tag b]. cbn [ncond ntag nbody chain_sel].
        destruct (fire acc x) as [c0|]; [reflexivity|]. destruct (holds c x); [reflexivity|].
        destruct (alt_sel b x); reflexivity.
Qed.

Theorem intended_tree_rdr n x : fire (chain_t n) x = rdr n x.
Proof. apply tree_sem_all. Qed.

(* characterisation of the specification: a refinement changes the conclusion only where it applies ... *)
Lemma rdr_base_false c tag b x : holds c x = false -> rdr (RN c tag b) x = alt_sel b x.
Proof. intros H. unfold rdr. cbn [chain_sel]. now rewrite H. Qed.

Lemma rdr_base_true c tag b x : holds c x = true ->
  rdr (RN c tag b) x = Some (match exc_sel b x with Some t => t | None => tag end).
Proof. intros H. unfold rdr. cbn [chain_sel]. now rewrite H. Qed.

(* ================= the builders assemble the intended tree ================= *)
(* one-hole contexts, innermost frame first *)
Inductive frame := FAltL (r : otree) | FAltR (l : otree) | FExcL (r : otree) | FExcR (l : otree).
Definition plug1 (f : frame) (t : otree) : otree :=
  match f with FAltL r => OAlt t r | FAltR l => OAlt l t | FExcL r => OExc t r | FExcR l => OExc l t end.
Fixpoint plug (k : list frame) (t : otree) : otree := match k with [] => t | f :: k' => plug k' (plug1 f t) end.

Lemma plug_app k1 k2 t : plug (k1 ++ k2) t = plug k2 (plug k1 t).
Proof. revert t. induction k1 as [|f k1 IH]; intros t; cbn [app plug]; [reflexivity | apply IH]. Qed.

Fixpoint ttags (t : otree) : list nat :=
  match t with Leaf _ tag => [tag] | OExc l r | OAlt l r => ttags l ++ ttags r end.
Definition ftags (f : frame) : list nat := match f with FAltL t | FAltR t | FExcL t | FExcR t => ttags t end.
Definition ktags (k : list frame) : list nat := flat_map ftags k.

(* frames through which alternative() keeps climbing / the frame at which it stops *)
Definition climbs (f : frame) : bool := match f with FExcR _ => false | _ => true end.
Definition stops (k : list frame) : Prop := match k with [] => True | f :: _ => climbs f = false end.

Lemma ktags_app k1 k2 : ktags (k1 ++ k2) = ktags k1 ++ ktags k2.
Proof. unfold ktags. apply flat_map_app. Qed.

(* ---- refinement(): the edit happens exactly at the current leaf ---- *)
Lemma do_ref_notin t cur nw : ~ In cur (ttags t) -> do_ref t cur nw = t.
Proof.
  induction t as [c tag|l IHl r IHr|l IHl r IHr]; cbn [ttags do_ref]; intros H.
  - destruct (Nat.eqb tag cur) eqn:E; [|reflexivity]. apply Nat.eqb_eq in E. subst. exfalso. apply H. now left.
  - rewrite IHl, IHr; [reflexivity| |]; intros X; apply H; apply in_app_iff; tauto.
  - rewrite IHl, IHr; [reflexivity| |]; intros X; apply H; apply in_app_iff; tauto.
Qed.

Lemma do_ref_plug k : forall t cur nw, ~ In cur (ktags k) -> do_ref (plug k t) cur nw = plug k (do_ref t cur nw).
Proof.
  induction k as [|f k IH]; intros t cur nw H; cbn [plug]; [reflexivity|].
  cbn [ktags flat_map] in H. rewrite IH by (intros X; apply H; apply in_app_iff; now right). f_equal.
  assert (Hf : ~ In cur (ftags f)) by (intros X; apply H; apply in_app_iff; now left).
  destruct f; cbn [plug1 do_ref ftags] in *; now rewrite (do_ref_notin _ cur nw Hf).
Qed.

Lemma do_ref_leaf c cur nw : do_ref (Leaf c cur) cur nw = OExc (Leaf c cur) nw.
Proof. cbn [do_ref]. now rewrite Nat.eqb_refl. Qed.

(* ---- alternative(): the climb ---- *)
Lemma do_alt_notin t cur nw : ~ In cur (ttags t) -> do_alt_in t cur nw = NotFound.
Proof.
  induction t as [c tag|l IHl r IHr|l IHl r IHr]; cbn [ttags do_alt_in]; intros H.
  - destruct (Nat.eqb tag cur) eqn:E; [|reflexivity]. apply Nat.eqb_eq in E. subst. exfalso. apply H. now left.
  - rewrite IHl, IHr; [reflexivity| |]; intros X; apply H; apply in_app_iff; tauto.
  - rewrite IHl, IHr; [reflexivity| |]; intros X; apply H; apply in_app_iff; tauto.
Qed.

Lemma climb_through k : forall t cur nw, forallb climbs k = true -> ~ In cur (ktags k) ->
  do_alt_in t cur nw = Climbing -> do_alt_in (plug k t) cur nw = Climbing.
Proof.
  induction k as [|f k IH]; intros t cur nw CL H T; cbn [plug]; [exact T|].
  cbn [forallb] in CL. apply andb_prop in CL as [Cf Ck]. cbn [ktags flat_map] in H.
  apply IH; [exact Ck | intros X; apply H; apply in_app_iff; now right|].
  assert (Hf : ~ In cur (ftags f)) by (intros X; apply H; apply in_app_iff; now left).
  destruct f; cbn [plug1 do_alt_in ftags climbs] in *; try discriminate.
  - now rewrite T.
  - now rewrite (do_alt_notin l cur nw Hf), T.
  - now rewrite T.
Qed.

Lemma done_through k : forall t t' cur nw, ~ In cur (ktags k) ->
  do_alt_in t cur nw = Done t' -> do_alt_in (plug k t) cur nw = Done (plug k t').
Proof.
  induction k as [|f k IH]; intros t t' cur nw H T; cbn [plug]; [exact T|].
  cbn [ktags flat_map] in H. apply IH; [intros X; apply H; apply in_app_iff; now right|].
  assert (Hf : ~ In cur (ftags f)) by (intros X; apply H; apply in_app_iff; now left).
  destruct f; cbn [plug1 do_alt_in ftags] in *.
  - now rewrite T.
  - now rewrite (do_alt_notin l cur nw Hf), T.
  - now rewrite T.
  - now rewrite (do_alt_notin l cur nw Hf), T.
Qed.

Lemma do_alt_plug C K c cur nw : stops C -> forallb climbs K = true -> ~ In cur (ktags (K ++ C)) ->
  do_alt (plug (K ++ C) (Leaf c cur)) cur nw = plug C (OAlt (plug K (Leaf c cur)) nw).
Proof.
  intros ST CL H. rewrite ktags_app in H. rewrite plug_app. unfold do_alt.
  assert (HK : ~ In cur (ktags K)) by (intros X; apply H; apply in_app_iff; now left).
  assert (HC : ~ In cur (ktags C)) by (intros X; apply H; apply in_app_iff; now right).
  assert (T : do_alt_in (plug K (Leaf c cur)) cur nw = Climbing).
  { apply climb_through; [exact CL | exact HK|]. cbn [do_alt_in]. now rewrite Nat.eqb_refl. }
  destruct C as [|f C]; cbn [plug].
  - now rewrite T.
  - cbn [stops] in ST. destruct f; cbn [climbs] in ST; try discriminate. cbn [plug1].
    cbn [ktags flat_map ftags] in HC.
    assert (Hl : ~ In cur (ttags l)) by (intros X; apply HC; apply in_app_iff; now left).
    assert (HC' : ~ In cur (ktags C)) by (intros X; apply HC; apply in_app_iff; now right).
    rewrite (done_through C (OExc l (plug K (Leaf c cur))) (OExc l (OAlt (plug K (Leaf c cur)) nw)) cur nw HC'); [reflexivity|].
    cbn [do_alt_in]. now rewrite (do_alt_notin l cur nw Hl), T.
Qed.

(* ---- the frames alts_t adds around its accumulator ---- *)
Fixpoint alts_frames (b : rbody) : list frame :=
  match b with
  | BNil => []
  | BCons KAlt a rest => FAltL (exc_t (Leaf (ncond a) (ntag a)) (nbody a)) :: alts_frames (nbody a) ++ alts_frames rest
  | BCons KRef _ rest => alts_frames rest
  end.

Lemma alts_t_frames_all :
  (forall n, forall acc, alts_t acc (nbody n) = plug (alts_frames (nbody n)) acc) /\
  (forall b, forall acc, alts_t acc b = plug (alts_frames b) acc).
Proof.
  apply rnode_mutind.
  - intros c tag b IH. exact IH.
  - reflexivity.
  - intros k n IHn rest IHr acc. destruct k; cbn [alts_t alts_frames]; [apply IHr|].
    cbn [plug plug1]. rewrite plug_app. now rewrite IHr, IHn.
Qed.
Lemma alts_t_frames b acc : alts_t acc b = plug (alts_frames b) acc.
Proof. apply alts_t_frames_all. Qed.

Lemma alts_frames_climb_all : (forall n, forallb climbs (alts_frames (nbody n)) = true) /\ (forall b, forallb climbs (alts_frames b) = true).
Proof.
  apply rnode_mutind.
  - intros c tag b IH. exact IH.
  - reflexivity.
  - intros k n IHn rest IHr. destruct k; cbn [alts_frames]; [exact IHr|]. cbn [forallb climbs andb]. now rewrite forallb_app, IHn, IHr.
Qed.

(* ---- tags of the intended trees come from the program ---- *)
Lemma tags_intended_all :
  (forall n, (forall acc t, In t (ttags (exc_t acc (nbody n))) -> In t (ttags acc) \/ In t (tags_b (nbody n))) /\
             (forall t, In t (ktags (alts_frames (nbody n))) -> In t (tags_b (nbody n))) /\
             (forall t, In t (ttags (chain_t n)) -> In t (tags_n n))) /\
  (forall b, (forall acc t, In t (ttags (exc_t acc b)) -> In t (ttags acc) \/ In t (tags_b b)) /\
             (forall t, In t (ktags (alts_frames b)) -> In t (tags_b b))).
Proof.
  apply rnode_mutind.
  - intros c tag b [E A]. split; [exact E|]. split; [exact A|]. intros t. cbn [chain_t ncond ntag nbody tags_n].
    rewrite alts_t_frames. intros H.
    assert (G : forall k u, In t (ttags (plug k u)) -> In t (ttags u) \/ In t (ktags k)).
    { clear. induction k as [|f k IH]; intros u H; cbn [plug] in H; [now left|].
      apply IH in H as [H|H]; [|right; cbn [ktags flat_map]; apply in_app_iff; now right].
      destruct f; cbn [plug1 ttags] in H; apply in_app_iff in H as [H|H]; cbn [ktags flat_map ftags];
        try (now left); right; apply in_app_iff; now left. }
    apply G in H as [H|H]; [|right; now apply A].
    apply E in H as [H|H]; [|now right]. cbn [ttags] in H. destruct H as [<-|[]]. now left.
  - split; [intros acc t H; now left | intros t []].
  - intros k n [En [An Cn]] rest [Er Ar]. destruct k; split.
    + intros acc t. cbn [exc_t ttags tags_b]. intros H. apply in_app_iff in H as [H|H].
      * apply Er in H as [H|H]; [now left | right; apply in_app_iff; now right].
      * right. apply in_app_iff. left. now apply Cn.
    + intros t. cbn [alts_frames tags_b]. intros H. apply in_app_iff. right. now apply Ar.
    + intros acc t. cbn [exc_t tags_b]. intros H. apply Er in H as [H|H]; [now left | right; apply in_app_iff; now right].
    + intros t. cbn [alts_frames tags_b ktags flat_map ftags]. intros H. apply in_app_iff.
      apply in_app_iff in H as [H|H].
      * left. destruct n as [c tag b]. cbn [ncond ntag nbody tags_n] in *. apply En in H as [H|H]; [|now right].
        cbn [ttags] in H. destruct H as [<-|[]]. now left.
      * fold (ktags (alts_frames (nbody n) ++ alts_frames rest)) in H. rewrite ktags_app in H. apply in_app_iff in H as [H|H].
        -- left. destruct n as [c tag b]. cbn [nbody tags_n] in *. right. now apply An.
        -- right. now apply Ar.
Qed.

(* ---- the main invariant: executing a block whose owner sits at a chain position ---- *)
Definition block_ok (b : rbody) : Prop := forall C K c cur,
  stops C -> forallb climbs K = true -> ~ In cur (ktags (K ++ C)) ->
  (forall t, In t (tags_b b) -> t <> cur /\ ~ In t (ktags (K ++ C))) -> NoDup (tags_b b) ->
  build_b b (plug (K ++ C) (Leaf c cur)) cur = plug C (alts_t (plug K (exc_t (Leaf c cur) b)) b).

Lemma nodup_app_l {A} (a b : list A) : NoDup (a ++ b) -> NoDup a.
Proof. induction a as [|x a IH]; cbn [app]; intros N; [constructor|]. inversion N as [|? ? Hx N']; subst.
  constructor; [intros H; apply Hx; apply in_app_iff; now left | now apply IH]. Qed.
Lemma nodup_app_r {A} (a b : list A) : NoDup (a ++ b) -> NoDup b.
Proof. induction a as [|x a IH]; cbn [app]; intros N; [exact N|]. inversion N; subst. now apply IH. Qed.
Lemma nodup_app_disj {A} (a b : list A) x : NoDup (a ++ b) -> In x a -> In x b -> False.
Proof. induction a as [|y a IH]; cbn [app]; intros N Ha Hb; [destruct Ha|]. inversion N as [|? ? Hy N']; subst.
  destruct Ha as [<-|Ha]; [apply Hy; apply in_app_iff; now right | now apply IH]. Qed.

Lemma build_all : (forall n, block_ok (nbody n)) /\ (forall b, block_ok b).
Proof.
  apply rnode_mutind.
  - intros c tag b IH. exact IH.
  - intros C K c cur ST CL H F N. cbn [build_b exc_t alts_t]. apply plug_app.
  - intros k n IHn rest IHr C K c cur ST CL H F N.
    cbn [tags_b] in F, N.
    assert (Nn : NoDup (tags_n n)) by (eapply nodup_app_l; exact N).
    assert (Nr : NoDup (tags_b rest)) by (eapply nodup_app_r; exact N).
    destruct n as [cn tn bn]. cbn [nbody tags_n] in *.
    assert (Ftn : tn <> cur /\ ~ In tn (ktags (K ++ C))) by (apply F; now left).
    assert (Nbn : NoDup (tags_b bn)) by (inversion Nn; assumption).
    assert (tn_bn : ~ In tn (tags_b bn)) by (inversion Nn; assumption).
    destruct k; cbn [build_b build_n ncond ntag nbody].
    + (* refinement *)
      rewrite do_ref_plug by exact H. rewrite do_ref_leaf.
      (* the new leaf sits at the right of an ExceptIf: its chain ends there *)
      change (plug (K ++ C) (OExc (Leaf c cur) (Leaf cn tn))) with (plug ([] ++ (FExcR (Leaf c cur) :: K ++ C)) (Leaf cn tn)).
      rewrite (IHn (FExcR (Leaf c cur) :: K ++ C) [] cn tn).
      * cbn [plug plug1 app].
        (* now the current leaf is the left operand of the new ExceptIf: one more frame to climb through *)
        change (plug (K ++ C) (OExc (Leaf c cur) (alts_t (exc_t (Leaf cn tn) bn) bn)))
          with (plug ((FExcL (chain_t (RN cn tn bn)) :: K) ++ C) (Leaf c cur)).
        rewrite (IHr C (FExcL (chain_t (RN cn tn bn)) :: K) c cur ST).
        -- cbn [exc_t alts_t plug plug1]. reflexivity.
        -- cbn [forallb climbs andb]. exact CL.
        -- cbn [app ktags flat_map ftags]. fold (ktags (K ++ C)). intros X. apply in_app_iff in X as [X|X]; [|now apply H].
           apply (proj1 tags_intended_all (RN cn tn bn)) in X. destruct (F cur) as [Q _]; [apply in_app_iff; now left | now apply Q].
        -- intros t Ht. destruct (F t) as [Q1 Q2]; [apply in_app_iff; now right|]. split; [exact Q1|].
           cbn [app ktags flat_map ftags]. fold (ktags (K ++ C)). intros X. apply in_app_iff in X as [X|X]; [|now apply Q2].
           apply (proj1 tags_intended_all (RN cn tn bn)) in X. exact (nodup_app_disj _ _ t N X Ht).
        -- exact Nr.
      * cbn [stops climbs]. reflexivity.
      * reflexivity.
      * cbn [app ktags flat_map ftags ttags]. fold (ktags (K ++ C)). intros [X|X]; [now apply (proj1 Ftn) | now apply (proj2 Ftn)].
      * intros t Ht. split; [intros ->; now apply tn_bn|].
        cbn [app ktags flat_map ftags ttags]. fold (ktags (K ++ C)). intros [X|X].
        -- subst t. destruct (F cur) as [Q _]; [right; apply in_app_iff; now left | now apply Q].
        -- destruct (F t) as [_ Q]; [right; apply in_app_iff; now left | now apply Q].
      * exact Nbn.
    + (* alternative *)
      rewrite (do_alt_plug C K c cur (Leaf cn tn) ST CL H).
      change (plug C (OAlt (plug K (Leaf c cur)) (Leaf cn tn))) with (plug ([FAltR (plug K (Leaf c cur))] ++ C) (Leaf cn tn)).
      assert (TK : forall k u t, In t (ttags (plug k u)) -> In t (ttags u) \/ In t (ktags k)).
      { clear. induction k as [|f k IH]; intros u t H; cbn [plug] in H; [now left|].
        apply IH in H as [H|H]; [|right; cbn [ktags flat_map]; apply in_app_iff; now right].
        destruct f; cbn [plug1 ttags] in H; apply in_app_iff in H as [H|H]; cbn [ktags flat_map ftags];
          try (now left); right; apply in_app_iff; now left. }
      rewrite (IHn C [FAltR (plug K (Leaf c cur))] cn tn ST).
      * cbn [plug plug1].
        rewrite (alts_t_frames bn). rewrite <- plug_app.
        set (K2 := K ++ FAltL (exc_t (Leaf cn tn) bn) :: alts_frames bn).
        assert (EQ : plug (alts_frames bn ++ C) (OAlt (plug K (Leaf c cur)) (exc_t (Leaf cn tn) bn)) = plug (K2 ++ C) (Leaf c cur)).
        { unfold K2. rewrite <- app_assoc. rewrite (plug_app K ((FAltL (exc_t (Leaf cn tn) bn) :: alts_frames bn) ++ C) (Leaf c cur)). reflexivity. }
        rewrite EQ.
        assert (K2tags : forall t, In t (ktags K2) -> In t (ktags K) \/ In t (tn :: tags_b bn)).
        { intros t X. unfold K2 in X. rewrite ktags_app in X. apply in_app_iff in X as [X|X]; [now left|]. right.
          cbn [ktags flat_map ftags] in X. apply in_app_iff in X as [X|X].
          - apply (proj1 tags_intended_all (RN cn tn bn)) in X as [X|X]; [cbn [ttags] in X; destruct X as [<-|[]]; now left | now right].
          - right. now apply (proj1 tags_intended_all (RN cn tn bn)). }
        rewrite (IHr C K2 c cur ST).
        -- cbn [exc_t alts_t]. unfold K2. rewrite plug_app. cbn [plug plug1]. rewrite <- (alts_t_frames bn). reflexivity.
        -- unfold K2. rewrite forallb_app. cbn [forallb climbs andb]. rewrite CL. cbn [andb]. exact (proj2 alts_frames_climb_all bn).
        -- rewrite ktags_app. intros X. apply in_app_iff in X as [X|X].
           ++ apply K2tags in X as [X|X]; [apply H; rewrite ktags_app; apply in_app_iff; now left|].
              destruct (F cur) as [Q _]; [apply in_app_iff; now left | now apply Q].
           ++ apply H. rewrite ktags_app. apply in_app_iff. now right.
        -- intros t Ht. destruct (F t) as [Q1 Q2]; [apply in_app_iff; now right|]. split; [exact Q1|].
           rewrite ktags_app. intros X. apply in_app_iff in X as [X|X].
           ++ apply K2tags in X as [X|X]; [apply Q2; rewrite ktags_app; apply in_app_iff; now left|].
              exact (nodup_app_disj _ _ t N X Ht).
           ++ apply Q2. rewrite ktags_app. apply in_app_iff. now right.
        -- exact Nr.
      * reflexivity.
      * cbn [app ktags flat_map ftags]. fold (ktags C). intros X. apply in_app_iff in X as [X|X].
        -- apply TK in X as [X|X]; [cbn [ttags] in X; destruct X as [X|[]]; now apply (proj1 Ftn) |].
           apply (proj2 Ftn). rewrite ktags_app. apply in_app_iff. now left.
        -- apply (proj2 Ftn). rewrite ktags_app. apply in_app_iff. now right.
      * intros t Ht. split; [intros ->; now apply tn_bn|].
        cbn [app ktags flat_map ftags]. fold (ktags C). intros X.
        destruct (F t) as [Q1 Q2]; [right; apply in_app_iff; now left|].
        apply in_app_iff in X as [X|X].
        -- apply TK in X as [X|X]; [cbn [ttags] in X; destruct X as [X|[]]; now apply Q1 |].
           apply Q2. rewrite ktags_app. apply in_app_iff. now left.
        -- apply Q2. rewrite ktags_app. apply in_app_iff. now right.
      * exact Nbn.
Qed.

Theorem build_is_intended base : NoDup (tags_n base) -> build base = chain_t base.
Proof.
  intros N. destruct base as [c tag b]. unfold build. cbn [build_n ncond ntag nbody chain_t tags_n] in *.
  inversion N as [|? ? Ht Nb]; subst.
  pose proof (proj2 build_all b [] [] c tag) as B. cbn [app plug] in B. apply B.
  - exact I.
  - reflexivity.
  - intros [].
  - intros t Hin. split; [intros ->; contradiction | intros []].
  - exact Nb.
Qed.

Theorem built_tree_rdr base x : NoDup (tags_n base) -> fire (build base) x = rdr base x.
Proof. intros N. rewrite (build_is_intended base N). apply intended_tree_rdr. Qed.
