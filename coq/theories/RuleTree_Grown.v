(* RuleTree_Grown.v — rule trees that are GROWN: the statements of the base block written in several `with rule_mode(query)`
   blocks (with evaluations in between).  Re-entering a query attaches at its CONDITIONS ROOT (symbolic.py __enter__), not at the
   base rule's own conditions: `alternative` then wraps the whole tree, `refinement` wraps the whole tree too.  For alternatives
   this is what a single block does as well (it climbs from the base rule to the top of the chain); for refinements it is not. *)
From EQL Require Import Base Generated RuleTree.

(* the conclusion tag of the leftmost branch: the base rule, whatever has been wrapped around it *)
Fixpoint leftmost (t : otree) : nat :=
  match t with Leaf _ tag => tag | OExc l _ => leftmost l | OAlt l _ => leftmost l end.

(* a top-level statement written after re-entering the query: attached at the root *)
Definition reenter (k : kind) (n : rnode) (t : otree) : otree :=
  build_n n (match k with KRef => OExc t (Leaf (ncond n) (ntag n)) | KAlt => OAlt t (Leaf (ncond n) (ntag n)) end).
Fixpoint grow (b : rbody) (t : otree) : otree :=
  match b with BNil => t | BCons k n rest => grow rest (reenter k n t) end.

Fixpoint only_alts (b : rbody) : bool :=
  match b with BNil => true | BCons KAlt _ rest => only_alts rest | BCons KRef _ _ => false end.

Lemma climb_from_leftmost t nw : do_alt_in t (leftmost t) nw = Climbing.
Proof.
  induction t as [c tag|l IHl r IHr|l IHl r IHr]; cbn [do_alt_in leftmost].
  - now rewrite Nat.eqb_refl.
  - now rewrite IHl.
  - now rewrite IHl.
Qed.

Lemma alt_at_top t nw : do_alt t (leftmost t) nw = OAlt t nw.
Proof. unfold do_alt. now rewrite climb_from_leftmost. Qed.

Lemma leftmost_do_ref t cur nw : leftmost (do_ref t cur nw) = leftmost t.
Proof.
  induction t as [c tag|l IHl r IHr|l IHl r IHr]; cbn [do_ref leftmost]; auto.
  destruct (Nat.eqb tag cur); reflexivity.
Qed.

Lemma leftmost_do_alt_in t cur nw : forall t', do_alt_in t cur nw = Done t' -> leftmost t' = leftmost t.
Proof.
  induction t as [c tag|l IHl r IHr|l IHl r IHr]; cbn [do_alt_in]; intros t' H.
  - destruct (Nat.eqb tag cur); discriminate.
  - destruct (do_alt_in l cur nw) as [| |l'] eqn:El.
    + destruct (do_alt_in r cur nw) as [| |r'] eqn:Er; try discriminate; injection H as <-; reflexivity.
    + discriminate.
    + injection H as <-. cbn [leftmost]. now apply IHl.
  - destruct (do_alt_in l cur nw) as [| |l'] eqn:El.
    + destruct (do_alt_in r cur nw) as [| |r'] eqn:Er; try discriminate; injection H as <-; reflexivity.
    + discriminate.
    + injection H as <-. cbn [leftmost]. now apply IHl.
Qed.

Lemma leftmost_do_alt t cur nw : leftmost (do_alt t cur nw) = leftmost t.
Proof.
  unfold do_alt. destruct (do_alt_in t cur nw) as [| |t'] eqn:E; [reflexivity | reflexivity | now apply (leftmost_do_alt_in t cur nw)].
Qed.

Fixpoint leftmost_build_n (n : rnode) : forall t, leftmost (build_n n t) = leftmost t
with leftmost_build_b (b : rbody) : forall t cur, leftmost (build_b b t cur) = leftmost t.
Proof.
  - destruct n as [c tag b]. intros t. cbn [build_n nbody ntag]. apply leftmost_build_b.
  - destruct b as [|k n rest]; intros t cur; cbn [build_b]; [reflexivity|]. destruct k.
    + rewrite leftmost_build_b, leftmost_build_n. apply leftmost_do_ref.
    + rewrite leftmost_build_b, leftmost_build_n. apply leftmost_do_alt.
Qed.

(* alternatives written after re-entering the query build the same tree as if the block had never been left *)
Theorem grown_alternatives b : forall t, only_alts b = true -> grow b t = build_b b t (leftmost t).
Proof.
  induction b as [|k n rest IH]; intros t H; cbn [grow build_b]; [reflexivity|]. destruct k; [discriminate|].
  cbn [only_alts] in H. unfold reenter. rewrite (IH _ H), alt_at_top. f_equal.
  rewrite leftmost_build_n. reflexivity.
Qed.

(* ... and while the tree is still the base rule alone, a refinement written after re-entering is the ordinary one as well *)
Lemma refinement_of_bare_base c tag n :
  reenter KRef n (Leaf c tag) = build_n n (do_ref (Leaf c tag) tag (Leaf (ncond n) (ntag n))).
Proof. unfold reenter. cbn [do_ref]. now rewrite Nat.eqb_refl. Qed.

(* a refinement written after re-entering a tree that has been wrapped is NOT the refinement of the base rule *)
Example grown_refinement_differs :
  let base := Leaf [(0, 1)] 1 in let t := OAlt base (Leaf [(1, 1)] 2) in let r := RN [(2, 1)] 3 BNil in
  reenter KRef r t <> build_n r (do_ref t 1 (Leaf (ncond r) (ntag r))).
Proof. cbv. discriminate. Qed.
