(* RuleTree_Grown.v — rule trees that are GROWN: the statements of the base block written in several `with rule_mode(query)`
   blocks (with evaluations in between).  Re-entering a query attaches at its CONDITIONS ROOT (symbolic.py __enter__), not at the
   base rule's own conditions: `alternative` then wraps the whole tree, `refinement` wraps the whole tree too.  For alternatives
   this is what a single block does as well (it climbs from the base rule to the top of the chain); for refinements it is not. *)
From EQL Require Import Base Generated RuleTree.

(* the conclusion tag of the leftmost branch: the base rule, whatever has been wrapped around it *)
Fixpoint leftmost (t : otree) : nat :=
  match t with Leaf _ tag => tag | OExc l _ => leftmost l | OAlt l _ => leftmost l end.

(* a top-level statement written after re-entering the query: attached at the root *)
Definition reenter (k : kind) (n : rnode) (t : otree) : otree :=
  build_n n (match k with KRef => OExc t (Leaf (ncond n) (ntag n)) | KAlt => OAlt t (Leaf (ncond n) (ntag n)) end).
Fixpoint grow (b : rbody) (t : otree) : otree :=
  match b with BNil => t | BCons k n rest => grow rest (reenter k n t) end.

Fixpoint only_alts (b : rbody) : bool :=
  match b with BNil => true | BCons KAlt _ rest => only_alts rest | BCons KRef _ _ => false end.

Lemma climb_from_leftmost t nw : do_alt_in t (leftmost t) nw = Climbing.
Proof.
  induction t as [c tag|l IHl r IHr|l IHl r IHr]; cbn [do_alt_in leftmost].
  - now rewrite Nat.eqb_refl.
  - now rewrite IHl.
  - now rewrite IHl.
Qed.

Lemma alt_at_top t nw : do_alt t (leftmost t) nw = OAlt t nw.
Proof. unfold do_alt. now rewrite climb_from_leftmost. Qed.

Lemma leftmost_do_ref t cur nw : leftmost (do_ref t cur nw) = leftmost t.
Proof.
  induction t as [c tag|l IHl r IHr|l IHl r IHr]; cbn [do_ref leftmost]; auto.
  destruct (Nat.eqb tag cur); reflexivity.
Qed.

Lemma leftmost_do_alt_in t cur nw : forall t', do_alt_in t cur nw = Done t' -> leftmost t' = leftmost t.
Proof.
  induction t as [c tag|l IHl r IHr|l IHl r IHr]; cbn [do_alt_in]; intros t' H.
  - destruct (Nat.eqb tag cur); discriminate.
  - destruct (do_alt_in l cur nw) as [| |l'] eqn:El.
    + destruct (do_alt_in r cur nw) as [| |r'] eqn:Er; try discriminate; injection H as <-; reflexivity.
    + discriminate.
    + injection H as <-. cbn [leftmost]. now apply IHl.
  - destruct (do_alt_in l cur nw) as [| |l'] eqn:El.
    + destruct (do_alt_in r cur nw) as [| |r'] eqn:Er; try discriminate; injection H as <-; reflexivity.
    + discriminate.
    + injection H as <-. cbn [leftmost]. now apply IHl.
Qed.

Lemma leftmost_do_alt t cur nw : leftmost (do_alt t cur nw) = leftmost t.
Proof.
  unfold do_alt. destruct (do_alt_in t cur nw) as [| |t'] eqn:E; [reflexivity | reflexivity | now apply (leftmost_do_alt_in t cur nw)].
Qed.

Fixpoint leftmost_build_n (n : rnode) : forall t, leftmost (build_n n t) = leftmost t
with leftmost_build_b (b : rbody) : forall t cur, leftmost (build_b b t cur) = leftmost t.
Proof.
  - destruct n as [c tag b]. intros t. cbn [build_n nbody ntag]. apply leftmost_build_b.
  - destruct b as [|k n rest]; intros t cur; cbn [build_b]; [reflexivity|]. destruct k.
    + rewrite leftmost_build_b, leftmost_build_n. apply leftmost_do_ref.
    + rewrite leftmost_build_b, leftmost_build_n. apply leftmost_do_alt.
Qed.

(* alternatives written after re-entering the query build the same tree as if the block had never been left *)
Theorem grown_alternatives b : forall t, only_alts b = true -> grow b t = build_b b t (leftmost t).
Proof.
  induction b as [|k n rest IH]; intros t H; cbn [grow build_b]; [reflexivity|]. destruct k; [discriminate|].
  cbn [only_alts] in H. unfold reenter. rewrite (IH _ H), alt_at_top. f_equal.
  rewrite leftmost_build_n. reflexivity.
Qed.

(* ... and while the tree is still the base rule alone, a refinement written after re-entering is the ordinary one as well *)
Lemma refinement_of_bare_base c tag n :
  reenter KRef n (Leaf c tag) = build_n n (do_ref (Leaf c tag) tag (Leaf (ncond n) (ntag n))).
Proof. unfold reenter. cbn [do_ref]. now rewrite Nat.eqb_refl. Qed.

(* a refinement written after re-entering a tree that has been wrapped is NOT the refinement of the base rule *)
Example grown_refinement_differs :
  let base := Leaf [(0, 1)] 1 in let t := OAlt base (Leaf [(1, 1)] 2) in let r := RN [(2, 1)] 3 BNil in
  reenter KRef r t <> build_n r (do_ref t 1 (Leaf (ncond r) (ntag r))).
Proof. cbv. discriminate. Qed.

(* ================= every kind of statement written after re-entering, ONE per session =================
   Each later session holds one top-level statement (with a block of its own, of any shape).  Re-entering attaches at the
   conditions root: a refinement then refines the WHOLE tree built so far (where anything fired, its conclusion is replaced by
   the refinement's where the refinement applies), an alternative applies where nothing fired.  [sel_grown] is that reading as a
   function of the conclusion selected so far. *)
From EQL Require Import RuleTree_Facts.

Fixpoint sel_grown (v : option nat) (later : rbody) (x : item) : option nat :=
  match later with
  | BNil => v
  | BCons KRef n rest => sel_grown (match v with None => None | Some c => Some (match rdr n x with Some c' => c' | None => c end) end) rest x
  | BCons KAlt n rest => sel_grown (match v with Some c => Some c | None => rdr n x end) rest x
  end.

Lemma ttags_plug k : forall u t, In t (ttags (plug k u)) -> In t (ttags u) \/ In t (ktags k).
Proof.
  induction k as [|f k IH]; intros u t H; cbn [plug] in H; [now left|].
  apply IH in H as [H|H]; [|right; cbn [ktags flat_map]; apply in_app_iff; now right].
  destruct f; cbn [plug1 ttags] in H; apply in_app_iff in H as [H|H]; cbn [ktags flat_map ftags];
    try (now left); right; apply in_app_iff; now left.
Qed.

(* a refinement written after re-entering: ExceptIf(the whole tree, the refinement with its own block) *)
Lemma reenter_ref n t : NoDup (tags_n n) -> (forall g, In g (tags_n n) -> ~ In g (ttags t)) ->
  reenter KRef n t = OExc t (chain_t n).
Proof.
  intros N F. destruct n as [c tag b]. unfold reenter. cbn [build_n ncond ntag nbody chain_t tags_n] in *.
  inversion N as [|? ? Ht Nb]; subst.
  pose proof (proj2 build_all b [FExcR t] [] c tag) as B. cbn [app plug plug1] in B. apply B.
  - reflexivity.
  - reflexivity.
  - cbn [ktags flat_map ftags]. rewrite app_nil_r. apply F. now left.
  - intros g Hg. split; [intros ->; contradiction|]. cbn [ktags flat_map ftags]. rewrite app_nil_r. apply F. now right.
  - exact Nb.
Qed.

(* an alternative written after re-entering: the chain Alternative(the whole tree, the new branch), continued by its block *)
Lemma reenter_alt n t : NoDup (tags_n n) -> (forall g, In g (tags_n n) -> ~ In g (ttags t)) ->
  reenter KAlt n t = alts_t (OAlt t (exc_t (Leaf (ncond n) (ntag n)) (nbody n))) (nbody n).
Proof.
  intros N F. destruct n as [c tag b]. unfold reenter. cbn [build_n ncond ntag nbody tags_n] in *.
  inversion N as [|? ? Ht Nb]; subst.
  pose proof (proj2 build_all b [] [FAltR t] c tag) as B. cbn [app plug plug1] in B. apply B.
  - exact I.
  - reflexivity.
  - cbn [ktags flat_map ftags]. rewrite app_nil_r. apply F. now left.
  - intros g Hg. split; [intros ->; contradiction|]. cbn [ktags flat_map ftags]. rewrite app_nil_r. apply F. now right.
  - exact Nb.
Qed.

Lemma fire_reenter k n t x : NoDup (tags_n n) -> (forall g, In g (tags_n n) -> ~ In g (ttags t)) ->
  fire (reenter k n t) x = sel_grown (fire t x) (BCons k n BNil) x.
Proof.
  intros N F. destruct k; cbn [sel_grown].
  - rewrite (reenter_ref n t N F). cbn [fire]. rewrite intended_tree_rdr. destruct (fire t x) as [c|]; [|reflexivity].
    destruct (rdr n x); reflexivity.
  - rewrite (reenter_alt n t N F). destruct (proj1 tree_sem_all n) as [[En An] _]. rewrite An. cbn [fire]. rewrite En. cbn [fire].
    destruct n as [c tag b]. cbn [ncond ntag nbody]. unfold rdr. cbn [chain_sel].
    destruct (fire t x) as [c0|]; [reflexivity|]. destruct (holds c x); [reflexivity|]. destruct (alt_sel b x); reflexivity.
Qed.

(* the tags of the tree after a statement was attached: those before plus the statement's *)
Lemma ttags_reenter k n t g : NoDup (tags_n n) -> (forall g', In g' (tags_n n) -> ~ In g' (ttags t)) ->
  In g (ttags (reenter k n t)) -> In g (ttags t) \/ In g (tags_n n).
Proof.
  intros N F H. destruct k.
  - rewrite (reenter_ref n t N F) in H. cbn [ttags] in H. apply in_app_iff in H as [H|H]; [now left | right].
    apply (proj1 tags_intended_all n) in H. exact H.
  - rewrite (reenter_alt n t N F) in H. rewrite alts_t_frames in H. apply ttags_plug in H as [H|H].
    + cbn [ttags] in H. apply in_app_iff in H as [H|H]; [now left | right]. destruct n as [c tag b]. cbn [ncond ntag nbody tags_n] in *.
      apply (proj1 (proj2 tags_intended_all b)) in H as [H|H]; [cbn [ttags] in H; destruct H as [<-|[]]; now left | now right].
    + right. destruct n as [c tag b]. cbn [nbody tags_n]. right. now apply (proj2 (proj2 tags_intended_all b)).
Qed.

Theorem grown_sessions later : forall t x, NoDup (tags_b later) -> (forall g, In g (tags_b later) -> ~ In g (ttags t)) ->
  fire (grow later t) x = sel_grown (fire t x) later x.
Proof.
  induction later as [|k n rest IH]; intros t x N F; cbn [grow]; [reflexivity|].
  cbn [tags_b] in N, F.
  assert (Nn : NoDup (tags_n n)) by (eapply nodup_app_l; exact N).
  assert (Nr : NoDup (tags_b rest)) by (eapply nodup_app_r; exact N).
  assert (Fn : forall g, In g (tags_n n) -> ~ In g (ttags t)) by (intros g Hg; apply F; apply in_app_iff; now left).
  rewrite IH.
  - rewrite (fire_reenter k n t x Nn Fn). destruct k; reflexivity.
  - exact Nr.
  - intros g Hg X. apply (ttags_reenter k n t g Nn Fn) in X as [X|X].
    + apply (F g); [apply in_app_iff; now right | exact X].
    + exact (nodup_app_disj _ _ g N X Hg).
Qed.

(* ---- running a grown case: the base program (one session), then one statement per later session ---- *)
Open Scope string_scope.
Definition run_gcase (n : nat) (base : rnode) (later : rbody) (dom : list (nat * item)) : string :=
  match build_checked base with
  | None => "CASE " ++ show_nat n ++ " M UNMODELLED-BUILDERS  S - " ++ rows_of (fun x => sel_grown (rdr base x) later x) dom
  | Some t =>
  "CASE " ++ show_nat n ++ " M " ++ show_tree (grow later t) ++ " " ++ rows_of (fire (grow later t)) dom
          ++ " S " ++ show_tree (grow later t) ++ " " ++ rows_of (fun x => sel_grown (rdr base x) later x) dom
  end.
Close Scope string_scope.

(* the whole history: the base program written in the first session, then one statement per session *)
Theorem grown_program base later x : NoDup (tags_n base ++ tags_b later) ->
  fire (grow later (build base)) x = sel_grown (rdr base x) later x.
Proof.
  intros N. pose proof (nodup_app_l _ _ N) as Nb. pose proof (nodup_app_r _ _ N) as Nl.
  rewrite (build_is_intended base Nb). rewrite grown_sessions.
  - now rewrite intended_tree_rdr.
  - exact Nl.
  - intros g Hg X. apply (proj1 tags_intended_all base) in X. exact (nodup_app_disj _ _ g N X Hg).
Qed.
