(* Run.v — the case record, runner and canonical printer used by generated cases_*.v (query family). *)
From EQL Require Import Base Values Syntax Spec Elab EvalPure Dedup.

Record qcase := {
  qc_heap : heap;
  qc_doms : list (key * list val);          (* explicit domains of the variables *)
  qc_filters : list (key * scond);          (* a variable given as a nested query an(entity(x, c)) - c over x alone - wherever it is
                                               used: it ranges over the members of its domain that satisfy c *)
  qc_binders : list binder;                  (* what the query ranges over, dependency order *)
  qc_sel : list term;                        (* selected expressions, in selection order *)
  qc_cond : option scond
}.

Definition dom_of (d : list (key * list val)) : key -> list val :=
  fun k => match aget d k with Some l => l | None => [] end.
Definition dom_of_case (c : qcase) : key -> list val :=
  let d0 := dom_of (qc_doms c) in
  fun k => match aget (qc_filters c) k with
           | Some f => filter (fun v => sat (qc_heap c) d0 f (upd env0 k v)) (d0 k)
           | None => d0 k
           end.

Open Scope string_scope.
Definition show_row (r : list val) : string := String.concat "," (map show_val r).
Definition show_rows (rs : list (list val)) : string := String.concat ";" (map show_row rs).

Definition run_qcase (n : nat) (c : qcase) : string :=
  let d := dom_of_case c in
  let spec := show_rows (spec_rows (qc_heap c) d (qc_binders c) (qc_sel c) (qc_cond c)) in
  let model :=
    match qc_cond c with
    | None => "R " ++ show_rows (run_query (qc_heap c) d (qc_sel c) None)
    | Some sc =>
        match elab sc with
        | Some ic => "R " ++ show_rows (run_query (qc_heap c) d (qc_sel c) (Some ic))
        | None => "X elab"
        end
    end in
  (* the D-model (Dedup.v): the exact row sequence WITH the de-duplication of rows, on its fragment *)
  let dmodel :=
    match qc_cond c with
    | None => "-"
    | Some sc =>
        match elab sc with
        | Some ic => if dfrag ic && forallb dterm (qc_sel c)
                     then "R " ++ show_rows (run_queryD (qc_heap c) d (qc_sel c) (Some ic)) else "-"
        | None => "-"
        end
    end in
  "CASE " ++ show_nat n ++ " M " ++ model ++ " DD " ++ dmodel ++ " S R " ++ spec.

(* the(...): consume the rows; fail on the second, fail if there is none (The._evaluate_) *)
Definition the_outcome (rows : list (list val)) : string :=
  match the_of rows with
  | ONone => "X NoSolutionFound"
  | OValue r => "R " ++ show_row r
  | OMany => "X MultipleSolutionFound"
  end.

Definition run_qcase_the (n : nat) (c : qcase) : string :=
  let d := dom_of_case c in
  let spec := the_outcome (spec_rows (qc_heap c) d (qc_binders c) (qc_sel c) (qc_cond c)) in
  let model :=
    match qc_cond c with
    | None => the_outcome (run_query (qc_heap c) d (qc_sel c) None)
    | Some sc =>
        match elab sc with
        | Some ic => the_outcome (run_query (qc_heap c) d (qc_sel c) (Some ic))
        | None => "X elab"
        end
    end in
  "CASE " ++ show_nat n ++ " M " ++ model ++ " S " ++ spec.

(* a pool of queries over the same heap (C04): the answer of every query of the pool on untouched data, model and specification *)
Definition run_qpool (n : nat) (cs : list qcase) : string :=
  let one (c : qcase) : string * string :=
    let d := dom_of_case c in
    (match qc_cond c with
     | None => "R " ++ show_rows (run_query (qc_heap c) d (qc_sel c) None)
     | Some sc => match elab sc with
                  | Some ic => "R " ++ show_rows (run_query (qc_heap c) d (qc_sel c) (Some ic))
                  | None => "X elab"
                  end
     end,
     "R " ++ show_rows (spec_rows (qc_heap c) d (qc_binders c) (qc_sel c) (qc_cond c))) in
  let rs := map one cs in
  "CASE " ++ show_nat n ++ " M " ++ String.concat " || " (map fst rs) ++ " S " ++ String.concat " || " (map snd rs).

(* metamorphic pairs (C18): the model runs the rewritten query, the specification answers the original one *)
Definition run_qpair (n : nat) (orig variant : qcase) : string :=
  let d := dom_of_case orig in
  let spec := show_rows (spec_rows (qc_heap orig) d (qc_binders orig) (qc_sel orig) (qc_cond orig)) in
  let dv := dom_of_case variant in
  let model :=
    match qc_cond variant with
    | None => "R " ++ show_rows (run_query (qc_heap variant) dv (qc_sel variant) None)
    | Some sc =>
        match elab sc with
        | Some ic => "R " ++ show_rows (run_query (qc_heap variant) dv (qc_sel variant) (Some ic))
        | None => "X elab"
        end
    end in
  "CASE " ++ show_nat n ++ " M " ++ model ++ " S R " ++ spec.
Close Scope string_scope.
