(* Run.v — the case record, runner and canonical printer used by generated cases_*.v (query family). *)
From EQL Require Import Base Values Syntax Spec Elab EvalPure.

Record qcase := {
  qc_heap : heap;
  qc_doms : list (key * list val);          (* explicit domains of the variables *)
  qc_binders : list binder;                  (* what the query ranges over, dependency order *)
  qc_sel : list term;                        (* selected expressions, in selection order *)
  qc_cond : option scond
}.

Definition dom_of (d : list (key * list val)) : key -> list val :=
  fun k => match aget d k with Some l => l | None => [] end.

Open Scope string_scope.
Definition show_row (r : list val) : string := String.concat "," (map show_val r).
Definition show_rows (rs : list (list val)) : string := String.concat ";" (map show_row rs).

Definition run_qcase (n : nat) (c : qcase) : string :=
  let d := dom_of (qc_doms c) in
  let spec := show_rows (spec_rows (qc_heap c) d (qc_binders c) (qc_sel c) (qc_cond c)) in
  let model :=
    match qc_cond c with
    | None => "R " ++ show_rows (run_query (qc_heap c) d (qc_sel c) None)
    | Some sc =>
        match elab sc with
        | Some ic => "R " ++ show_rows (run_query (qc_heap c) d (qc_sel c) (Some ic))
        | None => "X elab"
        end
    end in
  "CASE " ++ show_nat n ++ " M " ++ model ++ " S R " ++ spec.
Close Scope string_scope.
