(* Shapes_Facts.v — flatten as UNNEST (C16) and concatenate (C17): direct structural proofs on the P-model. *)
From EQL Require Import Base Values Syntax Spec Generated EvalPure EvalPure_Facts OneVar_Facts.

(* what counts as ONE element for flatten / concatenate (Values.elements: a str is not iterated, tuples / lists / mappings are) is
   utils.is_iterable's exclusion list, re-read from the source on every run *)
Lemma scalar_types_as_modelled : scalar_types = [Ty_str; Ty_type; Ty_bytes; Ty_bytearray].
Proof. reflexivity. Qed.

Lemma flat_map_map' {A B C} (f : B -> list C) (g : A -> B) l : flat_map f (map g l) = flat_map (fun a => f (g a)) l.
Proof. induction l as [|a l IH]; simpl; [reflexivity|]. now rewrite IH. Qed.

Section Shapes.
  Variable h : heap.
  Variable dom : key -> list val.
  Variable x : key.                      (* the parent variable *)
  Variable id : key.                     (* the flatten / concatenate node *)
  Hypothesis id_x : Nat.eqb id x = false.
  Variable t : term.                     (* the flattened expression: over the parent only, and mentioning it *)
  Hypothesis t_ok : t1 x t = true.
  Hypothesis t_men : mentions t = true.

  Notation eval_term := (eval_term h dom).
  Notation tval := (tval h).
  Notation ev := (ev x).

  Definition inner (v : val) : list val := elements (tval t (ev v)).

  Lemma x_id : Nat.eqb x id = false.
  Proof. now rewrite Nat.eqb_sym. Qed.

  Lemma var_unbound : eval_term (TVar x) [] = map (fun v => (bind [] x v, v)) (dom x).
  Proof. reflexivity. Qed.

  Lemma flat_unbound :
    eval_term (TFlat id t) [] = flat_map (fun v => map (fun e => (bind (bind [] x v) id e, e)) (inner v)) (dom x).
  Proof.
    cbn [EvalPure.eval_term lookup]. rewrite (term_unbound h dom x t [] t_ok t_men eq_refl), flat_map_map'. reflexivity.
  Qed.

  Lemma flat_bound_x v :
    eval_term (TFlat id t) (bind [] x v) = map (fun e => (bind (bind [] x v) id e, e)) (inner v).
  Proof.
    cbn [EvalPure.eval_term lookup bind]. rewrite id_x.
    rewrite (term_bound h dom x t (bind [] x v) v t_ok) by (cbn; now rewrite Nat.eqb_refl).
    cbn [flat_map fst snd]. now rewrite app_nil_r.
  Qed.

  Lemma lookup_x_in v e : lookup (bind (bind [] x v) id e) x = Some v.
  Proof. cbn. now rewrite x_id, Nat.eqb_refl. Qed.
  Lemma lookup_id_in v e : lookup (bind (bind [] x v) id e) id = Some e.
  Proof. cbn. now rewrite Nat.eqb_refl. Qed.

  Lemma row_parent_elem v e : row_of h dom [TVar x; TFlat id t] (bind (bind [] x v) id e) = [v; e].
  Proof. unfold row_of. cbn [map EvalPure.eval_term]. now rewrite lookup_x_in, lookup_id_in. Qed.
  Lemma row_elem v e : row_of h dom [TFlat id t] (bind (bind [] x v) id e) = [e].
  Proof. unfold row_of. cbn [map EvalPure.eval_term]. now rewrite lookup_id_in. Qed.

  (* C16, no condition, parent and element selected: one row per inner element, each with ITS parent *)
  Theorem unnest_parent_elem :
    run_query h dom [TVar x; TFlat id t] None = flat_map (fun v => map (fun e => [v; e]) (inner v)) (dom x).
  Proof.
    unfold run_query. cbn [flat_map]. rewrite app_nil_r. cbn [bind_selected]. rewrite var_unbound.
    rewrite flat_map_map'. cbn [fst].
    induction (dom x) as [|v d IH]; [reflexivity|]. cbn [flat_map]. rewrite map_app, IH. f_equal.
    rewrite flat_bound_x, flat_map_map'. cbn [fst].
    induction (inner v) as [|e l IHl]; [reflexivity|]. cbn [flat_map map app]. now rewrite row_parent_elem, IHl.
  Qed.

  (* C16, only the element selected *)
  Theorem unnest_elem :
    run_query h dom [TFlat id t] None = flat_map (fun v => map (fun e => [e]) (inner v)) (dom x).
  Proof.
    unfold run_query. cbn [flat_map]. rewrite app_nil_r. cbn [bind_selected]. rewrite flat_unbound.
    induction (dom x) as [|v d IH]; [reflexivity|]. cbn [flat_map]. rewrite flat_map_app, map_app, IH. f_equal.
    rewrite flat_map_map'. cbn [fst].
    induction (inner v) as [|e l IHl]; [reflexivity|]. cbn [flat_map map app]. now rewrite row_elem, IHl.
  Qed.

  (* C16, a condition on the flattened element: the element rows are filtered, the correlation with the parent kept *)
  Theorem unnest_filtered o w :
    run_query h dom [TVar x; TFlat id t] (Some (CCmp o (TFlat id t) (TLit w)))
    = flat_map (fun v => map (fun e => [v; e]) (filter (fun e => apply_op o e w) (inner v))) (dom x).
  Proof.
    unfold run_query. cbn [EvalPure.eval]. unfold bound_in. cbn [tvars existsb]. unfold cmp_rows. rewrite flat_unbound.
    induction (dom x) as [|v d IH]; [reflexivity|]. cbn [flat_map].
    rewrite !flat_map_app, filter_app, map_app, flat_map_app, IH. f_equal. clear IH.
    rewrite flat_map_map'. cbn [fst snd EvalPure.eval_term flat_map]. unfold inner.
    induction (elements (tval t (ev v))) as [|e l IHl]; [reflexivity|]. cbn [map flat_map filter fst snd]. rewrite app_nil_r, orb_false_r.
    destruct (apply_op o e w); cbn [app filter map flat_map snd fst negb]; [|exact IHl].
    rewrite IHl. f_equal.
    cbn [bind_selected EvalPure.eval_term]. rewrite lookup_x_in. cbn [flat_map fst app]. rewrite lookup_id_in. cbn [flat_map fst app map].
    now rewrite row_parent_elem.
  Qed.

  (* C16, ANY condition on the parent (any tree of comparisons / memberships / expressions / and / or / not / nested queries over
     the parent variable): the parents are filtered, every surviving parent is unnested in full *)
  Lemma var_bound v : eval_term (TVar x) (bind [] x v) = [(bind [] x v, v)].
  Proof. cbn [EvalPure.eval_term lookup bind]. now rewrite Nat.eqb_refl. Qed.

  Lemma rows_of_parent v :
    map (row_of h dom [TVar x; TFlat id t]) (bind_selected h dom [TVar x; TFlat id t] (bind [] x v)) = map (fun e => [v; e]) (inner v).
  Proof.
    cbn [bind_selected]. rewrite var_bound. cbn [flat_map fst]. rewrite app_nil_r. rewrite flat_bound_x, flat_map_map'. cbn [fst].
    induction (inner v) as [|e l IHl]; [reflexivity|]. cbn [flat_map map app]. now rewrite row_parent_elem, IHl.
  Qed.

  Theorem unnest_where c : c1 x c = true ->
    run_query h dom [TVar x; TFlat id t] (Some c)
    = flat_map (fun v => if isat h dom c (ev v) then map (fun e => [v; e]) (inner v) else []) (dom x).
  Proof.
    intros C. unfold run_query. rewrite (eval_unbound h dom x c C [] false eq_refl).
    induction (dom x) as [|v d IH]; [reflexivity|]. cbn [flat_map]. rewrite filter_app, map_app, flat_map_app, IH. f_equal.
    unfold out. destruct (isat h dom c (ev v)); cbn [filter map flat_map snd fst negb app]; [|reflexivity].
    rewrite app_nil_r. apply rows_of_parent.
  Qed.

  (* ... and a condition on the parent AND a condition on the flattened element *)
  Lemma row_bound v e :
    map (row_of h dom [TVar x; TFlat id t]) (bind_selected h dom [TVar x; TFlat id t] (bind (bind [] x v) id e)) = [[v; e]].
  Proof.
    cbn [bind_selected EvalPure.eval_term]. rewrite lookup_x_in. cbn [flat_map fst app]. rewrite lookup_id_in. cbn [flat_map fst app map].
    now rewrite row_parent_elem.
  Qed.

  Theorem unnest_where_filtered c o w : c1 x c = true ->
    run_query h dom [TVar x; TFlat id t] (Some (CAnd c (CCmp o (TFlat id t) (TLit w))))
    = flat_map (fun v => if isat h dom c (ev v) then map (fun e => [v; e]) (filter (fun e => apply_op o e w) (inner v)) else []) (dom x).
  Proof.
    intros C. unfold run_query. cbn [EvalPure.eval]. rewrite (eval_unbound h dom x c C [] false eq_refl).
    induction (dom x) as [|v d IH]; [reflexivity|]. cbn [flat_map]. rewrite !flat_map_app, filter_app, map_app, flat_map_app, IH. f_equal. clear IH.
    unfold out. destruct (isat h dom c (ev v)); cbn [flat_map snd fst app]; [|reflexivity].
    rewrite app_nil_r. unfold bound_in. cbn [tvars existsb]. unfold cmp_rows. rewrite flat_bound_x, flat_map_map'. cbn [fst snd EvalPure.eval_term flat_map].
    induction (inner v) as [|e l IHl]; [reflexivity|]. cbn [map flat_map filter fst snd]. rewrite app_nil_r, orb_false_r.
    destruct (apply_op o e w); cbn [app filter map flat_map snd fst negb]; [|exact IHl].
    rewrite row_bound. cbn [app]. f_equal. exact IHl.
  Qed.

  (* C16, a DISJUNCTION over items / attributes of the flattened element, an item of the element selected: one row per element
     that satisfies either branch (two elements of one parent are two rows), each carrying ITS item *)
  Lemma row_item m v e : row_of h dom [TMap m (TFlat id t)] (bind (bind [] x v) id e) = [apply_map h m e].
  Proof. unfold row_of. cbn [map EvalPure.eval_term]. now rewrite lookup_id_in. Qed.

  Lemma rows_item_bound m v e :
    map (row_of h dom [TMap m (TFlat id t)]) (bind_selected h dom [TMap m (TFlat id t)] (bind (bind [] x v) id e)) = [[apply_map h m e]].
  Proof.
    cbn [bind_selected EvalPure.eval_term]. rewrite lookup_id_in. cbn [map flat_map fst app]. now rewrite row_item.
  Qed.

  Definition Bve (v e : val) : binding := bind (bind [] x v) id e.

  Lemma mapped_flat_unbound m :
    eval_term (TMap m (TFlat id t)) [] = flat_map (fun v => map (fun e => (Bve v e, apply_map h m e)) (inner v)) (dom x).
  Proof.
    change (eval_term (TMap m (TFlat id t)) []) with (map (fun bv : binding * val => (fst bv, apply_map h m (snd bv))) (eval_term (TFlat id t) [])).
    rewrite flat_unbound. induction (dom x) as [|v d IH]; [reflexivity|]. cbn [flat_map]. rewrite map_app, IH. f_equal.
    rewrite map_map. reflexivity.
  Qed.

  Lemma mapped_flat_bound m v e : eval_term (TMap m (TFlat id t)) (Bve v e) = [(Bve v e, apply_map h m e)].
  Proof. unfold Bve. cbn [EvalPure.eval_term]. rewrite lookup_id_in. reflexivity. Qed.

  Lemma cmp_item_unbound m o w ywf :
    eval h dom (CCmp o (TMap m (TFlat id t)) (TLit w)) [] ywf
    = flat_map (fun v => flat_map (fun e => if apply_op o (apply_map h m e) w || ywf
                                            then [(Bve v e, negb (apply_op o (apply_map h m e) w))] else []) (inner v)) (dom x).
  Proof.
    cbn [EvalPure.eval]. unfold bound_in. cbn [tvars existsb]. unfold cmp_rows. rewrite mapped_flat_unbound.
    induction (dom x) as [|v d IH]; [reflexivity|]. cbn [flat_map]. rewrite flat_map_app, IH. f_equal. clear IH.
    rewrite flat_map_map'. apply flat_map_ext. intros e. cbn [fst snd EvalPure.eval_term flat_map]. now rewrite app_nil_r.
  Qed.

  Lemma cmp_item_bound m o w ywf v e :
    eval h dom (CCmp o (TMap m (TFlat id t)) (TLit w)) (Bve v e) ywf
    = if apply_op o (apply_map h m e) w || ywf then [(Bve v e, negb (apply_op o (apply_map h m e) w))] else [].
  Proof.
    cbn [EvalPure.eval]. unfold bound_in. cbn [tvars existsb]. unfold cmp_rows. rewrite mapped_flat_bound.
    cbn [flat_map fst snd EvalPure.eval_term]. now rewrite !app_nil_r.
  Qed.

  Lemma match_nil_flat_map {A B} (L : list A) (R0 : list B) (G : A -> list B) :
    (L = [] -> R0 = []) -> match L with [] => R0 | p :: l => flat_map G (p :: l) end = flat_map G L.
  Proof. destruct L; intros H; [now rewrite H | reflexivity]. Qed.

  Theorem unnest_item_disjunction m m1 o1 w1 m2 o2 w2 :
    run_query h dom [TMap m (TFlat id t)]
      (Some (CElseIf (CCmp o1 (TMap m1 (TFlat id t)) (TLit w1)) (CCmp o2 (TMap m2 (TFlat id t)) (TLit w2))))
    = flat_map (fun v => map (fun e => [apply_map h m e])
                             (filter (fun e => apply_op o1 (apply_map h m1 e) w1 || apply_op o2 (apply_map h m2 e) w2) (inner v))) (dom x).
  Proof.
    unfold run_query.
    change (eval h dom (CElseIf (CCmp o1 (TMap m1 (TFlat id t)) (TLit w1)) (CCmp o2 (TMap m2 (TFlat id t)) (TLit w2))) [] false)
      with (match eval h dom (CCmp o1 (TMap m1 (TFlat id t)) (TLit w1)) [] true with
            | [] => eval h dom (CCmp o2 (TMap m2 (TFlat id t)) (TLit w2)) [] false
            | ls => flat_map (fun p : binding * bool => if snd p then eval h dom (CCmp o2 (TMap m2 (TFlat id t)) (TLit w2)) (fst p) false
                                                       else [(fst p, false)]) ls
            end).
    rewrite match_nil_flat_map.
    - rewrite cmp_item_unbound.
      induction (dom x) as [|v d IH]; [reflexivity|]. cbn [flat_map].
      rewrite !flat_map_app, filter_app, map_app, flat_map_app, IH. f_equal. clear IH.
      induction (inner v) as [|e l IHl]; [reflexivity|]. cbn [flat_map filter map]. rewrite orb_true_r. cbn [app flat_map fst snd].
      rewrite cmp_item_bound, orb_false_r, filter_app, map_app, flat_map_app, IHl. clear IHl.
      destruct (apply_op o1 (apply_map h m1 e) w1); cbn [negb orb].
      + cbn [filter snd negb map fst flat_map app]. unfold Bve. rewrite rows_item_bound. reflexivity.
      + destruct (apply_op o2 (apply_map h m2 e) w2); cbn [negb app filter snd map fst flat_map].
        * unfold Bve. rewrite rows_item_bound. reflexivity.
        * reflexivity.
    - intros E. rewrite cmp_item_unbound in E. rewrite cmp_item_unbound.
      induction (dom x) as [|v d IH]; [reflexivity|]. cbn [flat_map] in *. apply app_eq_nil in E as [E1 E2]. rewrite (IH E2), app_nil_r.
      destruct (inner v) as [|e l]; [reflexivity|]. cbn [flat_map] in E1. rewrite orb_true_r in E1. discriminate E1.
  Qed.

  (* ... and with the PARENT alone selected: one row per qualifying element, each row its parent (a parent that qualifies through
     a later element only is still delivered) *)
  Lemma rows_parent_bound v e :
    map (row_of h dom [TVar x]) (bind_selected h dom [TVar x] (bind (bind [] x v) id e)) = [[v]].
  Proof.
    cbn [bind_selected EvalPure.eval_term]. rewrite lookup_x_in. cbn [map flat_map fst app]. unfold row_of. cbn [map EvalPure.eval_term].
    now rewrite lookup_x_in.
  Qed.

  Theorem unnest_parent_disjunction m1 o1 w1 m2 o2 w2 :
    run_query h dom [TVar x]
      (Some (CElseIf (CCmp o1 (TMap m1 (TFlat id t)) (TLit w1)) (CCmp o2 (TMap m2 (TFlat id t)) (TLit w2))))
    = flat_map (fun v => map (fun _ => [v])
                             (filter (fun e => apply_op o1 (apply_map h m1 e) w1 || apply_op o2 (apply_map h m2 e) w2) (inner v))) (dom x).
  Proof.
    unfold run_query.
    change (eval h dom (CElseIf (CCmp o1 (TMap m1 (TFlat id t)) (TLit w1)) (CCmp o2 (TMap m2 (TFlat id t)) (TLit w2))) [] false)
      with (match eval h dom (CCmp o1 (TMap m1 (TFlat id t)) (TLit w1)) [] true with
            | [] => eval h dom (CCmp o2 (TMap m2 (TFlat id t)) (TLit w2)) [] false
            | ls => flat_map (fun p : binding * bool => if snd p then eval h dom (CCmp o2 (TMap m2 (TFlat id t)) (TLit w2)) (fst p) false
                                                       else [(fst p, false)]) ls
            end).
    rewrite match_nil_flat_map.
    - rewrite cmp_item_unbound.
      induction (dom x) as [|v d IH]; [reflexivity|]. cbn [flat_map].
      rewrite !flat_map_app, filter_app, map_app, flat_map_app, IH. f_equal. clear IH.
      induction (inner v) as [|e l IHl]; [reflexivity|]. cbn [flat_map filter map]. rewrite orb_true_r. cbn [app flat_map fst snd].
      rewrite cmp_item_bound, orb_false_r, filter_app, map_app, flat_map_app, IHl. clear IHl.
      destruct (apply_op o1 (apply_map h m1 e) w1); cbn [negb orb].
      + cbn [filter snd negb map fst flat_map app]. unfold Bve. rewrite rows_parent_bound. reflexivity.
      + destruct (apply_op o2 (apply_map h m2 e) w2); cbn [negb app filter snd map fst flat_map].
        * unfold Bve. rewrite rows_parent_bound. reflexivity.
        * reflexivity.
    - intros E. rewrite cmp_item_unbound in E. rewrite cmp_item_unbound.
      induction (dom x) as [|v d IH]; [reflexivity|]. cbn [flat_map] in *. apply app_eq_nil in E as [E1 E2]. rewrite (IH E2), app_nil_r.
      destruct (inner v) as [|e l]; [reflexivity|]. cbn [flat_map] in E1. rewrite orb_true_r in E1. discriminate E1.
  Qed.

  (* ---------- C17 ---------- *)
  Definition all_elems : val := VTup (flat_map (fun v => atoms_of (tval t (ev v))) (dom x)).

  Lemma concat_unbound : eval_term (TConcat id t) [] = [(bind [] id all_elems, all_elems)].
  Proof.
    cbn [EvalPure.eval_term lookup]. rewrite (term_unbound h dom x t [] t_ok t_men eq_refl), flat_map_map'. reflexivity.
  Qed.

  (* the single row: all inner elements, in domain order and inner order, with multiplicity *)
  Theorem concat_single : run_query h dom [TConcat id t] None = [[all_elems]].
  Proof.
    unfold run_query. cbn [flat_map]. rewrite app_nil_r. cbn [bind_selected]. rewrite concat_unbound. cbn [flat_map fst app map].
    unfold row_of. cbn [map EvalPure.eval_term lookup bind]. now rewrite Nat.eqb_refl.
  Qed.

  (* (non-)membership of an outer variable y: exactly the outer values whose attribute is (is not) in the combined list *)
  Variable y : key.
  Hypothesis y_x : Nat.eqb y x = false.
  Hypothesis y_id : Nat.eqb y id = false.

  Lemma outer_unbound m :
    eval_term (TMap m (TVar y)) (bind [] id all_elems)
    = map (fun w => (bind (bind [] id all_elems) y w, apply_map h m w)) (dom y).
  Proof. cbn [EvalPure.eval_term lookup bind]. rewrite y_id. cbn [lookup]. now rewrite map_map. Qed.

  Theorem concat_membership o m :
    run_query h dom [TVar y] (Some (CCmp o (TConcat id t) (TMap m (TVar y))))
    = map (fun w => [w]) (filter (fun w => apply_op o all_elems (apply_map h m w)) (dom y)).
  Proof.
    unfold run_query. cbn [EvalPure.eval]. unfold bound_in. cbn [tvars existsb bound lookup orb]. unfold cmp_rows. rewrite concat_unbound.
    cbn [flat_map fst snd]. rewrite app_nil_r, outer_unbound, flat_map_map'. cbn [fst snd].
    induction (dom y) as [|w d IH]; [reflexivity|]. cbn [map flat_map filter fst snd]. rewrite orb_false_r.
    destruct (apply_op o all_elems (apply_map h m w)); cbn [app filter map flat_map fst snd negb]; [|exact IH].
    rewrite IH. f_equal.
    cbn [bind_selected EvalPure.eval_term lookup bind]. rewrite Nat.eqb_refl. cbn [flat_map fst app map].
    unfold row_of. cbn [map EvalPure.eval_term lookup bind]. now rewrite Nat.eqb_refl.
  Qed.
End Shapes.

(* ---------- C17, any concatenated expression: concatenate(u) for any u whose rows are known ---------- *)
Lemma flat_map_flat_map {A B C} (f : B -> list C) (g : A -> list B) l :
  flat_map f (flat_map g l) = flat_map (fun a => flat_map f (g a)) l.
Proof. induction l as [|a l IH]; cbn [flat_map]; [reflexivity|]. now rewrite flat_map_app, IH. Qed.

Lemma nothing_bound l : existsb (bound []) l = false.
Proof. induction l as [|k l IH]; [reflexivity|]. exact IH. Qed.

Lemma flat_map_singleton_map {A B} (f : A -> B) l : flat_map (fun a => [f a]) l = map f l.
Proof. induction l as [|a l IH]; cbn; [reflexivity|]. now rewrite IH. Qed.

Section ConcatAny.
  Variable h : heap.
  Variable dom : key -> list val.
  Variable cid : key.                    (* the concatenate node *)
  Variable u : term.                     (* what is concatenated *)
  Notation eval_term := (eval_term h dom).

  (* the list of all elements of all rows of u, in row order and inner order *)
  Definition concat_value : val := VTup (flat_map (fun bv => atoms_of (snd bv)) (eval_term u [])).

  Lemma concat_any_unbound : eval_term (TConcat cid u) [] = [(bind [] cid concat_value, concat_value)].
  Proof. reflexivity. Qed.

  Theorem concat_any_single : run_query h dom [TConcat cid u] None = [[concat_value]].
  Proof.
    unfold run_query. cbn [flat_map]. rewrite app_nil_r. cbn [bind_selected]. rewrite concat_any_unbound. cbn [flat_map fst app map].
    unfold row_of. cbn [map EvalPure.eval_term lookup bind]. now rewrite Nat.eqb_refl.
  Qed.

  Variable y : key.
  Hypothesis y_cid : Nat.eqb y cid = false.

  Theorem concat_any_membership o m :
    run_query h dom [TVar y] (Some (CCmp o (TConcat cid u) (TMap m (TVar y))))
    = map (fun w => [w]) (filter (fun w => apply_op o concat_value (apply_map h m w)) (dom y)).
  Proof.
    unfold run_query. cbn [EvalPure.eval]. unfold bound_in. cbn [tvars]. rewrite nothing_bound. cbn [orb existsb bound lookup].
    unfold cmp_rows. rewrite concat_any_unbound.
    cbn [flat_map fst snd]. rewrite app_nil_r.
    assert (OU : eval_term (TMap m (TVar y)) (bind [] cid concat_value)
                 = map (fun w => (bind (bind [] cid concat_value) y w, apply_map h m w)) (dom y)).
    { cbn [EvalPure.eval_term lookup bind]. rewrite y_cid. cbn [lookup]. now rewrite map_map. }
    rewrite OU, flat_map_map'. cbn [fst snd]. clear OU.
    induction (dom y) as [|w d IH]; [reflexivity|]. cbn [map flat_map filter fst snd]. rewrite orb_false_r.
    destruct (apply_op o concat_value (apply_map h m w)); cbn [app filter map flat_map fst snd negb]; [|exact IH].
    rewrite IH. f_equal.
    cbn [bind_selected EvalPure.eval_term lookup bind]. rewrite Nat.eqb_refl. cbn [flat_map fst app map].
    unfold row_of. cbn [map EvalPure.eval_term lookup bind]. now rewrite Nat.eqb_refl.
  Qed.

  (* the concatenation binds only itself: a variable it ranges over stays free, selected next to the outer variable it takes
     every value of its domain for every qualifying outer value *)
  Variable x : key.
  Hypothesis x_cid : Nat.eqb x cid = false.
  Hypothesis x_y : Nat.eqb x y = false.

  Theorem concat_any_leaves_parent_free o m :
    run_query h dom [TVar y; TVar x] (Some (CCmp o (TConcat cid u) (TMap m (TVar y))))
    = flat_map (fun w => map (fun v => [w; v]) (dom x)) (filter (fun w => apply_op o concat_value (apply_map h m w)) (dom y)).
  Proof.
    unfold run_query. cbn [EvalPure.eval]. unfold bound_in. cbn [tvars]. rewrite nothing_bound. cbn [orb existsb bound lookup].
    unfold cmp_rows. rewrite concat_any_unbound.
    cbn [flat_map fst snd]. rewrite app_nil_r.
    assert (OU : eval_term (TMap m (TVar y)) (bind [] cid concat_value)
                 = map (fun w => (bind (bind [] cid concat_value) y w, apply_map h m w)) (dom y)).
    { cbn [EvalPure.eval_term lookup bind]. rewrite y_cid. cbn [lookup]. now rewrite map_map. }
    rewrite OU, flat_map_map'. cbn [fst snd]. clear OU.
    induction (dom y) as [|w d IH]; [reflexivity|]. cbn [map flat_map filter fst snd]. rewrite orb_false_r.
    destruct (apply_op o concat_value (apply_map h m w)); cbn [app filter map flat_map fst snd negb]; [|exact IH].
    rewrite IH. f_equal.
    cbn [bind_selected EvalPure.eval_term lookup bind]. rewrite Nat.eqb_refl. cbn [flat_map fst app].
    cbn [lookup bind]. rewrite x_y, x_cid. cbn [lookup]. rewrite app_nil_r, flat_map_map'. cbn [fst].
    rewrite flat_map_singleton_map, map_map. apply map_ext. intros v.
    unfold row_of. cbn [map EvalPure.eval_term lookup bind]. rewrite Nat.eqb_refl. rewrite (Nat.eqb_sym y x), x_y, Nat.eqb_refl. reflexivity.
  Qed.
End ConcatAny.


(* concatenate(flatten(t)), t over the parent x: the elements of the elements, parent by parent *)
Section ConcatFlat.
  Variable h : heap.
  Variable dom : key -> list val.
  Variables x fid : key.
  Variable t : term.
  Hypothesis t_ok : t1 x t = true.
  Hypothesis t_men : mentions t = true.

  Definition all_flat_elems : val :=
    VTup (flat_map (fun v => flat_map atoms_of (elements (tval h t (ev x v)))) (dom x)).

  Lemma concat_value_flat : concat_value h dom (TFlat fid t) = all_flat_elems.
  Proof.
    unfold concat_value, all_flat_elems. rewrite (flat_unbound h dom x fid t t_ok t_men). f_equal.
    rewrite flat_map_flat_map. apply flat_map_ext. intros v. unfold inner. rewrite flat_map_map'. reflexivity.
  Qed.
End ConcatFlat.

