(* Spec.v — the reference semantics the properties speak of: ordinary truth of a surface condition
   under a total assignment, and the brute-force "filter the product of the domains". *)
From EQL Require Import Base Values Syntax.

Section Spec.
  Variable h : heap.
  Variable dom : key -> list val.

  Fixpoint tval (t : term) (e : env) : val :=
    match t with
    | TLit v => v
    | TVar x => e x
    | TMap m t' => apply_map h m (tval t' e)
    | TFlat id _ => e id
    | TConcat id _ => e id
    end.

  Fixpoint sat (c : scond) (e : env) : bool :=
    match c with
    | SCmp o l r => apply_op o (tval l e) (tval r e)
    | SIn i c' => vin (tval i e) (tval c' e)
    | SContains c' i => vin (tval i e) (tval c' e)
    | STruth t => truthy (tval t e)
    | SAnd a b => sat a e && sat b e
    | SOr a b => sat a e || sat b e
    | SNot a => negb (sat a e)
    | SForAll u c' => forallb (fun v => sat c' (upd e u v)) (dom u)
    | SSub _ c' => sat c' e
    end.

  (* truth of an internal node *)
  Fixpoint isat (c : cond) (e : env) : bool :=
    match c with
    | CCmp o l r => apply_op o (tval l e) (tval r e)
    | CTruth t inv => xorb inv (truthy (tval t e))
    | CAnd a b => isat a e && isat b e
    | CElseIf a b => isat a e || isat b e
    | CForAll u c' => forallb (fun v => isat c' (upd e u v)) (dom u)
    | CSub _ c' => isat c' e
    end.

  (* what a query ranges over: variables with their domains and flatten nodes with their (dependent)
     element lists, in dependency order *)
  Inductive binder := BVar (x : key) | BFlat (id : key) (t : term)
                    | BConcat (id : key) (x : key) (t : term)    (* concatenate(t), t over the one variable x *)
                    | BConcatFlat (id : key) (x : key) (t : term).   (* concatenate(flatten(t)): the elements of the elements *)

  Fixpoint envs (bs : list binder) (e : env) : list env :=
    match bs with
    | [] => [e]
    | BVar x :: bs' => flat_map (fun v => envs bs' (upd e x v)) (dom x)
    | BFlat id t :: bs' => flat_map (fun v => envs bs' (upd e id v)) (elements (tval t e))
    | BConcat id x t :: bs' =>
        envs bs' (upd e id (VTup (flat_map (fun v => atoms_of (tval t (upd e x v))) (dom x))))
    | BConcatFlat id x t :: bs' =>
        envs bs' (upd e id (VTup (flat_map (fun v => flat_map atoms_of (elements (tval t (upd e x v)))) (dom x))))
    end.

  Definition env0 : env := fun _ => VA ANone.

  Definition solutions (bs : list binder) (c : option scond) : list env :=
    filter (fun e => match c with Some c' => sat c' e | None => true end) (envs bs env0).

  Definition spec_rows (bs : list binder) (sel : list term) (c : option scond) : list (list val) :=
    map (fun e => map (fun t => tval t e) sel) (solutions bs c).
End Spec.
