(* Syntax.v — terms, the SURFACE conditions a user writes, and the INTERNAL nodes the library's
   constructors build (DESIGN.md 3.2).  Keys name variables and flatten nodes (everything a row
   can bind). *)
From EQL Require Import Base Values.

Definition key := nat.

Inductive term :=
| TLit (v : val)                      (* a literal operand *)
| TVar (x : key)                      (* a variable with an explicit domain *)
| TMap (m : mapping) (t : term)       (* attribute / index / zero-argument call *)
| TFlat (id : key) (t : term)         (* flatten(t): one row per element, bound under [id] *)
| TConcat (id : key) (t : term).      (* concatenate(t): ONE row, the list of all elements of t over all its rows *)

(* what the user writes *)
Inductive scond :=
| SCmp (o : cmpop) (l r : term)       (* l <op> r with op among == != < <= > >= *)
| SIn (item container : term)         (* in_(item, container) *)
| SContains (container item : term)   (* contains(container, item) *)
| STruth (t : term)                   (* an expression standing in condition position *)
| SAnd (a b : scond)
| SOr (a b : scond)
| SNot (a : scond)
| SForAll (u : key) (c : scond)       (* for_all(u, c), u a variable *)
| SSub (sel : list term) (c : scond). (* an(entity/set_of(sel, c)) used as a condition *)

(* what the constructors build *)
Inductive cond :=
| CCmp (o : cmpop) (l r : term)       (* Comparator(left, right, operation) — operation after inversion *)
| CTruth (t : term) (inv : bool)      (* a DomainMapping in condition position with its _invert_ flag *)
| CAnd (a b : cond)
| CElseIf (a b : cond)
| CForAll (u : key) (c : cond)
| CSub (sel : list term) (c : cond).  (* nested An(Entity/SetOf(sel, c)) in condition position *)

(* the Variables (not flatten nodes) a term mentions: Comparator.get_first_second_operands looks at these *)
Fixpoint tvars (t : term) : list key :=
  match t with
  | TLit _ => []
  | TVar x => [x]
  | TMap _ t' => tvars t'
  | TFlat _ t' => tvars t'
  | TConcat _ t' => tvars t'
  end.

(* keys a term can bind *)
Fixpoint tkeys (t : term) : list key :=
  match t with
  | TLit _ => []
  | TVar x => [x]
  | TMap _ t' => tkeys t'
  | TFlat id t' => id :: tkeys t'
  | TConcat id t' => id :: tkeys t'
  end.

Fixpoint cvars (c : cond) : list key :=
  match c with
  | CCmp _ l r => tvars l ++ tvars r
  | CTruth t _ => tvars t
  | CAnd a b | CElseIf a b => cvars a ++ cvars b
  | CForAll u c' => u :: cvars c'
  | CSub _ c' => cvars c'
  end.

(* ---- bindings: what a row carries ---- *)
Definition binding := list (key * val).
Fixpoint lookup (b : binding) (x : key) : option val :=
  match b with [] => None | (y, v) :: b' => if Nat.eqb x y then Some v else lookup b' x end.
Definition bound (b : binding) (x : key) : bool :=
  match lookup b x with Some _ => true | None => false end.
Definition bind (b : binding) (x : key) (v : val) : binding := (x, v) :: b.

(* total assignments *)
Definition env := key -> val.
Definition upd (e : env) (x : key) (v : val) : env := fun y => if Nat.eqb y x then v else e y.
