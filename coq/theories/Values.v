(* Values.v — the Python value subset of the models and the operator semantics assumed for it
   (==, !=, order comparisons, membership, truthiness).  MODELLED, validated by correspondence:
   that CPython's operators behave like this on this subset is part of the trusted base. *)
From EQL Require Import Base.

Definition oid := nat.

(* atoms: int, bool, None, str, object identity, and - only as an ELEMENT of a container - a tuple of ints (one level of
   nesting: a collection of collections); containers: a tuple/list of atoms.  A nested tuple taken out of its container
   (flatten, indexing) is the container value VTup again ([lift]); VA (ATup _) is not a value the models produce. *)
Inductive atom := AInt (z : Z) | ABool (b : bool) | ANone | AStr (s : string) | AObj (o : oid) | ATup (l : list Z).
Inductive val := VA (a : atom) | VTup (l : list atom).

Definition VObj (o : oid) : val := VA (AObj o).
Definition VInt (z : Z) : val := VA (AInt z).

(* Python: bool is a subtype of int, True == 1, False == 0 *)
Definition num_of (a : atom) : option Z :=
  match a with AInt z => Some z | ABool b => Some (if b then 1 else 0)%Z | _ => None end.

Fixpoint zs_eqb (l m : list Z) : bool :=
  match l, m with
  | [], [] => true
  | x :: l', y :: m' => Z.eqb x y && zs_eqb l' m'
  | _, _ => false
  end.

Definition aeqb (a b : atom) : bool :=
  match num_of a, num_of b with
  | Some x, Some y => Z.eqb x y
  | _, _ =>
    match a, b with
    | ANone, ANone => true
    | AStr s, AStr t => String.eqb s t
    | AObj o, AObj p => Nat.eqb o p            (* @dataclass(eq=False): identity *)
    | ATup l, ATup m => zs_eqb l m
    | _, _ => false
    end
  end.

Fixpoint leqb (l m : list atom) : bool :=
  match l, m with
  | [], [] => true
  | a :: l', b :: m' => aeqb a b && leqb l' m'
  | _, _ => false
  end.

Definition veqb (v w : val) : bool :=
  match v, w with
  | VA a, VA b => aeqb a b
  | VTup l, VTup m => leqb l m
  | _, _ => false
  end.

(* IDENTITY of values (Leibniz equality, decidable): what HashedValue.__eq__ compares - the id of the wrapped object -
   on the values a variable can be bound to (domain objects).  Lemmas: EvalPure_Facts.v *)
Definition atom_eqb (a b : atom) : bool :=
  match a, b with
  | AInt x, AInt y => Z.eqb x y
  | ABool x, ABool y => Bool.eqb x y
  | ANone, ANone => true
  | AStr s, AStr t => String.eqb s t
  | AObj o, AObj p => Nat.eqb o p
  | ATup l, ATup m => zs_eqb l m
  | _, _ => false
  end.
Fixpoint atoms_eqb (l m : list atom) : bool :=
  match l, m with
  | [], [] => true
  | a :: l', b :: m' => atom_eqb a b && atoms_eqb l' m'
  | _, _ => false
  end.
Definition val_eqb (v w : val) : bool :=
  match v, w with VA a, VA b => atom_eqb a b | VTup l, VTup m => atoms_eqb l m | _, _ => false end.

(* a TOTAL comparison used for <, <=, >, >= : numeric on numbers (the only operands the generators
   produce for order comparisons).  On other operands CPython raises TypeError or uses orders this
   model does not describe; the definition is total so that the models are functions, and the
   "Python would raise" inputs are excluded by the generators (documented gap, see DESIGN.md). *)
Definition rank (a : atom) : Z :=
  match a with AInt z => z | ABool b => if b then 1 else 0 | ANone => 0 | AStr _ => 0 | AObj o => Z.of_nat o
             | ATup l => Z.of_nat (List.length l) end.
Definition vrank (v : val) : Z := match v with VA a => rank a | VTup l => Z.of_nat (List.length l) end.
Definition vltb (v w : val) : bool := Z.ltb (vrank v) (vrank w).
Definition vleb (v w : val) : bool := Z.leb (vrank v) (vrank w).

(* a nested tuple outside its container is a container value; a container of ints can be an element *)
Definition lift (a : atom) : val := match a with ATup l => VTup (map AInt l) | _ => VA a end.
Fixpoint ints_of (l : list atom) : option (list Z) :=
  match l with
  | [] => Some []
  | AInt z :: l' => match ints_of l' with Some zs => Some (z :: zs) | None => None end
  | _ => None
  end.
Definition unlift (v : val) : option atom :=
  match v with VA a => Some a | VTup l => match ints_of l with Some zs => Some (ATup zs) | None => None end end.

(* item in container *)
Definition vin (item container : val) : bool :=
  match container with
  | VTup l => match unlift item with Some a => existsb (aeqb a) l | None => false end
  | _ => false
  end.

(* bool(v) *)
Definition atruthy (a : atom) : bool :=
  match a with
  | AInt z => negb (Z.eqb z 0) | ABool b => b | ANone => false
  | AStr s => negb (String.eqb s EmptyString) | AObj _ => true
  | ATup l => match l with [] => false | _ => true end
  end.
Definition truthy (v : val) : bool :=
  match v with VA a => atruthy a | VTup l => match l with [] => false | _ => true end end.

(* the operators a Comparator node can hold.  Contains/NotContains: left operand is the container. *)
Inductive cmpop := Eq | Ne | Lt | Le | Gt | Ge | Contains | NotContains.

Definition apply_op (o : cmpop) (a b : val) : bool :=
  match o with
  | Eq => veqb a b | Ne => negb (veqb a b)
  | Lt => vltb a b | Le => vleb a b | Gt => vltb b a | Ge => vleb b a
  | Contains => vin b a | NotContains => negb (vin b a)
  end.

Definition cmpop_eqb (a b : cmpop) : bool :=
  match a, b with
  | Eq, Eq | Ne, Ne | Lt, Lt | Le, Le | Gt, Gt | Ge, Ge | Contains, Contains | NotContains, NotContains => true
  | _, _ => false
  end.

(* elements of a value as `flatten` / `concatenate` see it: a non-iterable counts as a single element
   (utils.is_iterable: str is NOT iterable) *)
Definition elements (v : val) : list val :=
  match v with VA a => [VA a] | VTup l => map lift l end.
Definition atoms_of (v : val) : list atom :=
  match v with VA a => [a] | VTup l => l end.

(* ---- heap: object -> field -> value (attribute access, [k], zero-argument methods are pure) ---- *)
Definition heap := list (list val).
Definition get_field (h : heap) (o : oid) (f : nat) : val := nth f (nth o h []) (VA ANone).

Inductive mapping := MField (f : nat) | MIdx (k : nat).
Definition apply_map (h : heap) (m : mapping) (v : val) : val :=
  match m, v with
  | MField f, VA (AObj o) => get_field h o f
  | MIdx k, VTup l => lift (nth k l ANone)
  | _, _ => VA ANone
  end.

(* ---- printing (one canonical form shared with the Python harness) ---- *)
Open Scope string_scope.
Definition show_atom (a : atom) : string :=
  match a with
  | AInt z => "i" ++ show_Z z | ABool b => if b then "bT" else "bF" | ANone => "N"
  | AStr s => "s<" ++ s ++ ">" | AObj o => "o" ++ show_nat o
  | ATup l => "(" ++ String.concat "," (map (fun z => "i" ++ show_Z z) l) ++ ")"
  end.
Definition show_val (v : val) : string :=
  match v with VA a => show_atom a | VTup l => "(" ++ String.concat "," (map show_atom l) ++ ")" end.
Close Scope string_scope.
