#!/bin/bash
# usage: harness/all.sh <quick|thorough> [ids...]   -- runs the checks one after the other, prints one line per check
cd "$(dirname "$0")/.."
tier=${1:-quick}; shift
ids=${@:-C01 C02 C03 C04 C05 C06 C07 C08 C09 C10 C11 C12 C13 C14 C15 C16 C17 C18 C19 C20}
/venv/bin/python harness/setup.py | tail -1
rc=0
for p in $ids; do ./check $p $tier 2>&1 | grep -v "^KNOWN-FINDING\|conda" | tail -2 | cut -c1-300; [ ${PIPESTATUS[0]} -ne 0 ] && rc=1; done
exit $rc
