"""dev helper: build against EQL_SRC (default /repo/src) and print failures"""
import sys, os
sys.path.insert(0, os.path.dirname(os.path.abspath(__file__)))
import common
r = common.build(targets=sys.argv[1:] or None)
print('OK' if r['ok'] else 'FAILED ' + str(r['failed']), '| translator:', r['translator_msg'][:200])
if not r['ok']:
    print(r['log'][-2500:])
