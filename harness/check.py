import os, sys
sys.path.insert(0, os.path.dirname(os.path.abspath(__file__)))
import engine


def family(pid):
    if pid == 'C20':
        from p_c20 import C20
        return C20()
    import p_pred
    if hasattr(p_pred, pid):
        return getattr(p_pred, pid)()
    import p_history
    if hasattr(p_history, pid):
        return getattr(p_history, pid)()
    if pid in ('C19', 'C11', 'C05', 'C01'):
        import p_query
        if pid == 'C01':
            return p_history.with_histories(p_query.C01, 0.15, p_history.lazy_history)()
        if pid == 'C19':
            return p_history.with_histories(p_query.C19, 0.25, p_history.falsy_shared_history)()
        if pid == 'C05':
            return p_history.with_histories(p_query.C05, 0.3, p_history.join_history)()
        return p_history.with_histories(p_query.C11, 0.25, p_history.infer_history)()
    import p_rules
    if hasattr(p_rules, pid):
        return getattr(p_rules, pid)()
    import p_registry
    if hasattr(p_registry, pid):
        return getattr(p_registry, pid)()
    import p_mode
    if hasattr(p_mode, pid):
        return getattr(p_mode, pid)()
    import p_query
    if hasattr(p_query, pid):
        return getattr(p_query, pid)()
    raise SystemExit(f'unknown property {pid}')


def main():
    if len(sys.argv) < 3:
        raise SystemExit(__doc__ or 'usage: check <Cxx> <quick|thorough> | <Cxx> --replay FILE')
    pid = sys.argv[1]
    fam = family(pid)
    if sys.argv[2] == '--replay':
        sys.exit(engine.replay(fam, sys.argv[3]))
    tier = os.environ.get('VERIF_TIER') or sys.argv[2]
    if len(sys.argv) > 2 and sys.argv[2] in ('quick', 'thorough'):
        tier = sys.argv[2]
    seed = int(os.environ.get('VERIF_SEED', '20260926'))
    sys.exit(engine.run_check(fam, tier, seed))


if __name__ == '__main__':
    main()
