import os, sys
sys.path.insert(0, os.path.dirname(os.path.abspath(__file__)))
import engine


class WithSub:
    """the main family of a property plus tagged cases of further model families (engine.evaluate dispatches on case['sub'])"""

    def __init__(self, main, subs, share):
        self.main, self.subfamilies, self.share = main, subs, share
        self.pid, self.header, self.impl_script = main.pid, main.header, main.impl_script
        self.targets = list(main.targets) + [t for f in subs.values() for t in f.targets if t not in main.targets]
        self.rule = main.rule + ''.join('; PLUS (' + format(share, '.0%') + ' of the cases) ' + f.rule for f in subs.values())
        self.explanation = main.explanation + ''.join('; ' + f.explanation for f in subs.values())
        for attr in ('impl_timeout', 'known_without_tie'):
            if hasattr(main, attr):
                setattr(self, attr, getattr(main, attr))

    def of(self, case):
        return self.subfamilies[case['sub']] if case.get('sub') else self.main

    def budget(self, tier):
        return self.main.budget(tier)

    def gen(self, rng, i, tier):
        if rng.random() < self.share:
            tag = rng.choice(sorted(self.subfamilies))
            c = self.subfamilies[tag].gen(rng, i, tier)
            c['sub'] = tag
            return c
        return self.main.gen(rng, i, tier)

    def known(self, case, io, mo, so):
        return self.of(case).known(case, io, mo, so)

    def nontrivial(self, case, io):
        return self.of(case).nontrivial(case, io)

    def stats(self, case, io):
        return self.of(case).stats(case, io)

    def shrink(self, case):
        for c in self.of(case).shrink(case):
            if case.get('sub'):
                c['sub'] = case['sub']
            yield c


def family(pid):
    if pid == 'C20':
        from p_c20 import C20
        return C20()
    import p_pred
    if hasattr(p_pred, pid):
        return getattr(p_pred, pid)()
    import p_history
    if hasattr(p_history, pid):
        return getattr(p_history, pid)()
    if pid in ('C19', 'C11', 'C05', 'C01'):
        import p_query
        if pid == 'C01':
            return p_history.with_histories(p_query.C01, 0.15, p_history.lazy_history)()
        if pid == 'C19':
            return p_history.with_histories(p_query.C19, 0.25, p_history.falsy_shared_history)()
        if pid == 'C05':
            from p_c20 import C05MG
            return WithSub(p_history.with_histories(p_query.C05, 0.3, p_history.join_history)(), dict(index=C05MG()), 0.12)
        return p_history.with_histories(p_query.C11, 0.25, p_history.infer_history)()
    import p_rules
    if hasattr(p_rules, pid):
        return getattr(p_rules, pid)()
    import p_registry
    if hasattr(p_registry, pid):
        return getattr(p_registry, pid)()
    import p_mode
    if hasattr(p_mode, pid):
        return getattr(p_mode, pid)()
    import p_query
    if hasattr(p_query, pid):
        return getattr(p_query, pid)()
    raise SystemExit(f'unknown property {pid}')


def main():
    if len(sys.argv) < 3:
        raise SystemExit(__doc__ or 'usage: check <Cxx> <quick|thorough> | <Cxx> --replay FILE')
    pid = sys.argv[1]
    fam = family(pid)
    if sys.argv[2] == '--replay':
        sys.exit(engine.replay(fam, sys.argv[3]))
    tier = os.environ.get('VERIF_TIER') or sys.argv[2]
    if len(sys.argv) > 2 and sys.argv[2] in ('quick', 'thorough'):
        tier = sys.argv[2]
    seed = int(os.environ.get('VERIF_SEED', '20260926'))
    sys.exit(engine.run_check(fam, tier, seed))


if __name__ == '__main__':
    main()
