"""Shared machinery of the checks: Coq build (translator + make under a lock), evaluation of generated
case files with `vm_compute`, running the implementation in a fresh interpreter, the three-way
decision (implementation vs model = the tie, implementation vs specification = the property),
known findings, replay files and evidence files.  See DESIGN.md sections 5 and 6."""
import fcntl, hashlib, json, os, re, shutil, subprocess, sys, tempfile, time
from pathlib import Path

VERIF = Path(__file__).resolve().parent.parent
# (EQL_COQ_DIR / EQL_OUT_DIR: development only - a private copy of the Coq project and a private place for evidence / replays, so
#  that several trees can be checked in parallel, e.g. all seeded changes; the registered commands never set them)
COQ = Path(os.environ.get('EQL_COQ_DIR', str(VERIF / 'coq')))
OUT = Path(os.environ.get('EQL_OUT_DIR', str(VERIF)))
BUILD = OUT / 'build'
REPO = Path(os.environ.get('EQL_REPO', '/repo'))
SRC = Path(os.environ.get('EQL_SRC', str(REPO / 'src')))
PY = os.environ.get('EQL_PYTHON', '/venv/bin/python')
NPROC = int(os.environ.get('VERIF_JOBS', '16'))
GUARD = 'EQL_VERIF'

TRUSTED_BASE = [
    "Coq 8.16.1 kernel; vm_compute (witnesses, non-vacuity examples, evaluation of case files); no native_compute",
    "no axioms declared by this development; Print Assumptions output of every property theorem is in coverage.assumptions",
    "translator/eql2coq.py (Python ast -> Generated.v): the recognised shapes mean in Gallina what they mean in Python",
    "correspondence harness (harness/*.py): renders one case description both as live EQL objects and as a Gallina term",
    "modelled, not verified: CPython operator/generator/contextvar semantics on the value subset, purity of user attributes and methods, dict insertion order, single-threaded execution",
]


def now():
    return time.time()


# ----------------------------------------------------------------------------------------------
# Coq build
# ----------------------------------------------------------------------------------------------
class Lock:
    def __enter__(self):
        BUILD.mkdir(exist_ok=True)
        self.f = open(BUILD / '.lock', 'w')
        fcntl.flock(self.f, fcntl.LOCK_EX)
        return self

    def __exit__(self, *a):
        fcntl.flock(self.f, fcntl.LOCK_UN)
        self.f.close()


def v_files():
    """Source files of the project in a stable order (dependencies are found by coqdep)."""
    th = COQ / 'theories'
    return sorted(str(p.relative_to(COQ)) for p in th.rglob('*.v') if not p.name.startswith('cases_'))


def run_translator():
    """Regenerate coq/theories/Generated.v from the current source.  Returns (ok, message)."""
    tr = VERIF / 'translator' / 'eql2coq.py'
    if not tr.exists():
        return True, 'no translator yet'
    out = COQ / 'theories' / 'Generated.v'
    p = subprocess.run([PY, str(tr), str(SRC / 'entity_query_language')], capture_output=True, text=True)
    if p.returncode != 0:
        # fail-closed: keep no stale Generated.v around
        if out.exists():
            out.unlink()
        return False, (p.stdout + p.stderr).strip()[-2000:]
    text = p.stdout
    if not out.exists() or out.read_text() != text:
        out.write_text(text)
    return True, 'ok'


def ensure_makefile():
    files = v_files()
    proj = "-R theories EQL\n" + "\n".join(files) + "\n"
    pf = COQ / '_CoqProject'
    if not pf.exists() or pf.read_text() != proj or not (COQ / 'Makefile').exists():
        pf.write_text(proj)
        subprocess.run(['coq_makefile', '-f', '_CoqProject', '-o', 'Makefile'], cwd=COQ, capture_output=True, text=True,
                       check=True)


def build(targets=None, timeout=900):
    """Translator + `make` (full .vo build) under the lock.
    Returns dict(ok, translator_ok, translator_msg, failed=[files], log)."""
    with Lock():
        tok, tmsg = run_translator()
        ensure_makefile()
        cmd = ['make', '-k', '-j', str(NPROC)]
        if targets:
            cmd += targets
        try:
            p = subprocess.run(cmd, cwd=COQ, capture_output=True, text=True, timeout=timeout)
            log = p.stdout + p.stderr
            rc = p.returncode
        except subprocess.TimeoutExpired as e:
            log = 'TIMEOUT ' + str(e)
            rc = 124
        failed = re.findall(r'\*\*\* \[[^\]]*?: (theories/\S+?)\.vo\] Error', log)
        return dict(ok=(rc == 0 and tok), translator_ok=tok, translator_msg=tmsg, failed=sorted(set(failed)), log=log[-6000:],
                    rc=rc)


def property_obligations(pid):
    """Compile Properties/<pid>.v once more into a scratch .vo to capture its Print Assumptions output.
    Returns dict(ok, theorems=[names], assumptions={name: text}, axioms=[...], raw)."""
    src = COQ / 'theories' / 'Properties' / f'{pid}.v'
    if not src.exists():
        return dict(ok=False, theorems=[], assumptions={}, axioms=[], raw='no such file ' + str(src))
    text = src.read_text()
    names = re.findall(r'^\s*(?:Theorem|Lemma|Corollary)\s+(\w+)', text, re.M)
    examples = re.findall(r'^\s*Example\s+(\w+)', text, re.M)
    tmp = Path(tempfile.mkdtemp(prefix='oblig_', dir=BUILD))
    try:
        p = subprocess.run(['coqc', '-R', 'theories', 'EQL', '-o', str(tmp / f'{pid}.vo'), str(src)], cwd=COQ,
                           capture_output=True, text=True, timeout=600)
    finally:
        pass
    raw = p.stdout + p.stderr
    shutil.rmtree(tmp, ignore_errors=True)
    # split the output into one chunk per Print Assumptions, in order of appearance in the file
    printed = re.findall(r'Print Assumptions\s+(\w+)\s*\.', text)
    chunks = re.split(r'(?=Closed under the global context|Axioms:)', p.stdout)
    chunks = [c.strip() for c in chunks if c.strip().startswith(('Closed under', 'Axioms:'))]
    assumptions = {}
    axioms = []
    for name, c in zip(printed, chunks):
        assumptions[name] = ' '.join(c.split())[:600]
        if c.startswith('Axioms:'):
            axioms += re.findall(r'^\s*([\w.]+)\s*:', c[len('Axioms:'):], re.M)
    return dict(ok=(p.returncode == 0), theorems=names, examples=examples, assumptions=assumptions,
                axioms=sorted(set(axioms)), raw=raw[-3000:])


def coqchk(pid, timeout=1500):
    """thorough tier: re-check the compiled property file and everything it depends on with the independent checker and
    report the axioms it relies on (`coqchk -o`)."""
    try:
        p = subprocess.run(['coqchk', '-silent', '-o', '-R', 'theories', 'EQL', f'EQL.Properties.{pid}'], cwd=COQ, capture_output=True,
                           text=True, timeout=timeout)
    except subprocess.TimeoutExpired:
        return dict(ok=False, summary='coqchk timed out')
    out = p.stdout + p.stderr
    m = re.search(r'CONTEXT SUMMARY(.*)', out, re.S)
    summary = ' '.join((m.group(1) if m else out[-800:]).split())
    ok = p.returncode == 0 and '* Axioms: <none>' in ' '.join(out.split())
    return dict(ok=ok, summary=summary[:900])


# ----------------------------------------------------------------------------------------------
# Running the model: generated cases_*.v evaluated by vm_compute
# ----------------------------------------------------------------------------------------------
CASE_RE = re.compile(r'= "CASE (\d+) ?(.*?)"\s*\n\s*: string', re.S)


def run_model(header, commands, shard=250, timeout=900):
    """commands: list of (case_number, coq_text) where coq_text ends by evaluating a string that starts with
    "CASE <n> ".  Returns ({n: observation string}, errors list)."""
    tmp = Path(tempfile.mkdtemp(prefix='cases_', dir=BUILD))
    files = []
    for i in range(0, len(commands), shard):
        f = tmp / f'cases_{i // shard}.v'
        with open(f, 'w') as fh:
            fh.write(header + "\nSet Printing Width 10000000.\nSet Printing Depth 1000000.\n")
            for _, text in commands[i:i + shard]:
                fh.write(text + "\n")
        files.append(f)
    procs = []
    results, errors = {}, []
    pending = list(files)
    running = []

    def launch(f):
        return (f, subprocess.Popen(['coqc', '-R', str(COQ / 'theories'), 'EQL', '-o', str(f.with_suffix('.vo')), str(f)],
                                    stdout=subprocess.PIPE, stderr=subprocess.PIPE, text=True, cwd=tmp))
    t0 = now()
    while pending or running:
        while pending and len(running) < NPROC:
            running.append(launch(pending.pop(0)))
        f, p = running.pop(0)
        try:
            out, err = p.communicate(timeout=max(10, timeout - (now() - t0)))
        except subprocess.TimeoutExpired:
            p.kill()
            out, err = p.communicate()
            errors.append(f'{f.name}: timeout')
        if p.returncode != 0:
            errors.append(f'{f.name}: rc={p.returncode} {err[-1500:]}')
        for m in CASE_RE.finditer(out):
            results[int(m.group(1))] = ' '.join(m.group(2).split())
    shutil.rmtree(tmp, ignore_errors=True)
    return results, errors


# ----------------------------------------------------------------------------------------------
# Running the implementation in a fresh interpreter
# ----------------------------------------------------------------------------------------------
def impl_env():
    env = dict(os.environ)
    env['PYTHONPATH'] = str(SRC) + os.pathsep + str(VERIF / 'harness')
    env['PYTHONHASHSEED'] = '0'
    env[GUARD] = '1'
    env['PYTHONDONTWRITEBYTECODE'] = '1'
    return env


def run_impl(script, payload, timeout=1200, jobs=None):
    """Runs harness/<script> with the JSON payload {"cases": [...]} split over `jobs` fresh interpreters.
    Each prints a JSON object {case_number: observation}.  Returns (dict, errors)."""
    cases = payload['cases']
    jobs = jobs or min(NPROC, max(1, len(cases) // 40))
    chunks = [cases[i::jobs] for i in range(jobs)]
    procs = []
    for ch in chunks:
        pl = dict(payload)
        pl['cases'] = ch
        p = subprocess.Popen([PY, str(VERIF / 'harness' / script)], stdin=subprocess.PIPE, stdout=subprocess.PIPE,
                             stderr=subprocess.PIPE, text=True, env=impl_env(), cwd='/')
        procs.append((p, json.dumps(pl)))
    # feed and collect (payloads are small; communicate sequentially is fine because the children
    # only start writing once they have read all of stdin)
    import threading
    outs = [None] * len(procs)

    def work(i):
        p, data = procs[i]
        try:
            o, e = p.communicate(data, timeout=timeout)
        except subprocess.TimeoutExpired:
            p.kill()
            o, e = p.communicate()
            e = 'TIMEOUT ' + e
        outs[i] = (p.returncode, o, e)
    th = [threading.Thread(target=work, args=(i,)) for i in range(len(procs))]
    [t.start() for t in th]
    [t.join() for t in th]
    res, errors = {}, []
    for rc, o, e in outs:
        try:
            d = json.loads(o)
            res.update({int(k): v for k, v in d.items()})
        except Exception:
            errors.append(f'rc={rc} stdout={o[-500:]!r} stderr={e[-1500:]!r}')
            continue
        if rc != 0:
            errors.append(f'rc={rc} stderr={e[-1500:]!r}')
    return res, errors


# ----------------------------------------------------------------------------------------------
# Known findings, replays, evidence
# ----------------------------------------------------------------------------------------------
def known_findings(pid):
    f = VERIF / 'known_findings.json'
    if not f.exists():
        return []
    d = json.loads(f.read_text())
    return [x for x in d.get('findings', []) if pid in x.get('properties', [x.get('property')]) and x.get('status', 'open') == 'open']


def case_hash(obj):
    return hashlib.sha1(json.dumps(obj, sort_keys=True, default=str).encode()).hexdigest()[:12]


def write_replay(pid, payload):
    d = OUT / 'replays' / pid
    d.mkdir(parents=True, exist_ok=True)
    f = d / (case_hash(payload) + '.json')
    f.write_text(json.dumps(payload, indent=1, sort_keys=True, default=str))
    return f


def write_evidence(pid, tier, seed, coverage, wall_s, violations, assumptions=None, level='proof'):
    d = OUT / 'evidence'
    d.mkdir(exist_ok=True)
    ev = dict(property_id=pid, tier=tier, seed=int(seed), level=level, coverage=coverage,
              assumptions=assumptions or TRUSTED_BASE, wall_s=round(wall_s, 2), violations=int(violations))
    (d / f'{pid}.json').write_text(json.dumps(ev, indent=1, default=str))
    return ev


def corpus_cases(pid):
    d = VERIF / 'corpus' / pid
    out = []
    if d.exists():
        for f in sorted(d.glob('*.json')):
            try:
                out.append(json.loads(f.read_text()))
            except Exception as e:
                print(f'warning: unreadable corpus file {f}: {e}', file=sys.stderr)
    return out
