#!/bin/bash
# usage: confirm_seed.sh <seed source dir containing patch.diff demo.py meta.json> 
# Confirms in a scratch worktree of /repo HEAD: demo passes without the change, suite passes with it, demo fails with it.
src=$1; wt=/tmp/conf_$$
git -C /repo worktree add -f --detach $wt HEAD >/dev/null 2>&1 || exit 2
run() { (cd $wt && PYTHONPATH=$wt/src PYTHONHASHSEED=0 timeout 300 /venv/bin/python "$@"); }
run $src/demo.py >/tmp/conf_out_$$ 2>&1; a=$?
git -C $wt apply $src/patch.diff || { echo "PATCH DOES NOT APPLY"; git -C /repo worktree remove --force $wt; exit 3; }
(cd $wt && PYTHONPATH=$wt/src timeout 900 /venv/bin/python -m pytest -q -p no:cacheprovider --timeout=900 test 2>&1 | tail -1) > /tmp/conf_t_$$
run $src/demo.py >/tmp/conf_out2_$$ 2>&1; b=$?
echo "demo without change: rc=$a ($(tail -1 /tmp/conf_out_$$ | cut -c1-100)) | suite with change: $(cat /tmp/conf_t_$$) | demo with change: rc=$b ($(tail -1 /tmp/conf_out2_$$ | cut -c1-160))"
git -C /repo worktree remove --force $wt
[ $a -eq 0 ] && [ $b -ne 0 ] && grep -q "70 passed" /tmp/conf_t_$$ 2>/dev/null; rc=$?; rm -f /tmp/conf_*_$$; exit $rc
