"""The generic check: build proofs, run the correspondence for one property's model family, decide.

A family object provides:
  pid, targets (list of .vo make targets), header (Coq imports for case files), impl_script,
  budget(tier) -> number of generated cases,
  gen(rng, i, tier) -> case (JSON-able),        to_coq(n, case) -> Coq command text,
  split(model_obs_string) -> (model_obs, spec_obs, hyp_flag)   (canonical, comparable to the impl's),
  canon(case, impl_obs) -> (tie_view, prop_view)                (what is compared with model / spec),
  tie_view(case, model_obs), prop_view(case, spec_obs)          (same canonicalisation on the Coq side),
  known(case, impl_obs, model_obs, spec_obs) -> finding id | None,
  nontrivial(case, impl_obs) -> bool,  shrink(case) -> iterable of smaller cases,  stats(case, impl_obs) -> dict of counters
"""
import json, os, random, sys, collections
from common import *


def evaluate(fam, cases, payload_extra=None):
    """Runs both sides on `cases` (list).  Returns list of dicts with impl/model/spec/hyp/verdict."""
    subs = getattr(fam, 'subfamilies', None)
    if subs:
        # a family made of several model families (own Coq header, own implementation driver): cases carry the tag of theirs
        groups = {}
        for idx, c in enumerate(cases):
            groups.setdefault(c.get('sub'), []).append(idx)
        out, merr, ierr = [None] * len(cases), [], []
        for tag, idxs in groups.items():
            res, me, ie = evaluate(subs[tag] if tag else fam.main, [cases[i] for i in idxs], payload_extra)
            for i, r in zip(idxs, res):
                r['n'] = i
                out[i] = r
            merr += list(me or [])
            ierr += list(ie or [])
        return out, merr, ierr
    cmds = [(n, fam.to_coq(n, c)) for n, c in enumerate(cases)]
    payload = {'cases': [dict(n=n, case=c) for n, c in enumerate(cases)]}
    payload.update(payload_extra or {})
    # both sides concurrently
    import threading
    box = {}

    def m():
        box['model'] = run_model(fam.header, cmds)

    def i():
        box['impl'] = run_impl(fam.impl_script, payload, timeout=getattr(fam, 'impl_timeout', 1200))
    ts = [threading.Thread(target=m), threading.Thread(target=i)]
    [t.start() for t in ts]
    [t.join() for t in ts]
    (model, merr), (impl, ierr) = box['model'], box['impl']
    out = []
    for n, c in enumerate(cases):
        r = dict(n=n, case=c)
        if n not in model:
            r.update(verdict='model-error', impl=impl.get(n), model=None, spec=None, hyp=False)
            out.append(r)
            continue
        mo, so, hyp = fam.split(model[n])
        if hasattr(fam, 'within_hypotheses'):
            hyp = hyp and fam.within_hypotheses(c)
        io = impl.get(n, 'HARNESS-NO-OUTPUT')
        r.update(impl=io, model=mo, spec=so, hyp=hyp)
        tie_i, prop_i = fam.canon(c, io)
        tie_ok = (tie_i == fam.tie_view(c, mo))
        prop_ok = (not hyp) or (prop_i == fam.prop_view(c, so))   # outside the theorem's hypotheses only the tie is compared
        r['tie_ok'], r['prop_ok'] = tie_ok, prop_ok
        if prop_ok and tie_ok:
            r['verdict'] = 'ok'
        elif not prop_ok:
            kf = fam.known(c, io, mo, so) if tie_ok or getattr(fam, 'known_without_tie', False) else None
            # a signature only counts when known_findings.json lists that finding as open for this property
            if kf not in {k['id'] for k in known_findings(fam.pid)}:
                kf = None
            r['verdict'] = ('known:' + kf) if kf else 'violation'
        else:
            r['verdict'] = 'tie-broken'
        out.append(r)
    return out, merr, ierr


def shrink(fam, rec, rounds=12):
    """Greedy shrinking of a failing case: keep a smaller candidate if it still is a violation."""
    best = rec
    for _ in range(rounds):
        cands = list(fam.shrink(best['case']))[:60]
        if not cands:
            break
        res, _, _ = evaluate(fam, cands)
        nxt = next((r for r in res if r['verdict'] == 'violation'), None)
        if nxt is None:
            break
        best = nxt
    return best


def run_check(fam, tier, seed):
    t0 = now()
    pid = fam.pid
    rng = random.Random((int(seed) * 1000003) ^ hash_str(pid))
    b = build(targets=[t for t in fam.targets] + [f'theories/Properties/{pid}.vo'])
    ob = property_obligations(pid) if b['ok'] else dict(ok=False, theorems=[], examples=[], assumptions={}, axioms=[],
                                                        raw=b['log'][-3000:])
    proof_ok = b['ok'] and ob['ok']
    chk = None
    if tier == 'thorough' and proof_ok:
        chk = coqchk(pid)
        if not chk['ok']:
            proof_ok = False
    model_ok = all(not f.endswith(tuple(t[:-3] for t in fam.targets)) for f in b['failed']) if not b['ok'] else True
    # model files must be compiled for the correspondence to run at all
    n_gen = fam.budget(tier)
    corpus = [c['case'] if 'case' in c else c for c in corpus_cases(pid)]
    cases = corpus + [fam.gen(rng, i, tier) for i in range(n_gen)]
    broken = []            # names of proofs / correspondences that no longer check
    if chk is not None and not chk['ok']:
        broken.append('coqchk: ' + chk['summary'][:300])
    elif not proof_ok:
        broken.append('proof: ' + (', '.join(b['failed']) or f'Properties/{pid}.v') +
                      ('' if b['translator_ok'] else ' (translator refused: ' + b['translator_msg'][:300] + ')'))
    recs, merr, ierr = evaluate(fam, cases)
    if merr:
        broken.append('model evaluation failed: ' + '; '.join(merr)[:600])
    if ierr:
        broken.append('implementation harness failed: ' + '; '.join(ierr)[:600])
    counts = collections.Counter(r['verdict'].split(':')[0] for r in recs)
    known = collections.Counter(r['verdict'][6:] for r in recs if r['verdict'].startswith('known:'))
    viols = [r for r in recs if r['verdict'] == 'violation']
    ties = [r for r in recs if r['verdict'] in ('tie-broken', 'model-error')]
    if ties:
        broken.append(f'correspondence {pid}: implementation and model disagree on {len(ties)} case(s)')
    searched = 0
    if broken and not viols:
        # search for a concrete failing input: 10x the quick budget (fam.search_factor), implementation vs specification
        extra = [fam.gen(rng, i, 'search') for i in range(fam.budget('quick') * getattr(fam, 'search_factor', 10))]
        searched = len(extra)
        recs2, _, _ = evaluate(fam, extra)
        viols = [r for r in recs2 if r['verdict'] == 'violation']
        for r in recs2:
            if r['verdict'].startswith('known:'):
                known[r['verdict'][6:]] += 1
    exit_code = 0
    lines = []
    replay = None
    if viols:
        worst = shrink(fam, viols[0])
        replay = write_replay(pid, dict(property=pid, kind='failing-input', case=worst['case'], implementation=worst['impl'],
                                        model=worst['model'], specification=worst['spec'], broken=broken,
                                        seed=int(seed), tier=tier, replay_cmd=f'./check {pid} --replay <this file>'))
        lines.append(f'VIOLATION property={pid} replay={replay}')
        exit_code = 1
    elif broken:
        replay = write_replay(pid, dict(property=pid, kind='no-failing-input-found', broken=broken,
                                        example_tie_break=(ties[0] if ties else None), searched_cases=searched,
                                        build_log=(b['log'][-3000:] if not proof_ok else ''), seed=int(seed), tier=tier))
        lines.append(f'VIOLATION property={pid} replay={replay} no-failing-input-found')
        exit_code = 1
    kfs = {k['id']: k for k in known_findings(pid)}
    for k in kfs.values():
        # a listed finding is announced on every run (its witness is in the corpus and replayed first)
        lines.append(f"KNOWN-FINDING: property={pid} {k['id']}: {k['what']} (matched by {known.get(k['id'], 0)} case(s) this run)")
    # evidence
    distinct = {}
    stat = collections.Counter()
    for r in recs:
        if r.get('impl') is None:
            continue
        for k, v in fam.stats(r['case'], r['impl']).items():
            stat[k] += v
        if fam.nontrivial(r['case'], r['impl']):
            distinct[case_hash(r['case'])] = 1
    samples = [dict(case=r['case'], implementation=r['impl'], model=r['model'], specification=r['spec'],
                    verdict=r['verdict']) for r in recs[len(corpus):len(corpus) + 3]]
    n_ob = len(ob['theorems'])
    coverage = dict(
        obligations=max(n_ob, 1), discharged=(n_ob if proof_ok else 0),
        checker_cmd=f"coq_makefile -f _CoqProject -o Makefile && make (coqc 8.16.1, full .vo build) ; coqc theories/Properties/{pid}.v",
        trusted_base=TRUSTED_BASE + [f'model files tied by correspondence: {", ".join(fam.targets)}'],
        theorems=ob['theorems'], nonvacuity_examples=ob.get('examples', []), assumptions=ob['assumptions'], axioms=ob['axioms'],
        translator=b['translator_msg'], coqchk=(chk['summary'] if chk else 'not run in this tier (thorough runs coqchk -o on the property file and its dependencies)'),
        evaluations=len(recs) + searched, distinct_nontrivial=len(distinct),
        rule=fam.rule, samples=samples, corpus_cases=len(corpus),
        traces_validated_against_impl=sum(1 for r in recs if r.get('tie_ok')),
        cases_within_hypotheses=sum(1 for r in recs if r.get('hyp')),
        verdicts=dict(counts), known_findings_matched=dict(known), distribution=dict(stat),
        broken=broken, explanation=fam.explanation)
    write_evidence(pid, tier, seed, coverage, now() - t0, len(viols))
    for l in lines:
        print(l)
    print(f"{pid} {tier}: proofs {'ok' if proof_ok else 'BROKEN'} ({n_ob} theorems), "
          f"{len(recs)} cases: {dict(counts)}, known {dict(known)}, {now() - t0:.1f}s")
    return exit_code


def hash_str(s):
    import hashlib
    return int(hashlib.sha1(s.encode()).hexdigest()[:8], 16)


def replay(fam, path):
    build(targets=[t for t in fam.targets])          # the model must reflect the current source (Generated.v)
    d = json.loads(Path(path).read_text())
    case = d['case'] if 'case' in d else d
    recs, merr, ierr = evaluate(fam, [case])
    r = recs[0]
    print(json.dumps(dict(case=r['case'], implementation=r['impl'], model=r['model'], specification=r['spec'],
                          verdict=r['verdict']), indent=1, default=str))
    if r['verdict'] == 'violation' or r['verdict'] in ('tie-broken', 'model-error'):
        print(f'VIOLATION property={fam.pid} replay={path}')
        return 1
    return 0
