"""dev helper: python findcase.py <PID> <verdict-prefix> [n] [seed]  -> prints the first generated case with that verdict"""
import sys, os, json, random
sys.path.insert(0, os.path.dirname(os.path.abspath(__file__)))
import engine, check
fam = check.family(sys.argv[1]); want = sys.argv[2]; n = int(sys.argv[3]) if len(sys.argv) > 3 else 2000
rng = random.Random(int(sys.argv[4]) if len(sys.argv) > 4 else 1)
cases = [fam.gen(rng, i, 'search') for i in range(n)]
recs, me, ie = engine.evaluate(fam, cases)
hits = [r for r in recs if r['verdict'].startswith(want)]
print(len(hits), 'hits of', n, me[:1], ie[:1], file=sys.stderr)
if hits:
    best = min(hits, key=lambda r: len(json.dumps(r['case'])))
    print(json.dumps(dict(case=best['case'], implementation=best['impl'], model=best['model'], specification=best['spec'])))
