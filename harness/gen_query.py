"""Seeded, structured, well-typed generator of query cases (DESIGN.md 5.1)."""
from qcase import FIELDS, OPS

F = {n: i for i, n in enumerate(FIELDS)}
INT_ALPHA = [0, 1, 2, 3]
STR_ALPHA = ['', 'u', 'v']


def gen_heap(rng, n, falsy=True):
    lo = 0 if falsy else 1
    heap = []
    for i in range(n):
        a = rng.randint(lo, 3)
        items = [rng.randint(lo, 3) for _ in range(rng.choice([0, 1, 2, 3] if falsy else [1, 2, 3]))]
        heap.append([a, rng.randint(lo, 3), rng.choice(STR_ALPHA if falsy else STR_ALPHA[1:]), items,
                     rng.choice([None, 0, 1, 2] if falsy else [1, 2]), (rng.random() < 0.5) if falsy else True,
                     [rng.randint(lo, 3), rng.randint(lo, 3)], {'o': rng.randrange(n)}, a >= 2])
    # (drawn after everything else, so that the rest of a generated case is what it was before this field existed)
    for o in heap:
        # a collection of collections: groups (empty, overlapping, repeated) next to scalars
        o.append([rng.choice([[rng.randint(lo, 3) for _ in range(rng.choice([0, 1, 2, 2, 3]))], rng.randint(lo, 3)])
                  if rng.random() < 0.8 else [rng.randint(lo, 3)] * 2 for _ in range(rng.choice([0, 1, 2, 3]))])
        # a MAPPING (a dict in Python): as a collection it is the sequence of its keys, in insertion order
        o.append(rng.sample(range(lo, 4), rng.choice([0, 1, 2, 3])))
    return heap


class Gen:
    def __init__(self, rng, nvars, falsy=True, neg=True, maxdepth=3, flat=False, forall=False, sub=False, p_lit=0.3):
        self.rng, self.nvars, self.falsy, self.neg, self.maxdepth = rng, nvars, falsy, neg, maxdepth
        self.flat, self.forall, self.sub, self.p_lit = flat, forall, sub, p_lit
        self.keys = list(range(1, nvars + 1))
        self.flats = {}          # key -> term
        self.next_key = nvars + 1

    # ---- typed terms -------------------------------------------------------------------------
    def var(self):
        return ['var', self.rng.choice(self.keys)]

    def obj(self):
        v = self.var()
        return ['map', ['f', F['peer']], v] if self.rng.random() < 0.25 else v

    def int_term(self, allow_lit=True):
        r = self.rng.random()
        if allow_lit and r < self.p_lit:
            return ['lit', self.rng.choice(INT_ALPHA)]
        o = self.obj()
        r = self.rng.random()
        if r < 0.55:
            return ['map', ['f', F[self.rng.choice('ab')]], o]
        if r < 0.8:
            return ['map', ['i', self.rng.randrange(2)], ['map', ['f', F['pair']], o]]
        if r < 0.9 and self.flats:
            k = self.rng.choice(list(self.flats))
            return ['flat', k, self.flats[k]]
        return ['map', ['f', F['f']], o] if r < 0.95 else ['map', ['f', F['big()']], o]

    def any_term(self, allow_lit=True):
        r = self.rng.random()
        if r < 0.5:
            return self.int_term(allow_lit)
        if allow_lit and self.p_lit > 0 and r < 0.6:
            return ['lit', self.rng.choice(['', 'u', None, True, False, [], [1, 2]])]
        o = self.obj()
        if r < 0.7:
            return ['map', ['f', F['s']], o]
        if r < 0.8:
            return ['map', ['f', F['n']], o]
        if r < 0.88:
            return ['map', ['f', F['items']], o]
        if r < 0.94:
            return o
        return ['map', ['f', F['f']], o]

    def container(self):
        r = self.rng.random()
        if r < 0.2 and self.p_lit > 0:
            return ['lit', [self.rng.choice(INT_ALPHA) for _ in range(self.rng.randint(0, 3))]]
        return ['map', ['f', F['items' if r < 0.8 else 'pair']], self.obj()]

    def truth_term(self):
        o = self.obj()
        name = self.rng.choice(['f', 'big()', 'a', 's', 'items', 'n', 'b'])
        return ['map', ['f', F[name]], o]

    # ---- conditions ---------------------------------------------------------------------------
    def leaf(self):
        r = self.rng.random()
        if r < 0.45:
            op = self.rng.choice(OPS)
            if op in ('==', '!='):
                l = self.any_term(True)
                r_ = self.any_term(l[0] != 'lit')
            else:
                l = self.int_term(True)
                r_ = self.int_term(l[0] != 'lit')
            return ['cmp', op, l, r_]
        if r < 0.6:
            return ['in', self.int_term(self.rng.random() < 0.3), self.container()] if self.rng.random() < 0.5 \
                else ['contains', self.container(), self.int_term(self.rng.random() < 0.3)]
        if r < 0.75:
            return ['truth', self.truth_term()]
        op = self.rng.choice(OPS)
        return ['cmp', op, self.int_term(False), self.int_term(True)]

    def fix_in(self, c):
        """a membership test needs a symbolic operand on at least one side"""
        if c[0] in ('in', 'contains'):
            i, cont = (c[1], c[2]) if c[0] == 'in' else (c[2], c[1])
            if i[0] == 'lit' and cont[0] == 'lit':
                cont = ['map', ['f', F['items']], self.var()]
                return ['in', i, cont] if c[0] == 'in' else ['contains', cont, i]
        return c

    def cond(self, depth):
        r = self.rng.random()
        if depth <= 0 or r < 0.3:
            return self.fix_in(self.leaf())
        style = self.rng.choice(['fn', 'op', 'chain'])

        def const():
            # now and then ONE operand of and / or is a CONSTANT (and_(c, flag) / and_(c, not_(flag)) with a Python bool - and_ / or_
            # document SymbolicExpression | bool): read as a boolean.  Every generated condition still mentions a variable.
            if self.p_lit > 0 and getattr(self, 'consts', True) and self.rng.random() < 0.06:
                k = ['truth', ['lit', self.rng.choice([True, False, False])]]
                return ['not', k, 'fn'] if self.neg and self.rng.random() < 0.3 else k
            return None
        if r < 0.8 or not self.neg:
            k = const()
            l, r_ = self.cond(depth - 1), (k if k is not None else self.cond(depth - 1))
            if k is not None:
                style = 'fn'                 # the operators & | ~ of a Python constant are Python's own
                if self.rng.random() < 0.5:
                    l, r_ = r_, l
            return ['and' if (r < 0.55 or r >= 0.8) else 'or', l, r_, style]
        return ['not', self.cond(depth - 1), self.rng.choice(['fn', 'op'])]


def cond_keys(c, acc):
    from qcase import term_keys
    k = c[0]
    if k == 'cmp':
        term_keys(c[2], acc), term_keys(c[3], acc)
        for t in (c[2], c[3]):
            if t[0] == 'subq':
                cond_keys(t[2], acc)
    elif k in ('in', 'contains'):
        term_keys(c[1], acc), term_keys(c[2], acc)
    elif k == 'truth':
        term_keys(c[1], acc)
    elif k in ('and', 'or'):
        cond_keys(c[1], acc), cond_keys(c[2], acc)
    elif k == 'not':
        cond_keys(c[1], acc)
    elif k == 'forall':
        cond_keys(c[2], acc)
        acc.discard(c[1])
    elif k == 'sub':
        for t in c[1]:
            term_keys(t, acc)
        cond_keys(c[2], acc)
    return acc


def gen_case(rng, nvars=None, falsy=True, neg=True, maxdepth=3, select='all', dom_max=4, empty_dom=False, p_lit=0.3):
    """select: 'all' (every variable, random order) | 'some' (random non-empty subset, may include expressions)"""
    from qcase import term_keys
    nvars = nvars or rng.choice([1, 1, 2, 2, 3])
    nobj = rng.randint(2, 7)
    heap = gen_heap(rng, nobj, falsy)
    g = Gen(rng, nvars, falsy=falsy, neg=neg, maxdepth=maxdepth, p_lit=p_lit)
    doms = []
    for k in g.keys:
        n = rng.randint(0 if empty_dom and rng.random() < 0.1 else 1, min(dom_max, nobj))
        doms.append([k, rng.sample(range(nobj), n)])
    cond = g.cond(rng.randint(0, maxdepth)) if rng.random() < 0.95 else None
    used = cond_keys(cond, set()) if cond is not None else set()
    if select == 'all':
        selk = list(g.keys) if rng.random() < 0.7 else sorted(used | ({rng.choice(g.keys)} if not used else set()))
        selk = [k for k in selk if k in g.keys]
        rng.shuffle(selk)
        sel = [['var', k] for k in selk]
    else:
        selk = [k for k in g.keys if rng.random() < 0.5] or [rng.choice(g.keys)]
        rng.shuffle(selk)
        sel = [['var', k] for k in selk]
        if rng.random() < 0.3:
            sel.append(['map', ['f', F[rng.choice(['a', 's', 'items', 'n', 'f'])]], ['var', rng.choice(selk)]])
    mentioned = set(used)
    for t in sel:
        term_keys(t, mentioned)
    binders = [['var', k] for k in g.keys if k in mentioned]
    form = 'entity' if (len(sel) == 1 and rng.random() < 0.6) else 'set_of'
    if cond is not None and cond[0] == 'and' and rng.random() < 0.2:
        cond = cond[:3] + ['args']
    return dict(heap=heap, doms=[d for d in doms if d[0] in mentioned], binders=binders, sel=sel, cond=cond, form=form)


# ------------------------------------------------------------------------------------------------ special shapes
def _base(rng, nvars, nobj=None, falsy=True, dom_max=4, dom_min=1):
    nobj = nobj or rng.randint(2, 6)
    heap = gen_heap(rng, nobj, falsy)
    doms = [[k, rng.sample(range(nobj), rng.randint(dom_min, min(dom_max, nobj)))] for k in range(1, nvars + 1)]
    return heap, doms


def gen_case_the(rng, tier):
    """all variables selected, quantifier `the`; small domains so that 0 / 1 / >=2 solutions are all frequent"""
    nv = rng.choice([1, 1, 2])
    c = gen_case(rng, nvars=nv, falsy=True, neg=True, maxdepth=2, select='all', dom_max=3 if nv == 1 else 2)
    keys = [d[0] for d in c['doms']]
    sel = list(keys)
    rng.shuffle(sel)
    c['sel'] = [['var', k] for k in sel]
    c['form'] = 'entity' if len(sel) == 1 and rng.random() < 0.5 else 'set_of'
    c['quant'] = 'the'
    if rng.random() < 0.2:
        # the objects compare EQUAL by value (a user __eq__ over the attributes a, b) although they are distinct: two value-equal
        # objects that both qualify are two solutions
        c['value_equal'] = True
        for o in c['heap']:
            o[0], o[1] = rng.randint(0, 1), rng.randint(0, 1)
            o[8] = o[0] >= 2
    if rng.random() < 0.15:
        # PREDICATE FORM handed to the quantifier directly: the(P(From(domain), a=v[, b=w])) - the term is already quantified when
        # the(...) receives it; it still has to return THE solution or raise
        c['doms'] = [c['doms'][0]]
        k = c['doms'][0][0]
        dom = c['doms'][0][1]
        fs = rng.sample(['a', 'b'], rng.choice([1, 1, 2]))
        o = c['heap'][rng.choice(dom)] if dom and rng.random() < 0.7 else None
        eqs = [['cmp', '==', ['map', ['f', F[f]], ['var', k]], ['lit', o[F[f]] if o is not None else rng.randint(0, 3)]] for f in fs]
        c['cond'] = eqs[0] if len(eqs) == 1 else ['and', eqs[0], eqs[1], 'fn']
        c['sel'], c['binders'], c['form'] = [['var', k]], [['var', k]], 'pred'
        return c
    if rng.random() < 0.12:
        # a description without any condition: the domain itself decides (none / one / several members)
        c['cond'] = None
        for d in c['doms']:
            d[1][:] = d[1][:rng.choice([0, 0, 1, 1, 2])]
    return c


def gen_case_forall_disj(rng):
    """two free variables, 2-3 universal values, a disjunction whose sides mention DIFFERENT free variables (a row of one side
    binds one of them and leaves the other open), alone or below a conjunction"""
    nobj = rng.randint(4, 7)
    heap = gen_heap(rng, nobj, True)
    for o in heap:
        o[0], o[1] = rng.randint(0, 2), rng.randint(0, 2)
        o[8] = o[0] >= 2
    fa = lambda k: ['map', ['f', F[rng.choice('ab')]], ['var', k]]
    ops = ['==', '!=', '<', '>=', '>']
    x, y = rng.sample([1, 2], 2)
    disj = ['or', ['cmp', rng.choice(ops), fa(y), fa(9)], ['cmp', rng.choice(ops), fa(x), fa(9)], rng.choice(['fn', 'op'])]
    if rng.random() < 0.25:
        # the condition does not mention the universal variable at all: every pass sees the same rows (whatever state a pass
        # leaves in the operators below the condition's root must not leak into the next one)
        disj = ['or', ['cmp', rng.choice(ops), fa(y), ['lit', rng.randint(0, 2)]], ['cmp', rng.choice(ops), fa(x), fa(y)], rng.choice(['fn', 'op'])]
        body = rng.choice([['and', disj, ['cmp', '>=', fa(rng.choice([1, 2])), ['lit', 0]], 'fn'],
                           ['and', ['cmp', '>=', fa(rng.choice([1, 2])), ['lit', 0]], disj, 'fn'], disj])
        doms = [[1, rng.sample(range(nobj), rng.randint(2, 3))], [2, rng.sample(range(nobj), rng.randint(2, 3))],
                [9, rng.sample(range(nobj), rng.randint(2, 3))]]
        sel = [['var', 1], ['var', 2]]
        rng.shuffle(sel)
        return dict(heap=heap, doms=doms, binders=[['var', 1], ['var', 2]], sel=sel, cond=['forall', 9, body], form='set_of')
    r = rng.random()
    if r < 0.45:
        body = disj
    elif r < 0.8:
        body = ['and', ['cmp', rng.choice(ops), fa(rng.choice([1, 2])), rng.choice([fa(9), ['lit', rng.randint(0, 2)]])], disj, rng.choice(['fn', 'op'])]
    else:
        body = ['and', disj, ['cmp', rng.choice(ops), fa(rng.choice([1, 2])), ['lit', rng.randint(0, 2)]], 'fn']
    doms = [[1, rng.sample(range(nobj), rng.randint(2, 3))], [2, rng.sample(range(nobj), rng.randint(2, 3))],
            [9, rng.sample(range(nobj), rng.randint(2, 3))]]
    sel = [['var', 1], ['var', 2]]
    rng.shuffle(sel)
    if rng.random() < 0.4:
        # a PROJECTION: one of the free variables is not selected - the passes for the different universal values still have to be
        # intersected on both (a binding qualifies if SOME value of the unselected variable works for EVERY universal value)
        sel = sel[:1]
    return dict(heap=heap, doms=doms, binders=[['var', 1], ['var', 2]], sel=sel, cond=['forall', 9, body], form='set_of')


def gen_case_forall_projection(rng):
    """for_all(u, or_(x.a >= u.a, y.a >= u.a)) selecting x only: x qualifies if SOME y works for EVERY u; for one universal value
    several y make the right side true (rows that agree on the selected variable), for another value other ones do"""
    nobj = rng.randint(5, 8)
    heap = gen_heap(rng, nobj, True)
    for o in heap:
        o[0], o[1] = rng.randint(0, 3), rng.randint(0, 3)
        o[8] = o[0] >= 2
    fa = lambda k: ['map', ['f', F[rng.choice('ab')]], ['var', k]]
    op = rng.choice(['>=', '>=', '>', '<=', '!='])
    x, y = rng.sample([1, 2], 2)
    disj = ['or', ['cmp', op, fa(x), fa(9)], ['cmp', op, fa(y), fa(9)], rng.choice(['fn', 'op'])]
    if rng.random() < 0.25:
        disj = ['and', ['cmp', rng.choice(['>=', '!=']), fa(x), ['lit', rng.randint(0, 1)]], disj, 'fn']
    doms = [[x, rng.sample(range(nobj), rng.randint(1, 3))], [y, rng.sample(range(nobj), rng.randint(3, 4))],
            [9, rng.sample(range(nobj), rng.randint(2, 3))]]
    if rng.random() < 0.6:
        # the FIRST y that satisfies the right side differs between the universal values although a later one satisfies it for all
        doms[1][1].sort(key=lambda i: (heap[i][0], heap[i][1]))
        for i in doms[0][1]:
            if i not in doms[1][1] and i not in doms[2][1]:
                heap[i][0] = heap[i][1] = 0
    doms.sort()
    return dict(heap=heap, doms=doms, binders=[['var', 1], ['var', 2]], sel=[['var', x]], cond=['forall', 9, disj],
                form=rng.choice(['entity', 'set_of']))


def gen_case_forall_expr(rng, falsy_values=False):
    """for_all(u.peer, c): the universal argument is an EXPRESSION over the universal variable; several values of u share one
    value of it (few distinct peers), and c depends on u through another path as well (an attribute of u itself)"""
    nobj = rng.randint(4, 7)
    heap = gen_heap(rng, nobj, True)
    peers = rng.sample(range(nobj), 2)
    for o in heap:
        o[0], o[1] = rng.randint(0, 2), rng.randint(0, 2)
        o[7] = {'o': rng.choice(peers)}
        o[8] = o[0] >= 2
    fa = lambda k: ['map', ['f', F[rng.choice('ab')]], ['var', k]]
    body = ['cmp', rng.choice(['==', '!=', '<', '>=']), fa(1), fa(9)]
    if rng.random() < 0.4:
        body = ['and', body, ['cmp', rng.choice(['==', '!=']), ['map', ['f', F['a']], ['map', ['f', F['peer']], ['var', 9]]],
                              ['lit', rng.randint(0, 2)]], 'fn']
    doms = [[1, rng.sample(range(nobj), rng.randint(2, 3))], [9, rng.sample(range(nobj), rng.randint(2, 4))]]
    uexpr = ['map', ['f', F['peer']], ['var', 9]]
    if falsy_values:
        # the universal argument is an attribute whose values include the FALSY ones (0, '', None, False): each of them is a value
        # the condition has to hold for, like any other
        f = rng.choice(['a', 'a', 's', 'n', 'f'])
        for o in heap:
            o[F['a']] = rng.choice([0, 0, 1, 2])
            o[F['b']] = rng.choice([0, 1, 2])
            o[F['s']] = rng.choice(['', '', 'u'])
            o[F['n']] = rng.choice([None, None, 0, 2])
            o[F['f']] = rng.choice([False, False, True])
        uexpr = ['map', ['f', F[f]], ['var', 9]]
        body = ['cmp', rng.choice(['!=', '!=', '==']), ['map', ['f', F[f if f != 'a' or rng.random() < 0.5 else 'b']], ['var', 1]], uexpr]
    return dict(heap=heap, doms=doms, binders=[['var', 1]], sel=[['var', 1]],
                cond=['forall', 9, body, uexpr], form=rng.choice(['entity', 'set_of']))


def gen_case_forall_eq(rng):
    """one free variable compared for equality with the universal one, 3-4 universal values: the passes of different values are
    often disjoint (the intersection is empty from some value on) while a later pass is non-empty again"""
    nobj = rng.randint(5, 8)
    heap = gen_heap(rng, nobj, True)
    for o in heap:
        o[0], o[1] = rng.randint(0, 2), rng.randint(0, 2)
        o[8] = o[0] >= 2
    body = ['cmp', rng.choice(['==', '==', '!=']), ['map', ['f', F[rng.choice('ab')]], ['var', 1]],
            ['map', ['f', F[rng.choice('ab')]], ['var', 9]]]
    if rng.random() < 0.3:
        body = ['cmp', body[1], body[3], body[2]]
    doms = [[1, rng.sample(range(nobj), rng.randint(2, 4))], [9, rng.sample(range(nobj), rng.randint(3, 4))]]
    return dict(heap=heap, doms=doms, binders=[['var', 1]], sel=[['var', 1]], cond=['forall', 9, body],
                form=rng.choice(['entity', 'set_of']))


def gen_case_forall(rng, tier):
    """for_all(u, c') possibly and-ed with a condition on the free variables; u = key 9 with its own non-empty domain"""
    if rng.random() < 0.1:
        # two free variables over the SAME objects and two universal values whose attributes mirror each other: the rows of the
        # two passes hold the same objects under exchanged variables (x1 = p, x2 = q for one value, x1 = q, x2 = p for the other)
        nobj = rng.randint(4, 6)
        heap = gen_heap(rng, nobj, True)
        u1, u2 = rng.sample(range(nobj), 2)
        p_, q_ = rng.sample([0, 1, 2, 3], 2)
        heap[u1][0], heap[u1][1], heap[u2][0], heap[u2][1] = p_, q_, q_, p_
        for o in heap:
            o[8] = o[0] >= 2
        fx, fy = rng.choice('ab'), rng.choice('ab')
        body = ['and', ['cmp', '==', ['map', ['f', F[fx]], ['var', 1]], ['map', ['f', F['a']], ['var', 9]]],
                ['cmp', '==', ['map', ['f', F[fy]], ['var', 2]], ['map', ['f', F['b']], ['var', 9]]], rng.choice(['fn', 'op'])]
        everything = list(range(nobj))
        doms = [[1, rng.sample(everything, nobj)], [2, rng.sample(everything, nobj)], [9, [u1, u2] if rng.random() < 0.7 else [u1]]]
        sel = [['var', 1], ['var', 2]]
        rng.shuffle(sel)
        return dict(heap=heap, doms=doms, binders=[['var', 1], ['var', 2]], sel=sel, cond=['forall', 9, body], form='set_of')
    if rng.random() < 0.1:
        return gen_case_forall_eq(rng)
    if rng.random() < 0.3:
        return gen_case_forall_disj(rng)
    if rng.random() < 0.15:
        return gen_case_forall_projection(rng)
    if rng.random() < 0.16:
        return gen_case_forall_expr(rng, falsy_values=rng.random() < 0.4)
    nfree = rng.choice([1, 1, 2])
    heap, doms = _base(rng, nfree, dom_max=3)
    nobj = len(heap)
    g = Gen(rng, nfree, maxdepth=2)
    inner = Gen(rng, nfree, maxdepth=2)
    inner.keys = list(range(1, nfree + 1)) + [9, 9]          # the universal variable is mentioned often
    mode = rng.random()
    if mode < 0.2:
        inner.keys = [9]                                      # only the universal variable
    elif mode < 0.35:
        inner.keys = list(range(1, nfree + 1))                # only the free variables
    body = inner.cond(rng.randint(0, 2))
    doms.append([9, rng.sample(range(nobj), rng.randint(1, min(3, nobj)))])
    cond = ['forall', 9, body]
    if rng.random() < 0.35:
        # the universal argument is an EXPRESSION over the universal variable (for_all(u.peer, c)): it ranges over the values
        # of the expression for every u, several u may share a value, and c may depend on u through other paths
        cond.append(['map', ['f', F[rng.choice(['peer', 'a', 'f'])]], ['var', 9]])
    if rng.random() < 0.5:
        other = g.cond(rng.randint(0, 1))
        cond = ['and', other, cond, 'fn'] if rng.random() < 0.5 else ['and', cond, other, 'fn']
    sel = [['var', k] for k in range(1, nfree + 1)]
    rng.shuffle(sel)
    if nfree == 2 and rng.random() < 0.3:
        sel = sel[:1]                                         # a projection (see gen_case_forall_disj)
    return dict(heap=heap, doms=doms, binders=[['var', k] for k in range(1, nfree + 1)], sel=sel, cond=cond,
                form='entity' if len(sel) == 1 and rng.random() < 0.5 else 'set_of')


def wrap_subs(rng, c, p=0.35):
    """wrap random sub-conditions as an(entity(v, c)) / an(set_of(vs, c))"""
    k = c[0]
    if k in ('and', 'or'):
        c = [k, wrap_subs(rng, c[1], p), wrap_subs(rng, c[2], p), 'op' if rng.random() < 0.7 else 'fn']
    if k in ('not',):
        return c
    if rng.random() < p:
        ks = sorted(cond_keys(c, set()))
        if ks:
            sel = rng.sample(ks, rng.randint(1, len(ks)))
            sub = ['sub', [['var', v] for v in sel], c]
            if rng.random() < 0.3:
                # a nested query whose WHOLE condition is another nested query: an(entity(v, an(entity(v, c))))
                sub = ['sub', [['var', v] for v in rng.sample(sel, rng.randint(1, len(sel)))], sub]
            return sub
    return c


def term_keys_of(t):
    from qcase import term_keys
    return term_keys(t, set())


def gen_case_sub(rng, tier):
    nv = rng.choice([1, 2, 2, 3])
    c = gen_case(rng, nvars=nv, falsy=True, neg=False, maxdepth=3, select=rng.choice(['all', 'some']), dom_max=3)
    while c['cond'] is None:
        c = gen_case(rng, nvars=nv, falsy=True, neg=False, maxdepth=3, select=rng.choice(['all', 'some']), dom_max=3)
    if c['cond'][0] == 'and' and len(c['cond']) > 3 and c['cond'][3] == 'args':
        c['cond'][3] = 'fn'
    inlined = c['cond']
    c['cond'] = wrap_subs(rng, c['cond'])
    if rng.random() < 0.3:
        # the sub-query is the ONLY condition of the enclosing descriptor, holds a disjunction, and selects only some of the
        # variables its condition mentions (the enclosing query selects the others as well)
        avail = [d[0] for d in c['doms']]
        g = Gen(rng, nv, maxdepth=2, neg=False, p_lit=0.15)
        g.keys = list(avail)
        body = ['or', g.cond(rng.randint(0, 1)), g.cond(rng.randint(0, 1)), rng.choice(['fn', 'op'])]
        ks = sorted(cond_keys(body, set()))
        sub_sel = rng.sample(ks, rng.randint(1, max(1, len(ks) - 1)))
        c['cond'] = ['sub', [['var', v] for v in sub_sel], body]
        c['sel'] = [['var', k] for k in rng.sample(avail, len(avail))]
        c['form'] = 'set_of' if len(avail) > 1 else rng.choice(['entity', 'set_of'])
    if rng.random() < 0.35:
        # a sub-query used as a comparison OPERAND through an attribute:  x.attr <op> an(entity(i, c_i)).attr'  - i is a further
        # variable that appears nowhere else in the query
        i = 8
        nobj = len(c['heap'])
        c['doms'] = c['doms'] + [[i, rng.sample(range(nobj), rng.randint(1, min(3, nobj)))]]
        gi = Gen(rng, 1, maxdepth=1, neg=False)
        gi.keys = [i]
        ci = gi.cond(rng.randint(0, 1))
        outer = rng.choice([d[0] for d in c['doms'] if d[0] != i])
        if rng.random() < 0.35:
            # the sub-query holds a DISJUNCTION (its right-branch rows pass a de-duplication inside the sub-query) and the variable its
            # solutions are compared with is NOT selected: the solutions are compared with one value of that variable after the other
            ci = ['or', gi.cond(0), gi.cond(0), rng.choice(['fn', 'op'])]
            others = [t for t in c['sel'] if outer not in term_keys_of(t)]
            c['sel'] = others or [['lit', 1]] if False else (others if others else c['sel'])
            for d in c['doms']:
                if d[0] == outer and len(d[1]) < 2:
                    d[1] = rng.sample(range(nobj), min(nobj, rng.randint(2, 3)))
        lhs = ['map', ['f', F[rng.choice('ab')]], ['var', outer]]
        sub = ['subq', i, ci, ['map', ['f', F[rng.choice('ab')]], ['var', i]]]
        the_operand = rng.random() < 0.4
        if the_operand:
            # the(...) as the operand, CORRELATED with the enclosing query: the one object that is the peer of the outer variable
            # (i ranges over every object, so there is exactly one solution for every binding of the outer variable, which the left
            # operand has bound by the time the sub-query is evaluated)
            c['doms'][-1] = [i, list(range(nobj))]
            ci = ['cmp', '==', ['var', i], ['map', ['f', F['peer']], ['var', outer]]]
            if rng.random() < 0.3:
                ci = ['cmp', '==', ['map', ['f', F['peer']], ['var', outer]], ['var', i]]
            sub = ['subq', i, ci, ['map', ['f', F[rng.choice('ab')]], ['var', i]], 'the']
        cmp_ = ['cmp', rng.choice(OPS), lhs, sub] if the_operand or rng.random() < 0.6 else ['cmp', rng.choice(OPS), sub, lhs]
        if not the_operand and rng.random() < 0.6:
            # the comparison with the sub-query operand as a BRANCH OF A DISJUNCTION (its left branch is asked for its false rows
            # too: the operand must still range over the sub-query's solutions only), also below a conjunction
            r = rng.random()
            if r < 0.45:
                c['cond'] = ['or', cmp_, c['cond'], rng.choice(['fn', 'op'])]
            elif r < 0.7:
                c['cond'] = ['or', c['cond'], cmp_, rng.choice(['fn', 'op'])]
            else:
                extra = ['cmp', rng.choice(OPS), ['map', ['f', F[rng.choice('ab')]], ['var', outer]], ['lit', rng.randint(0, 2)]]
                c['cond'] = ['and', c['cond'], ['or', cmp_, extra, 'fn'], 'fn']
        else:
            c['cond'] = cmp_ if rng.random() < 0.4 else ['and', c['cond'], cmp_, 'fn'] if rng.random() < 0.6 else ['and', cmp_, c['cond'], 'fn']
    elif rng.random() < 0.25:
        # the(...) in CONDITION position, correlated with the enclosing query and asked once per row of it: the peer of the outer
        # variable if it also meets a further condition - one solution or none (never two: i ranges over every object and is
        # pinned to the peer) -, as the left branch of a disjunction, the outer variable bound by an earlier conjunct
        i = 8
        nobj = len(c['heap'])
        outer = rng.choice([d[0] for d in c['doms']])
        c['doms'] = c['doms'] + [[i, list(range(nobj))]]
        ci = ['and', ['cmp', '==', ['var', i], ['map', ['f', F['peer']], ['var', outer]]],
              ['cmp', rng.choice(OPS), ['map', ['f', F[rng.choice('ab')]], ['var', i]], ['lit', rng.randint(0, 2)]], 'fn']
        sub = ['sub', [['var', i]], ci, 'the']
        bind = ['cmp', '>=', ['map', ['f', F['a']], ['var', outer]], ['lit', 0]]
        c['cond'] = ['and', bind, ['or', sub, c['cond'], 'fn'], 'fn']
    used = cond_keys(c['cond'], set())
    from qcase import term_keys
    for t in c['sel']:
        term_keys(t, used)
    keys = {d[0] for d in c['doms']}
    missing = used - keys
    c['binders'] = [['var', k] for k in sorted(used)]
    c['doms'] = [d for d in c['doms'] if d[0] in used]
    return c


def gen_case_flat(rng, tier, cond_only=False):
    """parent variable 1, flatten node 5 over parent.items / parent.pair / a scalar attribute"""
    heap, doms = _base(rng, 1, dom_max=4)
    inner_field = rng.choice(['items', 'items', 'items', 'pair', 'a', 'groups', 'dmap'])
    if cond_only:
        inner_field = rng.choice(['items', 'items', 'pair'])
        for i in doms[0][1]:
            if inner_field == 'items' and len(heap[i][F['items']]) < 2:
                heap[i][F['items']] = [rng.choice(INT_ALPHA) for _ in range(rng.randint(2, 3))]
    if not cond_only and rng.random() < 0.15:
        # NESTED unnest: flatten(flatten(x.groups)) - the groups of a parent, then the elements of each group; both levels (and the
        # parent) selected in any order, optionally a condition on the parent: each element keeps the group and the parent it came from
        for i in doms[0][1]:
            heap[i][F['groups']] = [[rng.randint(0, 3) for _ in range(rng.randint(1, 3))] for _ in range(rng.randint(1, 3))]
        g = ['flat', 5, ['map', ['f', F['groups']], ['var', 1]]]
        e = ['flat', 6, g]
        sel = rng.choice([[e, g], [e, ['var', 1], g], [e, g, ['var', 1]], [g, e], [['var', 1], e, g], [e]])
        cond = None if rng.random() < 0.5 else ['cmp', rng.choice(['==', '!=']), ['map', ['f', F[rng.choice('ab')]], ['var', 1]], ['lit', rng.choice(INT_ALPHA)]]
        return dict(heap=heap, doms=doms, binders=[['var', 1], ['flat', 5, g[2]], ['flat', 6, g]], sel=sel, cond=cond, form='set_of',
                    list_items=rng.random() < 0.5)
    ft = ['map', ['f', F[inner_field]], ['var', 1]]
    flat = ['flat', 5, ft]
    ops = ['==', '!='] if inner_field == 'groups' else OPS        # (a tuple and an int cannot be ordered: Python raises)
    sel = rng.choice([[['var', 1], flat], [flat, ['var', 1]], [flat], [['var', 1], flat]])
    r = rng.random()

    def parent_cond():
        # any condition tree over the parent variable alone (C16_unnest_where)
        g = Gen(rng, 1, maxdepth=2, neg=True)
        return g.cond(rng.randint(0, 2))
    if r < 0.2:
        cond = None
    elif r < 0.3:
        cond = parent_cond()
    elif r < 0.52:
        cond = ['cmp', rng.choice(ops), flat, ['lit', rng.choice(INT_ALPHA)]]
    elif r < 0.65:
        cond = ['cmp', rng.choice(ops), flat, ['map', ['f', F[rng.choice('ab')]], ['var', 1]]]
    elif r < 0.75:
        first = ['cmp', rng.choice(OPS), ['map', ['f', F['a']], ['var', 1]], ['lit', rng.choice(INT_ALPHA)]] if rng.random() < 0.5 else parent_cond()
        cond = ['and', first, ['cmp', rng.choice(ops), flat, ['lit', rng.choice(INT_ALPHA)]], 'fn']
    elif r < 0.88:
        cond = ['or', ['cmp', rng.choice(ops), flat, ['lit', rng.choice(INT_ALPHA)]],
                ['cmp', '==', flat, ['map', ['f', F['b']], ['var', 1]]], 'fn']
    elif r < 0.96:
        # the left condition binds parent and element, the right one relates the element to the parent (its verdict differs between
        # the elements of one parent)
        cond = ['and', ['cmp', rng.choice(ops), flat, ['lit', rng.choice(INT_ALPHA)]],
                ['cmp', rng.choice(ops), flat, ['map', ['f', F[rng.choice('ab')]], ['var', 1]]], rng.choice(['fn', 'args'])]
    else:
        cond = ['in', flat, ['map', ['f', F['pair']], ['var', 1]]]
    if not cond_only and rng.random() < 0.12:
        # every element is a PAIR (a, b); an ITEM of the element is selected (not the element itself) and the condition is a
        # disjunction over items of the element: two elements of one parent that qualify through the right branch only are two rows
        inner_field = 'groups'
        for o in heap:
            while len(o) < 10:
                o.append([])
            o[9] = [[rng.randint(0, 3), rng.randint(0, 1)] for _ in range(rng.randint(0, 3))]
        ft = ['map', ['f', F['groups']], ['var', 1]]
        flat = ['flat', 5, ft]
        it = lambda j: ['map', ['i', j], flat]
        cond = ['or', ['cmp', rng.choice(['>', '==', '<']), it(0), ['lit', rng.randint(0, 3)]],
                ['cmp', '==', it(1), ['lit', rng.randint(0, 1)]], rng.choice(['fn', 'op'])]
        sel = rng.choice([[it(0)], [it(0), ['var', 1]], [it(1), it(0)]])
        return dict(heap=heap, doms=doms, binders=[['var', 1], ['flat', 5, ft]], sel=sel, cond=cond, form='set_of' if len(sel) > 1 or rng.random() < 0.5 else 'entity',
                    list_items=rng.random() < 0.5)
    if not cond_only and rng.random() < 0.08:
        # the PARENT alone is selected; the condition is a disjunction of conjunctions, each joining an item of the flattened element
        # with a condition on the parent: an element the left conjunction rejects still has to reach the right one (elements = pairs)
        for o in heap:
            while len(o) < 10:
                o.append([])
            o[9] = [[rng.randint(0, 3), rng.randint(0, 1)] for _ in range(rng.randint(1, 3))]
        ft = ['map', ['f', F['groups']], ['var', 1]]
        flat = ['flat', 5, ft]
        it = lambda j: ['map', ['i', j], flat]
        par = lambda: ['cmp', rng.choice(['==', '!=', '>=']), ['map', ['f', F[rng.choice('ab')]], ['var', 1]], ['lit', rng.choice(INT_ALPHA)]]
        el = lambda: ['cmp', rng.choice(['>=', '==', '<']), it(rng.randint(0, 1)), ['lit', rng.randint(0, 3)]]
        conj = lambda: ['and', el(), par(), 'fn'] if rng.random() < 0.7 else ['and', par(), el(), 'fn']
        cond = ['or', conj(), conj(), rng.choice(['fn', 'op'])]
        return dict(heap=heap, doms=doms, binders=[['var', 1], ['flat', 5, ft]], sel=[['var', 1]], cond=cond, form=rng.choice(['entity', 'set_of']),
                    list_items=rng.random() < 0.5)
    if cond_only or rng.random() < 0.2:
        # the flattened expression is used by the condition only (the parent alone is selected): a parent qualifies through ANY of
        # its elements, or through a condition on itself; optionally a further condition on the parent comes first
        par = lambda: ['cmp', rng.choice(['==', '!=']), ['map', ['f', F[rng.choice('ab')]], ['var', 1]], ['lit', rng.choice(INT_ALPHA)]]
        firsts = [heap[i][F[inner_field]][0] for i in doms[0][1]
                  if isinstance(heap[i][F[inner_field]], list) and len(heap[i][F[inner_field]]) >= 2
                  and isinstance(heap[i][F[inner_field]][0], int)]
        if cond_only and firsts and inner_field != 'groups':
            # (a parent whose FIRST element matches and a later one does not: the verdicts of the elements of one parent differ)
            cond = ['or', ['cmp', rng.choice(['==', '==', '>=', '<=']), flat, ['lit', rng.choice(firsts)]], par(), rng.choice(['fn', 'op'])]
        else:
            cond = ['or', ['cmp', rng.choice(ops), flat, ['lit', rng.choice(INT_ALPHA)]], par(), rng.choice(['fn', 'op'])]
        if rng.random() < 0.5:
            cond = ['and', par(), cond, rng.choice(['fn', 'args'])]
        sel = [['var', 1]]
        # (a parent WITHOUT elements that qualifies through the condition on itself: UNNEST read as a join drops it, the library
        #  keeps it - the property speaks of the rows of the elements, so that corner is left out: every collection gets an element)
        for i in doms[0][1]:
            if isinstance(heap[i][F[inner_field]], list) and not heap[i][F[inner_field]]:
                heap[i][F[inner_field]] = [rng.choice(INT_ALPHA)]
    return dict(heap=heap, doms=doms, binders=[['var', 1], ['flat', 5, ft]], sel=sel, cond=cond, form='set_of' if len(sel) > 1 or rng.random() < 0.5 else 'entity',
                list_items=rng.random() < 0.5)


def gen_case_flat_scalar(rng, tier=None):
    """flatten over an attribute that is a single value, not a collection (a value that is not iterable counts as a collection of
    one) - on data where that value is mostly falsy: 0, '', None, False"""
    heap, doms = _base(rng, 1, dom_max=5)
    for o in heap:
        if rng.random() < 0.6:
            o[0] = 0
        if rng.random() < 0.5:
            o[2] = ''
        if rng.random() < 0.5:
            o[4] = rng.choice([None, 0])
        if rng.random() < 0.5:
            o[5] = False
        o[8] = o[0] >= 2
    name = rng.choice(['a', 'n', 'f', 's', 's'])
    ft = ['map', ['f', F[name]], ['var', 1]]
    flat = ['flat', 5, ft]
    sel = rng.choice([[['var', 1], flat], [flat, ['var', 1]], [flat]])
    r = rng.random()
    if r < 0.4:
        cond = None
    elif r < 0.8:
        lit = {'a': [0, 1], 'n': [None, 0, 1], 'f': [False, True], 's': ['', 'u']}[name]
        cond = ['cmp', rng.choice(['==', '!=']), flat, ['lit', rng.choice(lit)]]
    else:
        cond = ['cmp', rng.choice(['==', '!=']), ['map', ['f', F['b']], ['var', 1]], ['lit', rng.randint(0, 2)]]
    return dict(heap=heap, doms=doms, binders=[['var', 1], ['flat', 5, ft]], sel=sel, cond=cond,
                form='set_of' if len(sel) > 1 or rng.random() < 0.5 else 'entity')


def gen_case_concat(rng, tier):
    """concatenate(x.items) (node 6, inner variable 1) alone, or tested for (non-)membership by an outer variable 2"""
    heap, doms = _base(rng, 2, dom_max=4)
    inner_field = rng.choice(['items', 'items', 'pair', 'a', 'groups', 'groups', 'dmap'])
    ct = ['map', ['f', F[inner_field]], ['var', 1]]
    flat_inside = inner_field == 'groups' and rng.random() < 0.5
    cb = ['concat', 6, 1, ct]
    if flat_inside:
        cb = ['concatflat', 6, 1, ct]
        ct = ['flat', 5, ct]                                   # concatenate(flatten(x.groups)): the elements of every group
    conc = ['concat', 6, ct]
    if flat_inside and rng.random() < 0.3 and doms[0][1]:
        # CORRELATED: an earlier conjunct has already bound the flattened element (one row per group), the concatenation is then
        # computed per row, over that one group - the reading of the code and of the evaluator model (the specification speaks of a
        # concatenation whose variables are free: such cases are compared with the model only)
        item = ['map', ['f', F[rng.choice('ab')]], ['var', 2]]
        test = ['in', item, conc] if rng.random() < 0.5 else ['contains', conc, item]
        if rng.random() < 0.4:
            test = ['not', test, 'fn']
        pre = ['cmp', '!=', ct, ['lit', rng.choice([9, 0, [3]])]]
        sel = [['var', 2]] if rng.random() < 0.6 else [['var', 2], ['var', 1]]
        return dict(heap=heap, doms=doms, binders=[['var', 1], ['flat', 5, ct[2]], cb, ['var', 2]], sel=sel, cond=['and', pre, test, 'fn'],
                    form='set_of', correlated=True, list_items=rng.random() < 0.6)
    if rng.random() < 0.15:
        doms[0][1] = []                                        # no parent at all
    if rng.random() < 0.2 and inner_field == 'items':
        for i in doms[0][1]:
            heap[i][3] = []                                    # every inner collection empty
    r = rng.random()
    if r < 0.35:
        return dict(heap=heap, doms=[doms[0]], binders=[cb], sel=[conc], cond=None, form='entity',
                    list_items=rng.random() < 0.6)
    if rng.random() < 0.15 and not flat_inside and doms[0][1]:
        # the concatenated expression is read off a NESTED QUERY with a disjunction, an(entity(x, or_(p, q))).field, and the
        # concatenation is selected next to another variable: it is computed once per row of that variable, every time in full
        one = lambda: ['cmp', rng.choice(OPS), ['map', ['f', F[rng.choice('ab')]], ['var', 1]], ['lit', rng.choice(INT_ALPHA)]]
        filt = ['or', one(), one(), rng.choice(['fn', 'op'])] if rng.random() < 0.8 else ['and', one(), ['or', one(), one(), 'fn'], 'fn']
        cond = ['cmp', rng.choice(OPS), ['map', ['f', F[rng.choice('ab')]], ['var', 2]], ['lit', rng.randint(0, 2)]] if rng.random() < 0.7 else None
        sel = [['var', 2], conc] if rng.random() < 0.5 else [conc, ['var', 2]]
        return dict(heap=heap, doms=doms, binders=[cb, ['var', 2]], sel=sel, cond=cond, form='set_of', dom_filters=[[1, filt]],
                    list_items=rng.random() < 0.6)
    if r < 0.45 and not flat_inside:
        # the concatenation selected NEXT TO another variable (set_of), that variable filtered by a condition of its own
        cond = ['cmp', rng.choice(OPS), ['map', ['f', F[rng.choice('ab')]], ['var', 2]], ['lit', rng.randint(0, 2)]]
        sel = [['var', 2], conc] if rng.random() < 0.5 else [conc, ['var', 2]]
        return dict(heap=heap, doms=doms, binders=[cb, ['var', 2]], sel=sel, cond=cond if rng.random() < 0.8 else None, form='set_of',
                    list_items=rng.random() < 0.6)
    item = ['map', ['f', F[rng.choice('ab')]], ['var', 2]]
    cond = ['in', item, conc] if rng.random() < 0.5 else ['contains', conc, item]
    if rng.random() < 0.4:
        cond = ['not', cond, 'fn']
    binders, sel = [cb, ['var', 2]], [['var', 2]]
    if not flat_inside and rng.random() < 0.3:
        # a SECOND concatenation over the same parent variable, tested as well
        ct2 = ['map', ['f', F[rng.choice(['items', 'pair', 'b'])]], ['var', 1]]
        conc2 = ['concat', 7, ct2]
        item2 = ['map', ['f', F[rng.choice('ab')]], ['var', 2]]
        cond2 = ['in', item2, conc2] if rng.random() < 0.5 else ['contains', conc2, item2]
        if rng.random() < 0.5:
            cond2 = ['not', cond2, 'fn']
        cond = ['and', cond, cond2, rng.choice(['fn', 'args'])]
        binders = [cb, ['concat', 7, 1, ct2], ['var', 2]]
    if not flat_inside and rng.random() < 0.2 and doms[0][1]:
        # the SAME concatenation tested twice, a condition on its own parent variable in between: the second test reads the
        # value the first one bound (also when the first one is served from a result cache on re-evaluation)
        item2 = ['map', ['f', F[rng.choice('ab')]], ['var', 2]]
        cond2 = ['in', item2, conc] if rng.random() < 0.5 else ['contains', conc, item2]
        if rng.random() < 0.6:
            cond2 = ['not', cond2, 'fn']
        mid = ['cmp', rng.choice(OPS), ['map', ['f', F[rng.choice('ab')]], ['var', 1]], ['lit', rng.randint(0, 2)]]
        pre = ['cmp', '>=', ['map', ['f', F['a']], ['var', 2]], ['lit', 0]]
        cond = ['and', ['and', ['and', pre, cond, 'fn'], mid, 'fn'], cond2, 'fn']
        return dict(heap=heap, doms=doms, binders=binders + [['var', 1]], sel=[['var', 2]], cond=cond,
                    form=rng.choice(['entity', 'set_of']), list_items=rng.random() < 0.6)
    form = 'entity' if rng.random() < 0.6 else 'set_of'
    if not flat_inside and rng.random() < 0.25 and doms[0][1]:
        # the parent variable is selected too: the concatenation does not bind it, it ranges over its whole domain
        binders, sel, form = binders + [['var', 1]], [['var', 2], ['var', 1]], 'set_of'
    return dict(heap=heap, doms=doms, binders=binders, sel=sel, cond=cond, form=form, list_items=rng.random() < 0.6)


def gen_case_disjunction_chain(rng, tier=None):
    """a CHAIN of disjunctions (random association, now and then a conjunction inside) of 3-5 literal-free comparisons, each over two
    different variables out of three, small domains, a PROJECTION onto one or two of the variables: on re-evaluation the inner
    disjunctions - evaluated with false rows on, as left operands of the enclosing ones - are answered from their right-side caches,
    true and false rows interleaved, and the replayed rows pass the de-duplication of the operators above them"""
    nobj = rng.randint(3, 6)
    heap = gen_heap(rng, nobj, falsy=True)
    for o in heap:
        o[0], o[1] = rng.randint(0, 2), rng.randint(0, 2)
        o[8] = o[0] >= 2
    keys = [1, 2, 3]
    doms = [[k, rng.sample(range(nobj), rng.randint(1, min(3, nobj)))] for k in keys]

    def leaf():
        x, y = rng.sample(keys, 2)
        return ['cmp', rng.choice(['<', '<', '==', '!=', '>=']), ['map', ['f', F[rng.choice('ab')]], ['var', x]],
                ['map', ['f', F[rng.choice('ab')]], ['var', y]]]
    parts = [leaf() for _ in range(rng.randint(3, 5))]
    while len(parts) > 1:
        i = rng.randrange(len(parts) - 1)
        k = 'or' if rng.random() < 0.85 else 'and'
        parts[i:i + 2] = [[k, parts[i], parts[i + 1], rng.choice(['fn', 'op'])]]
    cond = parts[0]
    used = cond_keys(cond, set())
    sel = rng.sample(sorted(used), rng.randint(1, max(1, len(used) - 1)))
    return dict(heap=heap, doms=[d for d in doms if d[0] in used], binders=[['var', k] for k in keys if k in used],
                sel=[['var', k] for k in sel], cond=cond, form='set_of')


def gen_case_join(rng, tier=None):
    """literal-free joins: three variables over larger domains, attribute values in {0, 1} (so that equalities hold often),
    full binary and/or trees of depth 2-3 whose leaves compare attributes of one or two variables; every variable selected.
    This is the shape in which operator result caches are hit with partially bound keys."""
    nobj = rng.randint(6, 10)
    heap = gen_heap(rng, nobj, falsy=True)
    for o in heap:
        o[0], o[1] = rng.randint(0, 1), rng.randint(0, 1)
        o[8] = o[0] >= 2
    keys = [1, 2, 3]
    doms = [[k, rng.sample(range(nobj), rng.randint(2, min(6, nobj)))] for k in keys]

    def leaf():
        x, y = rng.choice(keys), rng.choice(keys)
        l = ['map', ['f', F[rng.choice('ab')]], ['var', x]]
        r = ['map', ['f', F[rng.choice('ab')]], ['var', y]]
        if l == r:
            r = ['map', ['f', F['b' if l[1][1] == F['a'] else 'a']], ['var', y]]
        return ['cmp', rng.choice(['==', '==', '==', '!=', '<=']), l, r]

    def tree(d, top):
        if d == 0:
            return leaf()
        k = 'and' if (top and rng.random() < 0.7) or (not top and rng.random() < 0.3) else 'or'
        return [k, tree(d - 1, False), tree(d - 1, False), rng.choice(['fn', 'op'])]
    cond = tree(rng.choice([2, 2, 3]), True)
    if rng.random() < 0.5:
        # (x~y or x~z) and (x~x or z~z): for one x the left side yields rows that leave z open and rows that bind it, the right
        # side is cached under partially bound keys
        x, y, z = rng.sample(keys, 3)

        def lf(u, v, op='=='):
            fu, fv = rng.choice('ab'), rng.choice('ab')
            if u == v and fu == fv:
                fv = 'b' if fu == 'a' else 'a'
            return ['cmp', op, ['map', ['f', F[fu]], ['var', u]], ['map', ['f', F[fv]], ['var', v]]]
        left = ['or', lf(x, y), lf(x, z), rng.choice(['fn', 'op'])]
        right = ['or', lf(x, x), lf(z, z, rng.choice(['==', '!='])), rng.choice(['fn', 'op'])]
        if rng.random() < 0.3:
            left, right = right, left
        cond = ['and', left, right, 'fn']
    used = cond_keys(cond, set())
    sel = [['var', k] for k in keys if k in used]
    rng.shuffle(sel)
    return dict(heap=heap, doms=[d for d in doms if d[0] in used], binders=[['var', k] for k in keys if k in used], sel=sel,
                cond=cond, form='set_of', all_doms=doms)


# ------------------------------------------------------------------------------------------------ rewrites (C18)
MIRROR = {'<': '>', '>': '<', '<=': '>=', '>=': '<=', '==': '==', '!=': '!='}


def rewrite_cond(rng, c):
    k = c[0]
    if k in ('and', 'or'):
        a, b = rewrite_cond(rng, c[1]), rewrite_cond(rng, c[2])
        style = rng.choice(['fn', 'op', 'chain'])
        r = rng.random()
        if r < 0.35:
            return [k, b, a, style]                               # commutativity
        if r < 0.55 and a[0] == k:
            return [k, a[1], [k, a[2], b, rng.choice(['fn', 'op'])], style]      # (p.q).r -> p.(q.r)
        if r < 0.75 and b[0] == k:
            return [k, [k, a, b[1], rng.choice(['fn', 'op', 'chain'])], b[2], style]   # p.(q.r) -> (p.q).r
        return [k, a, b, style]
    if k == 'not':
        return ['not', rewrite_cond(rng, c[1]), rng.choice(['fn', 'op'])]
    if k == 'cmp' and rng.random() < 0.6:
        return ['cmp', MIRROR[c[1]], c[3], c[2]]                 # a < b  as  b > a (also moves a literal to the other side)
    if k == 'in' and rng.random() < 0.6:
        return ['contains', c[2], c[1]]
    if k == 'contains' and rng.random() < 0.6:
        return ['in', c[2], c[1]]
    return c


def gen_case_conj_under_disj(rng, tier=None):
    """a conjunction whose two sides speak of DIFFERENT variables (or whose right side recurs under several bindings of the left
    one) as the first branch of a disjunction / under a negated disjunction: the conjunction is asked for its false rows too, and
    its right-side result cache is read by every later binding of the left side.  0/1-valued attributes, all variables selected."""
    nobj = rng.randint(4, 7)
    heap = gen_heap(rng, nobj, True)
    for o in heap:
        o[0], o[1] = rng.randint(0, 1), rng.randint(0, 1)
        o[8] = o[0] >= 2
    nv = rng.choice([2, 2, 3])
    keys = list(range(1, nv + 1))
    doms = [[k, rng.sample(range(nobj), rng.randint(2, 4))] for k in keys]
    fa = lambda k: ['map', ['f', F[rng.choice('ab')]], ['var', k]]
    lit = lambda: ['lit', rng.randint(0, 1)]
    ops = ['==', '!=', '<', '>=']
    one = lambda k: ['cmp', rng.choice(ops), fa(k), lit()]
    two = lambda j, k: ['cmp', rng.choice(ops), fa(j), fa(k)]
    x, y = keys[0], keys[1]
    if nv == 2:
        conj = ['and', one(x), one(y), rng.choice(['fn', 'op'])]
        other = rng.choice([one(x), one(y), two(x, y)])
    else:
        z = keys[2]
        conj = rng.choice([['and', one(x), two(y, z), 'fn'], ['and', ['and', two(x, z), two(y, z), 'fn'], two(x, y), 'fn'],
                           ['and', two(x, y), one(z), 'op']])
        other = rng.choice([one(x), one(z), two(x, z)])
    r = rng.random()
    if r < 0.6:
        cond = ['or', conj, other, rng.choice(['fn', 'op'])]
    elif r < 0.8:
        cond = ['not', ['or', ['not', conj, 'fn'], other, 'fn'], 'fn']
    else:
        cond = ['or', ['not', ['or', ['not', conj[1], 'fn'], ['not', conj[2], 'fn'], 'fn'], 'fn'], other, 'fn']
    used = cond_keys(cond, set())
    return dict(heap=heap, doms=[d for d in doms if d[0] in used], binders=[['var', k] for k in keys if k in used],
                sel=[['var', k] for k in keys if k in used], cond=cond, form='set_of')


def gen_case_dedup(rng, tier=None):
    """PROJECTIONS over 2-3 variables (a proper subset of the variables is selected) with and_/or_ nested 2-4 deep over
    0/1-valued attributes: many assignments share a projection, so the de-duplication of rows (`_is_duplicate_output_`, the
    required variables a parent reports) decides which rows an operator passes on - a row that is dropped must not be the only
    one that a LATER part of the condition (a right operand, the other branch of an enclosing disjunction) would have accepted."""
    nobj = rng.randint(3, 6)
    heap = gen_heap(rng, nobj, True)
    for o in heap:
        o[0], o[1] = rng.randint(0, 1), rng.randint(0, 2)
        o[7] = {'o': rng.randrange(nobj)}
        o[8] = o[0] >= 2
    nv = rng.choice([2, 2, 3])
    keys = list(range(1, nv + 1))
    doms = [[k, rng.sample(range(nobj), rng.randint(2, min(4, nobj)))] for k in keys]
    fa = lambda k: ['map', ['f', F[rng.choice('ab')]], ['var', k]]
    ops = ['==', '!=', '<', '>=', '<=']

    def leaf():
        r = rng.random()
        if r < 0.4:
            return ['cmp', rng.choice(ops), fa(rng.choice(keys)), ['lit', rng.randint(0, 2)]]
        j, k = rng.sample(keys, 2)
        if r < 0.55:
            # a BARE variable compared with an object-valued attribute of another one (q == r.peer, either way round): the
            # comparison enumerates the bare variable's own domain rows under whatever is bound already
            peer = ['map', ['f', F['peer']], ['var', k]]
            return ['cmp', rng.choice(['==', '==', '!=']), ['var', j], peer] if rng.random() < 0.7 else ['cmp', rng.choice(['==', '!=']), peer, ['var', j]]
        return ['cmp', rng.choice(ops), fa(j), fa(k)]

    def tree(d):
        if d == 0 or rng.random() < 0.15:
            return leaf()
        r = rng.random()
        if r < 0.5:
            return ['or', tree(d - 1), tree(d - 1), rng.choice(['fn', 'op'])]
        if r < 0.9:
            return ['and', tree(d - 1), tree(d - 1), rng.choice(['fn', 'op'])]
        return ['not', tree(d - 1), 'fn']
    cond = tree(rng.choice([2, 3, 3, 4]))
    used = sorted(cond_keys(cond, set()))
    selk = rng.sample(used, rng.randint(1, max(1, len(used) - 1)))
    if rng.random() < 0.4:
        # left-deep chains: an UNSELECTED variable y first met deep on the left and needed again by the right operand of an
        # outer operator, e.g.  or_(and_(or_(A(x), B(x, y)), C(x)), D(y))  selecting x: whatever the inner operators drop as
        # duplicates (same x) must not be the only y that D accepts
        x, y = rng.sample(keys, 2)
        one = lambda k: ['cmp', rng.choice(ops), fa(k), ['lit', rng.randint(0, 2)]]
        two = lambda j, k: ['cmp', rng.choice(ops), fa(j), fa(k)]
        node = rng.choice([one(x), ['or', one(x), two(x, y), 'fn'], ['or', one(x), one(y), 'fn'], ['and', one(x), two(x, y), 'fn'],
                           ['or', one(x), two(x, y), 'fn']])
        for _ in range(rng.choice([1, 2, 2, 3])):
            leaf_ = rng.choice([one(x), one(x), one(y), two(x, y)])
            node = [rng.choice(['and', 'or']), node, leaf_, rng.choice(['fn', 'op'])]
        node = [rng.choice(['or', 'or', 'and']), node, rng.choice([one(y), one(y), two(y, x)]), 'fn']
        if rng.random() < 0.15:
            node = ['not', node, 'fn']
        cond = node
        used = sorted(cond_keys(cond, set()))
        selk = [x] if x in used else [used[0]]
    sel = [['var', k] for k in selk]
    if rng.random() < 0.15:
        sel[rng.randrange(len(sel))] = ['map', ['f', F[rng.choice('ab')]], ['var', selk[0]]]
    return dict(heap=heap, doms=[d for d in doms if d[0] in used], binders=[['var', k] for k in keys if k in used],
                sel=sel, cond=cond, form='entity' if len(sel) == 1 and rng.random() < 0.5 else 'set_of')


def gen_case_object_join(rng, tier=None):
    """three variables; a BARE variable compared with an object-valued attribute of a second one (q == r.peer) next to a condition on
    a third (p.a == 1), combined by or_ / and_-under-or_ / a negated and_: the comparison enumerates q's own domain rows while p is
    already bound, and q is enumerated AGAIN elsewhere (the other branch leaves it free: bound with the selection)"""
    nobj = rng.randint(3, 6)
    heap = gen_heap(rng, nobj, True)
    for o in heap:
        o[0], o[1] = rng.randint(0, 1), rng.randint(0, 1)
        o[7] = {'o': rng.randrange(nobj)}
        o[8] = o[0] >= 2
    keys = [1, 2, 3]
    doms = [[k, rng.sample(range(nobj), rng.randint(2, min(3, nobj)))] for k in keys]
    p, q, r = rng.sample(keys, 3)
    one = lambda k: ['cmp', rng.choice(['==', '!=']), ['map', ['f', F[rng.choice('ab')]], ['var', k]], ['lit', rng.randint(0, 1)]]
    peer = ['map', ['f', F['peer']], ['var', r]]
    join = ['cmp', rng.choice(['==', '==', '!=']), ['var', q], peer] if rng.random() < 0.75 else ['cmp', '==', peer, ['var', q]]
    shape = rng.randrange(6)
    if shape >= 4:
        # a plain conjunction: the join is evaluated WITHOUT false rows (an equality against a free variable's own domain), before or
        # after a condition on one of its variables
        cond = ['and', one(rng.choice([p, r])), join, 'fn'] if shape == 4 else ['and', join, one(rng.choice([p, q, r])), 'fn']
    elif shape == 0:
        cond = ['or', one(p), join, rng.choice(['fn', 'op'])]
    elif shape == 1:
        cond = ['or', ['and', one(p), join, 'fn'], one(p), 'fn']
    elif shape == 2:
        cond = ['not', ['and', one(p), join, 'fn'], 'fn']
    else:
        cond = ['and', ['or', one(p), join, 'fn'], one(rng.choice([p, q, r])), 'fn']
    sel = [['var', k] for k in rng.sample(keys, 3)]
    if rng.random() < 0.3:
        sel = sel[:2]
    used = cond_keys(cond, set())
    c = dict(heap=heap, doms=[d for d in doms if d[0] in used], binders=[['var', k] for k in keys if k in used],
             sel=[t for t in sel if t[1] in used], cond=cond, form='set_of')
    if rng.random() < 0.5:
        # the objects compare EQUAL by value (a user __eq__ over a, b) although they are distinct objects: the join q == r.peer holds
        # for every q that EQUALS r.peer, not only for the object itself (qcase.value_equal_view is the models' reading)
        c['value_equal'] = c['value_equal_join'] = True
    return c


def gen_case_negated_conjunction(rng, tier=None):
    """not_(and_(A, B, C)) over two variables - rewritten to a disjunction NESTED in the left operand of another one -: A joins x and
    y, B is literal-free and over y alone (its verdicts are cached per y and shared by the rows of different x), C is a further
    condition; 0/1-valued attributes so that rows agree on B's variables; also the same written as a disjunction of negations"""
    nobj = rng.randint(4, 7)
    heap = gen_heap(rng, nobj, True)
    for o in heap:
        o[0], o[1] = rng.randint(0, 1), rng.randint(0, 1)
        o[5] = rng.random() < 0.5
        o[8] = o[0] >= 2
    x, y = rng.sample([1, 2], 2)
    doms = [[k, rng.sample(range(nobj), rng.randint(2, 4))] for k in (1, 2)]
    fa = lambda k, f=None: ['map', ['f', F[f or rng.choice('ab')]], ['var', k]]
    A = ['cmp', rng.choice(['==', '!=', '<=', '<']), fa(x), fa(y)]
    B = rng.choice([['truth', fa(y, 'f')], ['cmp', rng.choice(['==', '<=', '!=']), fa(y, 'a'), fa(y, 'b')], ['cmp', '==', fa(y), fa(y)]])
    C = rng.choice([['cmp', rng.choice(['==', '!=']), fa(x), fa(y)], ['cmp', rng.choice(['==', '!=']), fa(x), ['lit', rng.randint(0, 1)]],
                    ['truth', fa(x, 'f')]])
    parts = [A, B, C]
    if rng.random() < 0.3:
        rng.shuffle(parts)
    r = rng.random()
    if r < 0.5:
        cond = ['not', ['and', ['and', parts[0], parts[1], 'fn'], parts[2], rng.choice(['fn', 'chain'])], rng.choice(['fn', 'op'])]
    elif r < 0.75:
        n = lambda c: ['not', c, 'fn']
        cond = ['or', ['or', n(parts[0]), n(parts[1]), 'fn'], n(parts[2]), 'fn']
    else:
        cond = ['and', ['not', ['and', parts[0], parts[1], 'fn'], 'fn'], ['not', parts[2], 'fn'], 'fn'] if rng.random() < 0.5 else \
            ['not', ['and', parts[0], ['and', parts[1], parts[2], 'fn'], 'fn'], 'fn']
    sel = [['var', 1], ['var', 2]]
    rng.shuffle(sel)
    return dict(heap=heap, doms=doms, binders=[['var', 1], ['var', 2]], sel=sel, cond=cond, form='set_of')


def gen_case_membership_disjunction(rng, tier=None):
    """or_(contains(x.items, item), <other condition on x>) (also in_(item, x.items)): the membership test is the LEFT alternative, some
    objects have an EMPTY collection (a falsy container is a container like any other) and qualify through the other alternative"""
    nobj = rng.randint(3, 6)
    heap = gen_heap(rng, nobj, True)
    for o in heap:
        o[0] = rng.choice([0, 0, 1, 2])
        o[3] = [] if rng.random() < 0.5 else [rng.randint(0, 2) for _ in range(rng.randint(1, 2))]
        o[8] = o[0] >= 2
    dom = rng.sample(range(nobj), rng.randint(2, nobj))
    items = ['map', ['f', F['items']], ['var', 1]]
    item = rng.choice([['lit', rng.randint(0, 2)], ['map', ['f', F['a']], ['var', 1]], ['map', ['f', F['b']], ['var', 1]]])
    mem = ['contains', items, item] if rng.random() < 0.5 else ['in', item, items]
    other = ['cmp', rng.choice(['==', '!=', '<=']), ['map', ['f', F['a']], ['var', 1]], ['lit', rng.randint(0, 1)]]
    cond = ['or', mem, other, rng.choice(['fn', 'op'])]
    if rng.random() < 0.3:
        cond = ['and', cond, ['cmp', '>=', ['map', ['f', F['b']], ['var', 1]], ['lit', 0]], 'fn']
    return dict(heap=heap, doms=[[1, dom]], binders=[['var', 1]], sel=[['var', 1]], cond=cond, form=rng.choice(['entity', 'set_of']))


def gen_case_falsy_owner(rng, tier=None):
    """attribute chains THROUGH a falsy object (the domain objects define __bool__: those with a == 0 are falsy): x.peer.a compared,
    selected, used in a membership test - the owner of an attribute is an object like any other, whatever bool() says about it"""
    nobj = rng.randint(3, 6)
    heap = gen_heap(rng, nobj, True)
    for o in heap:
        o[0], o[1] = rng.choice([0, 0, 1, 2]), rng.randint(0, 2)
        o[7] = {'o': rng.randrange(nobj)}
        o[8] = o[0] >= 2
    nv = rng.choice([1, 1, 2])
    keys = list(range(1, nv + 1))
    doms = [[k, rng.sample(range(nobj), rng.randint(2, min(4, nobj)))] for k in keys]
    via = lambda k, f=None: ['map', ['f', F[f or rng.choice('ab')]], ['map', ['f', F['peer']], ['var', k]]]
    k = rng.choice(keys)
    r = rng.random()
    if r < 0.4:
        cond = ['cmp', rng.choice(OPS), via(k), ['lit', rng.randint(0, 2)]]
    elif r < 0.6:
        cond = ['cmp', rng.choice(['==', '!=']), via(k), ['map', ['f', F[rng.choice('ab')]], ['var', rng.choice(keys)]]]
    elif r < 0.8:
        cond = ['in', via(k), ['map', ['f', F['pair']], ['var', rng.choice(keys)]]]
    else:
        cond = ['or', ['cmp', '==', via(k, 'a'), ['lit', rng.randint(0, 1)]], ['cmp', '>', via(k, 'b'), ['lit', 1]], 'fn']
    if rng.random() < 0.3:
        cond = ['not', cond, 'fn']
    sel = [['var', kk] for kk in keys]
    if rng.random() < 0.5:
        sel.append(via(rng.choice(keys)))
    rng.shuffle(sel)
    return dict(heap=heap, doms=doms, binders=[['var', kk] for kk in keys], sel=sel, cond=cond if rng.random() < 0.9 else None,
                form='set_of', falsy_objects=True)


def exhaustive_small_scope():
    """EVERY condition with at most two connectives (and_ / or_, any association) over a fixed alphabet of six leaves on two variables,
    plain and negated at the root, x every selection ([x, y], [x], [y]) x two fixed datasets (0/1-valued attributes, three objects per
    domain, overlapping): 1 806 trees x 2 x 3 x 2 = 21 672 cases.  Used by the thorough tier of C02 (deterministic, no PRNG)."""
    fa = lambda k, f: ['map', ['f', F[f]], ['var', k]]
    leaves = [['cmp', '==', fa(1, 'a'), ['lit', 1]], ['cmp', '==', fa(2, 'a'), ['lit', 1]], ['cmp', '==', fa(1, 'a'), fa(2, 'a')],
              ['cmp', '<=', fa(1, 'b'), fa(2, 'a')], ['cmp', '!=', fa(1, 'a'), fa(2, 'b')], ['cmp', '==', fa(2, 'b'), ['lit', 0]]]
    trees = list(leaves)
    for op in ('and', 'or'):
        for l in leaves:
            for r in leaves:
                trees.append([op, l, r, 'fn'])
    for op1 in ('and', 'or'):
        for op2 in ('and', 'or'):
            for a in leaves:
                for b in leaves:
                    for c in leaves:
                        trees.append([op1, [op2, a, b, 'fn'], c, 'fn'])
                        trees.append([op1, a, [op2, b, c, 'fn'], 'fn'])
    def obj(a, b):
        return [a, b, '', [], None, False, [0, 0], {'o': 0}, False, [], []]
    datasets = [([obj(0, 0), obj(1, 0), obj(0, 1), obj(1, 1)], [[1, [0, 1, 2]], [2, [1, 2, 3]]]),
                ([obj(1, 1), obj(0, 1), obj(1, 0), obj(0, 0), obj(1, 1)], [[1, [0, 1, 3]], [2, [4, 2, 1]]])]
    out = []
    for t in trees:
        for cond in (t, ['not', t, 'fn']):
            used = cond_keys(cond, set())
            for sel in ([1, 2], [1], [2]):
                if not all(k in used for k in sel):
                    continue
                for heap, doms in datasets:
                    out.append(dict(heap=heap, doms=[d for d in doms if d[0] in used], binders=[['var', k] for k in (1, 2) if k in used],
                                    sel=[['var', k] for k in sel], cond=cond, form='set_of'))
    return out


def gen_pair(rng, tier):
    nv = rng.choice([1, 2, 2, 3])
    orig = gen_case(rng, nvars=nv, falsy=True, neg=True, maxdepth=3, select=rng.choice(['all', 'some']), dom_max=3)
    if rng.random() < 0.12:
        # a universal condition: the order of the universal values must not matter
        orig = gen_case_forall_eq(rng) if rng.random() < 0.6 else gen_case_forall(rng, tier)
    elif rng.random() < 0.12:
        # literal-free joins over three variables (the operator caches are hit with partially bound keys: a disjunction over
        # different variables followed by a condition on the variable it sometimes leaves open) - every rewrite keeps the result set
        j = gen_case_join(rng, tier)
        orig = dict(heap=j['heap'], doms=j['doms'], binders=j['binders'], sel=j['sel'], cond=j['cond'], form='set_of')
    if rng.random() < 0.4:
        # a conjunction joining two variables as one side of a disjunction, only ONE of the two selected, the other one needed by
        # the other side of the disjunction (rows that are false for the conjunction must be kept apart per value of the
        # unselected variable); 0/1-valued attributes so that consecutive rows alternate between true and false
        nobj = rng.randint(4, 7)
        heap = gen_heap(rng, nobj, True)
        for o in heap:
            o[0], o[1] = rng.randint(0, 1), rng.randint(0, 1)
            o[8] = o[0] >= 2
        x, z = sorted(rng.sample([1, 2, 3], 2)) if rng.random() < 0.85 else rng.sample([1, 2, 3], 2)
        fa = lambda k: ['map', ['f', F[rng.choice('ab')]], ['var', k]]
        lit = lambda: ['lit', rng.randint(0, 1)]
        ops = ['==', '!=', '<', '>=']
        join = ['cmp', rng.choice(ops), fa(z), fa(x)] if rng.random() < 0.9 else ['cmp', rng.choice(ops), fa(x), fa(z)]
        second = ['cmp', rng.choice(ops), fa(x), lit()] if rng.random() < 0.9 else ['cmp', rng.choice(ops), fa(rng.choice([x, z])), fa(z)]
        conj = ['and', join, second, rng.choice(['fn', 'op'])] if rng.random() < 0.9 else ['and', second, join, 'fn']
        other = ['cmp', rng.choice(ops), fa(z), lit()]
        orig = dict(heap=heap, doms=[[k, rng.sample(range(nobj), rng.randint(2, 4))] for k in sorted((x, z))],
                    binders=[['var', k] for k in sorted((x, z))], sel=[['var', x]],
                    cond=['or', conj, other, rng.choice(['fn', 'op'])] if rng.random() < 0.8 else ['or', other, conj, 'fn'],
                    form=rng.choice(['entity', 'set_of']))
    if rng.random() < 0.1:
        # a selected EXPRESSION over a variable that no condition binds, the variable itself selected too (before or after it, the
        # variant permutes the selection): the expression must stay with the value of the variable it was read from
        nobj = rng.randint(3, 6)
        heap = gen_heap(rng, nobj, True)
        for i, o in enumerate(heap):
            o[0], o[1] = i % 3, (i + 1) % 3
            o[8] = o[0] >= 2
        cy = ['cmp', rng.choice(['==', '!=', '>=']), ['map', ['f', F[rng.choice('ab')]], ['var', 2]], ['lit', rng.randint(0, 2)]]
        sel = [['map', ['f', F[rng.choice('ab')]], ['var', 1]], ['var', 1]] + ([['var', 2]] if rng.random() < 0.7 else [])
        rng.shuffle(sel)
        orig = dict(heap=heap, doms=[[1, rng.sample(range(nobj), rng.randint(2, 3))], [2, rng.sample(range(nobj), rng.randint(1, 3))]],
                    binders=[['var', 1], ['var', 2]], sel=sel, cond=cy if rng.random() < 0.8 else None, form='set_of')
        if orig['cond'] is None or not any(t == ['var', 2] for t in sel):
            orig['doms'], orig['binders'] = ([orig['doms'][0]], [['var', 1]]) if orig['cond'] is None else (orig['doms'], orig['binders'])
            orig['sel'] = [t for t in sel if t != ['var', 2]] if orig['cond'] is None else sel
    if rng.random() < 0.15:
        # projections over deeply nested and_/or_ (what an operator drops as a duplicate depends on how the query is written)
        orig = gen_case_dedup(rng, tier)
    var = dict(orig)
    var['cond'] = rewrite_cond(rng, orig['cond']) if orig['cond'] is not None else None
    if var['cond'] is not None and var['cond'][0] == 'and' and rng.random() < 0.2:
        var['cond'] = var['cond'][:3] + ['args']
    doms = [[k, list(d)] for k, d in orig['doms']]
    for d in doms:
        rng.shuffle(d[1])                                         # permute the elements of every domain
    rng.shuffle(doms)                                             # order in which the variables are declared
    var['doms'] = doms
    perm = list(range(len(orig['sel'])))
    rng.shuffle(perm)                                             # order in which they are selected
    var['sel'] = [orig['sel'][i] for i in perm]
    var['form'] = 'set_of' if len(var['sel']) > 1 else rng.choice(['entity', 'set_of'])
    return dict(orig=orig, variant=var, perm=perm)
