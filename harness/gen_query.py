"""Seeded, structured, well-typed generator of query cases (DESIGN.md 5.1)."""
from qcase import FIELDS, OPS

F = {n: i for i, n in enumerate(FIELDS)}
INT_ALPHA = [0, 1, 2, 3]
STR_ALPHA = ['', 'u', 'v']


def gen_heap(rng, n, falsy=True):
    lo = 0 if falsy else 1
    heap = []
    for i in range(n):
        a = rng.randint(lo, 3)
        items = [rng.randint(lo, 3) for _ in range(rng.choice([0, 1, 2, 3] if falsy else [1, 2, 3]))]
        heap.append([a, rng.randint(lo, 3), rng.choice(STR_ALPHA if falsy else STR_ALPHA[1:]), items,
                     rng.choice([None, 0, 1, 2] if falsy else [1, 2]), (rng.random() < 0.5) if falsy else True,
                     [rng.randint(lo, 3), rng.randint(lo, 3)], {'o': rng.randrange(n)}, a >= 2])
    return heap


class Gen:
    def __init__(self, rng, nvars, falsy=True, neg=True, maxdepth=3, flat=False, forall=False, sub=False, p_lit=0.3):
        self.rng, self.nvars, self.falsy, self.neg, self.maxdepth = rng, nvars, falsy, neg, maxdepth
        self.flat, self.forall, self.sub, self.p_lit = flat, forall, sub, p_lit
        self.keys = list(range(1, nvars + 1))
        self.flats = {}          # key -> term
        self.next_key = nvars + 1

    # ---- typed terms -------------------------------------------------------------------------
    def var(self):
        return ['var', self.rng.choice(self.keys)]

    def obj(self):
        v = self.var()
        return ['map', ['f', F['peer']], v] if self.rng.random() < 0.25 else v

    def int_term(self, allow_lit=True):
        r = self.rng.random()
        if allow_lit and r < self.p_lit:
            return ['lit', self.rng.choice(INT_ALPHA)]
        o = self.obj()
        r = self.rng.random()
        if r < 0.55:
            return ['map', ['f', F[self.rng.choice('ab')]], o]
        if r < 0.8:
            return ['map', ['i', self.rng.randrange(2)], ['map', ['f', F['pair']], o]]
        if r < 0.9 and self.flats:
            k = self.rng.choice(list(self.flats))
            return ['flat', k, self.flats[k]]
        return ['map', ['f', F['f']], o] if r < 0.95 else ['map', ['f', F['big()']], o]

    def any_term(self, allow_lit=True):
        r = self.rng.random()
        if r < 0.5:
            return self.int_term(allow_lit)
        if allow_lit and r < 0.6:
            return ['lit', self.rng.choice(['', 'u', None, True, False, [], [1, 2]])]
        o = self.obj()
        if r < 0.7:
            return ['map', ['f', F['s']], o]
        if r < 0.8:
            return ['map', ['f', F['n']], o]
        if r < 0.88:
            return ['map', ['f', F['items']], o]
        if r < 0.94:
            return o
        return ['map', ['f', F['f']], o]

    def container(self):
        r = self.rng.random()
        if r < 0.2:
            return ['lit', [self.rng.choice(INT_ALPHA) for _ in range(self.rng.randint(0, 3))]]
        return ['map', ['f', F['items' if r < 0.8 else 'pair']], self.obj()]

    def truth_term(self):
        o = self.obj()
        name = self.rng.choice(['f', 'big()', 'a', 's', 'items', 'n', 'b'])
        return ['map', ['f', F[name]], o]

    # ---- conditions ---------------------------------------------------------------------------
    def leaf(self):
        r = self.rng.random()
        if r < 0.45:
            op = self.rng.choice(OPS)
            if op in ('==', '!='):
                l = self.any_term(True)
                r_ = self.any_term(l[0] != 'lit')
            else:
                l = self.int_term(True)
                r_ = self.int_term(l[0] != 'lit')
            return ['cmp', op, l, r_]
        if r < 0.6:
            return ['in', self.int_term(self.rng.random() < 0.3), self.container()] if self.rng.random() < 0.5 \
                else ['contains', self.container(), self.int_term(self.rng.random() < 0.3)]
        if r < 0.75:
            return ['truth', self.truth_term()]
        op = self.rng.choice(OPS)
        return ['cmp', op, self.int_term(False), self.int_term(True)]

    def fix_in(self, c):
        """a membership test needs a symbolic operand on at least one side"""
        if c[0] in ('in', 'contains'):
            i, cont = (c[1], c[2]) if c[0] == 'in' else (c[2], c[1])
            if i[0] == 'lit' and cont[0] == 'lit':
                cont = ['map', ['f', F['items']], self.var()]
                return ['in', i, cont] if c[0] == 'in' else ['contains', cont, i]
        return c

    def cond(self, depth):
        r = self.rng.random()
        if depth <= 0 or r < 0.3:
            return self.fix_in(self.leaf())
        style = self.rng.choice(['fn', 'op', 'chain'])
        if r < 0.55:
            return ['and', self.cond(depth - 1), self.cond(depth - 1), style]
        if r < 0.8:
            return ['or', self.cond(depth - 1), self.cond(depth - 1), style]
        if self.neg:
            return ['not', self.cond(depth - 1), self.rng.choice(['fn', 'op'])]
        return ['and', self.cond(depth - 1), self.cond(depth - 1), style]


def cond_keys(c, acc):
    from qcase import term_keys
    k = c[0]
    if k == 'cmp':
        term_keys(c[2], acc), term_keys(c[3], acc)
    elif k in ('in', 'contains'):
        term_keys(c[1], acc), term_keys(c[2], acc)
    elif k == 'truth':
        term_keys(c[1], acc)
    elif k in ('and', 'or'):
        cond_keys(c[1], acc), cond_keys(c[2], acc)
    elif k == 'not':
        cond_keys(c[1], acc)
    elif k == 'forall':
        cond_keys(c[2], acc)
        acc.discard(c[1])
    elif k == 'sub':
        for t in c[1]:
            term_keys(t, acc)
        cond_keys(c[2], acc)
    return acc


def gen_case(rng, nvars=None, falsy=True, neg=True, maxdepth=3, select='all', dom_max=4, empty_dom=False):
    """select: 'all' (every variable, random order) | 'some' (random non-empty subset, may include expressions)"""
    from qcase import term_keys
    nvars = nvars or rng.choice([1, 1, 2, 2, 3])
    nobj = rng.randint(2, 7)
    heap = gen_heap(rng, nobj, falsy)
    g = Gen(rng, nvars, falsy=falsy, neg=neg, maxdepth=maxdepth)
    doms = []
    for k in g.keys:
        n = rng.randint(0 if empty_dom and rng.random() < 0.1 else 1, min(dom_max, nobj))
        doms.append([k, rng.sample(range(nobj), n)])
    cond = g.cond(rng.randint(0, maxdepth)) if rng.random() < 0.95 else None
    used = cond_keys(cond, set()) if cond is not None else set()
    if select == 'all':
        selk = list(g.keys) if rng.random() < 0.7 else sorted(used | ({rng.choice(g.keys)} if not used else set()))
        selk = [k for k in selk if k in g.keys]
        rng.shuffle(selk)
        sel = [['var', k] for k in selk]
    else:
        selk = [k for k in g.keys if rng.random() < 0.5] or [rng.choice(g.keys)]
        rng.shuffle(selk)
        sel = [['var', k] for k in selk]
        if rng.random() < 0.3:
            sel.append(['map', ['f', F[rng.choice(['a', 's', 'items', 'n', 'f'])]], ['var', rng.choice(selk)]])
    mentioned = set(used)
    for t in sel:
        term_keys(t, mentioned)
    binders = [['var', k] for k in g.keys if k in mentioned]
    form = 'entity' if (len(sel) == 1 and rng.random() < 0.6) else 'set_of'
    if cond is not None and cond[0] == 'and' and rng.random() < 0.2:
        cond = cond[:3] + ['args']
    return dict(heap=heap, doms=[d for d in doms if d[0] in mentioned], binders=binders, sel=sel, cond=cond, form=form)
