"""Implementation side of the C20 correspondence: drives cache_data.IndexedCache directly."""
import sys, json
from entity_query_language.cache_data import IndexedCache, CacheDict
from entity_query_language.utils import All


def show_asg(a):
    return "{" + ",".join(f"{k}:{v}" for k, v in a.items()) + "}"


def mixed(node):
    """some level of the nested dict holds the wildcard together with a concrete key"""
    if not isinstance(node, CacheDict):
        return False
    ks = list(node.keys())
    if any(k is All for k in ks) and any(k is not All for k in ks):
        return True
    return any(mixed(v) for v in node.values())


def asg(d):
    return {int(k): v for k, v in d}


def run(case):
    if case.get('keys_by_setter'):
        # the way every operator cache of symbolic.py is set up: created without keys, the key list assigned afterwards
        c = IndexedCache()
        c.keys = list(case['keys'])
    else:
        c = IndexedCache(list(case['keys']))
    obs, mix = [], []
    for op in case['ops']:
        try:
            if op[0] == 'ins':
                c.insert(asg(op[1]), op[2])
            elif op[0] == 'chk':
                obs.append('T' if c.check(asg(op[1])) else 'F')
                mix.append(False)
            elif op[0] == 'ret':
                res = list(c.retrieve(asg(op[1])))
                obs.append("[" + ";".join(show_asg(a) + "=" + str(o) for a, o in res) + "]")
                mix.append(mixed(c.cache))
            elif op[0] == 'mg':
                from entity_query_language.symbolic import BinaryOperator
                res = BinaryOperator._most_general_(c.retrieve(asg(op[1])))
                obs.append("[" + ";".join(show_asg(a) + "=" + str(o) for a, o in res) + "]")
                mix.append(mixed(c.cache))
            elif op[0] == 'clr':
                c.clear()
        except Exception as e:
            obs.append('EXC:' + type(e).__name__)
            mix.append(False)
    return dict(obs=obs, mixed=mix)


if __name__ == '__main__':
    payload = json.load(sys.stdin)
    out = {}
    for item in payload['cases']:
        try:
            out[item['n']] = run(item['case'])
        except Exception as e:
            out[item['n']] = dict(obs=['HARNESS-EXC:' + repr(e)], mixed=[])
    json.dump(out, sys.stdout)
