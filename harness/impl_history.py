"""Implementation side of C04 / C07: HISTORIES of evaluations over a pool of queries that share their variables (and, optionally,
their sub-expressions): evaluate fully, take k results then close, evaluate while a user predicate raises at its j-th call.
kind 'lazy1': one variable whose domain is a LOGGING ONE-SHOT ITERATOR; after every step the rows delivered, the number of
elements pulled from the iterator and the number of memoised elements are reported (caching disabled: exact), plus the rows
with caching enabled.  kind 'multi': a pool of multi-variable queries; rows of every step, caching off and on."""
import sys, json, signal, gc
import impl_query as IQ
from impl_query import P, Builder, make_heap, show_val, guarded, BIG, Boom, user_data_intact, rows_of
from entity_query_language import *
from entity_query_language.symbolic import rule_mode
from entity_query_language.cache_data import enable_caching, disable_caching


class LoggingIterator:
    """a one-shot iterator that counts how many elements were pulled from it"""
    def __init__(self, items):
        self.items, self.pulled, self.log = items, 0, []

    def __iter__(self):
        return self

    def __next__(self):
        if self.pulled >= len(self.items):
            raise StopIteration
        v = self.items[self.pulled]
        self.pulled += 1
        self.log.append(v.idx)
        return v


class LazyBuilder(Builder):
    def domain_of(self, k, items):
        it = LoggingIterator(items)
        self.logs = getattr(self, 'logs', {})
        self.logs[k] = it
        return it


KEPT = []


def run_step(q, sel, form, op):
    """returns the list of row strings delivered by this step"""
    index_of = lambda o: o.idx

    def show(r):
        if form == 'infer':
            return ','.join(show_val(getattr(r, f'h{i}'), index_of) for i in range(len(sel)))
        if form == 'entity':
            return show_val(r, index_of)
        return ','.join(show_val(r[s], index_of) for s in sel)
    kind = op[0]
    rows = []
    BIG['calls'], BIG['raise_at'] = 0, None
    IQ.EPOCH['n'] += 1
    if kind == 'full':
        for r in q.evaluate():
            rows.append(show(r))
    elif kind == 'take':
        it = q.evaluate()
        exhausted = False
        try:
            for _ in range(op[2]):
                try:
                    rows.append(show(next(it)))
                except StopIteration:
                    exhausted = True
                    break
        finally:
            if len(op) > 3 and op[3] == 'keep':
                KEPT.append(it)          # abandoned but still REFERENCED: suspended, its finally clause has not run
            else:
                it.close()
        if not exhausted:
            IQ.EPOCH['incomplete'].add(IQ.EPOCH['n'])
    elif kind == 'raise':
        BIG['raise_at'] = op[2]
        try:
            for r in q.evaluate():
                rows.append(show(r))
        except Boom:
            rows.append('!')
            IQ.EPOCH['incomplete'].add(IQ.EPOCH['n'])
        finally:
            BIG['raise_at'] = None
    return rows


def run_lazy1(case):
    res = {}
    for cfg in ('off', 'on'):
        (disable_caching if cfg == 'off' else enable_caching)()
        objs = make_heap(case)
        c2 = dict(case)
        c2['doms'] = [[1, case['dom']]]
        with symbolic_mode():
            b = LazyBuilder(c2, objs)
            x = b.vars[1]
            qs = []
            for qd in case['queries']:
                conds = []
                if qd.get('guard') is not None:
                    conds.append(b.cond(qd['guard']))
                if qd.get('pred'):
                    conds.append(x.big())
                qs.append(an(entity(x, *conds)))
        log = b.logs[1]
        obs = ['p%d' % log.pulled]                      # declaring the variable and building the queries pulls nothing
        for op in case['ops']:
            def step():
                it_rows = run_step(qs[op[1]], [x], 'entity', op)
                return it_rows
            rows = guarded(step)
            if isinstance(rows, str):
                obs.append(rows.replace(' ', '_'))
                continue
            rows = [r for r in rows if r != '!']
            obs.append('[' + ','.join(r[1:] for r in rows) + ']p%dm%d' % (log.pulled, len(x._domain_.values)))
        if log.log != [o.idx for o in log.items[:log.pulled]]:
            obs.append('X pulled-twice')
        if not user_data_intact(case, objs):
            obs.append('X user-data-modified')
        res[cfg] = ' '.join(obs)
        del KEPT[:]
        gc.collect()
    enable_caching()
    return res


def run_multi(case):
    res = {}
    for cfg in ('off', 'on', 'onref'):
        (disable_caching if cfg == 'off' else enable_caching)()
        IQ._cd.IndexedCache.retrieve = IQ._ref_retrieve if cfg == 'onref' else IQ._retrieve
        objs = IQ.with_wrappers(case, make_heap(case))
        IQ.LIST_MODE[0] = bool(case.get('list_items'))
        base = dict(case)
        b = None
        built = []
        try:
            for qd in case['pool']:
                c2 = dict(case)
                c2.update(qd)
                if b is None:
                    with symbolic_mode():
                        b = Builder(c2, objs)
                b.case = c2
                if c2.get('infer'):
                    with rule_mode():
                        built.append(b.query())
                else:
                    with symbolic_mode():
                        built.append(b.query())
        except Exception as e:
            res[cfg] = 'X build:' + type(e).__name__ + ':' + str(e)[:80]
            continue
        obs = []
        IQ.TRACE['mixed'], IQ.TRACE['retrievals'] = False, 0
        IQ.EPOCH['incomplete'], IQ.EPOCH['served_incomplete'] = set(), False
        for op in case['ops']:
            q, sel = built[op[1]]
            form = case['pool'][op[1]].get('form')
            rows = guarded(lambda: run_step(q, sel, form, op))
            obs.append(rows if isinstance(rows, str) else ';'.join(rows))
        if not user_data_intact(case, objs):
            obs.append('X user-data-modified')
        res[cfg] = obs
        del KEPT[:]
        gc.collect()
        if cfg == 'on':
            res['mixed_level_retrieval'] = IQ.TRACE['mixed']
            res['cache_retrievals'] = IQ.TRACE['retrievals']
            res['served_from_incomplete_evaluation'] = IQ.EPOCH['served_incomplete']
    enable_caching()
    IQ._cd.IndexedCache.retrieve = IQ._retrieve
    return res


if __name__ == '__main__':
    payload = json.load(sys.stdin)
    out = {}
    for item in payload['cases']:
        c = item['case']
        try:
            out[item['n']] = run_lazy1(c) if c.get('kind') == 'lazy1' else run_multi(c) if c.get('kind') == 'multi' else IQ.run(c)
        except Exception as e:
            out[item['n']] = dict(off='X harness:' + repr(e)[:200], on='X harness')
    json.dump(out, sys.stdout)
