"""Implementation side of the mode-machine correspondence (C08) and of the ambient-mode triples (C09)."""
import sys, json, gc
from dataclasses import dataclass
from entity_query_language import *
from entity_query_language.symbolic import in_symbolic_mode, SymbolicExpression, Variable, _symbolic_mode
from entity_query_language.enums import EQLMode
from entity_query_language.predicate import Predicate


@symbol
@dataclass(eq=False)
class M:
    a: int


@symbol
@dataclass(eq=False)
class Tag:
    src: object
    level: int = 0


@predicate
def is_big(m):
    return m.a >= 2


@dataclass(eq=False)
class IsBig(Predicate):
    m: object

    def __call__(self):
        return self.m.a >= 2


@dataclass(eq=False)
class Probe(Predicate):
    """a user predicate that itself builds (inside a symbolic block of its own) and evaluates a query"""
    m: object

    def __call__(self):
        with symbolic_mode():
            y = let(M, domain=[self.m])
            inner = an(entity(y, y.a >= 0))
        return len(list(inner.evaluate())) == 1


def clear_registry():
    for c in Variable._cache_.values():
        c.clear()
    Variable._cache_.clear()


def build_query(case, objs):
    kind, quant = case['pred'], case['quant']
    level = case.get('level', 1)
    with (rule_mode() if kind in ('infer', 'kw') else symbolic_mode()):
        x = let(M, domain=objs)
        if kind == 'infer':
            return (the if quant == 'the' else infer)(entity(Tag(src=x, level=level), x.a >= 2))
        if kind == 'kw':
            # a rule variable given by keyword only, no domain: the registered M instances with that field value
            m = M(a=level + 1)
            return (the if quant == 'the' else infer)(entity(Tag(src=m, level=level), m.a >= 2))
        cond = {'function': lambda: is_big(x), 'class': lambda: IsBig(m=x), 'cmp': lambda: x.a >= 2,
                'nested': lambda: and_(Probe(m=x), IsBig(m=x))}[kind]()
        return (the if quant == 'the' else an)(entity(x, cond))


def observe(x):
    mode = _symbolic_mode.get()
    m = 'N' if mode is None else ('Q' if mode == EQLMode.Query else 'R')
    # cross-check the mode through behaviour: construction and operators
    built = M(a=7)
    concrete = isinstance(built, M)
    try:
        x.a
        rejects = False
    except AttributeError:
        rejects = True
    if (m == 'N') != concrete or (m == 'N') != rejects or (m != 'N') != in_symbolic_mode():
        m += '!'          # behaviour and mode variable disagree
    return m + str(len(SymbolicExpression._symbolic_expression_stack_))


def run_history(case):
    objs = [M(1), M(2), M(3)]
    with symbolic_mode():
        x = let(M, domain=objs)
        qs = [an(entity(xi := let(M, domain=objs), xi.a >= 2)) for _ in range(3)]      # two rows each
        # iterator 1: every advance runs a predicate that opens a block of its own and evaluates a query there (nested evaluate())
        qs[1] = an(entity(xn := let(M, domain=objs), and_(xn.a >= 2, Probe(m=xn))))
        blockq = an(entity(let(M, domain=objs)))
        # the(...) queries with exactly one, no and several solutions
        thes = {'one': the(entity(t1 := let(M, domain=objs), t1.a >= 3)), 'none': the(entity(t0 := let(M, domain=objs), t0.a >= 4)),
                'many': the(entity(t2 := let(M, domain=objs), t2.a >= 2))}
    SymbolicExpression._symbolic_expression_stack_.clear()
    cms, its, out = [], {}, []
    for op in case['ops']:
        k = op[0]
        try:
            if k == 'enter':
                b = op[1]
                cm = {'query': lambda: symbolic_mode(), 'rule': lambda: rule_mode(), 'rule_q': lambda: rule_mode(blockq),
                      'with_q': lambda: blockq}[b]()
                cm.__enter__()
                cms.append(cm)
            elif k == 'leave':
                if cms:
                    cms.pop().__exit__(None, None, None)
            elif k == 'raise':
                if cms:
                    cm = cms.pop()
                    try:
                        raise KeyError('boom')
                    except KeyError as e:
                        try:
                            cm.__exit__(KeyError, e, e.__traceback__)
                        except KeyError:
                            pass
            elif k == 'the':
                from entity_query_language.failures import MultipleSolutionFound, NoSolutionFound
                try:
                    thes[op[1]].evaluate()
                except (MultipleSolutionFound, NoSolutionFound):
                    pass
            elif k == 'create':
                its[op[1]] = qs[op[1]].evaluate()
            elif k == 'next':
                try:
                    next(its[op[1]])
                except StopIteration:
                    pass
            elif k == 'close':
                its[op[1]].close()
            elif k == 'drop':
                del its[op[1]]
                gc.collect()
        except Exception as e:
            out.append('EXC:' + type(e).__name__)
            continue
        out.append(observe(x))
    # leave everything so that the next case starts clean
    while cms:
        try:
            cms.pop().__exit__(None, None, None)
        except Exception:
            pass
    its.clear()
    gc.collect()
    _symbolic_mode.set(None)
    SymbolicExpression._symbolic_expression_stack_.clear()
    return dict(obs=out)


def run_ambient(case):
    """C09: one query evaluated under each ambient mode; outcome must not depend on it"""
    kind, quant = case['pred'], case['quant']
    res = {}
    for amb in ('none', 'query', 'rule', 'query_q', 'rule_q'):
        clear_registry()
        objs = [M(a) for a in case['values']]
        q = build_query(case, objs)
        if amb.endswith('_q'):
            # a block opened FOR ANOTHER QUERY: besides the mode, that query's expression is on the expression stack
            with symbolic_mode():
                other = an(entity(let(M, domain=objs)))
        cm = {'none': None, 'query': symbolic_mode, 'rule': rule_mode, 'query_q': lambda: symbolic_mode(other),
              'rule_q': lambda: rule_mode(other)}[amb]
        try:
            if cm:
                with cm():
                    r = q.evaluate()
                    r = [r] if quant == 'the' else list(r)
            else:
                r = q.evaluate()
                r = [r] if quant == 'the' else list(r)
            def show(v):
                if isinstance(v, M):
                    return 'm%d' % objs.index(v)
                if isinstance(v, Tag):
                    return 'tag(%s,%s)' % (show(v.src), v.level)
                return type(v).__name__
            res[amb] = 'R ' + ';'.join(show(v) for v in r)
        except Exception as e:
            res[amb] = 'X ' + type(e).__name__
        _symbolic_mode.set(None)
    # the results of ONE evaluation drawn partly outside and partly inside a block (an / infer only)
    for sched in ('split_oi', 'split_io'):
        if quant == 'the':
            res[sched] = res['none']
            continue
        clear_registry()
        objs = [M(a) for a in case['values']]
        q = build_query(case, objs)

        def show(v):
            if isinstance(v, M):
                return 'm%d' % objs.index(v)
            if isinstance(v, Tag):
                return 'tag(%s,%s)' % (show(v.src), v.level)
            return type(v).__name__
        try:
            it = q.evaluate()
            r = []
            if sched == 'split_oi':
                try:
                    r.append(next(it))
                    with symbolic_mode():
                        r += list(it)
                except StopIteration:
                    pass
            else:
                try:
                    with symbolic_mode():
                        r.append(next(it))
                    r += list(it)
                except StopIteration:
                    pass
            res[sched] = 'R ' + ';'.join(show(v) for v in r)
        except Exception as e:
            res[sched] = 'X ' + type(e).__name__
        _symbolic_mode.set(None)
    return res


if __name__ == '__main__':
    payload = json.load(sys.stdin)
    out = {}
    for item in payload['cases']:
        try:
            c = item['case']
            out[item['n']] = run_ambient(c) if 'pred' in c else run_history(c)
        except Exception as e:
            out[item['n']] = dict(obs=['HARNESS-EXC:' + repr(e)])
    json.dump(out, sys.stdout)
