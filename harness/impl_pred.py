"""Implementation side of C13: every case is built (a) in predicate form T(From(d), positional..., f=v...) and (b) in the
explicit form x = let(T, d); x.f == v ..., through the public API, over a class hierarchy created for the case."""
import sys, json, signal, inspect
from dataclasses import make_dataclass, field
from typing import Any
from entity_query_language import *
from entity_query_language.symbolic import From, Variable
from entity_query_language.cache_data import enable_caching, disable_caching
import operator

PYOPS = {'==': operator.eq, '!=': operator.ne}


class Timeout(Exception):
    pass


def _alarm(*a):
    raise Timeout()


def make_classes(spec, tag):
    classes = []
    for c, cs in enumerate(spec):
        fields = []
        for j in range(cs['own'] + 1):
            if j in cs.get('hidden', []):
                fields.append((f'c{c}h{j}', Any, field(default=7, init=False)))      # an attribute, not a constructor parameter
            if j < cs['own']:
                fields.append((f'c{c}f{j}', Any, field(default=None, kw_only=(j in cs.get('kwonly', [])))))   # keyword-only: after the positional ones in the signature
        bases = (classes[cs['parent']],) if cs['parent'] is not None else ()
        # cs['falsy']: the instances are FALSY objects (a user __bool__): a single one given as a domain is still that domain
        cls = make_dataclass(f'K{tag}_{c}', fields, bases=bases, eq=False,
                             namespace={'__bool__': (lambda self: False)} if cs.get('falsy') else None)
        if cs['decorated'] or cs['parent'] is None:
            cls = symbol(cls)
        classes.append(cls)
    return classes


def sig(cls):
    return list(inspect.signature(cls.__init__).parameters.keys())[1:]


def make_heap(case, classes):
    objs = []
    for i, o in enumerate(case['heap']):
        ob = classes[o['cls']]()
        ob._idx = i
        objs.append(ob)
    for i, o in enumerate(case['heap']):
        names = sig(classes[o['cls']])
        for n, v in zip(names, o['fields']):
            setattr(objs[i], n, objs[v['o']] if isinstance(v, dict) else v)
    return objs


class B:
    def __init__(self, case, classes, objs, form, lists=None, phase=1):
        self.case, self.classes, self.objs, self.form = case, classes, objs, form
        self.handles, self.cls_of_key = {}, {}
        # case['edited']: every domain is ONE list object per term, first filled with other members (phase 0: an earlier query is built
        # over it), then edited in place to the members of the case (phase 1: the query that is compared)
        self.lists, self.phase = lists, phase

    def domain(self, p):
        if p.get('single'):
            return self.objs[p['d'][0]]              # a single value as the domain
        if self.lists is None:
            return [self.objs[i] for i in p['d']]
        if p['x'] not in self.lists:
            self.lists[p['x']] = [self.objs[i] for i in p.get('d0', p['d'])]
        return self.lists[p['x']]

    def const(self, v):
        return self.objs[v['o']] if isinstance(v, dict) else v

    def ref(self, t):
        if t[0] == 'var':
            return self.handles[t[1]]
        if t[0] == 'map':
            base = self.ref(t[2])
            k = t[2][1]
            return getattr(base, sig(self.classes[self.cls_of_key[k]])[t[1][1]])
        if t[0] == 'lit':
            return self.const(t[1])
        raise ValueError(t)

    def value(self, v):
        if v[0] == 'const':
            return self.const(v[1])
        if v[0] == 'ref':
            return self.ref(v[1])
        return self.term(v[1], top=False)

    def term(self, p, top):
        cls = self.classes[p['T']]
        dom = self.domain(p)
        self.cls_of_key[p['x']] = p['T']
        names = sig(cls)
        if self.form == 'pred':
            pos = [self.value(a[1]) for a in p['args'] if a[0] == 'pos']
            kw = {names[a[1]]: self.value(a[2]) for a in p['args'] if a[0] == 'kw'}
            if self.case.get('shared_from'):
                # ONE From object is the source of every term of the case
                if not hasattr(self, 'shared'):
                    self.shared = From(dom)
                src = self.shared
            else:
                src = From(dom)
            h = cls(src, *pos, **kw)
            self.handles[p['x']] = h
            return h
        # explicit form
        # (half of the variables are declared with a name: let(T, d, name=...) is the same variable)
        x = let(cls, dom, name=f'v{p["x"]}') if p['x'] % 2 else let(cls, dom)
        self.handles[p['x']] = x
        conds, k = [], 0
        for a in p['args']:
            if a[0] == 'pos':
                conds.append(getattr(x, names[k]) == self.value(a[1]))
                k += 1
            else:
                conds.append(getattr(x, names[a[1]]) == self.value(a[2]))
        if top:
            self.top_conds += conds
            return x
        return an(entity(x, *conds)) if conds else x

    def cond(self, c):
        if c[0] == 'cmp':
            return PYOPS[c[1]](self.ref(c[2]), self.ref(c[3]))
        raise ValueError(c)

    def query(self):
        self.top_conds = []
        tops = [self.term(p, top=True) for p in self.case['terms']]
        extra = [self.cond(c) for c in self.case['extra']]
        by_key = {p['x']: t for p, t in zip(self.case['terms'], tops)}
        sel = [by_key[k] for k in self.case['sel']]
        if len(sel) == 1 and len(tops) == 1 and self.case.get('quant_form') == 'entity':
            return an(entity(sel[0], *self.top_conds, *extra)), sel
        return an(set_of(sel, *self.top_conds, *extra)), sel


def rows_of(q, sel, entity_form):
    out = []
    for r in q.evaluate():
        if entity_form:
            out.append(f'o{r._idx}')
        else:
            out.append(','.join(f'o{r[s]._idx}' for s in sel))
    return 'R ' + ';'.join(out)


def guarded(f):
    signal.signal(signal.SIGALRM, _alarm)
    signal.alarm(10)
    try:
        return f()
    except Timeout:
        return 'X Timeout'
    except Exception as e:
        return 'X ' + type(e).__name__ + ':' + str(e)[:60]
    finally:
        signal.alarm(0)


COUNTER = [0]


def run(case):
    res = {}
    COUNTER[0] += 1
    classes = make_classes(case['classes'], COUNTER[0])
    for form, cfg in (('pred', 'off'), ('pred', 'on'), ('explicit', 'off')):
        (disable_caching if cfg == 'off' else enable_caching)()
        objs = make_heap(case, classes)
        if case.get('clear_registry'):
            for c in Variable._cache_.values():
                c.clear()
            Variable._cache_.clear()

        lists = {} if case.get('edited') else None

        def all_terms(ps):
            for p in ps:
                yield p
                for a in p['args']:
                    v = a[-1]
                    if v[0] == 'nest':
                        yield from all_terms([v[1]])

        def build():
            if lists is not None:
                # an EARLIER query over the same list objects (built, and half of the time evaluated), then the lists are edited in place
                with symbolic_mode():
                    q0, _ = B(case, classes, objs, form, lists, 0).query()
                if case['edited'] == 'evaluated':
                    try:
                        list(q0.evaluate())
                    except Exception:
                        pass
                for p in all_terms(case['terms']):
                    if p['x'] in lists:
                        lists[p['x']][:] = [objs[i] for i in p['d']]
            with symbolic_mode():
                return B(case, classes, objs, form, lists, 1).query()
        key = form + '_' + cfg
        try:
            q, sel = build()
        except Exception as e:
            res[key] = 'X build:' + type(e).__name__ + ':' + str(e)[:60]
            continue
        ef = type(q._child_).__name__ == 'Entity'
        res[key] = guarded(lambda: rows_of(q, sel, ef))
        res[key + '2'] = guarded(lambda: rows_of(q, sel, ef))
    enable_caching()
    for c in Variable._cache_.values():
        c.clear()
    Variable._cache_.clear()
    return res


if __name__ == '__main__':
    payload = json.load(sys.stdin)
    out = {}
    for item in payload['cases']:
        try:
            out[item['n']] = run(item['case'])
        except Exception as e:
            out[item['n']] = dict(pred_off='X harness:' + repr(e)[:200])
    json.dump(out, sys.stdout)
