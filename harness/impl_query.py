"""Implementation side of the query-family correspondence: builds each case through the PUBLIC API only and
observes the rows, with caching disabled and enabled, first evaluation and re-evaluation."""
import sys, json, operator, signal, gc
from entity_query_language.symbolic import SymbolicExpression
from dataclasses import dataclass, field
from typing import Optional, Any
from entity_query_language import *
from entity_query_language.entity import for_all, flatten, concatenate
from entity_query_language.symbolic import rule_mode
from entity_query_language.cache_data import enable_caching, disable_caching
from qcase import FIELDS, show_val

PYOPS = {'==': operator.eq, '!=': operator.ne, '<': operator.lt, '<=': operator.le, '>': operator.gt, '>=': operator.ge}


class Boom(Exception):
    pass


BIG = {'calls': 0, 'raise_at': None}


@symbol
@dataclass(eq=False)
class P:
    a: int
    b: int = 0
    s: str = ''
    items: tuple = ()
    n: Optional[int] = None
    f: bool = False
    pair: tuple = (0, 0)
    peer: Any = None
    idx: int = -1
    groups: tuple = ()
    dmap: dict = field(default_factory=dict)

    def big(self):
        # a user predicate that can be told to raise at its j-th call (C04: evaluations aborted by an exception from user code)
        BIG['calls'] += 1
        if BIG['raise_at'] is not None and BIG['calls'] == BIG['raise_at']:
            raise Boom()
        return self.a >= 2

    def __repr__(self):
        return f"P#{self.idx}"


class PE(P):
    """objects that compare EQUAL by value (a, b) although they are different objects: two of them are two solutions"""
    def __eq__(self, other):
        return isinstance(other, P) and (self.a, self.b) == (other.a, other.b)

    __hash__ = None


class PF(P):
    """objects that are FALSY (a user __bool__): an object is an object, whatever bool() says about it"""
    def __bool__(self):
        return self.a != 0


@symbol
@dataclass(eq=False)
class H:
    """the class a rule head constructs (C11)"""
    h0: Any = None
    h1: Any = None
    h2: Any = None
    h3: Any = None


@symbol
@dataclass(eq=False)
class HUnset:
    """a head class whose fields have a default that is NOT None: an argument None is the value None, not 'leave the field open'"""
    h0: Any = 'unset'
    h1: Any = 'unset'
    h2: Any = 'unset'
    h3: Any = 'unset'


@symbol
@dataclass(eq=False)
class HFalsy(H):
    """a head class whose instances are FALSY (a container-like class with __len__): an inferred instance is an instance"""
    def __len__(self):
        return 0


@symbol
@dataclass(eq=False)
class HBase:
    """a base class with a keyword-only field: its position in the field list is not its position in the signature"""
    origin: Any = field(default='base', kw_only=True)


@symbol
@dataclass(eq=False)
class HK(HBase):
    """a rule head whose positional parameters are interleaved with keyword-only ones (C11: positional head arguments)"""
    h0: Any = None
    weight: Any = field(default=7, kw_only=True)
    h1: Any = None
    h2: Any = None
    h3: Any = None


@symbol
@dataclass(eq=False)
class W:
    """a class whose registered instances a NESTED constructor argument of a rule head ranges over (C11)"""
    w: Any = None
    idx: int = -1


class Timeout(Exception):
    pass


# ---- run-time wrapping (no source hook): did a cache retrieval visit a level of the index that holds both the
# wildcard and a concrete key?  That is the signature of known finding C20-wildcard-preference (DESIGN.md 5.5).
@predicate
def same(v):
    """a @predicate function used as a VALUE: its result is passed on whatever it is"""
    return v


from entity_query_language import cache_data as _cd
from entity_query_language.utils import All as _All
TRACE = {'mixed': False, 'retrievals': 0}
_orig_retrieve = _cd.IndexedCache.retrieve


def _retrieve(self, assignment=None, cache=None, key_idx=0, result=None, from_index=True):
    node = self.cache if cache is None else cache
    if from_index and isinstance(node, _cd.CacheDict) and len(node) > 1 and any(k is _All for k in node.keys()):
        TRACE['mixed'] = True
    if cache is None:
        TRACE['retrievals'] += 1
        if from_index:
            _note_read(self)
    return _orig_retrieve(self, assignment, cache, key_idx, result, from_index)


_cd.IndexedCache.retrieve = _retrieve

# ---- provenance of cache contents (no source hook): which evaluation (epoch) filled a cache, and was a cache that an evaluation
# which did NOT run to completion had filled ever read afterwards?  (The library drops the operator caches of such an evaluation;
# a cached row loss is attributed to known finding C05-wildcard-retrieval only if this never happened.)
EPOCH = {'n': 0, 'incomplete': set(), 'served_incomplete': False}
_orig_insert, _orig_clear = _cd.IndexedCache.insert, _cd.IndexedCache.clear


def _insert(self, assignment, output, index=True):
    self.__dict__.setdefault('_verif_epochs_', set()).add(EPOCH['n'])
    return _orig_insert(self, assignment, output, index)


def _clear(self):
    self.__dict__['_verif_epochs_'] = set()
    return _orig_clear(self)


_cd.IndexedCache.insert, _cd.IndexedCache.clear = _insert, _clear


def _note_read(cache):
    if cache.__dict__.get('_verif_epochs_', set()) & EPOCH['incomplete']:
        EPOCH['served_incomplete'] = True


def _ref_retrieve(self, assignment=None, cache=None, key_idx=0, result=None, from_index=True):
    """REFERENCE retrieval used only as a control for known finding C05-wildcard-retrieval: every stored entry compatible with the
    lookup (a stored key is compatible if it is the wildcard, or the lookup leaves it open, or the values are equal)"""
    if not from_index:
        yield from _orig_retrieve(self, assignment, cache, key_idx, result, from_index)
        return
    keys = self.keys
    assignment = assignment or {}

    def walk(node, idx, path):
        if idx == len(keys):
            yield path, node
            return
        if not isinstance(node, _cd.CacheDict):
            return
        for k, v in list(node.items()):
            yield from walk(v, idx + 1, path + [k])
    for path, leaf in walk(self.cache, 0, []):
        if all(p is _All or key not in assignment or assignment[key] == p for key, p in zip(keys, path)):
            res = dict(assignment)
            for key, p in zip(keys, path):
                if p is not _All and key not in res:
                    res[key] = p
            yield res, leaf


def _alarm(*a):
    raise Timeout()


def make_heap(case):
    seq = list if case.get('list_items') else tuple          # inner collections as (mutable) lists or as tuples
    nest = lambda g: seq(seq(x) if isinstance(x, list) else x for x in g)       # a collection of collections (and scalars)
    cls = PE if case.get('value_equal') else PF if case.get('falsy_objects') else P
    if case.get('registry_var') is not None:
        # one variable is declared WITHOUT a domain: it ranges over the registered instances - exactly this case's objects, which are
        # constructed under the caching configuration the case is then evaluated under
        from entity_query_language.symbolic import Variable
        for c_ in Variable._cache_.values():
            c_.clear()
        Variable._cache_.clear()
    objs = [cls(a=o[0], b=o[1], s=o[2], items=seq(o[3]), n=o[4], f=o[5], pair=tuple(o[6]), idx=i,
              groups=nest(o[9]) if len(o) > 9 else (), dmap=dict.fromkeys(o[10]) if len(o) > 10 else {})
            for i, o in enumerate(case['heap'])]
    for i, o in enumerate(case['heap']):
        objs[i].peer = objs[o[7]['o']]
    return objs


def with_wrappers(case, objs):
    """the registry of W holds exactly this case's wrappers, in this order (C11: nested constructor arguments)"""
    if case.get('wrappers') is None:
        return objs
    from entity_query_language.symbolic import Variable
    for c_ in Variable._cache_.values():
        c_.clear()
    Variable._cache_.clear()
    return objs + [W(w=pyval(w, objs), idx=len(objs) + j) for j, w in enumerate(case['wrappers'])]


def user_data_intact(case, objs):
    """evaluation must never modify the user's objects or collections (C04)"""
    for o, d in zip(objs, case['heap']):
        if (o.a, o.b, o.s, list(o.items), o.n, o.f, list(o.pair)) != (d[0], d[1], d[2], list(d[3]), d[4], d[5], list(d[6])) \
                or o.peer is not objs[d[7]['o']]:
            return False
        if len(d) > 9 and [list(x) if isinstance(x, (list, tuple)) else x for x in o.groups] != d[9]:
            return False
        if len(d) > 10 and list(o.dmap) != d[10]:
            return False
    return True


LIST_MODE = [False]


def pyval(v, objs):
    if isinstance(v, list):
        return (list if LIST_MODE[0] else tuple)(pyval(x, objs) for x in v)
    if isinstance(v, dict):
        return objs[v['o']]
    return v


def sub_terms(t):
    yield t
    if t[0] in ('map', 'flat', 'concat'):
        yield from sub_terms(t[2])
    elif t[0] == 'subq':
        yield from sub_terms(t[3])


def sub_conds_of(c):
    yield c
    if c[0] in ('and', 'or'):
        yield from sub_conds_of(c[1])
        yield from sub_conds_of(c[2])
    elif c[0] == 'not':
        yield from sub_conds_of(c[1])
    elif c[0] in ('forall', 'sub'):
        yield from sub_conds_of(c[2])


def sub_terms_of_cond(c):
    for x in sub_conds_of(c):
        if x[0] == 'cmp':
            yield from sub_terms(x[2])
            yield from sub_terms(x[3])
        elif x[0] in ('in', 'contains'):
            yield from sub_terms(x[1])
            yield from sub_terms(x[2])
        elif x[0] == 'truth':
            yield from sub_terms(x[1])


class Builder:
    def __init__(self, case, objs):
        self.case, self.objs = case, objs
        self.vars, self.flats, self.concats = {}, {}, {}
        self.memo = {} if case.get('share_terms') else None        # one expression OBJECT per distinct term (shared by the pool)
        self.used = set()
        for k, d in case['doms']:
            if k == case.get('registry_var'):
                self.vars[k] = let(type(objs[0]), name=f'v{k}')          # no domain: the registry
                continue
            self.vars[k] = let(P, domain=self.domain_of(k, [objs[i] for i in d]), name=f'v{k}')
        for k, c in case.get('dom_filters', []):
            # the variable is used through a nested query over it: an(entity(x, c))
            self.vars[k] = an(entity(self.vars[k], self.cond(c)))

    def domain_of(self, k, items):
        return items

    def term(self, t, fresh=False):
        k = t[0]
        if k == 'lit':
            return pyval(t[1], self.objs)
        if k == 'subq':
            # t[3] (a term over variable t[1]) read off the sub-query an(entity(variable, cond)); the quantifier object is used here only
            sub = (the if len(t) > 4 and t[4] == 'the' else an)(entity(self.vars[t[1]], self.cond(t[2])))
            saved = self.vars[t[1]]
            self.vars[t[1]] = sub
            try:
                return self.term(t[3], fresh=True)
            finally:
                self.vars[t[1]] = saved
        if k == 'var':
            return self.vars[t[1]]
        if k == 'map' and self.case.get('same_object') == t and not fresh:
            # (rules only) ONE expression object for the bare condition of the body and a field of the head: flag = x.f;
            # infer(entity(T(..., ok=flag), flag, ...))
            if not hasattr(self, '_same'):
                self._same = self.term(t, fresh=True)
            return self._same
        if k == 'map':
            key = json.dumps(t)
            # an expression OBJECT is shared between the queries of a pool, never between two positions of ONE query (a node
            # holds its evaluation state: two live evaluations of the same node inside one query are outside the model)
            if self.memo is not None and key in self.memo and not fresh and key not in self.used:
                self.used.add(key)
                return self.memo[key]
            base = self.term(t[2])
            if t[1][0] == 'i':
                r = base[t[1][1]]
            elif t[1][0] == 'p':
                r = same(base)
            else:
                name = FIELDS[t[1][1]]
                r = getattr(base, name[:-2])() if name.endswith('()') else getattr(base, name)
            if self.memo is not None and not fresh and key not in self.memo:
                self.memo[key] = r
                self.used.add(key)
            return r
        if k == 'flat':
            if t[1] not in self.flats:
                self.flats[t[1]] = flatten(self.term(t[2]))
            return self.flats[t[1]]
        if k == 'concat':
            if t[1] not in self.concats:
                self.concats[t[1]] = concatenate(self.term(t[2]))
            return self.concats[t[1]]
        if k == 'nest':
            return W(w=self.term(t[2]))              # built in rule mode: a variable over the registered W instances with w == t
        raise ValueError(t)

    def cond(self, c, negated=False):
        # with share_conds a (not negated) disjunction / conjunction OBJECT built for one query of the pool is used by the next
        # query that contains the same sub-condition (once per query)
        if self.memo is not None and self.case.get('share_conds') and not negated and c[0] in ('or', 'and'):
            key = 'C' + json.dumps(c)
            if key in self.memo and key not in self.used:
                self.used.add(key)
                # the expression objects inside the shared operator are now part of this query too
                self.used |= {json.dumps(t) for t in sub_terms_of_cond(c)} | {'C' + json.dumps(x) for x in sub_conds_of(c)}
                return self.memo[key]
            r = self._cond(c, negated)
            if key not in self.memo:
                self.memo[key] = r
                self.used.add(key)
            return r
        return self._cond(c, negated)

    def _cond(self, c, negated=False):
        k = c[0]
        if k == 'cmp':
            return PYOPS[c[1]](self.term(c[2]), self.term(c[3]))
        if k == 'in':
            return in_(self.term(c[1]), self.term(c[2]))
        if k == 'contains':
            return contains(self.term(c[1]), self.term(c[2]))
        if k == 'truth':
            # not_ inverts a condition node IN PLACE: an expression that is negated is never the object another position uses
            # (DESIGN.md 3.2: shared NEGATED condition nodes are outside the model); un-negated ones are shared like any term
            return self.term(c[1], fresh=negated)
        if k in ('and', 'or'):
            style = c[3] if len(c) > 3 else 'fn'
            # a left-nested chain of the same connective may be written as one n-ary call
            if style == 'chain':
                parts, node = [], c
                while node[0] == k and (node is c or (len(node) > 3 and node[3] == 'chain')):
                    parts.append(node[2])
                    node = node[1]
                parts.append(node)
                parts.reverse()
                built = [self.cond(p, negated) for p in parts]
                return and_(*built) if k == 'and' else or_(*built)
            l, r = self.cond(c[1], negated), self.cond(c[2], negated)
            # (the operators & | ~ of a Python constant are Python's own: a constant operand is always passed to and_ / or_ / not_)
            if style == 'op' and isinstance(l, SymbolicExpression) and isinstance(r, SymbolicExpression):
                return (l & r) if k == 'and' else (l | r)
            return and_(l, r) if k == 'and' else or_(l, r)
        if k == 'not':
            x = self.cond(c[1], True)
            return ~x if (len(c) > 2 and c[2] == 'op' and isinstance(x, SymbolicExpression)) else not_(x)
        if k == 'forall':
            return for_all(self.term(c[3]) if len(c) > 3 else self.vars[c[1]], self.cond(c[2], negated))
        if k == 'sub':
            sel = [self.term(t) for t in c[1]]
            body = self.cond(c[2], negated)
            if len(c) > 3 and c[3] == 'the':
                return the(entity(sel[0], body))            # the(...) in condition position (at most one solution by construction)
            return an(entity(sel[0], body)) if len(sel) == 1 else an(set_of(sel, body))
        raise ValueError(c)

    def query(self):
        case = self.case
        self.used = set()
        if self.memo is not None and case.get('share_conds') and case.get('cond') is not None:
            # an operator object of an earlier query that this query will reuse brings its expression objects along: they are
            # not available for another position of this query
            for x in sub_conds_of(case['cond']):
                if x[0] in ('or', 'and') and 'C' + json.dumps(x) in self.memo:
                    self.used |= {json.dumps(t) for t in sub_terms_of_cond(x)}
        sel = [self.term(t) for t in case['sel']]
        conds = []
        if case['cond'] is not None:
            c = case['cond']
            # several conditions passed to entity()/set_of() = their conjunction
            if c[0] == 'and' and len(c) > 3 and c[3] == 'args':
                conds = [self.cond(c[1]), self.cond(c[2])]
            else:
                conds = [self.cond(c)]
        if case.get('infer'):
            # infer(entity(H(h0=e0, ...), conditions)): the selected expressions of the case are the constructor arguments
            from entity_query_language.entity import infer
            style = case.get('head_style', 'kw')
            if style == 'kw':
                head = (HFalsy if case.get('falsy_head') else HUnset if case.get('unset_head') else H)(**{f'h{i}': s_ for i, s_ in enumerate(sel)})
            elif style == 'pos':
                head = HK(*sel)                              # positional arguments, keyword-only parameters in between
            else:
                head = HK(sel[0], weight=3, **{f'h{i}': s_ for i, s_ in enumerate(sel) if i > 0})
            return infer(entity(head, *conds)), sel
        quant = the if case.get('quant') == 'the' else an
        if case.get('form') == 'pred':
            # predicate form handed to the quantifier directly: quant(P(From(domain), f=v, ...))
            c = case['cond']
            eqs = [c] if c[0] == 'cmp' else [c[1], c[2]]
            k = case['sel'][0][1]
            dom = next(d for kk, d in case['doms'] if kk == k)
            kwargs = {FIELDS[e[2][1][1]]: pyval(e[3][1], self.objs) for e in eqs}
            return quant(P(From(self.domain_of(k, [self.objs[i] for i in dom])), **kwargs)), sel
        if case.get('form') == 'entity':
            return quant(entity(sel[0], *conds)), sel
        return quant(set_of(sel, *conds)), sel


def rows_of(q, sel, form, objs, quant=None):
    index_of = lambda o: o.idx
    out = []
    if form == 'infer':
        made = list(q.evaluate())
        if any(type(o) not in (H, HK, HFalsy, HUnset) for o in made) or len({id(o) for o in made}) != len(made):
            return 'X not-new-instances'
        if any(type(o) is HK and (o.origin != 'base' or o.weight not in (3, 7)) for o in made):
            return 'X not-new-instances'
        for o in made:
            vals = [getattr(o, f'h{i}') for i in range(len(sel))]
            if any(isinstance(v, (P, W)) and v is not objs[v.idx] for v in vals):
                return 'X field-object-copied'
            out.append(','.join(show_val(v, index_of) for v in vals))
        return 'R ' + ';'.join(out)
    res = q.evaluate()
    if quant == 'the':
        res = [res]
    for r in res:
        if form in ('entity', 'pred'):
            out.append(show_val(r, index_of))
        else:
            out.append(','.join(show_val(r[s], index_of) for s in sel))
    return 'R ' + ';'.join(out)


def guarded(f):
    signal.signal(signal.SIGALRM, _alarm)
    signal.alarm(10)
    try:
        return f()
    except Timeout:
        return 'X Timeout'
    except Exception as e:
        return 'X ' + type(e).__name__
    finally:
        signal.alarm(0)


def run(case):
    if 'variant' in case:
        return dict(orig=run(case['orig']), variant=run(case['variant']))
    res = {}
    for cfg in ('off', 'on', 'onref'):
        (disable_caching if cfg == 'off' else enable_caching)()
        # 'onref': caching enabled with the REFERENCE retrieval - a control run, only read when 'on' disagrees (known finding)
        _cd.IndexedCache.retrieve = _ref_retrieve if cfg == 'onref' else _retrieve
        objs = make_heap(case)
        LIST_MODE[0] = bool(case.get('list_items'))
        objs = with_wrappers(case, objs)

        def build():
            if case.get('infer'):
                with rule_mode():
                    return Builder(case, objs).query()
            with symbolic_mode():
                return Builder(case, objs).query()
        try:
            q, sel = build()
        except Exception as e:
            res[cfg] = res[cfg + '2'] = 'X build:' + type(e).__name__
            continue
        TRACE['mixed'], TRACE['retrievals'] = False, 0
        res[cfg] = guarded(lambda: rows_of(q, sel, case.get('form'), objs, case.get('quant')))
        res[cfg + '2'] = guarded(lambda: rows_of(q, sel, case.get('form'), objs, case.get('quant')))
        if not user_data_intact(case, objs):
            res[cfg] = res[cfg + '2'] = 'X user-data-modified'
        if cfg == 'on':
            res['mixed_level_retrieval'] = TRACE['mixed']
            res['cache_retrievals'] = TRACE['retrievals']
    enable_caching()
    _cd.IndexedCache.retrieve = _retrieve
    return res


if __name__ == '__main__':
    payload = json.load(sys.stdin)
    out = {}
    for item in payload['cases']:
        try:
            out[item['n']] = run(item['case'])
        except Exception as e:
            out[item['n']] = dict(off='X harness:' + repr(e), on='X harness', off2='X harness', on2='X harness')
    json.dump(out, sys.stdout)
