"""Implementation side of C14: construction histories over a class forest created for the case; every no-domain query
is compared BY IDENTITY with the harness's own log of constructed objects."""
import sys, json, signal, gc
from dataclasses import dataclass, make_dataclass, field
from typing import Any
from entity_query_language import *
from entity_query_language.symbolic import From, Variable, SymbolicExpression

COUNT = {'init': 0}


class Timeout(Exception):
    pass


def _alarm(*a):
    raise Timeout()


@symbol
@dataclass(eq=False)
class Marker:
    tag: int = 0


def make_classes(spec, tag):
    classes = []
    for c, cs in enumerate(spec):
        parent = classes[cs['parent']] if cs['parent'] is not None else None
        style = cs['style']
        name = f'R{tag}_{c}'
        if style == 'dataclass':
            def post(self):
                COUNT['init'] += 1
            fields = [('f0', Any, field(default=None)), ('f1', Any, field(default=None))] if parent is None else \
                [(f'g{c}', Any, field(default=None))] * cs.get('extra_field', 0)
            cls = make_dataclass(name, fields, bases=(parent,) if parent else (), eq=False,
                                 namespace={'__post_init__': post} if parent is None else {})
        elif style == 'manual':
            def init(self, f0=None, f1=None):
                self.f0, self.f1 = f0, f1
                COUNT['init'] += 1
            cls = type(name, (parent,) if parent else (object,), {'__init__': init})
        else:   # plain: inherits everything
            cls = type(name, (parent,), {})
        if cs['decorated'] or parent is None:
            cls = symbol(cls)
        classes.append(cls)
    return classes


def clear_registry():
    for c in Variable._cache_.values():
        c.clear()
    Variable._cache_.clear()


def declare(K, conditioned):
    """the queried variable, alone or under a condition every instance satisfies (the evaluation then goes through a comparator,
    its caches and the truth-value bookkeeping; the answer is the same)"""
    x = let(K)
    return (x, x.f1 != 99) if conditioned else (x,)


def run(case, tag):
    classes = make_classes(case['classes'], tag)
    clear_registry()
    markers = [Marker(tag=i) for i in range(6)]
    log = []          # every object of the test classes constructed concretely, in creation order
    COUNT['init'] = 0
    out = []
    block = None                       # a symbolic block kept open from 'query_in_block' to the 'symbolic_in_block' that follows it
    # ['query', c, conditioned, 'early']: the variable is DECLARED (and the query built) at the last point before the query at which
    # the registry was empty - the start of the history or right after the latest clear - and evaluated where the op stands
    ops = case['ops']
    pending, declared = {}, {}
    for j, op in enumerate(ops):
        if op[0] == 'query' and len(op) > 3 and op[3] == 'early':
            pending.setdefault(max([i for i in range(j) if ops[i][0] == 'clear'], default=-1), []).append(j)

    def declare_at(p):
        for j in pending.get(p, []):
            with symbolic_mode():
                declared[j] = an(entity(*declare(classes[ops[j][1]], ops[j][2])))
    declare_at(-1)
    for pos, op in enumerate(case['ops']):
        k = op[0]
        res = []
        if block is not None and k != 'symbolic_in_block':          # (a shrunk history: the block is closed by whatever follows)
            block.__exit__(None, None, None)
            block = None
        if k == 'symbolic_in_block' and block is None:
            block = symbolic_mode()
            block.__enter__()
        if k == 'query_in_block':
            K = classes[op[1]]
            block = symbolic_mode()
            block.__enter__()
            q = an(entity(let(K)))
            found = list(q.evaluate())
            idx = {id(o): i for i, o in enumerate(log)}
            res = [idx.get(id(o), 'u') for o in found]
        elif k == 'symbolic_in_block':
            K = classes[op[1]]
            try:
                v = K() if op[2] == 'plain' else K(f0=1)
            finally:
                block.__exit__(None, None, None)
                block = None
            if not isinstance(v, SymbolicExpression):
                res = ['not-symbolic']
                if isinstance(v, K):
                    log.append(v)
        elif k == 'concrete':
            K = classes[op[1]]
            style = op[2]
            o = K(1, 2) if style == 'pos' else K(f0=1) if style == 'kw' else K(f1=2, f0=0) if style == 'kw2' else K()
            log.append(o)
        elif k == 'symbolic':
            K = classes[op[1]]
            style = op[2]
            before = COUNT['init']
            if style == 'rule':
                with rule_mode():
                    v = K(f0=1)
            else:
                with symbolic_mode():
                    v = K() if style == 'plain' else K(f0=1) if style == 'kw' else K(From(list(log)), f1=2)
            if not isinstance(v, SymbolicExpression):
                res = ['not-symbolic']
                if isinstance(v, K):
                    log.append(v)
        elif k == 'infer':
            K = classes[op[1]]
            n = op[2]
            with rule_mode():
                m = let(Marker, domain=markers[:n])
                q = infer(entity(K(f0=m.tag), m.tag >= 0))
            for o in q.evaluate():
                log.append(o)
        elif k == 'clear':
            clear_registry()
            log_visible_from[0] = len(log)
            declare_at(pos)
        elif k == 'qtake':
            # an abandoned no-domain query: k results, then the iterator is closed (or `the` raising on the second result)
            K = classes[op[1]]
            idx = {id(o): i for i, o in enumerate(log)}
            if op[3] == 'the':
                from entity_query_language import the
                from entity_query_language.failures import MultipleSolutionFound, NoSolutionFound
                with symbolic_mode():
                    q = the(entity(*declare(K, len(op) > 4 and op[4])))
                try:
                    r = q.evaluate()
                    res = [idx.get(id(r), 'u')]
                except MultipleSolutionFound:
                    res = ['many']
                except NoSolutionFound:
                    res = []
            else:
                with symbolic_mode():
                    q = an(entity(*declare(K, len(op) > 4 and op[4])))
                it = q.evaluate()
                found = []
                try:
                    for _ in range(op[2]):
                        try:
                            found.append(next(it))
                        except StopIteration:
                            break
                finally:
                    it.close()
                res = [idx.get(id(o), 'u') for o in found]
        elif k == 'query':
            K = classes[op[1]]
            if pos in declared:
                q = declared[pos]
            else:
                with symbolic_mode():
                    q = an(entity(*declare(K, len(op) > 2 and op[2])))
            found = list(q.evaluate())
            idx = {id(o): i for i, o in enumerate(log)}
            res = [idx.get(id(o), 'u') for o in found]
        out.append('[' + ','.join(str(x) for x in res) + ']n' + str(COUNT['init']))
    if block is not None:
        block.__exit__(None, None, None)
    clear_registry()
    return ' '.join(out)


log_visible_from = [0]


def guarded(f):
    signal.signal(signal.SIGALRM, _alarm)
    signal.alarm(20)
    try:
        return f()
    except Timeout:
        return 'X Timeout'
    except Exception as e:
        return 'X ' + type(e).__name__ + ':' + str(e)[:80]
    finally:
        signal.alarm(0)


if __name__ == '__main__':
    payload = json.load(sys.stdin)
    out = {}
    for j, item in enumerate(payload['cases']):
        out[item['n']] = guarded(lambda: run(item['case'], j))
    json.dump(out, sys.stdout)
