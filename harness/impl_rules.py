"""Implementation side of C12: a rule program (nested with-blocks of refinement / alternative, every block starting with an
Add conclusion) is built through the public API over one rule variable; observed: the operator tree the implementation
holds (left / right from the conditions root) and the (item, conclusion) rows, caching off and on, evaluated twice."""
import sys, json, signal
from dataclasses import dataclass
from typing import Any
from entity_query_language import *
from entity_query_language.conclusion import Add
from entity_query_language.entity import infer
from entity_query_language.rule import refinement, alternative
from entity_query_language.symbolic import rule_mode, symbolic_mode, Variable
from entity_query_language.conclusion_selector import ExceptIf, Alternative
from entity_query_language.cache_data import enable_caching, disable_caching


@symbol
@dataclass(eq=False)
class Item:
    b0: int = 0
    b1: int = 0
    b2: int = 0
    b3: int = 0
    idx: int = 0


@symbol
@dataclass(eq=False)
class View:
    pass


@symbol
@dataclass(eq=False)
class Label(View):
    item: Any = None
    tag: int = 0


@symbol
@dataclass(eq=False)
class PairLabel(View):
    item: Any = None
    other: Any = None
    tag: int = 0


class Timeout(Exception):
    pass


def _alarm(*a):
    raise Timeout()


def clear_registry():
    for c in Variable._cache_.values():
        c.clear()
    Variable._cache_.clear()


def build(case):
    two = case.get('two')
    if two:
        # TWO rule variables: a match is an ASSIGNMENT (x, y); bits 0-1 are attributes of x, bits 2-3 of y, bit 4 is the join x.b0 == y.b2
        xs = [Item(*bits, idx=i) for i, bits in two['xs']]
        ys = [Item(*bits, idx=i) for i, bits in two['ys']]
        x, y = let(Item, xs), let(Item, ys)
    else:
        items = [Item(*bits, idx=i) for i, bits in case['dom']]
        x = let(Item, items)

    def cexpr(b, v):
        if not two or b < 2:
            return getattr(x, f'b{b}') == v
        if b < 4:
            return getattr(y, f'b{b}') == v
        return (x.b0 == y.b2) if v else (x.b0 != y.b2)

    def cexprs(n):
        return [cexpr(b, v) for b, v in n['cond']]
    base = case['prog']
    with symbolic_mode():
        q = infer(views := let(type_=View), *cexprs(base))

    def stmts(body):
        for k, c in body:
            with (refinement if k == 'ref' else alternative)(*cexprs(c)):
                block(c)

    def conclusion(tag):
        return PairLabel(item=x, other=y, tag=tag) if two else Label(item=x, tag=tag)

    def block(n):
        Add(views, conclusion(n['tag']))
        stmts(n['body'])
    # case['splits']: the tree is GROWN - the statements of the base block are written in several `with rule_mode(q)` blocks and
    # the rule is evaluated in between (the way ripple-down rules are maintained)
    cuts = [0] + list(case.get('splits') or []) + [len(base['body'])] if case.get('splits') is not None else None
    if cuts is None:
        with rule_mode(q):
            block(base)
    else:
        with rule_mode(q):
            Add(views, conclusion(base['tag']))
            stmts(base['body'][:cuts[1]])
        for a, b in zip(cuts[1:], cuts[2:]):
            for _ in q.evaluate():
                pass
            with rule_mode(q):
                stmts(base['body'][a:b])
    # case['later']: further sessions, ONE statement each, the rule evaluated in between
    for k, c in case.get('later') or []:
        for _ in q.evaluate():
            pass
        with rule_mode(q):
            stmts([[k, c]])
    return q


def tree_of(node):
    if isinstance(node, ExceptIf):
        return 'E(' + tree_of(node.left) + ',' + tree_of(node.right) + ')'
    if isinstance(node, Alternative):
        return 'A(' + tree_of(node.left) + ',' + tree_of(node.right) + ')'
    tags = sorted(c.value._kwargs_['tag'] for c in node._conclusion_)
    return 'L' + '+'.join(str(t) for t in tags) if tags else 'L?'


def guarded(f):
    signal.signal(signal.SIGALRM, _alarm)
    signal.alarm(15)
    try:
        return f()
    except Timeout:
        return 'X Timeout'
    except Exception as e:
        return 'X ' + type(e).__name__ + ':' + str(e)[:60]
    finally:
        signal.alarm(0)


def run(case):
    res = {}
    for cfg in ('off', 'on'):
        (disable_caching if cfg == 'off' else enable_caching)()
        clear_registry()
        try:
            q = build(case)
        except Exception as e:
            res[cfg] = res[cfg + '2'] = res[cfg + '3'] = 'X build:' + type(e).__name__ + ':' + str(e)[:60]
            continue
        res['tree_' + cfg] = guarded(lambda: tree_of(q._child_._child_))
        if case.get('abandon'):
            # an evaluation that is abandoned after a few results comes first: what follows must not depend on it
            def partial():
                it = q.evaluate()
                for _ in range(case['abandon']):
                    try:
                        next(it)
                    except StopIteration:
                        break
                it.close()
            guarded(partial)
        for suffix in ('', '2', '3'):
            res[cfg + suffix] = guarded(lambda: ';'.join((f'{o.item.idx * 100 + o.other.idx}:{o.tag}' if case.get('two') else f'{o.item.idx}:{o.tag}')
                                                         for o in q.evaluate()))
    enable_caching()
    clear_registry()
    return res


if __name__ == '__main__':
    payload = json.load(sys.stdin)
    out = {}
    for item in payload['cases']:
        try:
            out[item['n']] = run(item['case'])
        except Exception as e:
            out[item['n']] = dict(off='X harness:' + repr(e)[:200])
    json.dump(out, sys.stdout)
