"""Writes /verif/MANIFEST.json from the table below (run by hand after changing what is claimed)."""
import json, os, sys
from pathlib import Path

VERIF = Path(__file__).resolve().parent.parent
BASE_NOTE = ("Trusted: Coq 8.16.1 kernel + vm_compute; no axioms declared (Print Assumptions of each theorem is copied into the "
             "evidence); the hand-written Gallina model is tied to /repo by the correspondence check run on every invocation "
             "(same generated cases through the public API and through `Eval vm_compute`), the table-like code by the "
             "fail-closed translator; CPython semantics on the modelled value subset, purity of user attributes/methods and "
             "single-threaded execution are assumed.")

CLAIMS = {
    'C20': dict(
        text=("Machine-checked theorems over a line-by-line Gallina model of SeenSet/IndexedCache, for ALL key lists, value "
              "alphabets and histories (induction over the operation list): C20_check (coverage answers exactly 'some inserted "
              "binding is contained in the lookup'), C20_clear, and C20_retrieve - the property's retrieval statement IN FULL: after any "
              "well-formed history, for every lookup (full, partial, empty) retrieval returns a PERMUTATION of the reference answer - every "
              "stored, not overwritten entry whose binding agrees with the lookup on the keys they share, each once, paired with its binding "
              "merged into the lookup, nothing else (C20_retrieve_sound / C20_retrieve_complete are its halves). At the pinned commit this "
              "statement was refuted by a witness that replayed on the code (a level holding both the wildcard and a concrete key lost "
              "entries: former known finding C20-wildcard-preference); the defect was repaired in /repo and the model follows the repaired "
              "code. The model is tied to cache_data.py by comparing the result of every operation of generated histories (exact "
              "sequences, merged bindings included) on every run; the implementation is compared with the reference store as well."),
        design='7/C20', technique='Coq proof (induction over operation histories; SeenSet invariant; paths of the index = stored entries; retrieval follows exactly the compatible paths) + model/implementation correspondence by vm_compute',
        note=BASE_NOTE + " Keys and values are nat ids in the model (HashedValue equality = equality of ids); dict order is modelled (insertion order)."),

    'C01': dict(
        text=("Machine-checked theorem C01_filter: for every heap, every domain and every condition writable over one variable (any "
              "nesting of and_/or_/not_ over the six comparisons either way round, in_/contains, attribute chains, indexes, calls, "
              "expressions in condition position, nested sub-queries) the P-model of the evaluator returns, as a LIST, the domain filtered "
              "by ordinary truth of the surface condition (membership, order, multiplicity). Proved by structural induction "
              "(eval_bound / eval_unbound) over unbounded trees and domains, through the elaborator whose tables are regenerated from "
              "/repo on every run. The P-model is tied to symbolic.py by comparing exact result sequences of generated cases on every run "
              "(caching disabled), and the implementation is compared with the specification with caching enabled and on re-evaluation; "
              "C01_filter_dedup states the same for the D-model (the evaluator WITH its de-duplication of rows, Dedup.v, tied by the same "
              "sequences): over one selected variable nothing is ever dropped; "
              "15 % of the cases are HISTORIES over a lazily consumed one-shot domain (C01_over_lazy_domain: the answer is the filter of the "
              "domain's content however much of it earlier, possibly abandoned, evaluations have read)."),
        design='7/C01', technique='Coq proof (structural induction over the expression tree; P-model) + translator-regenerated tables + model/implementation correspondence on result sequences',
        note=BASE_NOTE + " Of the stateful layer the de-duplication sets are in the proved model (Dedup.v; fragment: no flatten / concatenate inside, for_all over a plain variable) and the lazy domain in Lazy.v (C01_over_lazy_domain); the result caches are C05's (C05_cached_evaluator: caching the evaluation of any basic condition is transparent)."),
    'C02': dict(
        text=("Machine-checked theorems for any number of variables. Over the P-model: C02_partition (the true rows of every node partition "
              "the satisfying extensions of the incoming binding, the false rows the others), C02_all_selected (every satisfying assignment "
              "of the product is returned exactly once, every other never), C02_complete / C02_sound (any selection, any order: exactly the "
              "projections of the satisfying assignments). Over the D-model (Dedup.v: the P-model PLUS the de-duplication of rows - the "
              "per-operator seen sets of _is_duplicate_output_, keyed on the variables _required_variables_from_child_ reports, whose "
              "tables the translator extracts from BinaryOperator / OR on every run): C02_dedup_cover (over ALL activations of a node in "
              "one evaluation every assignment an activation should serve is covered, up to the variables the parent requires, by an emitted "
              "row), C02_dedup_complete / C02_dedup_sound (so the de-duplicating evaluator returns exactly the projections of the "
              "satisfying assignments), C02_all_selected_no_dedup / C02_all_selected_dedup (with every variable selected nothing is ever dropped: the "
              "de-duplicating evaluator returns the P-model's rows in the same order, every satisfying assignment exactly once), "
              "C02_required_variables (the facts about the extracted tables the induction needs). Unbounded "
              "trees, domains, numbers of variables, activations. Tie: exact row SEQUENCES of generated cases - projections included, "
              "against the D-model - on every run; cached configuration and re-evaluation against the specification."),
        design='7/C02 + 12.7', technique='Coq proof (partition/cover invariant by structural induction, counting argument; cover-up-to-required-variables invariant over all activations for the de-duplicating evaluator, over translator-extracted requirement tables) + correspondence on exact row sequences',
        note=BASE_NOTE + " The D-model covers comparisons, membership tests, expressions in condition position, and_/or_/not_ (any nesting), nested queries in condition position and for_all over a plain variable;  rows carrying flattened elements (identified by position in the implementation) and the cached replay path are outside it (set-level tie / C05). Selected EXPRESSIONS other than variables are covered by C19_selected (one variable), C02_row_values and by correspondence."),
    'C03': dict(
        text=("Machine-checked theorems over Generated.v (the inverse-operator table and the Not dispatch are extracted from symbolic.py by the "
              "fail-closed translator on every run): the table is total, every row is the TRUE inverse on all operand pairs and it is "
              "involutive; neg is De Morgan + toggle; C03_complement (the negated tree holds exactly where the tree does not, for every tree "
              "and depth), C03_double (negating twice restores the ORIGINAL node), C03_elab_sat (what the user writes means what it says), C03_constant_operand (a bool constant passed as an operand is negated like any other condition). "
              "Row level: C02's evaluator theorems. A changed table row breaks inverse_negates; the check then searches for a failing query."),
        design='7/C03', technique='Coq proof over translator-generated tables (re-checked against the source each run) + structural induction + correspondence',
        note=BASE_NOTE + " Order comparisons are modelled as a total order (numeric operands); partial orders (NaN, sets) are outside the value subset. Predicates (Variable nodes with _invert_) are covered by correspondence only."),
    'C19': dict(
        text=("Machine-checked: the evaluator theorems C01_filter / C02_* carry no truthiness hypothesis; C19_operand and C19_membership "
              "(comparison / membership against ANY literal incl. 0, '', (), None, False), C19_selected (a selected expression is delivered "
              "with its value whatever it is), C19_condition_position (only an expression in condition position is read as a boolean), "
              "C19_constant_condition / C19_constant_conjunct (a constant operand of and_ / or_ / not_ is read as a boolean too). "
              "Tie: generated cases on a falsy-heavy alphabet compared row by row with the model (incl. ONE expression object used as a "
              "condition and as a selected output / an operand, bool constants as operands of the connectives, falsy objects); evidence "
              "counts falsy values routed."),
        design='7/C19', technique='Coq proof (unconditional forms of the evaluator theorems) + correspondence on the falsy alphabet',
        note=BASE_NOTE + " Field constraints / constructor arguments (C13/C11 positions) are covered by those properties' checks."),

    'C05': dict(
        text=("PARTIAL. Proved, each for unbounded histories of lookups: (1) C05_memo_transparent_partial - an operator answering covered lookups "
              "from a memo returns exactly the uncached results provided stored entries are the uncached results of their lookups; (2) the "
              "CONCRETE index (the line-by-line model of cache_data.IndexedCache / SeenSet, tied to the code by C20's operation-level "
              "correspondence) is exact - C20_check, C20_retrieve; (3) the call-site shape the five cache sites of symbolic.py share "
              "(coverage check -> replay the most general of the rows retrieval returns; otherwise evaluate, yield, store every row) on top "
              "of that index: C05_indexed_denotation - for EVERY operator, rows that leave cache keys open included (the wildcard region in "
              "which the pinned commit lost rows), the cached answers stand for exactly the assignments the uncached answers stand for "
              "(transparency as a set of assignments; the operator is given by the relation it denotes and rows that may leave keys open); "
              "C05_indexed_full_rows - for operators whose rows bind every cache key the cached rows ARE the uncached rows with their flags. "
              "C05_indexed_no_assignment_twice - for every such operator and history a covered lookup is answered with exactly ONE row, the "
              "lookup itself (every other retrieved row contains it under the same truth flag; the most-general selection keeps it alone), "
              "an uncovered one with the operator's own rows: no assignment is yielded twice. C05_call_sites_as_modelled - the translator "
              "locates in Comparator / AND / ElseIf ._evaluate__ the one coverage test, its position (ElseIf: only for a row the left side "
              "rejected), the replay through _most_general_(retrieve(...)) and the storing with the current row's flag, on every run. "
              "C05_cached_evaluator - the operator of those theorems instantiated with the P-model's evaluator of ANY basic condition "
              "(values encoded by their positions in the domains): their hypotheses are proved from the evaluator's partition theorem, so "
              "caching the evaluation of a sub-condition is transparent for every history of incoming bindings, in either mode (false rows "
              "asked for or not), with nothing left abstract. "
              "NOT proved: a node evaluated under BOTH modes during the life of its cache, and the composition of the call sites inside one evaluator - "
              "covered by the correspondence check: every "
              "generated query (all shapes) is run twice with caching disabled and twice enabled on fresh objects and the four row "
              "multisets are compared with each other and with the specification, with cache-hit counts in the evidence; an eighth of "
              "the cases are histories over the index itself whose retrievals are reduced by BinaryOperator._most_general_, compared as "
              "exact sequences with the model's most_general (incl. the protocol of a cached else-if whose rows leave keys open)."),
        design='7/C05', technique='Coq proof: abstract memo; concrete index model (exact retrieval, coverage); cached call site over the index by invariants over lookup histories (denotational transparency and single-row replay for every operator, row-exact for full-row operators) + translator-pinned call sites / replay / flag discipline + differential correspondence cache on/off and index histories with most-general selection',
        note=BASE_NOTE + " The cached path of the implementation (in-place mutation and aliasing of binding dictionaries) is abstracted. The former known finding C05-wildcard-retrieval (rows lost through a mixed wildcard / concrete level of the index) was repaired in /repo: no finding is open for this property."),
    'C06': dict(
        text=("Machine-checked: C06_none / C06_value / C06_many decide the outcome of `the` by the number of satisfying assignments (0, 1, >= 2) "
              "for every description with all variables selected, any heap and duplicate-free domains, from C02's exactly-once theorem and the "
              "model of The._evaluate_ (consume, fail on the second row, fail if none); C06_same_as_an: the value is the row `an` yields. "
              "Tie: outcome enum and value of generated descriptions (entity / set_of, 1-2 variables, with and WITHOUT conditions), first evaluation and re-evaluation, "
              "cache off and on, against the model."),
        design='7/C06', technique='Coq proof (corollary of the counting theorem C02_all_selected) + correspondence on outcomes',
        note=BASE_NOTE + " Re-evaluation consistency rests on the reset-in-finally repair (C04) and the correspondence; `the` nested as an operand is not modelled."),
    'C10': dict(
        text=("Machine-checked over the P-model, for EVERY condition c of for_all(u, c) (any tree of comparisons, memberships, expressions, "
              "and_/or_/not_ and sub-queries over the universal variable and any number of free variables), every heap, duplicate-free "
              "domains, a non-empty universal domain and any incoming binding (for_all alone or and_-ed on the right): C10_forall - the "
              "rows are exactly, each once flagged true, the assignments of the free variables under which c holds for EVERY universal "
              "value; from C10_one_pass (one pass returns exactly the satisfying assignments of the free variables under that universal "
              "value: the partition invariant with the universal variable pre-bound and the free variables completed) and "
              "C10_intersection (running intersection with early exit = matched in every pass; induction over the universal domain). "
              "Tie: generated for_all queries (condition over the universal variable, the free variables, both, neither; universal "
              "EXPRESSIONS such as for_all(u.peer, c) whose values repeat; alone or and_-ed on either side) compared with the model and the "
              "quantified specification, caching off and on, evaluated twice. C10_forall_dedup: the evaluator WITH its de-duplication of rows (Dedup.v) computes for_all exactly like that - every pass starts from a fresh state and for_all requires every variable of its condition (read from ForAll._required_variables_from_child_ by the translator on every run), so nothing is dropped inside a pass, whatever the query selects; for_all cases (projections included) are tied by exact row sequences."),
        design='7/C10', technique='Coq proof (partition invariant with a pre-bound variable + completion of free variables + intersection lemma by induction over the universal domain) + P-model correspondence',
        note=BASE_NOTE + " The free variables are assumed to range over objects (rows of different passes are compared by Python equality, which is identity on them). for_all under or_/not_ and for_all nested in for_all are outside the proved fragment (basic excludes CForAll inside c)."),
    'C15': dict(
        text=("Machine-checked: C15_inline_sat (inlining every sub-query used as a condition preserves truth) and C15_inline_rows (the composed and "
              "the inlined query return the same rows for any selection, heap and domains): the nested An node is part of the fragment of the "
              "partition invariant (eval_cover handles CSub, including the sub-query's own selected variables being bound). Tie: generated "
              "queries with sub-queries under & and | (also as the only condition, selecting a proper subset of the variables it mentions) and "
              "as comparison OPERANDS - an(...) over a further variable, and the(...) correlated with the enclosing query - compared with the "
              "model and with the specification that reads them inlined. C15_inline_rows_dedup: the same for the evaluator WITH its "
              "de-duplication of rows (Dedup.v covers nested queries in condition position: their operators key the duplicate checks on what "
              "the nested query selects and on what the enclosing operators require); a quarter of the cases are projections over deeply nested "
              "and_/or_ with sub-conditions wrapped as nested queries, tied by exact row SEQUENCES against that model."),
        design='7/C15', technique='Coq proof (CSub case of the partition invariant + C02 soundness/completeness) + correspondence',
        note=BASE_NOTE + " In operand position a sub-query is read, by elaboration in the harness, as the comparison and-ed with the sub-query as a condition (tied by the correspondence, not a theorem); constructor-argument position is covered by C13 (nested predicate-form terms) and C11 (nested head arguments)."),
    'C16': dict(
        text=("Machine-checked for every heap, parent domain and inner collection: C16_unnest (parent and element selected: one row per inner "
              "element, each with its parent, in order, with multiplicity), C16_unnest_elem (element only), C16_unnest_filtered (a condition on "
              "the element filters element rows and keeps the correlation), C16_unnest_where (ANY condition tree over the parent - comparisons, "
              "memberships, expressions, and / or / not, nested queries -: the parents are filtered, every surviving parent is unnested in full, "
              "in order), C16_unnest_where_filtered (a parent condition and an element condition together) and C16_unnest_item_disjunction (an "
              "item / attribute of the element selected under a disjunction over items of the element: one row per qualifying element, two "
              "elements of one parent are two rows) and C16_unnest_parent_disjunction (the same with the parent alone selected: a parent that "
              "qualifies through a later element only is still delivered). Tie: generated flatten queries (all selections, conditions on "
              "element / parent / both / disjunction / membership) compared as exact row sequences with the model, cache off and on."),
        design='7/C16', technique='Coq proof (direct structural induction over parent domain and inner collection) + correspondence',
        note=BASE_NOTE + " Conditions that relate the element to its parent, other disjunctions over the element and membership of the element are covered by correspondence only; the value subset has one level of nesting (a tuple of ints as an element of a collection) and mappings (as collections: their keys)."),
    'C17': dict(
        text=("Machine-checked: C17_single (exactly one row carrying all inner elements in domain order and inner order with multiplicity, also "
              "for no parent / all-empty collections) and C17_membership (membership and non-membership of an outer variable select exactly the "
              "(non-)members, in outer order), for an expression over one parent variable; C17_single_any / C17_membership_any (the same for ANY "
              "concatenated expression u: the single value lists, in order, the elements of every row u has) and C17_concat_of_flatten (for u = "
              "flatten(t) those are the elements of the elements of t: a collection of collections is concatenated one level deeper). Tie: "
              "generated concatenate queries over scalar attributes, collections, collections of collections (one level of nesting in the "
              "value model) and flatten(...) of those, compared with the model (the list value as a sequence)."),
        design='7/C17', technique='Coq proof (direct computation on the P-model, induction over the outer domain) + correspondence',
        note=BASE_NOTE + " Generated: one or two concatenations over the same parent variable, the parent variable optionally selected as well (a concatenation binds only itself; a defect here was repaired in /repo); conditions on the parent variable outside the concatenations are not generated (the concatenation would then range over the bound parent only)."),
    'C18': dict(
        text=("Machine-checked: C18_rewrite_sat (truth is invariant under every composition of: and/or commutativity and re-association, "
              "comparison mirroring, contains vs in_), C18_invariant and C18_domain_permutation (hence the result set, via C02), C18_invariant_dedup "
              "(the same invariance for the evaluator WITH its de-duplication of rows, whose requirement tables are re-extracted from the "
              "source on every run: whatever the rewrites do to the order of operands, every projection keeps its result set), C18_tables (fold "
              "direction and builders regenerated from the source). Tie: metamorphic pairs - a random query and a random rewrite of it (incl. "
              "declaration/selection order and permuted domains) - both compared with each other, the model and the specification; 40 % of the "
              "pairs are a two-variable conjunction under a disjunction with one variable selected (false rows of the conjunction must be kept "
              "apart per value of the unselected variable)."),
        design='7/C18', technique='Coq proof (induction over rewrite derivations; corollary of C02) + translator tables + metamorphic correspondence',
        note=BASE_NOTE + " Declaration/selection order changes are column permutations handled by the harness; inherits C02's fragment."),
    'C08': dict(
        text=("Machine-checked for ALL finite histories (any length, any nesting) of block entries / exits / exceptions and iterator creations, "
              "advances (also advances during which a user predicate opens a symbolic block of its own and runs a complete nested evaluate(): C08_nested_evaluation_transparent), closes, finalisations and the(...) evaluations (succeeding or failing with the exception handled on the spot): C08_confined (mode = innermost enclosing mode-setting block, expression stack = enclosing "
              "query blocks), C08_block_restores (leaving a block by any path restores what was active before it whatever happened to iterators "
              "inside), C08_outside. The model reads from the source, through the translator on every run, whether a yield of An.evaluate sits "
              "inside `with symbolic_mode(None)`: the theorems stop compiling if it does. Tie: mode variable, in_symbolic_mode(), what a @symbol "
              "constructor returns, whether operators are rejected, and stack depth compared after EVERY step of generated histories."),
        design='7/C08', technique='Coq proof (invariant over operation histories) + translator-extracted bracketing flags + step-wise correspondence',
        note=BASE_NOTE + " PARTIAL with respect to `schedules`: single-threaded interleavings only (blocks x iterator life cycles x finalisation points); thread schedules on the class-level expression stack cannot be exhibited by an executable Gallina model. Finalisation is modelled as close (CPython reference counting)."),
    'C09': dict(
        text=("Machine-checked: C09_ambient - during evaluation (An.evaluate for an/infer, The.evaluate for the) predicates and instance "
              "construction see NO symbolic mode whatever the ambient mode; proved from the bracketing facts the translator extracts from the "
              "two methods on every run (every advance of the result generator inside `with symbolic_mode(None)`, the call of _evaluate_ in "
              "The.evaluate inside one). The translator also re-reads symbolic_mode / rule_mode on every run (the mode found on entry is saved first and "
              "written back in the finally clause); the block model uses that fact. Tie: every quantifier x condition kind (comparison, "
              "@predicate function, Predicate subclass, rule inference, a rule over a variable given by keyword only - expanded by the "
              "library inside a block of its own during evaluation -, a Predicate subclass that builds and evaluates a query inside its "
              "own symbolic block followed by another class predicate) x dataset evaluated under ambient none / query / rule / a query "
              "block and a rule block opened for ANOTHER query, and with the results of one evaluation drawn partly outside and partly "
              "inside a block; the seven outcomes must coincide."),
        design='7/C09', technique='Coq proof over translator-extracted facts + differential correspondence across ambient modes',
        note=BASE_NOTE + " The model is the mode seen during evaluation, not the evaluator itself: that predicates/constructors depend on the mode only through in_symbolic_mode() at call time is assumed (read in predicate.py) and validated by the correspondence."),
    'C13': dict(
        text=("Machine-checked: C13_positional / C13_explicit_is_intended (the k-th positional argument after From(d) constrains the k-th "
              "constructor field, at any nesting depth; proved over the index arithmetic the translator extracts from "
              "predicate.update_domain_and_kwargs_from_args on every run - the pinned commit's `init_args[i+1]` made it fail and was "
              "repaired), C13_meaning (the conjunction built for the terms is true exactly when every given field of every term, nested "
              "ones included, equals its value), C13_rows_complete / C13_rows_sound (the rows are exactly the projections of the "
              "assignments over the type-filtered domains satisfying those equalities; instances of the C02 evaluator theorems), "
              "C13_typefilter_members / _order / C13_subclasses_included (a T-variable ranges over exactly the supplied members that are "
              "instances of T, subclasses at any depth included, in the order supplied). Tie: generated cases over fresh class forests "
              "(decorated / undecorated subclasses, inherited fields) built in predicate form and in explicit form, caching off and on, "
              "registry cleared or not; row sets compared with each other, with the P-model and with the brute-force specification."),
        design='7/C13', technique='Coq proof over translator-extracted index arithmetic + instances of the C02 evaluator theorems + differential correspondence predicate form vs explicit form',
        note=BASE_NOTE + " A nested term used as a field value is read as the conjunction of its own equalities (C15's reading of a quantifier used as an operand); that the evaluator treats an An(...) operand so is covered by the correspondence, not by a theorem. Row ORDER of predicate-form queries is not claimed (sets)."),
    'C14': dict(
        text=("Machine-checked for EVERY class forest and EVERY finite history (any length) interleaving concrete construction of any class, "
              "symbolic construction, rule inference of any number of instances, registry clearing and no-domain queries (complete or abandoned): C14_registry / "
              "C14_query_after (every query of T returns, each exactly once, the concrete constructions of T and of its subclasses since "
              "the last clearing - proved by an invariant relating a line-by-line model of Variable._cache_ / flat_cache / "
              "get_cache_keys_for_class_ to a plain construction log, induction over the history), C14_symbolic_inert (symbolic "
              "construction changes neither registry nor initialisation count), C14_inferred_are_registered. Tie: generated histories over "
              "fresh class forests (dataclass / hand-written __init__, decorated and undecorated subclasses up to 4 levels, every "
              "construction style) - every query result compared BY IDENTITY and in order with the registry model and as a multiset with "
              "the harness's own log, the initialisation counter compared after every step."),
        design='7/C14', technique='Coq proof (refinement of the registry model to a construction log, invariant by induction over histories) + step-wise correspondence by object identity',
        note=BASE_NOTE + " Queries are declared and evaluated at the same point of the history, or declared while the registry is EMPTY (start of the history / right after a clear) and evaluated later - they then see what has been constructed by the time they are evaluated; a no-domain variable declared on a non-empty registry fixes its set of class keys at declaration (that laziness is outside the property's histories). Constructions whose __init__ raises and inference into a class while iterating that class's own registry are outside the modelled histories (see DESIGN.md)."),
    'C12': dict(
        text=("Machine-checked for EVERY rule program over one rule variable - base rule, refinements and alternatives nested to any depth "
              "and in any order under the base, under refinements and under alternatives: C12_builders / C12_shape (the in-place edits of "
              "rule.refinement and rule.alternative - wrap, climb to the top of the chain, re-link - assemble the intended operator tree; "
              "proved with one-hole contexts by mutual induction over the program; the linking behaviour of the two builders is extracted "
              "from rule.py by the translator on every run and the theorem stops compiling if it changes), C12_evaluation / C12_rdr "
              "(evaluating ExceptIf / Alternative over that tree gives, for every item, the conclusion ripple-down rules prescribe: first "
              "applicable branch of the level, replaced by its first applicable exception, recursively; nothing for items no branch "
              "applies to). Tie: generated programs (depth <= 3 quick, <= 5 thorough) - the operator tree the implementation holds is "
              "compared with the builder model and the intended tree, the (item, conclusion) rows of three consecutive evaluations, "
              "caching off and on, with the model (sequences) and the ripple-down-rule interpreter (multisets); 40 % of the programs are "
              "GROWN: the base block is written in several `with rule_mode(query)` blocks with an evaluation of the rule in between "
              "(C12_grown_alternatives: alternatives attached at the conditions root after re-entering build the tree a single block builds); "
              "a quarter of the programs are followed by 1-3 LATER SESSIONS, one statement each (C12_grown_sessions, proved for every base "
              "program and every sequence of later statements with blocks of any shape: a refinement written after re-entering is "
              "ExceptIf(the whole tree, the refinement) - it replaces whatever conclusion the tree selected where it applies -, an "
              "alternative applies where nothing was selected); "
              "30 % of the programs have TWO rule variables (a match is an assignment: attributes of either variable and a join; every "
              "branch mentions both variables or the base rule starts with the join), 40 % are evaluated after an evaluation that was "
              "abandoned after 1-12 results."),
        design='7/C12 + 12.8', technique='Coq proof (builder correctness by mutual induction with one-hole contexts; evaluation = RDR by mutual induction) + translator-extracted linking flags + structural and result correspondence',
        note=BASE_NOTE + " The model decides a branch per MATCH (an item, or an assignment of two rule variables whose every conclusion variable is bound by the branch that fires); a refinement that introduces a further rule variable, and next_rule, are outside the model. Re-entering `with rule_mode(query)` attaches at the conditions root: a session that re-enters with SEVERAL top-level statements is generated only where that is the same program as one block (the root is still the base rule, or only alternatives follow); sessions of one statement are modelled in full (grow / sel_grown). The evaluation model (fire) abstracts ExceptIf/Alternative._evaluate__ for a bound item; it is tied by the row correspondence. Four defects were repaired in /repo (see known_findings.json)."),
    'C11': dict(
        text=("Machine-checked over the P-model, for every rule head (constructor arguments = rule variables, attribute chains, indexes, "
              "calls, constants) and every body the user can write, any number of rule variables, heap and duplicate-free domains: "
              "C11_one_per_assignment (exactly one instance is built from a binding agreeing with a satisfying assignment, none from a "
              "non-satisfying one), C11_built_from_one_assignment (the binding an instance is built from assigns every rule variable the "
              "head mentions one member of its domain - nothing is mixed), C11_fields_from_that_assignment (each field holds the value of "
              "its expression under that same assignment; objects are passed by identity, constants whatever their truthiness). Tie: "
              "generated rules built in rule mode through infer(entity(H(...), body)); every constructed object must be a NEW instance of "
              "the head class, its fields are compared (heap objects by identity) with the model as a sequence and with the specification "
              "as a multiset, caching off and on, evaluated twice. Heads are written with keyword arguments, with positional arguments (to a "
              "class whose positional parameters are interleaved with inherited and own keyword-only ones) or a mix. 30 % of the heads have a NESTED constructor argument W(w=t) (a variable over the "
              "registered W instances restricted by its keyword, read as one more rule variable plus one more conjunct of the body; rows "
              "compared as multisets), also inside histories in which the rule is first evaluated partly."),
        design='7/C11', technique='Coq proof (instances of the partition/counting invariant for selected expressions + binding lemmas by induction over terms and argument lists) + correspondence on constructed field tuples',
        note=BASE_NOTE + " A nested constructor term without a domain inside a head is a registry look-up in the implementation (C14): it is generated, and modelled by ELABORATION (one more variable over the registered instances, one more equality) - the elaboration is part of the harness, tied by the correspondence, and the order of the instances of such rules is not modelled; nested terms with a domain are variables (C13). The registry side effect of inference is C14's. Two defects were repaired in /repo (arguments combined by Cartesian product; keyword constraint of a nested argument dropped after an abandoned evaluation)."),
    'C04': dict(
        text=("Machine-checked over the lazy-domain model (a line-by-line model of HashedIterable: memoised prefix + unconsumed remainder, "
              "evaluation as a process that records the domain state at the moment each row is delivered): C04_history_independent (one "
              "variable, any pool of queries, ANY finite history of full evaluations, take-k-then-close and evaluations aborted at the "
              "j-th predicate call: a query evaluated afterwards returns exactly the rows, in order, it returns on the untouched domain), "
              "C04_content_invariant (a history only moves a prefix of the remainder into the memo), C04_repeated_object (a domain listing "
              "an object several times yields it once, first time and later), C04_any_advance (several variables, any condition tree "
              "incl. for_all and sub-queries: however far each lazily consumed domain was advanced, the P-model evaluator returns the same "
              "rows). Tie: generated histories over pools of queries sharing variables and expression objects - one-variable pools over a "
              "logging one-shot iterator compared EXACTLY after every step (rows, pulled, memoised), multi-variable pools (projections, "
              "shared sub-expressions in other positions, rule inference) compared step by step with the answers on untouched data, "
              "caching off and on; user data checked unmodified. C04_dedup_state_reset: over the D-model (Dedup.v) every evaluation of a history "
              "of complete / abandoned / aborted evaluations of one query object starts from the empty de-duplication state - the reset in the "
              "finally clause of An.evaluate / The.evaluate is read from the source by the translator on every run."),
        design='7/C04', technique='Coq proof (invariant over operation histories on the lazy-domain model; extensionality of the evaluator in the domains) + step-wise correspondence on histories',
        note=BASE_NOTE + " PARTIAL in one respect, stated plainly: the per-node de-duplication sets ARE state of the D-model and C04_dedup_state_reset proves a full evaluation independent of what was evaluated or abandoned before, given the reset at the start of every evaluation (pinned by the translator, C04_reset_at_start); the operator result caches are NOT state of that model - their transparency over any history of lookups is C05's theorem, that no evaluation leaves them inconsistent is covered by the history correspondence; how far a PARTIAL multi-variable evaluation advances each domain is not modelled (C04_any_advance quantifies over every advance). Three defects were repaired in /repo (reset in finally, concluded_before, repeated domain objects)."),
    'C07': dict(
        text=("Machine-checked over the lazy-domain model: C07_nothing_before_first_request (creating the result iterator pulls nothing), "
              "C07_exact_prefix (for every qualification predicate - every condition tree and dataset -, every one-shot domain of distinct "
              "objects and every k: when the k-th result is delivered exactly the prefix ending at the k-th qualifying element has been "
              "pulled), C07_take_is_prefix, C07_never_pulled_twice / C07_pulls_monotone (after ANY history of partial, aborted and full "
              "evaluations the iterator's remainder is a suffix of what was supplied and only shrinks), C07_pulls_as_specified (after EVERY step "
              "of EVERY such history over ANY domain, repetitions included, the number of elements read equals the longest prefix any step "
              "so far needed - what a step needs being stated on the supplied sequence alone: the shortest prefix holding k distinct "
              "qualifying objects for take k, j distinct guard-passing objects for an evaluation aborted at the j-th predicate call, "
              "everything for a full evaluation). The loop of HashedIterable.__iter__ (skip memoised ids; memoise before handing out) is "
              "re-read from hashed_data.py by the translator on every run and the model is parameterised by it. Tie: the domain is a logging "
              "one-shot iterator; after EVERY step of generated histories the number of elements pulled and memoised and the rows "
              "delivered are compared with the model, the pull counts also with the demand specification (caching off and on); declaring the "
              "variable and building the queries must pull nothing; one case in eight has 21-30 objects and condition-less queries."),
        design='7/C07', technique='Coq proof (induction over the domain and over operation histories on the lazy-domain model) + step-wise correspondence on a logging one-shot iterator',
        note=BASE_NOTE + " That a single-variable condition tree is evaluated once per delivered element (the left-most leaf enumerates the domain, every other leaf sees the variable bound) is C01's evaluator theorem plus this correspondence; time-to-first-result as wall-clock time is not modelled (pull counts are). The predicate-form type filter (lazy `filter(isinstance)`) is exercised because every domain goes through let()."),
}

NOT_YET = {}


def main():
    props = [json.loads(l) for l in open(VERIF / 'properties.jsonl')]
    checks, na = [], []
    for p in props:
        pid = p['id']
        if pid in CLAIMS:
            c = CLAIMS[pid]
            checks.append(dict(
                property_id=pid,
                quick_cmd=f"./check {pid} quick",
                thorough_cmd=f"./check {pid} thorough",
                evidence_file=f"/verif/evidence/{pid}.json",
                replay_cmd_template=f"./check {pid} --replay {{path}}",
                engine='coq-proof+correspondence',
                level_claimed=dict(category='proof', text=c['text'], design_ref=c['design']),
                level_note=c['note'], technique=c['technique']))
        else:
            na.append(dict(property_id=pid, reason=NOT_YET.get(pid, "model and theorems for this property are not built yet "
                                                               "(work in progress; see DESIGN.md section 7 for the plan)")))
    m = dict(
        version=1,
        setup_cmd="/venv/bin/python harness/setup.py",
        hooks=dict(guard='EQL_VERIF', enable="no source hooks are needed: checks observe through the public API and run-time wrapping inside the harness process; EQL_VERIF=1 is set for the harness interpreter only",
                   baseline_off_cmd="cd /repo && /venv/bin/python -m pytest -ra -q -p no:cacheprovider --timeout=900 --continue-on-collection-errors",
                   source_commits=[], add_only=True),
        engines=[dict(name='coq-proof+correspondence', path='/verif/check', serves_properties=[c['property_id'] for c in checks],
                      kind_free_text="Coq 8.16 development (coq/theories) built by make on every run after the translator regenerates "
                                     "Generated.v from /repo; generated case files evaluated with vm_compute and compared with the "
                                     "implementation run through its public API")],
        checks=checks,
        not_applicable=na,
        notes="All checks rebuild from /repo's working tree (EQL_REPO overrides the path for scratch worktrees). Known findings: known_findings.json.")
    (VERIF / 'MANIFEST.json').write_text(json.dumps(m, indent=1))
    print(f"{len(checks)} checks, {len(na)} not claimed")


if __name__ == '__main__':
    main()
