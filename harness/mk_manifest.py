"""Writes /verif/MANIFEST.json from the table below (run by hand after changing what is claimed)."""
import json, os, sys
from pathlib import Path

VERIF = Path(__file__).resolve().parent.parent
BASE_NOTE = ("Trusted: Coq 8.16.1 kernel + vm_compute; no axioms declared (Print Assumptions of each theorem is copied into the "
             "evidence); the hand-written Gallina model is tied to /repo by the correspondence check run on every invocation "
             "(same generated cases through the public API and through `Eval vm_compute`), the table-like code by the "
             "fail-closed translator; CPython semantics on the modelled value subset, purity of user attributes/methods and "
             "single-threaded execution are assumed.")

CLAIMS = {
    'C20': dict(
        text=("Machine-checked theorems over a line-by-line Gallina model of SeenSet/IndexedCache, for ALL key lists, value "
              "alphabets and histories (induction over the operation list): C20_check (coverage answers exactly 'some inserted "
              "binding is contained in the lookup'), C20_clear; retrieval completeness is REFUTED in Coq by a witness "
              "(C20_retrieve_refuted) that replays on the code = known finding C20-wildcard-preference. The model is tied to "
              "cache_data.py by comparing the result of every operation of generated histories (exact sequences) on every run; "
              "the implementation is compared with the reference store as well, and a disagreement that is not exactly the "
              "listed finding is a violation."),
        design='7/C20', technique='Coq proof (induction over operation histories, SeenSet invariant) + model/implementation correspondence by vm_compute',
        note=BASE_NOTE + " Retrieval: only the refutation and the correspondence are available (no soundness theorem yet)."),
}

NOT_YET = {}


def main():
    props = [json.loads(l) for l in open(VERIF / 'properties.jsonl')]
    checks, na = [], []
    for p in props:
        pid = p['id']
        if pid in CLAIMS:
            c = CLAIMS[pid]
            checks.append(dict(
                property_id=pid,
                quick_cmd=f"./check {pid} quick",
                thorough_cmd=f"./check {pid} thorough",
                evidence_file=f"/verif/evidence/{pid}.json",
                replay_cmd_template=f"./check {pid} --replay {{path}}",
                engine='coq-proof+correspondence',
                level_claimed=dict(category='proof', text=c['text'], design_ref=c['design']),
                level_note=c['note'], technique=c['technique']))
        else:
            na.append(dict(property_id=pid, reason=NOT_YET.get(pid, "model and theorems for this property are not built yet "
                                                               "(work in progress; see DESIGN.md section 7 for the plan)")))
    m = dict(
        version=1,
        setup_cmd="/venv/bin/python harness/setup.py",
        hooks=dict(guard='EQL_VERIF', enable="no source hooks are needed: checks observe through the public API and run-time wrapping inside the harness process; EQL_VERIF=1 is set for the harness interpreter only",
                   baseline_off_cmd="cd /repo && /venv/bin/python -m pytest -ra -q -p no:cacheprovider --timeout=900 --continue-on-collection-errors",
                   source_commits=[], add_only=True),
        engines=[dict(name='coq-proof+correspondence', path='/verif/check', serves_properties=[c['property_id'] for c in checks],
                      kind_free_text="Coq 8.16 development (coq/theories) built by make on every run after the translator regenerates "
                                     "Generated.v from /repo; generated case files evaluated with vm_compute and compared with the "
                                     "implementation run through its public API")],
        checks=checks,
        not_applicable=na,
        notes="All checks rebuild from /repo's working tree (EQL_REPO overrides the path for scratch worktrees). Known findings: known_findings.json.")
    (VERIF / 'MANIFEST.json').write_text(json.dumps(m, indent=1))
    print(f"{len(checks)} checks, {len(na)} not claimed")


if __name__ == '__main__':
    main()
