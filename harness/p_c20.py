"""C20 — model family: IndexedCache / SeenSet histories."""
import re


def coq_asg(a):
    return "[" + ";".join(f"({k},{v})" for k, v in a) + "]"


def parse_ret(s):
    """'[{1:0,2:1}=7;{}=8]' -> sorted list of (sorted binding items, out)"""
    if not s.startswith('['):
        return s
    body = s[1:-1]
    if not body:
        return []
    out = []
    for e in body.split(';'):
        a, o = e.rsplit('=', 1)
        items = sorted(tuple(int(x) for x in kv.split(':')) for kv in a[1:-1].split(',') if kv)
        out.append((tuple(items), int(o)))
    return sorted(out)


class C20:
    pid = 'C20'
    targets = ['theories/IndexedCache.vo', 'theories/IndexedCache_Facts.vo', 'theories/IndexedMemo_Facts.vo']
    header = "From EQL Require Import Base IndexedCache IndexedMemo_Facts.\nOpen Scope string_scope."
    impl_script = 'impl_cache.py'
    rule = ("random histories over 1-4 keys and a 3-value alphabet: inserts under full / partial / overwriting bindings, "
            "coverage checks, retrievals, clears (plus a malformed stream: empty bindings and lookups, non-key ids, compared with "
            "the model only); 15 % of the histories follow the PROTOCOL of a cached operator whose rows bind every key (check; covered -> "
            "retrieve; otherwise insert every agreeing row) - no mixed level can arise there; thorough tier adds every history of <= 3 operations over 2 keys and 2 values; a case is non-trivial "
            "when at least one retrieval returns an entry or one check succeeds; distinct by hash of the history")
    explanation = ("C20_check / C20_clear / C20_retrieve (retrieval = a permutation of the reference answer) are proved for all "
                   "histories; the C-model is tied to cache_data.py by comparing the "
                   "result of every operation (exact sequences, including dict order) with the model's")

    def budget(self, tier):
        return {'quick': 1000, 'thorough': 15000, 'search': 1}.get(tier, 1000)

    mg_share = 0           # share of retrievals that are reduced to their most general rows (C05MG below)

    def __init__(self):
        self._exh = None

    def exhaustive(self):
        """every history of <= 3 operations over keys [1,2], values {0,1}, followed by the 9 retrievals... kept small"""
        import itertools
        bind = [[]] + [[(1, v)] for v in (0, 1)] + [[(2, v)] for v in (0, 1)] + [[(1, a), (2, b)] for a in (0, 1) for b in (0, 1)]
        ins = [['ins', b, o] for b in bind[1:] for o in (7,)]
        lookups = bind
        hist = []
        for n in (1, 2, 3):
            for combo in itertools.product(ins, repeat=n):
                ops = [list(x) for x in combo]
                # distinct outputs per position so that overwrites are visible
                for i, o in enumerate(ops):
                    o[2] = 7 + i
                same = [[o[0], o[1], 7] for o in ops]
                ops += [['ret', l] for l in lookups] + [['chk', l] for l in lookups[1:]]
                hist.append(dict(keys=[1, 2], ops=ops))
                if not self.mg_share:
                    continue
                # the same insertions with ONE output (a truth flag shared by rows that contain one another), every lookup reduced
                # to its most general rows
                hist.append(dict(keys=[1, 2], ops=same + [['mg', l] for l in lookups]))
        return hist

    def gen(self, rng, i, tier):
        c = self.gen_(rng, i, tier)
        if rng.random() < 0.5:
            c['keys_by_setter'] = True        # IndexedCache() then .keys = [...] (how the library sets its caches up)
        return c

    def gen_(self, rng, i, tier):
        if tier == 'thorough':
            if self._exh is None:
                self._exh = self.exhaustive()
            if i < len(self._exh):
                return self._exh[i]
        if rng.random() < 0.15:
            return self.gen_protocol(rng)
        if rng.random() < 0.15:
            return self.gen_subsumption(rng)
        nk = rng.randint(1, 4)
        keys = sorted(rng.sample(range(1, 7), nk))
        malformed = rng.random() < 0.12
        ops = []

        def asg(p):
            a = [(k, rng.randint(0, 2)) for k in keys if rng.random() < p]
            rng.shuffle(a)
            if malformed and rng.random() < 0.3:
                a.append((rng.choice([8, 9]), rng.randint(0, 2)))
            if not malformed and not a:
                a = [(rng.choice(keys), rng.randint(0, 2))]
            return a
        stored = []
        for _ in range(rng.randint(1, 9)):
            r = rng.random()
            if r < 0.5:
                a = asg(rng.choice([0.4, 0.7, 1.0]))
                if stored and rng.random() < 0.2:
                    a = list(rng.choice(stored))          # overwrite
                stored.append(a)
                ops.append(['ins', a, rng.randint(0, 9)])
            elif r < 0.7:
                a = asg(0.6)
                if stored and rng.random() < 0.5:       # a superset of a stored binding: should be covered
                    a = list(rng.choice(stored))
                    for k in keys:
                        if k not in dict(a) and rng.random() < 0.5:
                            a.append((k, rng.randint(0, 2)))
                ops.append(['chk', a])
            elif r < 0.92:
                a = asg(0.5) if rng.random() < 0.8 or malformed else []
                # 'mg': the retrieval reduced to its most general rows (what a cached operator replays for a covered lookup)
                ops.append(['mg' if rng.random() < self.mg_share else 'ret', a])
            else:
                last = stored[-1] if stored else None
                ops.append(['clr'])
                stored = []
                if last and rng.random() < 0.7:
                    # right after clearing: the binding inserted last before it (or one that differs in its last key only) again
                    a = list(last)
                    if rng.random() < 0.5:
                        k0 = max(k for k, _ in a)
                        a = [(k, v if k != k0 else rng.randint(0, 2)) for k, v in a]
                    stored.append(a)
                    ops.append(['ins', a, rng.randint(0, 9)])
                    ops.append([rng.choice(['ret', 'chk']), list(a)])
        ops.append(['ret', [] if rng.random() < 0.5 else asg(0.4)])
        return dict(keys=keys, ops=ops)

    def gen_subsumption(self, rng):
        """bindings that contain one another, inserted in either order, then coverage checks and retrievals of FULLY bound lookups
        that extend the general binding and agree / disagree with the specific one"""
        nk = rng.randint(2, 4)
        keys = sorted(rng.sample(range(1, 7), nk))
        ops = []
        flags = self.mg_share > 0 and rng.random() < 0.7            # outputs are truth flags: rows that contain one another often carry the same one
        for _ in range(rng.randint(1, 3)):
            spec_keys = rng.sample(keys, rng.randint(2, nk))
            specific = {k: rng.randint(0, 2) for k in spec_keys}
            general = {k: specific[k] for k in rng.sample(spec_keys, rng.randint(1, len(spec_keys) - 1))}
            pair = [specific, general]
            rng.shuffle(pair)
            for b in pair:
                a = list(b.items())
                rng.shuffle(a)
                ops.append(['ins', a, rng.randint(0, 1) if flags else rng.randint(0, 9)])
            for _ in range(rng.randint(1, 3)):
                look = {k: rng.randint(0, 2) for k in keys}
                look.update(general)
                if rng.random() < 0.4:
                    look.update(specific)
                if rng.random() < 0.3:
                    del look[rng.choice([k for k in keys if k not in general] or keys)]
                a = list(look.items())
                rng.shuffle(a)
                ops.append([rng.choice(['chk', 'chk', 'ret'] + ['mg', 'mg', 'mg'] * (self.mg_share > 0)), a])
        return dict(keys=keys, ops=ops)

    def gen_protocol(self, rng):
        """the way every cached operator of symbolic.py uses the index (C05_indexed_full_rows): an operator with a fixed relation of
        rows that bind EVERY key; for each lookup: coverage check; covered -> retrieve; otherwise store every row that agrees with the
        lookup (and retrieve, to see that all of them come back).  No row leaves a key open, so no level of the index is mixed."""
        import itertools
        nk = rng.randint(1, 3)
        keys = sorted(rng.sample(range(1, 7), nk))
        allrows = list(itertools.product(range(3), repeat=nk))
        rel = {r: rng.randint(0, 1) for r in rng.sample(allrows, rng.randint(1, min(6, len(allrows))))}
        ops, stored = [], []
        for _ in range(rng.randint(2, 7)):
            L = {k: rng.randint(0, 2) for k in keys if rng.random() < 0.6}
            if not L:
                L = {rng.choice(keys): rng.randint(0, 2)}
            look = list(L.items())
            rng.shuffle(look)
            ops.append(['chk', look])
            if any(all(L.get(k) == v for k, v in zip(keys, r)) for r in stored):
                ops.append(['ret', look])
            else:
                rows = [r for r in rel if all(k not in L or L[k] == v for k, v in zip(keys, r))]
                for r in rows:
                    a = list(zip(keys, r))
                    rng.shuffle(a)
                    ops.append(['ins', a, rel[r]])
                    stored.append(r)
                ops.append(['ret', look])
        return dict(keys=keys, ops=ops, protocol=True)

    def to_coq(self, n, case):
        ops = []
        for op in case['ops']:
            if op[0] == 'ins':
                ops.append(f"OIns {coq_asg(op[1])} {op[2]}")
            elif op[0] == 'chk':
                ops.append(f"OChk {coq_asg(op[1])}")
            elif op[0] == 'ret':
                ops.append(f"ORet {coq_asg(op[1])}")
            elif op[0] == 'mg':
                ops.append(f"ORet {coq_asg(op[1])}")
            else:
                ops.append("OClr")
        if any(op[0] == 'mg' for op in case['ops']):
            flagged = [f"({o}, {'true' if op[0] == 'mg' else 'false'})" for o, op in zip(ops, case['ops'])]
            return f"Eval vm_compute in (run_case_mg {n} [{';'.join(map(str, case['keys']))}] [{'; '.join(flagged)}])."
        return f"Eval vm_compute in (run_case {n} [{';'.join(map(str, case['keys']))}] [{'; '.join(ops)}])."

    def split(self, s):
        m = re.match(r'H (\w) M(.*?) S(.*)$', s + ' ')
        hyp = m.group(1) == 'T'
        return m.group(2).split(), m.group(3).split(), hyp

    # what is compared
    def canon(self, case, io):
        obs = io['obs'] if isinstance(io, dict) else [str(io)]
        return obs, [parse_ret(x) for x in obs]

    def tie_view(self, case, mo):
        return mo

    def prop_view(self, case, so):
        return [parse_ret(x) for x in so]

    # the specification is only claimed for well-formed histories: engine calls prop comparison on all;
    # for malformed ones we make the comparison vacuous by returning the implementation's own view
    def known(self, case, io, mo, so):
        # signature of C20-wildcard-preference: implementation == faithful model, every differing operation is a
        # retrieval that LOST entries (sub-multiset of the reference answer) while the index held a level with both
        # the wildcard and a concrete key
        obs = io['obs']
        for o, s, mix in zip(obs, so, io['mixed']):
            if parse_ret(o) == parse_ret(s):
                continue
            a, b = parse_ret(o), parse_ret(s)
            if not (isinstance(a, list) and isinstance(b, list) and mix):
                return None
            bb = list(b)
            for x in a:
                if x in bb:
                    bb.remove(x)
                else:
                    return None
        return 'C20-wildcard-preference'

    def nontrivial(self, case, io):
        return any(o == 'T' or (o.startswith('[') and o != '[]') for o in io['obs'])

    def stats(self, case, io):
        d = {'ops': len(case['ops']), 'keys_%d' % len(case['keys']): 1, 'keys_assigned_after_construction': 1 if case.get('keys_by_setter') else 0}
        for op in case['ops']:
            d['op_' + op[0]] = d.get('op_' + op[0], 0) + 1
        d['most_general_selections'] = sum(1 for op in case['ops'] if op[0] == 'mg')
        d['retrievals_nonempty'] = sum(1 for o in io['obs'] if o.startswith('[') and o != '[]')
        d['checks_true'] = sum(1 for o in io['obs'] if o == 'T')
        d['retrievals_on_mixed_level'] = sum(1 for m in io['mixed'] if m)
        if case.get('protocol'):
            d['protocol_histories_full_rows'] = 1
            d['protocol_retrievals_on_mixed_level'] = d['retrievals_on_mixed_level']      # must stay 0
        return d

    def shrink(self, case):
        ops = case['ops']
        for i in range(len(ops) - 1, -1, -1):
            if len(ops) > 1:
                yield dict(keys=case['keys'], ops=ops[:i] + ops[i + 1:], **({'keys_by_setter': True} if case.get('keys_by_setter') else {}))
        for k in case['keys']:
            if len(case['keys']) > 1:
                ks = [x for x in case['keys'] if x != k]
                yield dict(keys=ks, ops=[[o[0]] + ([[kv for kv in o[1] if kv[0] != k]] + o[2:] if len(o) > 1 else []) for o in ops])
        for i, o in enumerate(ops):
            if len(o) > 1 and len(o[1]) > 1:
                for j in range(len(o[1])):
                    o2 = [o[0], o[1][:j] + o[1][j + 1:]] + o[2:]
                    yield dict(keys=case['keys'], ops=ops[:i] + [o2] + ops[i + 1:])


class C05MG(C20):
    """C05, the cached call site below the evaluator: histories over cache_data.IndexedCache in which retrievals are reduced by
    BinaryOperator._most_general_ - the model's [most_general (ic_retrieve ...)] (IndexedMemo_Facts / IndexedMemo_Den: what a covered
    lookup is answered with).  Only part of C05's check (check.py mixes it into the query family)."""
    pid = 'C05'
    mg_share = 0.6
    rule = ("HISTORIES OVER THE INDEX with retrievals reduced by BinaryOperator._most_general_ (what a covered lookup is answered "
            "with): random histories, bindings that contain one another under equal / different truth flags, and the PROTOCOL of a "
            "cached else-if whose rows leave keys open (check; covered -> most general of the retrieval; otherwise store every row)")
    explanation = ("IndexedMemo_Facts.most_general over IndexedCache.ic_retrieve is the model of the replay; it is compared with "
                   "BinaryOperator._most_general_(cache.retrieve(lookup)) as exact sequences")

    def gen(self, rng, i, tier):
        r = rng.random()
        if r < 0.4:
            return self.gen_open_protocol(rng)
        if r < 0.75:
            return self.gen_subsumption(rng)
        return C20.gen(self, rng, i, 'quick')

    def gen_open_protocol(self, rng):
        """an else-if `A(x) or else B(x, z)` (optionally a third key w that only lookups bind) as a cached operator: under a lookup
        it yields, for every x the lookup allows, the row {x} + lookup when A(x) holds (z stays OPEN unless the lookup binds it),
        otherwise one row per z with the flag of B(x, z).  For each lookup of the history: coverage check; covered -> the most general
        rows of the retrieval; otherwise every row is stored."""
        nk = rng.randint(2, 3)
        keys = sorted(rng.sample(range(1, 7), nk))
        kx, kz = keys[0], keys[1]
        if rng.random() < 0.5:
            kx, kz = kz, kx
        vals = [0, 1, 2]
        A = {x: rng.random() < 0.5 for x in vals}
        B = {(x, z): rng.random() < 0.5 for x in vals for z in vals}
        with_false = rng.random() < 0.6
        ops, stored = [], []
        for _ in range(rng.randint(3, 8)):
            L = {k: rng.choice(vals) for k in keys if rng.random() < 0.55}
            if not L:
                L = {rng.choice(keys): rng.choice(vals)}
            look = list(L.items())
            rng.shuffle(look)
            ops.append(['chk', look])
            if any(all(L.get(k) == v for k, v in e.items()) for e in stored):
                ops.append(['mg', look])
                continue
            for x in ([L[kx]] if kx in L else vals):
                if A[x]:
                    rows = [({**L, kx: x}, 0)]
                else:
                    rows = [({**L, kx: x, kz: z}, 0 if B[(x, z)] else 1) for z in ([L[kz]] if kz in L else vals)]
                for r, flag in rows:
                    if flag and not with_false:
                        continue
                    a = list(r.items())
                    ops.append(['ins', a, flag])
                    stored.append(r)
        return dict(keys=keys, ops=ops, open_protocol=True)

    def stats(self, case, io):
        d = C20.stats(self, case, io)
        d = {'index_' + k: v for k, v in d.items()}
        if case.get('open_protocol'):
            d['index_open_row_protocol_histories'] = 1
            d['index_covered_lookups_replayed'] = sum(1 for op in case['ops'] if op[0] == 'mg')
        return d
