"""C04 / C07 — histories of evaluations: a query's answer does not depend on what was evaluated before it; evaluation is
demand-driven and consumes lazily supplied domains only as needed."""
import re, collections, copy, json
from qcase import coq_qcase, coq_cond, coq_val, parse_rows, all_selected, term_keys, cond_ops
import gen_query
from gen_query import F

BIG = F['big()']


def mentions_big(c):
    return ('"f", %d]' % BIG) in json.dumps(c)


def coq_heap(heap):
    return "[" + "; ".join("[" + "; ".join(coq_val(v) for v in o) + "]" for o in heap) + "]"


class Expect:
    """an expectation compared with an observation by a custom relation (the engine only uses ==)"""
    def __init__(self, fn, desc):
        self.fn, self.desc = fn, desc

    def __eq__(self, other):
        try:
            return bool(self.fn(other))
        except Exception:
            return False

    def __ne__(self, other):
        return not self.__eq__(other)

    def __repr__(self):
        return 'Expect(%s)' % (self.desc,)


def rows_list(s):
    return [r for r in s.split(';') if r != ''] if isinstance(s, str) else None


class HistoryFamily:
    pid = None
    targets = ['theories/Values.vo', 'theories/Syntax.vo', 'theories/Spec.vo', 'theories/Generated.vo', 'theories/Elab.vo',
               'theories/EvalPure.vo', 'theories/Run.vo', 'theories/Lazy.vo']
    header = "From EQL Require Import Base Values Syntax Spec Elab EvalPure Run Lazy.\nOpen Scope string_scope."
    impl_script = 'impl_history.py'
    impl_timeout = 1800
    p_multi = 0.5
    search_factor = 3          # (histories are slow to run: the search for a failing input after a broken proof / tie uses 3x the quick budget)

    def budget(self, tier):
        return {'quick': 400, 'thorough': 5000, 'search': 1}.get(tier, 400)

    # ------------------------------------------------------------------------------------------ generation
    def gen_lazy1(self, rng, tier, max_ops=7):
        # (one case in eight has a domain of 21-30 objects: the library treats variables with more than 20 memoised elements
        #  specially when a query has no condition - it warns about a cartesian product)
        big = rng.random() < 0.125
        nobj = rng.randint(22, 30) if big else rng.randint(3, 8)
        heap = gen_query.gen_heap(rng, nobj, True)
        dom = rng.sample(range(nobj), rng.randint(21 if big else 1, nobj))
        if rng.random() < 0.3:
            for _ in range(rng.randint(1, 3)):
                dom.insert(rng.randrange(len(dom) + 1), rng.choice(dom))        # the domain lists an object twice
        g = gen_query.Gen(rng, 1, maxdepth=2)
        g.consts = False          # (the pull counts of the lazy model are claimed for conditions whose every leaf mentions the variable)
        queries = []
        for _ in range(rng.choice([1, 2, 2, 3])):
            guard = None
            if rng.random() < 0.8:
                for _try in range(20):
                    guard = g.cond(rng.randint(0, 2))
                    if not mentions_big(guard):
                        break
                else:
                    guard = None
            if guard is not None and rng.random() < 0.3:
                # a conjunction as the first side of a disjunction: the conjunction is asked for its false rows too
                lf = lambda: next(c for c in (g.cond(0) for _ in range(50)) if not mentions_big(c))
                guard = ['or', ['and', lf(), lf(), rng.choice(['fn', 'op'])], lf(), rng.choice(['fn', 'op'])]
            if rng.random() < 0.15:
                # a membership test against a CONSTANT container (the constant is the operand evaluated first, the attribute of the
                # variable second): alone, or as the left operand of a conjunction / disjunction
                f = gen_query.F[rng.choice('ab')]
                vals = ['lit', [rng.choice([0, 1, 2, 3]) for _ in range(rng.randint(1, 3))]]
                attr = ['map', ['f', f], ['var', 1]]
                mem = ['in', attr, vals] if rng.random() < 0.5 else ['contains', vals, attr]
                r_ = rng.random()
                guard = mem if r_ < 0.5 or guard is None else ['and', mem, guard, 'fn'] if r_ < 0.8 else ['or', mem, guard, 'fn']
            pred = rng.random() < 0.5 or guard is None
            if rng.random() < (0.5 if big else 0.1):
                guard, pred = None, False                                       # no condition at all: an(entity(x))
            queries.append(dict(guard=guard, pred=pred))
        ops = []
        if big:
            # more than 20 elements memoised by an abandoned evaluation, the rest of the iterator still unread
            queries[0] = dict(guard=None, pred=False)
            ops.append(['take', 0, rng.randint(21, len(dom))])
        for _ in range(rng.randint(1, max_ops)):
            i = rng.randrange(len(queries))
            r = rng.random()
            if r < 0.3:
                ops.append(['full', i])
            elif r < 0.75 or not queries[i]['pred']:
                ops.append(['take', i, rng.randint(0, len(dom) + 1) if rng.random() < (0.7 if big else 0.3) else rng.randint(0, 3)])
            else:
                ops.append(['raise', i, rng.randint(1, len(dom))])
        ops.append(['full', rng.randrange(len(queries))])
        if rng.random() < 0.35:
            # the same query object evaluated to completion several times in a row (what an operator cache recorded during one
            # evaluation is what the next one reads, what THAT one records is what the third one reads)
            ops += [['full', ops[-1][1]]] * rng.randint(2, 3)
        return dict(kind='lazy1', heap=heap, dom=dom, queries=queries, ops=ops)

    def gen_shared_disjunction(self, rng, tier):
        """two queries over the same two variables, each putting the SAME disjunction object under its own conjunction; the query
        that was not built last is evaluated twice in a row, the other one in between / abandoned"""
        nobj = rng.randint(4, 7)
        heap = gen_query.gen_heap(rng, nobj, True)
        for o in heap:
            o[0], o[1] = rng.randint(0, 2), rng.randint(0, 2)
            o[8] = o[0] >= 2
        doms = [[k, rng.sample(range(nobj), rng.randint(2, min(5, nobj)))] for k in (1, 2)]

        def lf(u, v):
            l = ['map', ['f', F[rng.choice('ab')]], ['var', u]]
            if v is None:
                return ['cmp', rng.choice(['==', '!=', '<=', '>']), l, ['lit', rng.randint(0, 2)]]
            return ['cmp', rng.choice(['==', '!=', '<', '>=']), l, ['map', ['f', F[rng.choice('ab')]], ['var', v]]]
        either = ['or', lf(1, None), lf(2, 1), rng.choice(['fn', 'op'])]
        if rng.random() < 0.3:
            either = ['or', lf(2, 1), lf(1, None), 'fn']
        sel = [['var', 1], ['var', 2]]
        binders = [['var', 1], ['var', 2]]
        q1 = dict(sel=sel, cond=['and', lf(1, None), either, 'fn'], binders=binders, form='set_of')
        q2 = dict(sel=list(reversed(sel)) if rng.random() < 0.5 else sel, cond=['and', lf(2, None), either, 'fn'], binders=binders, form='set_of')
        ops = [['full', 0], ['full', 0], ['full', 1]]
        if rng.random() < 0.6:
            ops.append(['take', 1, rng.randint(1, 2)])
        ops += [['full', 0], ['full', 1]]
        return dict(kind='multi', heap=heap, doms=doms, pool=[q1, q2], ops=ops, share_terms=True, share_conds=True)

    def gen_multi(self, rng, tier):
        if rng.random() < 0.15:
            return self.gen_shared_disjunction(rng, tier)
        nv = rng.choice([1, 2, 2, 3])
        if rng.random() < 0.12:
            # a query with NESTED queries (in condition position, as comparison operands, the(...) under a disjunction): the nodes of a
            # nested query hold de-duplication state of their own, which every evaluation - also one after an abandoned one - must reset
            base = gen_query.gen_case_sub(rng, tier)
            q = dict(sel=base['sel'], cond=base['cond'], binders=base['binders'], form=base['form'])
            ops = [['take', 0, rng.randint(1, 4)] + (['keep'] if rng.random() < 0.3 else []) for _ in range(rng.randint(1, 2))]
            ops += [['full', 0], ['full', 0]]
            return dict(kind='multi', heap=base['heap'], doms=base['doms'], pool=[q], ops=ops, share_terms=False)
        base = gen_query.gen_case(rng, nvars=nv, falsy=True, neg=True, maxdepth=2, select=rng.choice(['all', 'some']), dom_max=3, empty_dom=True)
        while base['cond'] is None:
            base = gen_query.gen_case(rng, nvars=nv, falsy=True, neg=True, maxdepth=2, select=rng.choice(['all', 'some']), dom_max=3, empty_dom=True)
        keys = [k for k, _ in base['doms']]
        share_conds = [False]
        pool = [dict(sel=base['sel'], cond=base['cond'], binders=base['binders'], form=base['form'])]
        g = gen_query.Gen(rng, nv, maxdepth=2)
        g.keys = keys
        for _ in range(rng.choice([1, 1, 2])):
            subs = [c_ for c_ in sub_conditions(base['cond']) if c_[0] in ('or', 'and')]
            subs = [c_ for c_ in subs if c_[0] == 'or'] or subs
            if subs and rng.random() < 0.4:
                # the same disjunction / conjunction OBJECT under another conjunction in another query
                shared = rng.choice(subs)
                other = g.cond(rng.randint(0, 1))
                cond = ['and', other, shared, 'fn'] if rng.random() < 0.7 else ['and', shared, other, 'fn']
                used = sorted(gen_query.cond_keys(cond, set()))
                sel = [['var', k] for k in used]
                share_conds[0] = True
            elif rng.random() < 0.35 and base['cond'] is not None:
                # the same sub-expressions in another position: an operand / a condition of the first query is selected or compared
                terms = [t for t in all_terms(base['cond']) if t[0] == 'map']
                t = rng.choice(terms) if terms else ['var', rng.choice(keys)]
                r = rng.random()
                vs = sorted(term_keys(t, set()))
                if r < 0.25 and vs:
                    # ... or SELECTED next to its variables
                    cond = g.cond(rng.randint(0, 1))
                    vs = sorted(set(vs) | gen_query.cond_keys(cond, set()))
                    sel = [['var', k] for k in vs] + [t]
                elif r < 0.55 and vs:
                    cond = ['cmp', rng.choice(['==', '!=']), t, ['lit', rng.choice([0, '', None, False, 1, 2])]]
                    sel = [['var', k] for k in vs]
                else:
                    cond = ['truth', t] if vs else g.cond(1)
                    sel = [['var', k] for k in (vs or [rng.choice(keys)])]
            else:
                cond = g.cond(rng.randint(0, 2))
                used = sorted(gen_query.cond_keys(cond, set()))
                sel = [['var', k] for k in (used if rng.random() < 0.7 else rng.sample(used, rng.randint(1, len(used))))]
            rng.shuffle(sel)
            used = gen_query.cond_keys(cond, set())
            for t in sel:
                term_keys(t, used)
            q = dict(sel=sel, cond=cond, binders=[['var', k] for k in keys if k in used],
                     form='entity' if len(sel) == 1 and rng.random() < 0.5 else 'set_of')
            if rng.random() < 0.2 and all(k in {s[1] for s in sel if s[0] == 'var'} for k in used):
                q['form'], q['infer'] = 'infer', True
            pool.append(q)
        ops = []
        for _ in range(rng.randint(1, 5)):
            i = rng.randrange(len(pool))
            r = rng.random()
            if r < 0.35:
                ops.append(['full', i])
            elif r < 0.8:
                ops.append(['take', i, rng.randint(0, 3)])
            else:
                ops.append(['raise', i, rng.randint(1, 4)])
        ops.append(['full', rng.randrange(len(pool))])
        # an abandoned iterator may stay REFERENCED (suspended: its finally clause has not run when the next evaluation starts)
        ops = [op + ['keep'] if op[0] == 'take' and rng.random() < 0.35 else op for op in ops]
        if share_conds[0] and rng.random() < 0.7:
            # the query that was NOT built last, evaluated twice in a row
            ops = [['full', 0], ['full', 0]] + ops
        share = rng.random() < 0.6 or share_conds[0]
        return dict(kind='multi', heap=base['heap'], doms=base['doms'], pool=pool, ops=ops, share_terms=share, share_conds=share_conds[0])

    def gen(self, rng, i, tier):
        return self.gen_multi(rng, tier) if rng.random() < self.p_multi else self.gen_lazy1(rng, tier)

    # ------------------------------------------------------------------------------------------ Coq side
    def to_coq(self, n, case):
        if case['kind'] == 'lazy1':
            qs = []
            for q in case['queries']:
                g = f"Some ({coq_cond(q['guard'])})" if q['guard'] is not None else "None"
                p = f"Some (TMap (MField {BIG}) (TVar 1))" if q['pred'] else "None"
                qs.append(f"{{| cq_guard := {g}; cq_pred := {p} |}}")
            ops = []
            for op in case['ops']:
                ops.append(f"LFull {op[1]}" if op[0] == 'full' else f"LTake {op[1]} {op[2]}" if op[0] == 'take' else f"LRaise {op[1]} {op[2]}")
            dom = "[" + "; ".join(str(i) for i in case['dom']) + "]"
            return f"Eval vm_compute in (run_lcase {n} {coq_heap(case['heap'])} {dom} [{'; '.join(qs)}] [{'; '.join(ops)}])."
        cs = []
        for q in case['pool']:
            c = dict(heap=case['heap'], doms=[d for d in case['doms'] if d[0] in ({b[1] for b in q['binders']} | {b[2] for b in q['binders'] if b[0] in ('concat', 'concatflat')})], binders=q['binders'],
                     sel=q['sel'], cond=q['cond'], wrappers=case.get('wrappers'))
            cs.append(coq_qcase(c))
        return f"Eval vm_compute in (run_qpool {n} [{'; '.join(cs)}])."

    def split(self, s):
        m = re.match(r'M(.*?) S(.*)$', s + ' ')
        return m.group(1).strip(), m.group(2).strip(), True

    def within_hypotheses(self, case):
        """the specification speaks of the Cartesian product of NON-EMPTY domains (C02): with an empty domain the product is empty
        although a query may never need to enumerate that variable (a disjunct it is absent from) - such histories are compared
        with the model only"""
        if all(len(d) > 0 for _, d in case.get('doms', [])):
            return True
        # (a query that SELECTS every one of its variables has to enumerate every one of them: no rows over an empty domain, as specified)
        from qcase import term_keys

        def all_selected(q):
            sel = set()
            for t in q['sel']:
                if t[0] != 'var':
                    return False
                sel.add(t[1])
            return sel >= {b[1] for b in q['binders'] if b[0] == 'var'}
        return all(all_selected(q) for q in case.get('pool', []))

    # ------------------------------------------------------------------------------------------ comparison
    def canon(self, case, io):
        return io, io

    def tie_view(self, case, mo):
        if case['kind'] == 'lazy1':
            exp = 'p0 ' + mo
            return Expect(lambda io: isinstance(io, dict) and io.get('off') == exp, exp)
        model = [parse_rows(x) for x in mo.split(' || ')]
        return Expect(lambda io: self.multi_ok(case, io, model, exact=True, configs=('off',)), mo)

    def prop_view(self, case, so):
        if case['kind'] == 'lazy1':
            spec = so.split()

            def ok(io):
                for cfg in ('off', 'on'):
                    obs = io[cfg].split()
                    if obs[0] != 'p0' or len(obs) != len(spec) + 1:
                        return False
                    for o, s in zip(obs[1:], spec):
                        ms = re.match(r'(-|\[.*\])p(\d+)$', s)
                        m = re.match(r'(\[.*\])p(\d+)m\d+$', o)
                        if not m or not ms:
                            return False
                        if self.pid == 'C07' and m.group(2) != ms.group(2):
                            return False            # more (or less) of the one-shot iterator has been read than the step needed
                        if ms.group(1) != '-' and sorted(m.group(1)[1:-1].split(',')) != sorted(ms.group(1)[1:-1].split(',')):
                            return False
                return True
            return Expect(ok, so)
        spec = [parse_rows(x) for x in so.split(' || ')]
        # operator OBJECTS shared between queries carry their result caches into another context (another yield_when_false): that
        # combination is outside what the caches are designed for, such pools are compared with caching disabled only
        configs = ('off',) if case.get('share_conds') else ('off', 'on')
        return Expect(lambda io: self.multi_ok(case, io, spec, exact=False, configs=configs), so)

    def multi_ok(self, case, io, answers, exact, configs):
        """answers[i] = the rows query i returns on untouched data (model: in the evaluator's order; specification: any order)"""
        if not isinstance(io, dict):
            return False
        for cfg in configs:
            obs = io.get(cfg)
            if not isinstance(obs, list) or len(obs) != len(case['ops']):
                return False
            for op, o in zip(case['ops'], obs):
                q = case['pool'][op[1]]
                ans = answers[op[1]]
                if isinstance(ans, str) or o.startswith('X'):
                    return False
                rows = rows_list(o)
                aborted = bool(rows) and rows[-1] == '!'
                if aborted:
                    rows = rows[:-1]
                sel_all = all_selected(dict(sel=q['sel'], binders=q['binders'])) or q.get('infer')
                # (a nested constructor argument is modelled as one more conjunct: the ORDER of the rows is not modelled)
                exact = exact and not any(t[0] == 'nest' for t in q['sel']) and q.get('head_style') != 'mixed'
                if op[0] == 'full' or (op[0] == 'raise' and not aborted):
                    if sel_all:
                        if (rows != ans) if exact else (sorted(rows) != sorted(ans)):
                            return False
                    elif set(rows) != set(ans):
                        return False
                else:
                    # partial evaluation: what was delivered is a part of the answer (its first rows when the order is known)
                    if op[0] == 'take' and len(rows) > op[2]:
                        return False
                    if sel_all:
                        if exact and rows != ans[:len(rows)]:
                            return False
                        if collections.Counter(rows) - collections.Counter(ans):
                            return False
                        if op[0] == 'take' and len(rows) != min(op[2], len(ans)):
                            return False
                    elif not set(rows) <= set(ans):
                        return False
        return True

    def known(self, case, io, mo, so):
        """C05-wildcard-retrieval in a history: every step with caching DISABLED is as specified, a cached evaluation visited an index
        level holding both the wildcard and a concrete key, and every step with caching enabled delivered a sub-multiset of the
        specified rows (rows lost, never invented)"""
        if case.get('kind') != 'multi' or not isinstance(io, dict) or not io.get('mixed_level_retrieval'):
            return None
        if io.get('served_from_incomplete_evaluation'):
            return None          # a cache filled by an evaluation that did not run to completion was read: a different defect
        spec = [parse_rows(x) for x in so.split(' || ')]
        if not self.multi_ok(case, io, spec, exact=False, configs=('off',)):
            return None
        obs = io.get('on')
        if not isinstance(obs, list) or len(obs) != len(case['ops']):
            return None
        for op, o in zip(case['ops'], obs):
            ans = spec[op[1]]
            if isinstance(ans, str) or o.startswith('X'):
                return None
            rows = [r for r in rows_list(o) if r != '!']
            if collections.Counter(rows) - collections.Counter(ans):
                q = case['pool'][op[1]]
                if all_selected(dict(sel=q['sel'], binders=q['binders'])) or q.get('infer') or not set(rows) <= set(ans):
                    return None
        # control: with the REFERENCE retrieval in place of IndexedCache.retrieve every full evaluation returns the specified row SET
        ref = io.get('onref')
        if not isinstance(ref, list) or len(ref) != len(case['ops']):
            return None
        for op, o in zip(case['ops'], ref):
            ans = spec[op[1]]
            if o.startswith('X'):
                return None
            rows = [r for r in rows_list(o) if r != '!']
            if op[0] == 'full' and set(rows) != set(ans):
                return None
            if op[0] != 'full' and not set(rows) <= set(ans):
                return None
        return 'C05-wildcard-retrieval'

    def nontrivial(self, case, io):
        if not isinstance(io, dict):
            return False
        partial = sum(1 for op in case['ops'][:-1] if op[0] != 'full')
        if case['kind'] == 'lazy1':
            obs = io.get('off', '').split()
            last = obs[-1] if obs else ''
            m = re.match(r'\[(.*)\]p', last)
            return partial > 0 and bool(m) and 0 < len([x for x in m.group(1).split(',') if x]) < len(set(case['dom']))
        obs = io.get('off')
        return partial > 0 and isinstance(obs, list) and bool(obs) and bool(rows_list(obs[-1]))

    def stats(self, case, io):
        d = collections.Counter()
        d['kind_' + case['kind']] += 1
        for op in case['ops']:
            d['op_' + op[0]] += 1
        d['steps'] += len(case['ops'])
        if case['kind'] == 'lazy1':
            d['domains_with_repeated_object'] += 1 if len(set(case['dom'])) < len(case['dom']) else 0
            d['take_0'] += sum(1 for op in case['ops'] if op[0] == 'take' and op[2] == 0)
            if isinstance(io, dict):
                d['aborted_by_exception'] += sum(1 for op, o in zip(case['ops'], io.get('off', '').split()[1:]) if op[0] == 'raise')
        else:
            d['pool_size_%d' % len(case['pool'])] += 1
            d['shared_expression_objects'] += 1 if case.get('share_terms') else 0
            d['infer_queries'] += sum(1 for q in case['pool'] if q.get('infer'))
            if isinstance(io, dict) and isinstance(io.get('off'), list):
                d['aborted_by_exception'] += sum(1 for o in io['off'] if o.endswith('!'))
        return d

    def shrink(self, case):
        for j in range(len(case['ops']) - 1):
            d = copy.deepcopy(case)
            d['ops'].pop(j)
            yield d
        if case['kind'] == 'lazy1':
            for j in range(len(case['dom'])):
                if len(case['dom']) > 1:
                    d = copy.deepcopy(case)
                    d['dom'].pop(j)
                    yield d
        else:
            for i, (k, dom) in enumerate(case['doms']):
                for j in range(len(dom)):
                    if len(dom) > 1:
                        d = copy.deepcopy(case)
                        d['doms'][i][1].pop(j)
                        yield d
            if case.get('share_terms'):
                d = copy.deepcopy(case)
                d['share_terms'] = False
                yield d


def sub_conditions(c):
    """proper sub-conditions that are not below a negation"""
    if c is None:
        return
    k = c[0]
    if k in ('and', 'or'):
        for x in (c[1], c[2]):
            yield x
            yield from sub_conditions(x)


def all_terms(c):
    k = c[0]
    if k == 'cmp':
        yield c[2]
        yield c[3]
    elif k in ('in', 'contains'):
        yield c[1]
        yield c[2]
    elif k == 'truth':
        yield c[1]
    elif k in ('and', 'or'):
        yield from all_terms(c[1])
        yield from all_terms(c[2])
    elif k == 'not':
        yield from all_terms(c[1])
    elif k in ('forall', 'sub'):
        yield from all_terms(c[2])


class C04(HistoryFamily):
    pid = 'C04'
    rule = ("histories of 2-8 operations over a pool of 1-3 queries that share their variables (and, in most cases, their attribute / "
            "index / call expression OBJECTS): evaluate fully, take k results then close the iterator (k = 0 included), evaluate while a "
            "user predicate raises at its j-th call; half of the cases use one variable over a one-shot iterator domain (possibly listing "
            "an object several times) and are compared EXACTLY with the lazy-domain model after every step (rows delivered, elements "
            "pulled, elements memoised; caching disabled) and as row sets with caching enabled; the other half use 1-3 variables, "
            "projections, sub-expressions of one query selected / compared in another, rule inference, and compare every step's rows with "
            "the answer on untouched data (full evaluations: equal; partial ones: the first rows / a part of it); the user's objects and "
            "collections are checked to be unmodified after every history; non-trivial = the history contains an abandoned or aborted "
            "evaluation and the final answer is neither empty nor everything")
    explanation = ("C04_history_independent / C04_content_invariant / C04_repeated_object are proved over the lazy-domain model for all "
                   "histories; C04_any_advance covers several variables; tie = every step of generated histories against the model")

    def gen(self, rng, i, tier):
        if rng.random() < 0.15:
            # literal-free joins over three variables, abandoned after a few rows (the iterator closed or kept), then evaluated fully, twice
            return join_history(self, rng, tier)
        return HistoryFamily.gen(self, rng, i, tier)


class C07(HistoryFamily):
    pid = 'C07'
    p_multi = 0.0
    rule = ("one variable whose domain is supplied as a LOGGING ONE-SHOT ITERATOR; pools of 1-3 queries over it (random condition "
            "trees, optionally and-ed with a user predicate), histories of 2-8 partial and full evaluations (take k for k = 0 .. more than "
            "available, aborted by an exception, full); after EVERY step the number of elements pulled from the iterator and the number "
            "memoised are compared with the model together with the rows delivered; the iterator's log is checked to be the exact prefix "
            "of the supplied sequence with no element pulled twice; creating the iterator (and declaring the variable / building the "
            "queries) must pull nothing; non-trivial as for C04")
    explanation = ("C07_nothing_before_first_request / C07_exact_prefix / C07_never_pulled_twice are proved over the lazy-domain model; "
                   "tie = pulled / memoised counts and rows after every step of generated histories")

    def gen(self, rng, i, tier):
        return self.gen_lazy1(rng, tier)


# ------------------------------------------------------------------------------------------------------------------------
# query-family checks that also run histories (an expression / a rule evaluated earlier, in another position or only partly)
def with_histories(base_cls, share, make_case):
    """a family whose generated cases are mostly the base family's and partly multi-variable histories built by make_case"""
    H = HistoryFamily()

    class Mixed(base_cls):
        header = HistoryFamily.header
        targets = HistoryFamily.targets
        impl_script = 'impl_history.py'

        def gen(self, rng, i, tier):
            if rng.random() < share:
                c = make_case(H, rng, tier)
                c['hist'] = True
                return c
            return base_cls.gen(self, rng, i, tier)

        def to_coq(self, n, case):
            return H.to_coq(n, case) if case.get('hist') else base_cls.to_coq(self, n, case)

        def split(self, s):
            return H.split(s)

        def within_hypotheses(self, case):
            return H.within_hypotheses(case) if case.get('hist') else base_cls.within_hypotheses(self, case)

        def canon(self, case, io):
            return H.canon(case, io) if case.get('hist') else base_cls.canon(self, case, io)

        def tie_view(self, case, mo):
            return H.tie_view(case, mo) if case.get('hist') else base_cls.tie_view(self, case, mo)

        def prop_view(self, case, so):
            return H.prop_view(case, so) if case.get('hist') else base_cls.prop_view(self, case, so)

        def known(self, case, io, mo, so):
            return H.known(case, io, mo, so) if case.get('hist') else base_cls.known(self, case, io, mo, so)

        def nontrivial(self, case, io):
            return H.nontrivial(case, io) if case.get('hist') else base_cls.nontrivial(self, case, io)

        def stats(self, case, io):
            if case.get('hist'):
                d = H.stats(case, io)
                return collections.Counter({'hist_' + k: v for k, v in d.items()})
            return base_cls.stats(self, case, io)

        def shrink(self, case):
            return H.shrink(case) if case.get('hist') else base_cls.shrink(self, case)
    Mixed.__name__ = base_cls.__name__
    Mixed.rule = base_cls.rule + ('; a quarter of the cases are HISTORIES over a pool of queries sharing variables and expression objects '
                                  '(evaluate fully / take k then close / aborted by an exception), every step compared with the answer on '
                                  'untouched data (' + make_case.__doc__.strip() + ')')
    return Mixed


def lazy_history(H, rng, tier):
    """one variable over a one-shot iterator, a pool of single-variable queries, a history of full / partial / aborted evaluations:
    every full evaluation returns the filter of the domain, whatever was evaluated (or abandoned) before"""
    return H.gen_lazy1(rng, tier)


def falsy_shared_history(H, rng, tier):
    """a pool whose queries reuse the SAME expression objects in condition position and in value position, on falsy-heavy data"""
    if rng.random() < 0.2:
        # the same attribute expression is a CONDITION in one query and is CONCATENATED (alone, or next to its variable's peer) in
        # another: the concatenation holds every value, the falsy ones included, whichever query was built / evaluated first
        nobj = rng.randint(2, 5)
        heap = gen_query.gen_heap(rng, nobj, True)
        for o in heap:
            o[0] = rng.choice([0, 0, 1, 2])
            o[4] = rng.choice([None, 0, 2])
            o[5] = rng.choice([False, True])
            o[2] = rng.choice(['', 'u'])
            o[8] = o[0] >= 2
        f = rng.choice(['a', 'n', 'f', 's'])
        t = ['map', ['f', gen_query.F[f]], ['var', 1]]
        dom = rng.sample(range(nobj), rng.randint(1, nobj))
        q1 = dict(sel=[['var', 1]], cond=['truth', t], binders=[['var', 1]], form='entity')
        q2 = dict(sel=[['concat', 6, t]], cond=None, binders=[['concat', 6, 1, t]], form='entity')
        pool = [q1, q2] if rng.random() < 0.5 else [q2, q1]
        ops = [[rng.choice(['full', 'full', 'take']), rng.randrange(2)] for _ in range(rng.randint(0, 2))]
        ops = [o + [1] if o[0] == 'take' else o for o in ops] + [['full', 0], ['full', 1]]
        return dict(kind='multi', heap=heap, doms=[[1, dom]], pool=pool, ops=ops, share_terms=True, list_items=False)
    c = H.gen_multi(rng, tier)
    c['share_terms'] = True
    for o in c['heap']:
        if rng.random() < 0.6:
            o[0] = 0
        if rng.random() < 0.5:
            o[2] = ''
        if rng.random() < 0.5:
            o[4] = rng.choice([None, 0])
        if rng.random() < 0.5:
            o[5] = False
        o[8] = o[0] >= 2
    return c


def infer_history(H, rng, tier):
    """a rule evaluated partly (take k / aborted) and then fully: one instance per satisfying assignment every time"""
    import p_query
    base = p_query.C11().gen(rng, 0, tier)
    q = dict(sel=base['sel'], cond=base['cond'], binders=base['binders'], form='infer', infer=True, head_style=base.get('head_style', 'kw'))
    ops = []
    for _ in range(rng.randint(1, 3)):
        ops.append(['take', 0, rng.randint(0, 2)] if rng.random() < 0.7 else ['full', 0])
    ops.append(['full', 0])
    return dict(kind='multi', heap=base['heap'], doms=base['doms'], pool=[q], ops=ops, share_terms=rng.random() < 0.5,
                wrappers=base.get('wrappers'))


def join_history(H, rng, tier):
    """a literal-free join over three variables abandoned after a few rows (caching enabled keeps / drops operator caches), then evaluated fully, twice"""
    base = gen_query.gen_case_join(rng, tier)
    if rng.random() < 0.6:
        # a disjunction of two conjunctions whose operands are disjunctions over different variable sets (variable-variable and
        # variable-literal comparisons, one operand possibly negated)
        keys = [1, 2, 3]

        def lf():
            x, y = rng.choice(keys), rng.choice(keys)
            fu, fv = rng.choice('ab'), rng.choice('ab')
            if x == y and fu == fv:
                fv = 'b' if fu == 'a' else 'a'
            if rng.random() < 0.4:
                return ['cmp', '==', ['map', ['f', F[fu]], ['var', x]], ['lit', rng.randint(0, 1)]]
            return ['cmp', rng.choice(['==', '==', '!=', '<=']), ['map', ['f', F[fu]], ['var', x]], ['map', ['f', F[fv]], ['var', y]]]

        def disj():
            if rng.random() < 0.2:
                return ['not', lf(), 'fn']
            return ['or', lf(), lf(), rng.choice(['fn', 'op'])]
        base['cond'] = ['or', ['and', disj(), disj(), 'fn'], ['and', disj(), disj(), 'fn'], rng.choice(['fn', 'op'])]
        used = gen_query.cond_keys(base['cond'], set())
        base['sel'] = [['var', k] for k in keys if k in used]
        base['binders'] = [['var', k] for k in keys if k in used]
        base['doms'] = [d for d in base['all_doms'] if d[0] in used]
    q = dict(sel=base['sel'], cond=base['cond'], binders=base['binders'], form='set_of')
    ops = [['take', 0, rng.randint(1, 4)]]
    if rng.random() < 0.4:
        ops.append(['take', 0, rng.randint(1, 10)])
    # (the abandoned iterator closed - or, a third of the time, still referenced and suspended while the query is evaluated again)
    ops = [op + ['keep'] if rng.random() < 0.35 else op for op in ops]
    ops += [['full', 0], ['full', 0]]
    return dict(kind='multi', heap=base['heap'], doms=base['doms'], pool=[q], ops=ops, share_terms=False)
