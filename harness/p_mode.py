"""C08 / C09 — the symbolic-mode machine."""
import re, collections

BL = {'query': 'BQuery', 'rule': 'BRule', 'rule_q': 'BRuleQ', 'with_q': 'BWithQ'}
ROWS = 2          # every query of the pool has two rows: the third `next` exhausts the generator
NESTED = 1        # the iterator whose query nests a symbolic block and a complete evaluate() inside every advance


class C08:
    pid = 'C08'
    targets = ['theories/Generated.vo', 'theories/Mode.vo', 'theories/Mode_Facts.vo']
    header = "From EQL Require Import Base Generated Mode.\nOpen Scope string_scope."
    impl_script = 'impl_mode.py'
    rule = ("random well-bracketed histories (<= 12 steps quick, <= 30 thorough) over: enter/leave symbolic_mode, rule_mode, rule_mode(q), "
            "`with q:`; raise inside the innermost block; create / advance (yielding or exhausting) / close / drop (del + gc.collect) up to "
            "three result iterators (one of them over a query whose condition is a user predicate that opens a symbolic block of its own and runs a complete nested evaluate() inside every advance), and evaluate the(...) queries with one / no / several solutions (the exception handled on the spot), at any "
            "point inside or outside any block; after EVERY step the mode variable, in_symbolic_mode(), the "
            "type a @symbol constructor returns, whether an operator on a variable is rejected, and the expression-stack depth are compared "
            "with the model and with the reference stack; non-trivial = the history advances an iterator inside a block and later leaves it")
    explanation = ("C08_confined / C08_block_restores / C08_outside are proved for all histories; the bracketing of An.evaluate is read from "
                   "the source by the translator on every run; tie = observation after every step")

    def budget(self, tier):
        return {'quick': 300, 'thorough': 5000, 'search': 1}.get(tier, 300)

    def gen(self, rng, i, tier):
        n = rng.randint(3, 12 if tier != 'thorough' else 30)
        ops, depth = [], 0
        live = {}          # iterator -> number of rows delivered, or 'fresh'
        for _ in range(n):
            r = rng.random()
            if rng.random() < 0.12:
                # a the(...) query evaluated right here: one solution, or none / several with the exception handled on the spot
                ops.append(['the', rng.choice(['one', 'none', 'many', 'many'])])
                continue
            if r < 0.22:
                ops.append(['enter', rng.choice(['query', 'query', 'rule', 'rule_q', 'with_q'])])
                depth += 1
            elif r < 0.38 and depth:
                ops.append(['leave'] if rng.random() < 0.75 else ['raise'])
                depth -= 1
            elif r < 0.5:
                i_ = rng.randrange(3)
                if i_ not in live:
                    ops.append(['create', i_])
                    live[i_] = 0
            elif r < 0.8 and live:
                i_ = rng.choice(list(live))
                if live[i_] is not None:
                    exhausts = live[i_] >= ROWS
                    ops.append(['next', i_, exhausts])
                    live[i_] = None if exhausts else live[i_] + 1
            elif r < 0.9 and live:
                i_ = rng.choice(list(live))
                ops.append(['close', i_])
                live[i_] = None
            elif live:
                i_ = rng.choice(list(live))
                ops.append(['drop', i_])
                del live[i_]
        return dict(ops=ops)

    def to_coq(self, n, case):
        o = []
        for op in case['ops']:
            k = op[0]
            if k == 'enter':
                o.append(f"OEnter {BL[op[1]]}")
            elif k == 'leave':
                o.append("OLeave")
            elif k == 'raise':
                o.append("ORaise")
            elif k == 'create':
                o.append(f"OCreate {op[1]}")
            elif k == 'next':
                # iterator 1 belongs to a query whose condition calls a predicate that opens its own block and evaluates a query there
                o.append(f"{'ONextP' if op[1] == NESTED else 'ONext'} {op[1]} {'true' if op[2] else 'false'}")
            elif k == 'close':
                o.append(f"OClose {op[1]}")
            elif k == 'drop':
                o.append(f"ODrop {op[1]}")
            elif k == 'the':
                o.append(f"OThe {'false' if op[1] == 'one' else 'true'}")
        return f"Eval vm_compute in (run_mcase {n} [{'; '.join(o)}])."

    def split(self, s):
        m = re.match(r'M(.*?) S(.*)$', s + ' ')
        return m.group(1).split(), m.group(2).split(), True

    def canon(self, case, io):
        return io['obs'], io['obs']

    def tie_view(self, case, mo):
        return mo

    def prop_view(self, case, so):
        return so

    def known(self, case, io, mo, so):
        return None

    def nontrivial(self, case, io):
        ops = [o[0] for o in case['ops']]
        return 'next' in ops and 'enter' in ops and ('leave' in ops or 'raise' in ops)

    def stats(self, case, io):
        d = collections.Counter('op_' + o[0] for o in case['ops'])
        d['steps'] += len(case['ops'])
        d['next_inside_block'] += sum(1 for j, o in enumerate(case['ops']) if o[0] == 'next' and
                                      sum(1 for p in case['ops'][:j] if p[0] == 'enter') > sum(1 for p in case['ops'][:j] if p[0] in ('leave', 'raise')))
        return d

    def shrink(self, case):
        ops = case['ops']
        seen = set()
        for i in range(len(ops) - 1, -1, -1):
            c = normalise(ops[:i] + ops[i + 1:])
            key = repr(c)
            if key not in seen and c != ops:
                seen.add(key)
                yield dict(ops=c)


def normalise(ops):
    """drop operations that became invalid and recompute the `exhausts` flags"""
    out, depth, live = [], 0, {}
    for op in ops:
        k = op[0]
        if k == 'enter':
            depth += 1
            out.append(op)
        elif k in ('leave', 'raise'):
            if depth:
                depth -= 1
                out.append(op)
        elif k == 'create':
            if op[1] not in live:
                live[op[1]] = 0
                out.append(op)
        elif k == 'next':
            if live.get(op[1]) is not None and op[1] in live:
                ex = live[op[1]] >= ROWS
                out.append(['next', op[1], ex])
                live[op[1]] = None if ex else live[op[1]] + 1
        elif k == 'close':
            if op[1] in live:
                live[op[1]] = None
                out.append(op)
        elif k == 'drop':
            if op[1] in live:
                del live[op[1]]
                out.append(op)
        elif k == 'the':
            out.append(op)
    return out


class C09:
    pid = 'C09'
    targets = ['theories/Generated.vo', 'theories/Mode.vo', 'theories/Mode09_Facts.vo']
    header = "From EQL Require Import Base Generated Mode.\nOpen Scope string_scope."
    impl_script = 'impl_mode.py'
    rule = ("every combination of quantifier (an, the) x condition kind (plain comparison, @predicate function, Predicate subclass, rule "
            "inference constructing instances, rule over a variable given by keyword only (expanded lazily during evaluation), a Predicate "
            "subclass that builds and evaluates a query of its own inside its own symbolic block, followed by another Predicate subclass) "
            "x dataset (0, 1, 2, 3 qualifying objects), each evaluated under ambient mode none / query / "
            "rule / a query or rule block opened FOR ANOTHER QUERY (its expression on the expression stack) on fresh objects, and (an / infer) with the results of ONE evaluation drawn partly outside and partly inside a block, in "
            "both orders; the seven outcomes (rows by object index, inferred instances by field identity, or the exception class) "
            "must coincide; non-trivial = at least one row or a MultipleSolutionFound outcome")
    explanation = ("C09_ambient is proved from the bracketing flags the translator reads from An.evaluate / The.evaluate on every run; tie = "
                   "the model predicts 'same as with no ambient mode', compared with the three observed outcomes")

    def budget(self, tier):
        return {'quick': 120, 'thorough': 1500, 'search': 1}.get(tier, 120)

    def gen(self, rng, i, tier):
        values = [rng.randint(0, 3) for _ in range(rng.randint(1, 4))]
        return dict(pred=rng.choice(['cmp', 'function', 'class', 'infer', 'kw', 'nested']), quant=rng.choice(['an', 'the']), values=values,
                    level=rng.randint(0, 2))

    def to_coq(self, n, case):
        q = 'mode_during_the' if case['quant'] == 'the' else 'mode_during_an'
        # none / query / rule ambient mode, and one evaluation whose results are drawn partly outside and partly inside a block
        # (every advance sees the mode the model gives for the ambient mode at that advance)
        both = f'show_mode ({q} None) ++ "+" ++ show_mode ({q} (Some MQuery))'
        return (f'Eval vm_compute in ("CASE {n} M " ++ String.concat " " (map (fun a => show_mode ({q} a)) [None; Some MQuery; Some MRule])'
                f' ++ " " ++ {both} ++ " " ++ {both} ++ " " ++ show_mode ({q} (Some MQuery)) ++ " " ++ show_mode ({q} (Some MRule))'
                f' ++ " S N N N N N N N").')

    def split(self, s):
        m = re.match(r'M (.*?) S (.*)$', s)
        return m.group(1).split(), m.group(2).split(), True

    def canon(self, case, io):
        # the model says which mode evaluation sees under each ambient mode; the implementation shows it through outcomes:
        # equal to the outcome under no ambient mode <=> evaluation saw no mode
        base = io.get('none')
        seen = ['N' if io.get(a) == base else 'ambient' for a in ('none', 'query', 'rule', 'split_oi', 'split_io', 'query_q', 'rule_q')]
        return seen, seen

    def tie_view(self, case, mo):
        return ['N' if m in ('N', 'N+N') else 'ambient' for m in mo]

    def prop_view(self, case, so):
        return so

    def known(self, case, io, mo, so):
        return None

    def nontrivial(self, case, io):
        b = io.get('none', '')
        return (b.startswith('R ') and len(b) > 2) or 'Multiple' in b

    def stats(self, case, io):
        d = collections.Counter()
        d['pred_' + case['pred']] += 1
        d['quant_' + case['quant']] += 1
        d['outcome_' + io.get('none', '?').split()[0] + ('_' + io['none'].split()[1] if io.get('none', '').startswith('X') else '')] += 1
        return d

    def shrink(self, case):
        for j in range(len(case['values'])):
            if len(case['values']) > 1:
                d = dict(case)
                d['values'] = case['values'][:j] + case['values'][j + 1:]
                yield d
