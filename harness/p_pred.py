"""C13 — predicate-form terms equal the explicit form and filter by type."""
import re, collections, copy
from qcase import coq_val, coq_term, coq_cond, parse_rows

HEADER = "From EQL Require Import Base Values Syntax Spec Generated Elab EvalPure PredForm.\nOpen Scope string_scope."


def sig_len(classes, c):
    n = 0
    while c is not None:
        n += classes[c]['own']
        c = classes[c]['parent']
    return n


def kwonly_len(classes, c):
    n = 0
    while c is not None:
        n += len(classes[c].get('kwonly', []))
        c = classes[c]['parent']
    return n


def is_sub(classes, c, T):
    while c is not None:
        if c == T:
            return True
        c = classes[c]['parent']
    return False


def coq_pval(v):
    if v[0] == 'const':
        return f"PConst ({coq_val(v[1])})"
    if v[0] == 'ref':
        return f"PRef ({coq_term(v[1])})"
    return f"PNest ({coq_pterm(v[1])})"


def coq_pterm(p):
    args = "ANil"
    for a in reversed(p['args']):
        if a[0] == 'pos':
            args = f"APos ({coq_pval(a[1])}) ({args})"
        else:
            args = f"AKw {a[1]} ({coq_pval(a[2])}) ({args})"
    d = "[" + "; ".join(coq_val({'o': i}) for i in p['d']) + "]"
    return f"PT {p['x']} {p['T']} {d} ({args})"


def walk_terms(p):
    yield p
    for a in p['args']:
        v = a[1] if a[0] == 'pos' else a[2]
        if v[0] == 'nest':
            yield from walk_terms(v[1])


class C13:
    pid = 'C13'
    targets = ['theories/Values.vo', 'theories/Syntax.vo', 'theories/Spec.vo', 'theories/Generated.vo', 'theories/Elab.vo',
               'theories/EvalPure.vo', 'theories/PredForm.vo']
    header = HEADER
    impl_script = 'impl_pred.py'
    rule = ("a class forest of 2-5 classes (decorated roots, decorated and UNDECORATED subclasses, 1-4 constructor fields with inherited "
            "fields first, in 30 % of the classes also 1-2 attributes that are NOT constructor parameters - dataclass fields with "
            "init=False - declared between them), 4-8 objects of mixed classes whose fields hold 0/1/2, None or other objects; 1-2 top-level predicate-form "
            "terms T(From(d), ...) over MIXED-TYPE domains (in an eighth of the cases ONE From object is the source of every term, of whatever type; some domains are a single value, of the type or not) with 0-2 positional arguments after the domain and any subset of the other "
            "fields by keyword; values are constants (falsy ones included), variables / attributes of variables declared earlier, or "
            "nested terms (depth <= 3); optional further ==/!= condition; in a fifth of the cases the instance registry is cleared before "
            "the query is built; each case is built in predicate form (caching off and on, evaluated twice) and in the explicit form "
            "let(T, d) + one equality per field; rows compared as sets with each other, with the P-model and with the brute-force "
            "specification (k-th positional = k-th field, isinstance filter incl. subclasses); non-trivial = some but not all "
            "combinations of the type-filtered domains qualify")
    explanation = ("C13_positional / C13_explicit_is_intended are proved over Generated.positional_field (extracted from predicate.py on "
                   "every run); C13_meaning gives the truth of the built conjunction; C13_rows_* instantiate the C02 evaluator theorems on "
                   "the type-filtered domains; C13_typefilter_* characterise the isinstance filter; tie = predicate-form rows against "
                   "the P-model run on what the implementation builds")

    def budget(self, tier):
        return {'quick': 300, 'thorough': 5000, 'search': 1}.get(tier, 300)

    # ------------------------------------------------------------------------------------------ generation
    def gen(self, rng, i, tier):
        ncls = rng.randint(2, 5)
        classes = []
        for c in range(ncls):
            parent = None if c == 0 or rng.random() < 0.25 else rng.randrange(c)
            own = rng.randint(1, 2) if parent is None else rng.randint(0, 2)
            cs = dict(parent=parent, own=own, decorated=(parent is None or rng.random() < 0.5))
            # attributes that are NOT constructor parameters (dataclass fields with init=False), declared before the own field
            # of that index: they are not part of the signature the positional arguments are matched against
            cs['hidden'] = sorted(rng.sample(range(own + 1), rng.randint(1, min(2, own + 1)))) if rng.random() < 0.3 else []
            # KEYWORD-ONLY constructor fields (dataclass kw_only=True): declared anywhere, they come after every positional parameter
            # in the signature - the k-th positional argument is the k-th parameter of the SIGNATURE, not the k-th declared field
            cs['kwonly'] = []
            if rng.random() < 0.15:
                cs['falsy'] = True        # instances with a user __bool__ returning False
            classes.append(cs)
            if sig_len(classes, c) > 4:
                cs['own'] = 0
        # (only in classes WITHOUT subclasses, so that a subclass lays its fields out as its superclass does, own fields appended:
        #  the first declared own field becomes keyword-only and so the LAST parameter of the signature)
        for c, cs in enumerate(classes):
            if cs['own'] >= 2 and not any(k['parent'] == c for k in classes) and rng.random() < 0.5:
                cs['kwonly'] = [0]
        nobj = rng.randint(4, 8)
        heap = []
        for o in range(nobj):
            c = rng.randrange(ncls)
            fields = []
            for _ in range(sig_len(classes, c)):
                r = rng.random()
                fields.append({'o': rng.randrange(nobj)} if r < 0.35 else None if r < 0.45 else rng.randint(0, 2))
            heap.append(dict(cls=c, fields=fields))
        self._key = 0
        tops = []

        def new_key():
            self._key += 1
            return self._key

        def gen_term(depth, want=None):
            """want: a heap object the term should be able to denote (so that nested terms often match)"""
            if want is not None and rng.random() < 0.85:
                T = heap[want]['cls']
            elif rng.random() < 0.6:
                T = heap[rng.randrange(nobj)]['cls']          # prefer classes that have instances
            else:
                T = rng.randrange(ncls)
            while classes[T]['parent'] is not None and rng.random() < 0.4:
                T = classes[T]['parent']
            x = new_key()
            d = rng.sample(range(nobj), rng.randint(1, min(6, nobj)))
            if want is not None and want not in d and rng.random() < 0.85:
                d.insert(rng.randrange(len(d) + 1), want)
            single = False
            if shared_d is not None:
                d = list(shared_d)               # ONE From object is the source of every term of the case
            elif rng.random() < (0.45 if classes[T].get('falsy') else 0.08):
                # the domain is a single VALUE (let(T, value) / T(From(value))), of the type or not (for a class with falsy
                # instances mostly an instance: a falsy object is still the domain)
                own = [i_ for i_ in range(nobj) if is_sub(classes, heap[i_]['cls'], T)]
                d, single = [want if want is not None and rng.random() < 0.6 else rng.choice(own) if own and classes[T].get('falsy')
                             else rng.randrange(nobj)], True
            inst = [i_ for i_ in d if is_sub(classes, heap[i_]['cls'], T)]
            target = want if (want in inst and rng.random() < 0.8) else (rng.choice(inst) if inst else None)
            n = sig_len(classes, T)
            npos = rng.choice([0, 0, 1, 1, 2]) if depth == 0 else rng.choice([0, 1])
            npos = min(npos, n - kwonly_len(classes, T))
            rest = [f for f in range(npos, n) if rng.random() < 0.4]

            def gen_val(f):
                tv = heap[target]['fields'][f] if target is not None and rng.random() < 0.8 else None
                r = rng.random()
                if r < 0.3 and depth < 2:
                    return ['nest', gen_term(depth + 1, tv['o'] if isinstance(tv, dict) else None)]
                if r < 0.45 and tops:
                    t = rng.choice(tops)
                    if rng.random() < 0.5 or sig_len(classes, t['T']) == 0:
                        return ['ref', ['var', t['x']]]
                    return ['ref', ['map', ['f', rng.randrange(sig_len(classes, t['T']))], ['var', t['x']]]]
                if target is not None and rng.random() < 0.85:
                    return ['const', heap[target]['fields'][f]]
                r = rng.random()
                return ['const', {'o': rng.randrange(nobj)} if r < 0.3 else None if r < 0.4 else rng.randint(0, 2)]
            args = [['pos', gen_val(f)] for f in range(npos)] + [['kw', f, gen_val(f)] for f in rest]
            return dict(x=x, T=T, d=d, args=args, **({'single': True} if single else {}))
        shared_d = rng.sample(range(nobj), rng.randint(2, min(6, nobj))) if rng.random() < 0.12 else None
        for _ in range(rng.choice([1, 1, 2, 2]) if shared_d is None else 2):
            tops.append(gen_term(0))
        extra = []
        if rng.random() < 0.3:
            t = rng.choice(tops)
            n = sig_len(classes, t['T'])
            if n:
                extra.append(['cmp', rng.choice(['==', '!=']), ['map', ['f', rng.randrange(n)], ['var', t['x']]],
                              ['lit', rng.randint(0, 2)]])
        sel = [t['x'] for t in tops]
        rng.shuffle(sel)
        case = dict(classes=classes, heap=heap, terms=tops, extra=extra, sel=sel,
                    quant_form=rng.choice(['entity', 'set_of']), clear_registry=rng.random() < 0.2)
        if shared_d is not None:
            case['shared_from'] = True
        elif rng.random() < 0.25:
            # the supplied domains are list OBJECTS that an earlier query was built over (and possibly evaluated) while they held other
            # members; they are edited in place before the query of the case is built: it ranges over what the lists hold NOW
            def mark(ps):
                for p in ps:
                    p['d0'] = rng.sample(range(nobj), rng.randint(1, min(6, nobj)))
                    for a in p['args']:
                        if a[-1][0] == 'nest':
                            mark([a[-1][1]])
            mark(tops)
            case['edited'] = rng.choice(['built', 'evaluated'])
        return case

    # ------------------------------------------------------------------------------------------ Coq side
    def to_coq(self, n, case):
        heap = "[" + "; ".join("[" + "; ".join(coq_val(v) for v in o['fields']) + "]" for o in case['heap']) + "]"
        cls = "[" + "; ".join(str(o['cls']) for o in case['heap']) + "]"
        ct = "[" + "; ".join("None" if c['parent'] is None else f"Some {c['parent']}" for c in case['classes']) + "]"
        terms = "[" + "; ".join(coq_pterm(p) for p in case['terms']) + "]"
        extra = "[" + "; ".join(coq_cond(c) for c in case['extra']) + "]"
        sel = "[" + "; ".join(str(k) for k in case['sel']) + "]"
        return (f"Eval vm_compute in (run_pcase {n} {{| pc_heap := {heap}; pc_cls := {cls}; pc_ct := {ct}; pc_terms := {terms}; "
                f"pc_extra := {extra}; pc_sel := {sel} |}}).")

    def split(self, s):
        m = re.match(r'M (.*?) S (.*)$', s)
        return m.group(1), m.group(2), True

    def rows(self, s):
        r = parse_rows(s) if isinstance(s, str) else 'X missing'
        return r if isinstance(r, str) else sorted(set(r))

    KEYS = ('pred_off', 'pred_off2', 'pred_on', 'pred_on2', 'explicit_off', 'explicit_off2')

    def canon(self, case, io):
        return self.rows(io.get('pred_off')), tuple(self.rows(io.get(k)) for k in self.KEYS)

    def tie_view(self, case, mo):
        return self.rows(mo)

    def prop_view(self, case, so):
        return tuple(self.rows(so) for _ in self.KEYS)

    def known(self, case, io, mo, so):
        return None

    def nontrivial(self, case, io):
        rows = self.rows(io.get('pred_off'))
        if isinstance(rows, str) or not rows:
            return False
        total = 1
        for t in case['terms']:
            total *= len([i for i in t['d'] if is_sub(case['classes'], case['heap'][i]['cls'], t['T'])])
        return len(rows) < total

    def stats(self, case, io):
        d = collections.Counter()
        d['classes_%d' % len(case['classes'])] += 1
        d['undecorated_subclasses'] += sum(1 for c in case['classes'] if not c['decorated'])
        d['classes_with_attributes_outside_the_signature'] += sum(1 for c in case['classes'] if c.get('hidden'))
        d['classes_with_keyword_only_fields'] += sum(1 for c in case['classes'] if c.get('kwonly'))
        for t in case['terms']:
            for p in walk_terms(t):
                d['terms'] += 1
                d['positional_args'] += sum(1 for a in p['args'] if a[0] == 'pos')
                d['keyword_args'] += sum(1 for a in p['args'] if a[0] == 'kw')
                for a in p['args']:
                    v = a[1] if a[0] == 'pos' else a[2]
                    d['value_' + v[0]] += 1
                    if v[0] == 'const' and not v[1] and not isinstance(v[1], dict):
                        d['falsy_constants'] += 1
                d['domain_members_filtered_out'] += sum(1 for i in p['d']
                                                        if not is_sub(case['classes'], case['heap'][i]['cls'], p['T']))
                d['domain_members_of_strict_subclass'] += sum(1 for i in p['d'] if case['heap'][i]['cls'] != p['T']
                                                              and is_sub(case['classes'], case['heap'][i]['cls'], p['T']))
        d['registry_cleared'] += 1 if case.get('clear_registry') else 0
        d['one_From_object_shared_by_all_terms'] += 1 if case.get('shared_from') else 0
        d['single_value_domains'] += sum(1 for t in case['terms'] for p in walk_terms(t) if p.get('single'))
        rows = self.rows(io.get('pred_off'))
        d['impl_exception' if isinstance(rows, str) else ('rows_0' if not rows else 'rows_some')] += 1
        return d

    def shrink(self, case):
        # drop a top-level term, drop an argument, drop a domain element, replace a nested value by a constant
        if len(case['terms']) > 1:
            for j in range(len(case['terms'])):
                d = copy.deepcopy(case)
                gone = d['terms'].pop(j)
                d['sel'] = [k for k in d['sel'] if k != gone['x']]
                if not uses_key(d, gone['x']):
                    yield d
        for path in term_paths(case):
            p = get_at(case, path)
            for j in range(len(p['args'])):
                d = copy.deepcopy(case)
                q = get_at(d, path)
                if q['args'][j][0] == 'pos' and any(a[0] == 'pos' for a in q['args'][j + 1:]):
                    continue
                q['args'].pop(j)
                yield d
            for j in range(len(p['d'])):
                if len(p['d']) > 1 and not case.get('shared_from'):
                    d = copy.deepcopy(case)
                    get_at(d, path)['d'].pop(j)
                    yield d
        if case.get('shared_from'):
            # one From object: every term has the same members
            d0 = case['terms'][0]['d']
            for j in range(len(d0)):
                if len(d0) > 1:
                    d = copy.deepcopy(case)
                    for path in term_paths(d):
                        get_at(d, path)['d'].pop(j)
                    yield d
            d = copy.deepcopy(case)
            d.pop('shared_from')
            yield d
        if case['extra']:
            d = copy.deepcopy(case)
            d['extra'] = []
            yield d
        if case.get('clear_registry'):
            d = copy.deepcopy(case)
            d['clear_registry'] = False
            yield d


def uses_key(case, k):
    return ('"var", %d]' % k) in __import__('json').dumps(case['terms']) + __import__('json').dumps(case['extra'])


def term_paths(case):
    def rec(p, path):
        yield path
        for j, a in enumerate(p['args']):
            v = a[1] if a[0] == 'pos' else a[2]
            if v[0] == 'nest':
                yield from rec(v[1], path + [j])
    for i, t in enumerate(case['terms']):
        yield from rec(t, [i])


def get_at(case, path):
    p = case['terms'][path[0]]
    for j in path[1:]:
        a = p['args'][j]
        p = (a[1] if a[0] == 'pos' else a[2])[1]
    return p
